/-
Composition plumbing for `Renderer.render/get_tail`: a session factors into three independent
sub-renderer runs (Objects, DirectSpeakers, HOA — each threads only its own state) and one run of the
`BlockAligner` over their per-call outputs.
-/
import Earverif.Model.RenderSpec
import Earverif.Proofs.C02Laws
namespace Earverif.Renderer
open Earverif.Stream Earverif.Timeline

variable {V : Type} [RMod V]

/-- One round of `Renderer.render` seen from the aligner: three `add`s (the first at offset `-D`), one `get`. -/
def alignRound (D : Nat) (a : Aligner V) (start : Int) (o1 o2 o3 : List V) :
    Except AlignErr (List V × Aligner V) :=
  match a.add (start - D) o1 with
  | .error e => .error e
  | .ok a1 =>
    match a1.add start o2 with
    | .error e => .error e
    | .ok a2 =>
      match a2.add start o3 with
      | .error e => .error e
      | .ok a3 => a3.get

/-- Successive rounds; `start` advances by the length `n` of the round's input block. -/
def alignRun (D : Nat) : Aligner V → Int → List (Nat × List V × List V × List V) →
    Except AlignErr (List (List V) × Aligner V)
  | a, _, [] => .ok ([], a)
  | a, start, (n, o1, o2, o3) :: rest =>
    match alignRound D a start o1 o2 o3 with
    | .error e => .error e
    | .ok (ret, a') =>
      match alignRun D a' (start + n) rest with
      | .error e => .error e
      | .ok (rets, a'') => .ok (ret :: rets, a'')

/-- A sub-renderer fed block by block (`start_sample` advances by the block length). -/
def subRun {σ : Type} (r : σ → Int → List (List Rat) → Except Err (σ × List V)) :
    σ → Int → List (List (List Rat)) → Except Err (σ × List (List V))
  | st, _, [] => .ok (st, [])
  | st, S0, b :: bs =>
    match r st S0 b with
    | .error e => .error e
    | .ok (st', o) =>
      match subRun r st' (S0 + b.length) bs with
      | .error e => .error e
      | .ok (st'', os) => .ok (st'', o :: os)

/-- The rounds the aligner sees. -/
def rounds : List (List (List Rat)) → List (List V) → List (List V) → List (List V) →
    List (Nat × List V × List V × List V)
  | b :: bs, o1 :: o1s, o2 :: o2s, o3 :: o3s => (b.length, o1, o2, o3) :: rounds bs o1s o2s o3s
  | _, _, _, _ => []

/-- **Factoring**: if the three sub-renderers, run on their own over the blocks, succeed, and the aligner
run over their outputs succeeds, then the session returns exactly the aligner's outputs. -/
theorem run_factor (c : Cfg V) : ∀ (parts : List (List (List Rat))) (st : RState V)
    (obj' : ObjState V) (ds' : List (Nat × DsBpc V)) (hoa' : List (List Nat × HoaBpc V))
    (o1s o2s o3s outs : List (List V)) (al' : Aligner V),
    subRun (fun s S0 b => ObjState.render c s S0 b) st.obj st.start_sample parts = .ok (obj', o1s) →
    subRun (dsRender c) st.ds st.start_sample parts = .ok (ds', o2s) →
    subRun (hoaRender c) st.hoa st.start_sample parts = .ok (hoa', o3s) →
    alignRun c.overall_delay st.aligner st.start_sample (rounds parts o1s o2s o3s) = .ok (outs, al') →
    RState.run c st parts =
      .ok (⟨al', obj', ds', hoa', st.start_sample + ((parts.map List.length).sum : Nat)⟩, outs) := by
  intro parts
  induction parts with
  | nil =>
    intro st obj' ds' hoa' o1s o2s o3s outs al' h1 h2 h3 h4
    simp only [subRun] at h1 h2 h3
    cases h1; cases h2; cases h3
    simp only [rounds, alignRun] at h4
    cases h4
    simp [RState.run, pure, Except.pure]
  | cons b bs ih =>
    intro st obj' ds' hoa' o1s o2s o3s outs al' h1 h2 h3 h4
    simp only [subRun] at h1 h2 h3
    cases hr1 : ObjState.render c st.obj st.start_sample b with
    | error e => rw [hr1] at h1; cases h1
    | ok r1 =>
      obtain ⟨obj1, o1⟩ := r1
      rw [hr1] at h1; simp only at h1
      cases hs1 : subRun (fun s S0 b => ObjState.render c s S0 b) obj1 (st.start_sample + b.length) bs with
      | error e => rw [hs1] at h1; cases h1
      | ok s1 =>
        obtain ⟨obj2, o1t⟩ := s1
        rw [hs1] at h1; cases h1
        cases hr2 : dsRender c st.ds st.start_sample b with
        | error e => rw [hr2] at h2; cases h2
        | ok r2 =>
          obtain ⟨ds1, o2⟩ := r2
          rw [hr2] at h2; simp only at h2
          cases hs2 : subRun (dsRender c) ds1 (st.start_sample + b.length) bs with
          | error e => rw [hs2] at h2; cases h2
          | ok s2 =>
            obtain ⟨ds2, o2t⟩ := s2
            rw [hs2] at h2; cases h2
            cases hr3 : hoaRender c st.hoa st.start_sample b with
            | error e => rw [hr3] at h3; cases h3
            | ok r3 =>
              obtain ⟨hoa1, o3⟩ := r3
              rw [hr3] at h3; simp only at h3
              cases hs3 : subRun (hoaRender c) hoa1 (st.start_sample + b.length) bs with
              | error e => rw [hs3] at h3; cases h3
              | ok s3 =>
                obtain ⟨hoa2, o3t⟩ := s3
                rw [hs3] at h3; cases h3
                simp only [rounds, alignRun] at h4
                cases ha : alignRound c.overall_delay st.aligner st.start_sample o1 o2 o3 with
                | error e => rw [ha] at h4; cases h4
                | ok ra =>
                  obtain ⟨ret, al1⟩ := ra
                  rw [ha] at h4; simp only at h4
                  cases har : alignRun c.overall_delay al1 (st.start_sample + b.length) (rounds bs o1t o2t o3t) with
                  | error e => rw [har] at h4; cases h4
                  | ok rr =>
                    obtain ⟨rets, al2⟩ := rr
                    rw [har] at h4; cases h4
                    -- one `render` call
                    have hrender : RState.render c st b =
                        .ok (⟨al1, obj1, ds1, hoa1, st.start_sample + b.length⟩, ret) := by
                      unfold alignRound at ha
                      simp only [RState.render, hr1, hr2, hr3, bind, Except.bind]
                      cases ha1 : st.aligner.add (st.start_sample - c.overall_delay) o1 with
                      | error e => rw [ha1] at ha; cases ha
                      | ok a1 =>
                        rw [ha1] at ha; simp only at ha
                        cases ha2 : a1.add st.start_sample o2 with
                        | error e => rw [ha2] at ha; cases ha
                        | ok a2 =>
                          rw [ha2] at ha; simp only at ha
                          cases ha3 : a2.add st.start_sample o3 with
                          | error e => rw [ha3] at ha; cases ha
                          | ok a3 =>
                            rw [ha3] at ha; simp only at ha
                            simp only [liftA, ha2, ha3, ha]
                            rfl
                    have := ih ⟨al1, obj1, ds1, hoa1, st.start_sample + b.length⟩ _ _ _ _ _ _ _ _
                      hs1 hs2 hs3 har
                    simp only [RState.run, hrender, bind, Except.bind, this, pure, Except.pure, List.map_cons,
                      List.sum_cons]
                    congr 3
                    simp only [Nat.cast_add]; omega

theorem run_append_single (c : Cfg V) (b : List (List Rat)) : ∀ (parts : List (List (List Rat))) (st : RState V),
    RState.run c st (parts ++ [b]) =
      match RState.run c st parts with
      | .error e => .error e
      | .ok (st', os) =>
        match st'.render c b with
        | .error e => .error e
        | .ok (st'', o) => .ok (st'', os ++ [o]) := by
  intro parts
  induction parts with
  | nil =>
    intro st
    simp only [List.nil_append, RState.run, bind, Except.bind, pure, Except.pure]
    cases st.render c b with
    | error e => rfl
    | ok r => rfl
  | cons p ps ih =>
    intro st
    simp only [List.cons_append, RState.run, bind, Except.bind, pure, Except.pure]
    cases st.render c p with
    | error e => rfl
    | ok r =>
      obtain ⟨st1, o⟩ := r
      simp only [ih st1]
      cases RState.run c st1 ps with
      | error e => rfl
      | ok r2 =>
        obtain ⟨st2, os⟩ := r2
        simp only
        cases st2.render c b with
        | error e => rfl
        | ok r3 => rfl

/-- The tail block `get_tail` feeds: `overall_delay` frames of zeros. -/
def tailBlock (c : Cfg V) : List (List Rat) := List.replicate c.overall_delay (List.replicate c.n_in 0)

/-- A session = `render` on every block and then on the tail block; concatenated. -/
theorem renderAll_eq_run (c : Cfg V) (objs : List (ObjItem V)) (dss : List (DsItem V)) (hoas : List (HoaItem V))
    (parts : List (List (List Rat))) :
    renderAll c objs dss hoas parts =
      match RState.run c (RState.init c objs dss hoas) (parts ++ [tailBlock c]) with
      | .error e => .error e
      | .ok (_, os) => .ok os.flatten := by
  rw [run_append_single]
  simp only [renderAll, bind, Except.bind, pure, Except.pure, RState.get_tail, tailBlock]
  cases RState.run c (RState.init c objs dss hoas) parts with
  | error e => rfl
  | ok r =>
    obtain ⟨st, os⟩ := r
    simp only
    cases st.render c (List.replicate c.overall_delay (List.replicate c.n_in 0)) with
    | error e => rfl
    | ok r2 => simp

end Earverif.Renderer
