/-
The correspondence driver (`Driver/C02.lean`) runs `renderTrace` / `renderTraceTS` (and the `…OS` variants of
`Model/OverlapSave.lean`), which keep the per-call outputs and the exception; the theorems are about `renderAll` /
`renderAllTS`.  Here the link: a session's result is exactly what its trace says.
-/
import Earverif.Model.Renderer
import Earverif.Model.RendererTS
import Earverif.Model.OverlapSave
namespace Earverif.Renderer
open Earverif.Stream Earverif.Timeline
set_option linter.unusedSectionVars false

variable {V : Type} [RMod V]

/-- What a trace `(returned blocks incl. tail, exception)` means for the session: all blocks concatenated if nothing
was raised, the exception otherwise. -/
def traceResult {ε : Type} (r : List (List V) × Option ε) : Except ε (List V) :=
  match r.2 with
  | none => .ok r.1.flatten
  | some e => .error e

theorem traceResult_ok_iff {ε : Type} (r : List (List V) × Option ε) (out : List V) :
    traceResult r = .ok out ↔ r.2 = none ∧ r.1.flatten = out := by
  obtain ⟨os, e⟩ := r
  cases e with
  | none => simp [traceResult]
  | some e => simp [traceResult]

/-! ### generic: any `render` function -/
section Generic
variable {σ ε : Type}

def runG (render : σ → List (List Rat) → Except ε (σ × List V)) :
    σ → List (List (List Rat)) → Except ε (σ × List (List V))
  | st, [] => .ok (st, [])
  | st, b :: bs =>
    match render st b with
    | .error e => .error e
    | .ok (st, o) =>
      match runG render st bs with
      | .error e => .error e
      | .ok (st, os) => .ok (st, o :: os)

def traceG (render : σ → List (List Rat) → Except ε (σ × List V)) (tail : List (List Rat)) :
    σ → List (List (List Rat)) → List (List V) × Option ε
  | st, [] =>
    match render st tail with
    | .ok (_, t) => ([t], none)
    | .error e => ([], some e)
  | st, b :: bs =>
    match render st b with
    | .ok (st, o) => ((o :: (traceG render tail st bs).1), (traceG render tail st bs).2)
    | .error e => ([], some e)

def sessionG (render : σ → List (List Rat) → Except ε (σ × List V)) (tail : List (List Rat)) (st : σ)
    (parts : List (List (List Rat))) : Except ε (List V) :=
  match runG render st parts with
  | .error e => .error e
  | .ok (st', os) =>
    match render st' tail with
    | .error e => .error e
    | .ok (_, t) => .ok (os.flatten ++ t)

theorem sessionG_eq_trace (render : σ → List (List Rat) → Except ε (σ × List V)) (tail : List (List Rat)) :
    ∀ (parts : List (List (List Rat))) (st : σ),
      sessionG render tail st parts = traceResult (traceG render tail st parts) := by
  intro parts
  induction parts with
  | nil =>
    intro st
    simp only [sessionG, runG, traceG, List.flatten_nil, List.nil_append]
    cases render st tail with
    | error e => rfl
    | ok r => simp [traceResult]
  | cons b bs ih =>
    intro st
    have h := ih
    simp only [sessionG, runG, traceG] at h ⊢
    cases render st b with
    | error e => rfl
    | ok r =>
      obtain ⟨st1, o⟩ := r
      have h1 := h st1
      simp only at h1 ⊢
      cases hr : runG render st1 bs with
      | error e =>
        rw [hr] at h1
        simp only at h1
        cases ht : traceG render tail st1 bs with
        | mk os oe =>
          rw [ht] at h1
          cases oe with
          | none => simp [traceResult] at h1
          | some e' => simp only [traceResult] at h1 ⊢; exact h1
      | ok r2 =>
        obtain ⟨st2, os⟩ := r2
        rw [hr] at h1
        simp only at h1 ⊢
        cases ht : traceG render tail st1 bs with
        | mk os' oe =>
          rw [ht] at h1
          cases hg : render st2 tail with
          | error e =>
            rw [hg] at h1
            cases oe with
            | none => simp [traceResult] at h1
            | some e' => simp only [traceResult] at h1 ⊢; exact h1
          | ok r3 =>
            rw [hg] at h1
            cases oe with
            | none =>
              simp only [traceResult, Except.ok.injEq] at h1 ⊢
              simp only [List.flatten_cons, ← h1, List.append_assoc]
            | some e' => simp [traceResult] at h1

end Generic

/-! ### `Model/Renderer.lean` -/

theorem run_eq_runG (c : Cfg V) : ∀ (parts : List (List (List Rat))) (st : RState V),
    RState.run c st parts = runG (RState.render c) st parts := by
  intro parts
  induction parts with
  | nil => intro st; rfl
  | cons b bs ih =>
    intro st
    simp only [RState.run, runG, bind, Except.bind, pure, Except.pure]
    cases st.render c b with
    | error e => rfl
    | ok r =>
      obtain ⟨st1, o⟩ := r
      simp only [ih st1]
      cases runG (RState.render c) st1 bs with
      | error e => rfl
      | ok r2 => rfl

theorem trace_eq_traceG (c : Cfg V) : ∀ (parts : List (List (List Rat))) (st : RState V),
    renderTrace c st parts =
      traceG (RState.render c) (List.replicate c.overall_delay (List.replicate c.n_in 0)) st parts := by
  intro parts
  induction parts with
  | nil => intro st; simp only [renderTrace, traceG, RState.get_tail]; cases st.render c _ <;> rfl
  | cons b bs ih =>
    intro st
    simp only [renderTrace, traceG]
    cases st.render c b with
    | error e => rfl
    | ok r => obtain ⟨st1, o⟩ := r; simp only [ih st1]

/-- **`renderAll_eq_trace`** — the session result is what the driver's trace says: the concatenation of all returned
blocks (tail included) if no call raised, otherwise the exception of the first call that raised. -/
theorem renderAll_eq_trace (c : Cfg V) (objs : List (ObjItem V)) (dss : List (DsItem V)) (hoas : List (HoaItem V))
    (parts : List (List (List Rat))) :
    renderAll c objs dss hoas parts = traceResult (renderTrace c (RState.init c objs dss hoas) parts) := by
  rw [trace_eq_traceG, ← sessionG_eq_trace]
  simp only [renderAll, sessionG, bind, Except.bind, pure, Except.pure, run_eq_runG, RState.get_tail]
  cases runG (RState.render c) (RState.init c objs dss hoas) parts with
  | error e => rfl
  | ok r =>
    obtain ⟨st, os⟩ := r
    simp only
    cases st.render c _ <;> rfl

/-- **`renderTrace_eq`** — `renderAll … = .ok out` iff the trace the correspondence driver prints (`renderTrace`) has
no exception and its blocks concatenate to `out`. -/
theorem renderTrace_eq (c : Cfg V) (objs : List (ObjItem V)) (dss : List (DsItem V)) (hoas : List (HoaItem V))
    (parts : List (List (List Rat))) (out : List V) :
    renderAll c objs dss hoas parts = .ok out ↔
      (renderTrace c (RState.init c objs dss hoas) parts).2 = none ∧
        (renderTrace c (RState.init c objs dss hoas) parts).1.flatten = out := by
  rw [renderAll_eq_trace, traceResult_ok_iff]

/-! ### `Model/OverlapSave.lean`: the renderer with the overlap-save convolver -/

theorem runOS_eq_runG (c : Cfg V) : ∀ (parts : List (List (List Rat))) (st : RStateOS V),
    RStateOS.run c st parts = runG (RStateOS.render c) st parts := by
  intro parts
  induction parts with
  | nil => intro st; rfl
  | cons b bs ih =>
    intro st
    simp only [RStateOS.run, runG]
    cases st.render c b with
    | error e => rfl
    | ok r =>
      obtain ⟨st1, o⟩ := r
      simp only [ih st1]
      cases runG (RStateOS.render c) st1 bs <;> rfl

theorem traceOS_eq_traceG (c : Cfg V) : ∀ (parts : List (List (List Rat))) (st : RStateOS V),
    renderTraceOS c st parts =
      traceG (RStateOS.render c) (List.replicate c.overall_delay (List.replicate c.n_in 0)) st parts := by
  intro parts
  induction parts with
  | nil => intro st; simp only [renderTraceOS, traceG, RStateOS.get_tail]; cases st.render c _ <;> rfl
  | cons b bs ih =>
    intro st
    simp only [renderTraceOS, traceG]
    cases st.render c b with
    | error e => rfl
    | ok r => obtain ⟨st1, o⟩ := r; simp only [ih st1]

theorem renderAllOS_eq_trace (c : Cfg V) (objs : List (ObjItem V)) (dss : List (DsItem V)) (hoas : List (HoaItem V))
    (parts : List (List (List Rat))) :
    renderAllOS c objs dss hoas parts = traceResult (renderTraceOS c (RStateOS.init c objs dss hoas) parts) := by
  rw [traceOS_eq_traceG, ← sessionG_eq_trace]
  simp only [renderAllOS, sessionG, runOS_eq_runG, RStateOS.get_tail]
  cases runG (RStateOS.render c) (RStateOS.init c objs dss hoas) parts with
  | error e => rfl
  | ok r =>
    obtain ⟨st, os⟩ := r
    simp only
    cases st.render c _ <;> rfl

/-- **`renderTraceOS_eq`** — the same link for the model with the overlap-save convolver (driver op `runos`). -/
theorem renderTraceOS_eq (c : Cfg V) (objs : List (ObjItem V)) (dss : List (DsItem V)) (hoas : List (HoaItem V))
    (parts : List (List (List Rat))) (out : List V) :
    renderAllOS c objs dss hoas parts = .ok out ↔
      (renderTraceOS c (RStateOS.init c objs dss hoas) parts).2 = none ∧
        (renderTraceOS c (RStateOS.init c objs dss hoas) parts).1.flatten = out := by
  rw [renderAllOS_eq_trace, traceResult_ok_iff]

end Earverif.Renderer

/-! ### with track processors -/
namespace Earverif.RendererTS
open Earverif.Stream Earverif.Timeline Earverif.Renderer
set_option linter.unusedSectionVars false

variable {V : Type} [RMod V]

theorem runTS_eq_runG (c : Cfg V) : ∀ (parts : List (List (List Rat))) (st : RStateTS V),
    RStateTS.run c st parts = runG (RStateTS.render c) st parts := by
  intro parts
  induction parts with
  | nil => intro st; rfl
  | cons b bs ih =>
    intro st
    simp only [RStateTS.run, runG]
    cases st.render c b with
    | error e => rfl
    | ok r =>
      obtain ⟨st1, o⟩ := r
      simp only [ih st1]
      cases runG (RStateTS.render c) st1 bs <;> rfl

theorem traceTS_eq_traceG (c : Cfg V) : ∀ (parts : List (List (List Rat))) (st : RStateTS V),
    renderTraceTS c st parts = traceG (RStateTS.render c) (tailFrames c) st parts := by
  intro parts
  induction parts with
  | nil => intro st; simp only [renderTraceTS, traceG, RStateTS.get_tail]; cases st.render c _ <;> rfl
  | cons b bs ih =>
    intro st
    simp only [renderTraceTS, traceG]
    cases st.render c b with
    | error e => rfl
    | ok r => obtain ⟨st1, o⟩ := r; simp only [ih st1]

/-- **`renderAllTS_eq_trace`** — with track processors: `set_rendering_items` (a `TrackProcessor(...)` exception
escapes as `.track e`), then what the trace from the constructed state says. -/
theorem renderAllTS_eq_trace (c : Cfg V) (objs : List (ObjItemTS V)) (dss : List (DsItemTS V))
    (hoas : List (HoaItemTS V)) (parts : List (List (List Rat))) :
    renderAllTS c objs dss hoas parts =
      match RStateTS.init c objs dss hoas with
      | .error e => .error (.track e)
      | .ok st0 => traceResult (renderTraceTS c st0 parts) := by
  simp only [renderAllTS]
  cases RStateTS.init c objs dss hoas with
  | error e => rfl
  | ok st0 =>
    simp only
    rw [traceTS_eq_traceG, ← sessionG_eq_trace]
    simp only [sessionG, runTS_eq_runG, RStateTS.get_tail]
    cases runG (RStateTS.render c) st0 parts with
    | error e => rfl
    | ok r =>
      obtain ⟨st, os⟩ := r
      simp only
      cases st.render c _ <;> rfl

/-- **`renderTraceTS_eq`** — `renderAllTS … = .ok out` iff `set_rendering_items` succeeds and the trace the driver
prints (`renderTraceTS` from the constructed state, op `runts`) has no exception and concatenates to `out`. -/
theorem renderTraceTS_eq (c : Cfg V) (objs : List (ObjItemTS V)) (dss : List (DsItemTS V))
    (hoas : List (HoaItemTS V)) (parts : List (List (List Rat))) (out : List V) :
    renderAllTS c objs dss hoas parts = .ok out ↔
      ∃ st0, RStateTS.init c objs dss hoas = .ok st0 ∧ (renderTraceTS c st0 parts).2 = none ∧
        (renderTraceTS c st0 parts).1.flatten = out := by
  rw [renderAllTS_eq_trace]
  cases RStateTS.init c objs dss hoas with
  | error e => simp
  | ok st0 => simp only [traceResult_ok_iff, Except.ok.injEq, exists_eq_left']

theorem runTSOS_eq_runG (c : Cfg V) : ∀ (parts : List (List (List Rat))) (st : RStateTSOS V),
    RStateTSOS.run c st parts = runG (RStateTSOS.render c) st parts := by
  intro parts
  induction parts with
  | nil => intro st; rfl
  | cons b bs ih =>
    intro st
    simp only [RStateTSOS.run, runG]
    cases st.render c b with
    | error e => rfl
    | ok r =>
      obtain ⟨st1, o⟩ := r
      simp only [ih st1]
      cases runG (RStateTSOS.render c) st1 bs <;> rfl

theorem traceTSOS_eq_traceG (c : Cfg V) : ∀ (parts : List (List (List Rat))) (st : RStateTSOS V),
    renderTraceTSOS c st parts = traceG (RStateTSOS.render c) (tailFrames c) st parts := by
  intro parts
  induction parts with
  | nil => intro st; simp only [renderTraceTSOS, traceG, RStateTSOS.get_tail]; cases st.render c _ <;> rfl
  | cons b bs ih =>
    intro st
    simp only [renderTraceTSOS, traceG]
    cases st.render c b with
    | error e => rfl
    | ok r => obtain ⟨st1, o⟩ := r; simp only [ih st1]

theorem renderAllTSOS_eq_trace (c : Cfg V) (objs : List (ObjItemTS V)) (dss : List (DsItemTS V))
    (hoas : List (HoaItemTS V)) (parts : List (List (List Rat))) :
    renderAllTSOS c objs dss hoas parts =
      match RStateTSOS.init c objs dss hoas with
      | .error e => .error (.base (.track e))
      | .ok st0 => traceResult (renderTraceTSOS c st0 parts) := by
  simp only [renderAllTSOS]
  cases RStateTSOS.init c objs dss hoas with
  | error e => rfl
  | ok st0 =>
    simp only
    rw [traceTSOS_eq_traceG, ← sessionG_eq_trace]
    simp only [sessionG, runTSOS_eq_runG, RStateTSOS.get_tail]
    cases runG (RStateTSOS.render c) st0 parts with
    | error e => rfl
    | ok r =>
      obtain ⟨st, os⟩ := r
      simp only
      cases st.render c _ <;> rfl

/-- **`renderTraceTSOS_eq`** — the same link for track processors + overlap-save convolver (driver op `runtsos`). -/
theorem renderTraceTSOS_eq (c : Cfg V) (objs : List (ObjItemTS V)) (dss : List (DsItemTS V))
    (hoas : List (HoaItemTS V)) (parts : List (List (List Rat))) (out : List V) :
    renderAllTSOS c objs dss hoas parts = .ok out ↔
      ∃ st0, RStateTSOS.init c objs dss hoas = .ok st0 ∧ (renderTraceTSOS c st0 parts).2 = none ∧
        (renderTraceTSOS c st0 parts).1.flatten = out := by
  rw [renderAllTSOS_eq_trace]
  cases RStateTSOS.init c objs dss hoas with
  | error e => simp
  | ok st0 => simp only [traceResult_ok_iff, Except.ok.injEq, exists_eq_left']

end Earverif.RendererTS
