"""C12 — loudspeaker gains vary continuously with source direction.

Lean side: Props/C12.lean (piecewise continuity of the region handlers and wrappers over the reals, uniqueness of
the gains on a shared edge, agreement of adjacent triplets on their shared edge); the model, driver and the
correspondence with the real code are those of C05 (harness/c05.py).  Search here: pairs of neighbouring
directions on great circles / meridians through every region edge, vertex and pole, bisected down to 1e-9 rad.
Table-level: `extract` regenerates Gen/C12_Faces.lean (for every pair of triplet cells of the ten nominal configured panners:
shared positions + a strictly separating plane through them, exact arithmetic), which the kernel re-decides
(Faces.facesCertOk, `faces_tables_ok`) and Proofs/C12Faces.lean turns into `MeetInSharedFace` / the sliver-bound constants.
"""
import json
import math
import os
import random
from fractions import Fraction

import numpy as np

from . import c05, c05_cover, common
from .common import Spec, write_if_changed

FINAL_ANGLE = 1e-9
JUMP_ABS = 1e-6
L_SAFETY = 4.0
L_MIN_ANGLE = 1e-4  # the Lipschitz estimate uses refinement levels at least this coarse


def tangent_basis(q):
    """Two unit vectors spanning the tangent plane at q."""
    h = np.array([0.0, 0.0, 1.0]) if abs(q[2]) < 0.9 else np.array([1.0, 0.0, 0.0])
    e1 = c05.unit(np.cross(h, q))
    e2 = np.cross(q, e1)
    return e1, e2


class Path:
    """Great circle p(t) = q cos t + d sin t (q, d orthonormal), t in radians."""

    def __init__(self, q, d):
        self.q = c05.unit(q)
        d = np.asarray(d, dtype=float)
        d = d - np.dot(d, self.q) * self.q
        self.d = c05.unit(d)

    def at(self, t):
        return c05.unit(self.q * math.cos(t) + self.d * math.sin(t))


def gains(pan, p):
    try:
        g = pan.handle(p)
    except Exception:  # an exception escaping is "no result" too
        return None
    if g is None:
        return None
    g = np.asarray(g, dtype=float)
    return g if np.all(np.isfinite(g)) else None


def refine(pan, path, t_lo, t_hi, g_lo, g_hi, stats):
    """Bisect [t_lo, t_hi] towards the largest change until the angle is <= FINAL_ANGLE.
    Returns (angle, delta, L, t_lo, t_hi, calls) or ('none', t) if the panner gave no result."""
    calls = 0
    L = 0.0
    while True:
        ang = t_hi - t_lo
        delta = float(np.max(np.abs(g_hi - g_lo)))
        if ang >= L_MIN_ANGLE:
            L = max(L, delta / ang)
        if ang <= FINAL_ANGLE:
            return ang, delta, L, t_lo, t_hi, calls
        t_mid = 0.5 * (t_lo + t_hi)
        g_mid = gains(pan, path.at(t_mid))
        calls += 1
        if g_mid is None:
            return ("none", t_mid, calls)
        d1 = float(np.max(np.abs(g_mid - g_lo)))
        d2 = float(np.max(np.abs(g_hi - g_mid)))
        if d1 >= d2:
            t_hi, g_hi = t_mid, g_mid
        else:
            t_lo, g_lo = t_mid, g_mid


def scan(pan, path, ts, top, hits, counts, cls, kind, L0=0.0):
    """Evaluate the path at the sorted parameters ts, refine the `top` adjacent pairs with the largest change."""
    calls = 0
    gs = []
    for t in ts:
        g = gains(pan, path.at(t))
        calls += 1
        if g is None:
            _hit(hits, pan, path, t, t, cls, kind, "no result (None / non-finite) on a path of directions", {})
            return calls
        gs.append(g)
    pairs = []
    L = L0
    for i in range(len(ts) - 1):
        ang = ts[i + 1] - ts[i]
        delta = float(np.max(np.abs(gs[i + 1] - gs[i])))
        if ang >= L_MIN_ANGLE:
            L = max(L, delta / ang)
        pairs.append((delta, i))
    pairs.sort(reverse=True)
    for delta, i in pairs[:top]:
        r = refine(pan, path, ts[i], ts[i + 1], gs[i], gs[i + 1], None)
        if r[0] == "none":
            calls += r[2]
            _hit(hits, pan, path, r[1], r[1], cls, kind, "no result (None / non-finite) on a path of directions", {})
            continue
        ang, dl, Lr, t_lo, t_hi, c = r
        calls += c
        Lest = max(L, Lr)
        key = "%s|%s|%s" % (pan.group, kind, cls)
        counts[key] = counts.get(key, 0) + 1
        counts["max-final-delta"] = max(counts.get("max-final-delta", 0.0), dl)
        counts["max-L"] = max(counts.get("max-L", 0.0), Lest)
        if dl > JUMP_ABS + L_SAFETY * Lest * ang:
            pa, pb = path.at(t_lo), path.at(t_hi)
            ga, gb = gains(pan, pa), gains(pan, pb)
            ra, rb = first_region(pan, pa), first_region(pan, pb)
            mech = "jump-inside-one-%s" % ra[1] if ra == rb and ra[0] is not None else "jump-between-regions"
            tags = [mech]
            # the two recorded BS.2127 quad findings are about REAL roots of the pan quadratics; a quad that answers with a pan
            # value that is not a real root of its own quadratic (harness's own solve) is something else and is not classified
            bad = quad_pan_value_check(pan, [(ra, pa), (rb, pb)])
            two = two_roots_explanation(pan, [ra, rb], pa, pb, ga, gb, JUMP_ABS + L_SAFETY * Lest * ang)
            mis = quad_misalignment(pan, [(ra, pa), (rb, pb)])
            if bad is not None:
                tags.append("quad-pan-value-not-a-real-root")
            else:
                if two is not None:
                    tags.append("quad-two-in-range-roots")
                if mis is not None:
                    tags.append("quad-inconsistent-root-pair")
            _hit(hits, pan, path, t_lo, t_hi, cls, kind, "gain jump between neighbouring directions",
                 {"angle_rad": ang, "max_gain_change": dl, "lipschitz_estimate": Lest, "accepting_region_a": ra, "accepting_region_b": rb,
                  "gains_a": ga.tolist(), "gains_b": gb.tolist(), "two_in_range_roots": two, "quad_velocity_misaligned": mis,
                  "quad_pan_value_not_a_real_root": bad}, tags)
    return calls


ROOT_WINDOW = 1e-6


def quad_axis_roots(sp, p):
    """ALL real roots within [-1e-6, 1+1e-6] of the pan_axis quadratic for ordered corners sp = (a, b, c, d) at
    direction p (the harness's own solve; the code under test only ever uses the first root np.roots returns)."""
    a, b, c, d = [np.asarray(v, dtype=float) for v in sp]
    A = float(np.dot(np.cross(b - a, c - d), p))
    B = float(np.dot(np.cross(a, c - d) + np.cross(b - a, d), p))
    C = float(np.dot(np.cross(a, d), p))
    scale = abs(A) + abs(B) + abs(C)
    if scale == 0.0:
        return []
    if abs(A) <= 1e-13 * scale:
        roots = [-C / B] if abs(B) > 1e-13 * scale else []
    else:
        disc = B * B - 4 * A * C
        if disc < -1e-12 * scale * scale:
            roots = []
        else:
            sq = math.sqrt(max(disc, 0.0))
            qq = -0.5 * (B + math.copysign(sq, B)) if B != 0 else 0.5 * sq
            roots = [qq / A] + ([C / qq] if qq != 0 else [-qq / A])
    return sorted(r for r in roots if -ROOT_WINDOW <= r <= 1 + ROOT_WINDOW)


def two_roots_explanation(pan, accepting, pa, pb, ga, gb, tol):
    """Independent classifier for the recorded BS.2127 quad behaviour: does the jump between pa and pb disappear under
    a different choice of in-range roots of a QuadRegion that accepts pa or pb?  Returns a description or None.
    (i) for one of the two directions some axis of the quad has two roots in [-1e-6, 1+1e-6];
    (ii) some combination of that direction's roots gives bilinear gains (normalised, downmixed and renormalised as the
         code does) equal to the OTHER direction's actual gains within tol."""
    if pan.stereo:
        return None
    D = np.asarray(pan.dm.downmix, dtype=float)
    seen = set()
    for (k, kind, _) in accepting:
        if kind != "QuadRegion" or k in seen:
            continue
        seen.add(k)
        Q = pan.regions[k]
        pos = np.asarray(Q.positions, dtype=float)
        order = [int(o) for o in Q.order]
        sp = pos[order]
        for p_this, g_other, which in ((pa, gb, "a"), (pb, ga, "b")):
            rx = quad_axis_roots(sp, p_this)
            ry = quad_axis_roots(sp[[1, 2, 3, 0]], p_this)
            if len(rx) < 2 and len(ry) < 2:
                continue
            for x in rx:
                for y in ry:
                    xc, yc = min(max(x, 0.0), 1.0), min(max(y, 0.0), 1.0)
                    pvs = np.zeros(4)
                    pvs[order] = [(1 - xc) * (1 - yc), xc * (1 - yc), xc * yc, (1 - xc) * yc]
                    inner = np.zeros(D.shape[1])
                    inner[np.asarray(Q.output_channels, dtype=int)] = pvs
                    out = D.dot(inner)
                    nrm = np.linalg.norm(out)
                    if nrm == 0:
                        continue
                    out = out / nrm
                    if np.max(np.abs(out - g_other)) <= tol:
                        return {"quad_region": k, "direction": which, "roots_x": rx, "roots_y": ry, "matching_choice": [x, y]}
    return None


def quad_misalignment(pan, accepted):
    """Diagnosis of a second quad mechanism (NOT a recorded finding): the accepting QuadRegion returns gains whose velocity
    vector gains.positions is not parallel to the direction (the x and y roots belong to different intersections of the ray
    with the bilinear surface; the acceptance test only looks at the sign of the projection)."""
    for (k, kind, _), p in accepted:
        if kind != "QuadRegion":
            continue
        Q = pan.regions[k]
        try:
            pv = Q.handle(np.array(p, dtype=float))
        except Exception:
            pv = None
        if pv is None:
            continue
        v = np.asarray(pv).dot(np.asarray(Q.positions, dtype=float))
        m = float(np.linalg.norm(np.cross(c05.unit(v), c05.unit(p))))
        if m > 1e-6:
            return {"quad_region": k, "sin_angle_between_velocity_and_direction": m}
    return None


def quad_pan_value_check(pan, accepted):
    """Does an accepting QuadRegion use a pan value (its own pan_x / pan_y at that direction) that is NOT a real root in
    [0, 1] (within 1e-6, after clipping) of the corresponding pan quadratic, solved independently here?  Returns a description
    or None.  (The code under test must only ever use real roots; a value taken from a complex root pair is not one.)"""
    for (k, kind, _), p in accepted:
        if kind != "QuadRegion":
            continue
        Q = pan.regions[k]
        pos = np.asarray(Q.positions, dtype=float)
        sp = pos[[int(o) for o in Q.order]]
        p = np.array(p, dtype=float)
        x, y = c05.quad_roots(Q, p)
        for axis, val, verts in (("x", x, sp), ("y", y, sp[[1, 2, 3, 0]])):
            if val is None:
                continue
            roots = quad_axis_roots(verts, p)
            if not any(abs(min(max(r, 0.0), 1.0) - val) <= 1e-6 for r in roots):
                return {"quad_region": k, "axis": axis, "pan_value_used_by_the_code": val, "real_roots_in_range": roots,
                        "direction": p.tolist()}
    return None


def first_region(pan, p):
    """(index, kind, output channels) of the first region of the real inner panner that accepts p (diagnosis only)."""
    for k, r in enumerate(pan.regions):
        try:
            if r.handle(np.array(p, dtype=float)) is not None:
                return (k, c05.region_kind(r), [int(c) for c in r.output_channels])
        except Exception:
            pass
    return (None, "-", [])


def _hit(hits, pan, path, t_lo, t_hi, cls, kind, what, detail, tags=()):
    hits.append({
        "what": what,
        "input": dict(pan.spec(), direction_a=[repr(float(x)) for x in path.at(t_lo)],
                      direction_b=[repr(float(x)) for x in path.at(t_hi)], boundary_class=cls, region_kind=kind),
        "detail": detail,
        "tags": list(tags),
    })


def local_ts(h0=1e-2, n=8):
    return [(-h0 + 2 * h0 * i / n) for i in range(n + 1)]


def path_stream(pan, rng, n_local, n_circles):
    """Yield (class, kind, Path, ts, top).  n_local = -1: only short paths through every loudspeaker position."""
    z = np.array([0.0, 0.0, 1.0])
    if n_local < 0:
        for p in pan.positions:
            q = c05.unit(p)
            e1, e2 = tangent_basis(q)
            dirs = [z] if abs(q[2]) < 0.999 else []
            for _ in range(2):
                phi = rng.uniform(0, 2 * math.pi)
                dirs.append(math.cos(phi) * e1 + math.sin(phi) * e2)
            for i, d in enumerate(dirs):
                yield ("loudspeaker-meridian" if (i == 0 and len(dirs) == 3) else "loudspeaker", "-", Path(q, d), local_ts(1e-2 if i % 2 == 0 else 1e-4), 2)
        return
    # full great circles: horizontal plane, meridians, circles through loudspeakers, random
    N = 1024 if n_circles > 40 else 256  # n_circles > 40: dense scan (layouts with recorded findings)
    full = [2 * math.pi * i / N - math.pi for i in range(N + 1)]
    circles = [("circle-horizontal", c05.cart(0, 0), c05.cart(90, 0))]
    for az in (0.0, 30.0, 90.0, 110.0, 135.0, 45.0, rng.uniform(-180, 180)):
        circles.append(("circle-meridian", c05.cart(az, 0), z))
    for p in pan.positions:
        if abs(p[2]) < 0.999:
            circles.append(("circle-meridian-through-loudspeaker", p, z))
    while len(circles) < n_circles:
        q = c05.unit([rng.gauss(0, 1) for _ in range(3)])
        circles.append(("circle-random", q, [rng.gauss(0, 1) for _ in range(3)]))
    rest = circles[1:]
    rng.shuffle(rest)
    circles = circles[:1] + rest  # the horizontal plane is always scanned
    for cls, q, d in circles[:n_circles]:
        yield (cls, "-", Path(q, d), full, 6 if N > 256 else 3)
    # local crossings
    feats = []
    for (k, kind, a, b) in c05.edge_list(pan):
        n = c05.unit(np.cross(a, b))
        for t in (0.0, 1e-6, 1e-3, 0.1, 0.5, 0.9, 1 - 1e-3, 1 - 1e-6, 1.0):
            q = c05.unit((1 - t) * a + t * b)
            feats.append(("edge-across", kind, q, n))
            feats.append(("edge-oblique", kind, q, None))
            if abs(q[2]) < 0.999:
                feats.append(("edge-meridian", kind, q, z))
    for k, r in enumerate(pan.regions):
        for v in c05.region_vertices(r):
            for _ in range(3):
                feats.append(("vertex", c05.region_kind(r), c05.unit(v), None))
            if abs(c05.unit(v)[2]) < 0.999:
                feats.append(("vertex-meridian", c05.region_kind(r), c05.unit(v), z))
    for s in (1.0, -1.0):
        for _ in range(max(2, n_local // 15)):
            feats.append(("pole", "-", s * z, None))
    rng.shuffle(feats)
    # poles and vertices always, the rest subsampled
    feats.sort(key=lambda f: 0 if f[0] in ("pole",) else 1)
    for cls, kind, q, d in feats[:n_local]:
        if d is None:
            e1, e2 = tangent_basis(q)
            phi = rng.uniform(0, 2 * math.pi)
            d = math.cos(phi) * e1 + math.sin(phi) * e2
        h0 = rng.choice([1e-2, 1e-3, 1e-5])
        shift = rng.choice([0.0, 0.0, rng.uniform(-0.5, 0.5) * h0])
        yield (cls, kind, Path(q, d), [t + shift for t in local_ts(h0)], 2)


def guided_paths(pan, q, rng, hits, counts, cls, kind, extra_tag):
    """Bisection search on short great circles THROUGH the direction q (a direction singled out by a model/code disagreement
    or by the discriminant predicate): three tangent directions, half-lengths 0.3, 0.03 and 1e-3 rad."""
    calls = 0
    q = c05.unit(q)
    e1, e2 = tangent_basis(q)
    phi0 = rng.uniform(0, math.pi)
    for i in range(3):
        phi = phi0 + i * math.pi / 3
        d = math.cos(phi) * e1 + math.sin(phi) * e2
        for h0 in (0.3, 0.03, 1e-3):
            n0 = len(hits)
            calls += scan(pan, Path(q, d), local_ts(h0, 32), 3, hits, counts, cls, kind)
            for h in hits[n0:]:
                h["tags"].append(extra_tag)
                h["detail"]["guided_through_direction"] = [float(x) for x in q]
            if len(hits) > n0:
                return calls
    return calls


def quad_no_real_root_mask(r, P):
    """Rows of P (directions) at which one of the two pan quadratics of the QuadRegion r has NO real root: discriminant
    clearly negative (harness's own coefficients, same formula as quad_axis_roots).  This is the set the `imaginary part
    < 1e-10` test of pan_axis protects: there the quad must reject."""
    pos = np.asarray(r.positions, dtype=float)
    sp = pos[[int(o) for o in r.order]]
    mask = np.zeros(len(P), dtype=bool)
    for s in (sp, sp[[1, 2, 3, 0]]):
        a, b, c, d = s
        poly = np.array([np.cross(b - a, c - d), np.cross(a, c - d) + np.cross(b - a, d), np.cross(a, d)])
        co = P.dot(poly.T)
        A, B, C = co[:, 0], co[:, 1], co[:, 2]
        scale = np.abs(A) + np.abs(B) + np.abs(C)
        mask |= (B * B - 4 * A * C) < -1e-12 * scale * scale
    return mask


def disc_guided(pan, rng, hits, counts, n, max_paths=6):
    """Per QuadRegion: n uniform directions, keep those where a pan quadratic has no real root (so the number kept is
    proportional to the area of that set), ask the REAL quad for an answer there; every answer is suspicious (not a hit by
    itself): the bisection search is then run on short paths through such directions, first those for which the quad is the
    first accepting region of the panner."""
    calls = 0
    rs = np.random.RandomState(rng.randrange(1 << 32))
    P = rs.normal(size=(n, 3))
    P /= np.linalg.norm(P, axis=1)[:, None]
    suspicious = []
    for k, r in enumerate(pan.regions):
        if c05.region_kind(r) != "QuadRegion":
            continue
        idx = np.nonzero(quad_no_real_root_mask(r, P))[0]
        key = "no-real-root|%s|directions at which a quad's pan quadratic has no real root" % pan.group
        counts[key] = counts.get(key, 0) + len(idx)
        for i in idx:
            calls += 1
            if c05._call(r.handle, P[i]) is not None:
                suspicious.append((k, P[i]))
    key = "no-real-root|%s|... answered by that quad (suspicious; searched for a gain jump)" % pan.group
    counts[key] = counts.get(key, 0) + len(suspicious)
    firsts = [s for s in suspicious[:200] if first_region(pan, s[1])[0] == s[0]]
    rest = [s for s in suspicious if not any(s is f for f in firsts)]
    for k, d in (firsts + rest)[:max_paths]:
        calls += guided_paths(pan, d, rng, hits, counts, "quad-no-real-root", "QuadRegion", "guided:quad-answers-without-real-root")
        if len(hits) > 20:
            break
    return calls


def _guided_task(args):
    """Paths through directions on which the model and the real code disagreed (correspondence), on one layout."""
    lid, name, real, seed, directions, tag = args
    rng = random.Random(seed)
    hits, counts = [], {}
    try:
        pan = c05.Pan(lid, name, real, nominal=real is None)
    except Exception:
        return lid, 0, counts, hits, []
    calls = 0
    for region, d in directions:
        kind = c05.region_kind(pan.regions[region]) if region is not None and region < len(pan.regions) else "-"
        calls += guided_paths(pan, np.array(d, dtype=float), rng, hits, counts, "model-code-disagreement", kind,
                              "guided:correspondence-disagreement")
        if len(hits) > 20:
            break
    if tag:
        for h in hits:
            if tag not in h["tags"]:
                h["tags"].append(tag)
    return lid, calls, counts, hits[:6], []


def _task(args):
    lid, name, real, seed, n_local, n_circles = args[:6]
    tag = args[6] if len(args) > 6 else None
    n_disc = args[7] if len(args) > 7 else 0
    rng = random.Random(seed)
    hits, counts = [], {}
    try:
        pan = c05.Pan(lid, name, real, nominal=real is None)
    except Exception as e:
        hits.append({"what": "configure(layout) raised for an admissible layout", "input": {"layout": name, "id": lid, "real_positions": real},
                     "detail": {"exception": repr(e)}, "tags": []})
        return lid, 0, counts, hits, []
    calls = 0
    samples = []
    hits.extend(c05.structural_hits(pan, counts, tag))
    rep = cone_report(pan) if real is None else None  # table-level check on the ten nominal layouts
    for cls, kind, path, ts, top in (path_stream(pan, rng, n_local, n_circles) if n_local else []):  # 0 = structure only
        calls += scan(pan, path, ts, top, hits, counts, cls, kind)
        if len(samples) < 2 and cls.startswith("edge"):
            samples.append({"layout": lid, "class": cls, "region": kind, "through": path.q.tolist(), "tangent": path.d.tolist()})
        if len(hits) > 20:
            break
    if rep is not None:
        counts.update(rep["counts"])
        calls += cone_directed(pan, rep, hits, counts)
    if n_disc and tag is None and len(hits) <= 20:  # layouts inside the quantifier only
        calls += disc_guided(pan, rng, hits, counts, n_disc)
    if tag:
        for h in hits:
            if tag not in h["tags"]:
                h["tags"].append(tag)
    return lid, calls, counts, hits[:6], samples


# --------------------------------------------------------------------------------------
# exact check of the combinatorial hypothesis of Earverif.PointSource.panner_continuousOn_triplets_partial
# (`MeetInSharedFace`: the slack-0 acceptance cones of two regions meet only in a shared vertex / edge) on the REAL
# configured panner.  Every cone is a polyhedral cone {x : n.x >= 0 for its inward normals n}; all arithmetic is exact
# integer arithmetic on the binary64 vertex coordinates (each vertex scaled by a power of two).


def _ivec(v):
    """binary64 triple -> integer triple that is an exact positive multiple of it"""
    fr = [float(x).as_integer_ratio() for x in v]
    D = max(d for _, d in fr)
    return tuple(n * (D // d) for n, d in fr)


def _icross(a, b):
    return (a[1] * b[2] - a[2] * b[1], a[2] * b[0] - a[0] * b[2], a[0] * b[1] - a[1] * b[0])


def _idot(a, b):
    return a[0] * b[0] + a[1] * b[1] + a[2] * b[2]


def _parallel_pos(r, v):
    return _icross(r, v) == (0, 0, 0) and _idot(r, v) > 0


def cone_cells(pan):
    """One polyhedral cone per Triplet, per inner triplet of a VirtualNgon (its acceptance set is their union) and per
    QuadRegion (the cone bounded by the four planes through consecutive corners in `order`: the set of directions whose ray
    meets the bilinear patch; a surrogate, the model's quad acceptance depends on the root selection).
    -> list of dicts {region, kind, keys (exact float triples), verts (int), chans, normals (int) or None if degenerate}"""
    cells = []
    for k, r in enumerate(pan.regions):
        kind = c05.region_kind(r)
        if kind == "Triplet":
            tris = [("Triplet", np.asarray(r.positions, dtype=float), [int(c) for c in r.output_channels])]
        elif kind == "VirtualNgon":
            glob = [int(c) for c in r.output_channels]
            tris = []
            for t in r.regions:
                ch = [glob[int(c)] if int(c) < len(glob) else ("centre", k) for c in t.output_channels]
                tris.append(("VirtualNgon-inner", np.asarray(t.positions, dtype=float), ch))
        else:
            tris = []
        for tkind, pos, ch in tris:
            keys = [tuple(float(x) for x in v) for v in pos]
            a, b, c = [_ivec(v) for v in pos]
            det = _idot(a, _icross(b, c))
            normals = None
            if det != 0:
                sg = 1 if det > 0 else -1
                normals = [tuple(sg * x for x in n) for n in (_icross(b, c), _icross(c, a), _icross(a, b))]
            cells.append({"region": k, "kind": tkind, "keys": keys, "verts": [a, b, c], "chans": ch, "normals": normals})
        if kind == "QuadRegion":
            pos = np.asarray(r.positions, dtype=float)
            order = [int(o) for o in r.order]
            keys = [tuple(float(x) for x in pos[o]) for o in order]
            vs = [_ivec(pos[o]) for o in order]
            normals = []
            for i in range(4):
                n = _icross(vs[i], vs[(i + 1) % 4])
                d1, d2 = _idot(n, vs[(i + 2) % 4]), _idot(n, vs[(i + 3) % 4])
                if d1 >= 0 and d2 >= 0 and (d1 > 0 or d2 > 0):
                    normals.append(n)
                elif d1 <= 0 and d2 <= 0 and (d1 < 0 or d2 < 0):
                    normals.append(tuple(-x for x in n))
                else:  # not a convex spherical quadrilateral in this order
                    normals = None
                    break
            cells.append({"region": k, "kind": "QuadRegion", "keys": keys, "verts": vs,
                          "chans": [int(r.output_channels[o]) for o in order], "normals": normals})
    return cells


def cone_pair(X, Y):
    """(class, witness) for two cells: the extreme rays of the intersection cone (exact) against the common vertices.
    class: disjoint | shared-vertex | shared-edge (the hypothesis holds) | overlap (more than a shared vertex/edge) |
    channel-mismatch (a shared position on two different channels)"""
    normals = X["normals"] + Y["normals"]
    rays = []
    for i in range(len(normals)):
        for j in range(i + 1, len(normals)):
            r = _icross(normals[i], normals[j])
            if r == (0, 0, 0):
                continue
            for rr in (r, tuple(-x for x in r)):
                if all(_idot(n, rr) >= 0 for n in normals) and not any(_parallel_pos(rr, u) for u in rays):
                    rays.append(rr)
    common = [(v, X["chans"][i], Y["chans"][Y["keys"].index(X["keys"][i])])
              for i, v in enumerate(X["verts"]) if X["keys"][i] in Y["keys"]]
    extra = [r for r in rays if not any(_parallel_pos(r, v) for v, _, _ in common)]
    if extra or len(rays) > 2:
        w = np.zeros(3)
        for r in rays:
            f = np.array([float(x) for x in r])
            w += f / np.linalg.norm(f)
        fr = [c05.unit([float(x) for x in r]).tolist() for r in rays]
        return "overlap", {"inside": c05.unit(w).tolist() if np.linalg.norm(w) > 0 else None, "extreme_rays": fr}
    if any(cx != cy for _, cx, cy in common):
        return "channel-mismatch", None
    return ("disjoint", "shared-vertex", "shared-edge")[len(rays)], None


def cone_report(pan):
    """All pairs of cells of different regions, and of the inner triplets of one n-gon."""
    cells = cone_cells(pan)
    counts, overlaps = {}, []
    lay = pan.name
    usable = [c for c in cells if c["normals"] is not None]
    for c in cells:
        if c["normals"] is None:
            key = "cone-pairs|%s|cell-without-cone (singular triplet / non-convex quad order)|%s" % (lay, c["kind"])
            counts[key] = counts.get(key, 0) + 1
    tri_ok = True
    for i in range(len(usable)):
        for j in range(i + 1, len(usable)):
            X, Y = usable[i], usable[j]
            if X["region"] == Y["region"] and X["kind"] != "VirtualNgon-inner":
                continue
            cls, wit = cone_pair(X, Y)
            kinds = "~".join(sorted([X["kind"], Y["kind"]]))
            for key in ("cone-pairs|%s|%s" % (lay, cls), "cone-pairs|all nominal layouts|%s|%s" % (kinds, cls)):
                counts[key] = counts.get(key, 0) + 1
            if cls in ("overlap", "channel-mismatch"):
                if kinds == "Triplet~Triplet":
                    tri_ok = False
                overlaps.append({"regions": [X["region"], Y["region"]], "kinds": [X["kind"], Y["kind"]], "class": cls,
                                 "vertices_a": [list(k) for k in X["keys"]], "vertices_b": [list(k) for k in Y["keys"]],
                                 "witness_direction": (wit or {}).get("inside"), "overlap_extreme_rays": (wit or {}).get("extreme_rays")})
    ntri = sum(1 for c in usable if c["kind"] == "Triplet")
    if ntri >= 2:
        key = "cone-pairs|%s|MeetInSharedFace on every pair of Triplet regions: %s" % (lay, "holds" if tri_ok else "FAILS")
        counts[key] = 1
    return {"counts": counts, "overlaps": overlaps}


def cone_directed(pan, rep, hits, counts):
    """An overlap is only a finding if the gains actually jump there: tag the jumps already found between the two regions
    and run the bisection search on short paths through a direction inside the overlap."""
    calls = 0
    for ov in rep["overlaps"][:4]:
        found = False
        for h in hits:
            d = h.get("detail", {})
            pair = {(d.get("accepting_region_a") or [None])[0], (d.get("accepting_region_b") or [None])[0]}
            if pair == set(ov["regions"]):
                h["tags"].append("cone-overlap")
                h["detail"]["cone_overlap"] = ov
                found = True
        if ov["witness_direction"] is not None and not found:
            q = np.array(ov["witness_direction"])
            e1, e2 = tangent_basis(q)
            paths = []
            for phi in (0.3, 0.3 + math.pi / 3, 0.3 + 2 * math.pi / 3):  # long paths through the inside of the overlap
                paths.append((Path(q, math.cos(phi) * e1 + math.sin(phi) * e2), 1.0, 64))
            rays = [np.array(r) for r in ov["overlap_extreme_rays"] or []]
            for i in range(len(rays)):  # short paths across every boundary arc of the overlap
                for j in range(i + 1, len(rays)):
                    m = rays[i] + rays[j]
                    if np.linalg.norm(m) > 1e-6:
                        paths.append((Path(c05.unit(m), q), 1e-2, 16))
            for path, h0, n in paths:
                n0 = len(hits)
                calls += scan(pan, path, local_ts(h0, n), 4, hits, counts, "cone-overlap", "~".join(ov["kinds"]))
                for h in hits[n0:]:
                    h["tags"].append("cone-overlap")
                    h["detail"]["cone_overlap"] = ov
                    found = True
                if found:
                    break
        key = "cone-pairs|%s|overlap %s" % (pan.name, "with a gain jump (reported)" if found else "without any gain jump found (not reported)")
        counts[key] = counts.get(key, 0) + 1
    return calls


# --------------------------------------------------------------------------------------
# "regions meet only in shared faces" certificate (Gen/C12_Faces.lean), re-decided by the Lean kernel
# (Earverif.PointSource.Faces.facesCertOk, Model/PointSourceFaces.lean): for every pair of triplet cells of the REAL
# configured panner (Triplet regions and the inner triplets of every VirtualNgon) the shared positions and a plane
# through them that separates the remaining vertices STRICTLY; exact integer arithmetic (coordinates * 2^K).


class FacesError(Exception):
    def __init__(self, what, detail=None):
        Exception.__init__(self, what)
        self.what = what
        self.detail = detail or {}


def _scaled(v, K):
    out = []
    for x in v:
        fr = Fraction(float(x)) * (1 << K)
        if fr.denominator != 1:
            raise FacesError("coordinate is not an integer multiple of 2^-K", {"K": K, "value": float(x)})
        out.append(int(fr))
    return tuple(out)


def faces_cells(pan, K):
    """Triplet regions and inner triplets of the n-gons, in region order: dicts region, fan, kind (0/1), rows (scaled ints),
    keys (exact float triples), lch (channels inside the region), gch (panner output channels, None = virtual centre)."""
    cells = []
    for k, r in enumerate(pan.regions):
        kind = c05.region_kind(r)
        if kind == "Triplet":
            pos = np.asarray(r.positions, dtype=float)
            ch = [int(c) for c in r.output_channels]
            cells.append({"region": k, "fan": 0, "kind": 0, "rows": [_scaled(v, K) for v in pos],
                          "keys": [tuple(float(x) for x in v) for v in pos], "lch": ch, "gch": list(ch)})
        elif kind == "VirtualNgon":
            glob = [int(c) for c in r.output_channels]
            for f, t in enumerate(r.regions):
                pos = np.asarray(t.positions, dtype=float)
                lch = [int(c) for c in t.output_channels]
                cells.append({"region": k, "fan": f, "kind": 1, "rows": [_scaled(v, K) for v in pos],
                              "keys": [tuple(float(x) for x in v) for v in pos], "lch": lch,
                              "gch": [glob[lch[0]], glob[lch[1]], None]})
    return cells


def _separator(pos, neg):
    """float vector w with w.v > 0 for v in pos and w.v < 0 for v in neg (perceptron with a margin), or None"""
    vecs = [v / np.linalg.norm(v) for v in pos] + [-v / np.linalg.norm(v) for v in neg]
    w = np.sum(vecs, axis=0)
    for it in range(4000):
        m = [float(np.dot(w, v)) for v in vecs]
        i = int(np.argmin(m))
        if m[i] > 0.05 * np.linalg.norm(w) and it > 50:
            break
        w = w + 0.5 * vecs[i]
    return w if min(float(np.dot(w, v)) for v in vecs) > 0 else None


def faces_pair(X, Y, K):
    """-> dict(shared, perm, flip, w, n) for the ordered pair (X, Y); raises FacesError if there is no strict separation."""
    xs, ys = X["rows"], Y["rows"]
    shared = [(i, Y["keys"].index(X["keys"][i])) for i in range(3) if X["keys"][i] in Y["keys"]]
    same = X["region"] == Y["region"]
    for i, j in shared:
        if (X["lch"][i] != Y["lch"][j]) if same else (X["gch"][i] is None or X["gch"][i] != Y["gch"][j]):
            raise FacesError("a shared position on two different channels", {"cells": [X["region"], X["fan"], Y["region"], Y["fan"]]})
    if len(shared) > 2:
        raise FacesError("two cells with the same three positions", {"cells": [X["region"], X["fan"], Y["region"], Y["fan"]]})
    sx = [i for i, _ in shared]
    sy = [j for _, j in shared]
    nsx = [k for k in range(3) if k not in sx]
    nsy = [k for k in range(3) if k not in sy]

    def ok(n):
        return (all(_idot(n, xs[k]) == 0 for k in sx) and all(_idot(n, xs[k]) > 0 for k in nsx) and
                all(_idot(n, ys[k]) == 0 for k in sy) and all(_idot(n, ys[k]) < 0 for k in nsy))

    sc = 2.0 ** K
    fx = [np.array([float(c) / sc for c in v]) for v in xs]
    fy = [np.array([float(c) / sc for c in v]) for v in ys]
    found = None
    if len(shared) == 2:
        n0 = _icross(xs[sx[0]], xs[sx[1]])
        for fl in (False, True):
            n = tuple(-c for c in n0) if fl else n0
            if ok(n):
                found = (fl, (0, 0, 0), n)
                break
    else:
        if len(shared) == 1:
            fa = fx[sx[0]]
            w = _separator([np.cross(fx[k], fa) for k in nsx], [np.cross(fy[k], fa) for k in nsy])
        else:
            w = _separator(fx, fy)
        if w is not None:
            for bits in (6, 10, 16, 24, 40):
                wi = tuple(int(round(c / np.max(np.abs(w)) * (1 << bits))) for c in w)
                n = _icross(xs[sx[0]], wi) if len(shared) == 1 else wi
                if ok(n):
                    found = (False, wi, n)
                    break
    if found is None:
        raise FacesError("no plane through the shared positions separates the two cells strictly (their cones overlap, or touch "
                         "along more than the shared face)", {"cells": [X["region"], X["fan"], Y["region"], Y["fan"]], "shared_rows": shared,
                                                            "vertices_a": [list(k) for k in X["keys"]], "vertices_b": [list(k) for k in Y["keys"]]})
    perm = [None, None, None]
    for i, j in shared:
        perm[j] = i
    rest = iter(nsx)
    for j in range(3):
        if perm[j] is None:
            perm[j] = next(rest)
    return {"shared": shared, "perm": perm, "flip": found[0], "w": found[1], "n": found[2]}


def faces_consts(X, Y, pr):
    """(kappa, alpha) as Fractions for a pair of Triplet regions (see Model/PointSourceFaces.lean)"""
    xs, ys, n = X["rows"], Y["rows"], pr["n"]
    A = sum(_idot(n, v) for v in xs)
    B = -sum(_idot(n, v) for v in ys)
    D = _idot(xs[0], _icross(xs[1], xs[2]))
    kappa, alpha = Fraction(1), Fraction(0)
    sy = [j for _, j in pr["shared"]]
    for j in range(3):
        if j in sy:
            continue
        kappa = max(kappa, Fraction(A + B, -_idot(n, ys[j])))
        for i in range(3):
            rows = list(xs)
            rows[i] = ys[j]
            alpha = max(alpha, Fraction(abs(_idot(rows[0], _icross(rows[1], rows[2]))), abs(D)))
    return kappa, alpha


def faces_build(pan, K):
    cells = faces_cells(pan, K)
    for c in cells:
        if _idot(c["rows"][0], _icross(c["rows"][1], c["rows"][2])) == 0:
            raise FacesError("a triplet cell with linearly dependent positions", {"cell": [c["region"], c["fan"]]})
    pairs = []
    kappa, alpha = Fraction(1), Fraction(0)
    stats = {"disjoint": 0, "shared-vertex": 0, "shared-edge": 0}
    for i in range(len(cells)):
        for j in range(i + 1, len(cells)):
            pr = faces_pair(cells[i], cells[j], K)
            pr["x"], pr["y"] = i, j
            pairs.append(pr)
            stats[("disjoint", "shared-vertex", "shared-edge")[len(pr["shared"])]] += 1
            if cells[i]["kind"] == 0 and cells[j]["kind"] == 0:
                k, a = faces_consts(cells[i], cells[j], pr)
                kappa, alpha = max(kappa, k), max(alpha, a)
    return {"cells": cells, "pairs": pairs, "kappa": int(math.ceil(kappa)), "alpha": int(math.ceil(alpha)), "stats": stats}


def _cell_text(c):
    return "{ region := %d, fan := %d, kind := %d, rows := [%s], lch := [%s], gch := [%s] }" % (
        c["region"], c["fan"], c["kind"], ", ".join("(%d, %d, %d)" % r for r in c["rows"]), ", ".join(str(k) for k in c["lch"]),
        ", ".join("none" if g is None else "some %d" % g for g in c["gch"]))


def _pair_text(p):
    return "{ x := %d, y := %d, shared := [%s], perm := [%s], flip := %s, w := (%d, %d, %d) }" % (
        p["x"], p["y"], ", ".join("(%d, %d)" % s for s in p["shared"]), ", ".join(str(k) for k in p["perm"]),
        "true" if p["flip"] else "false", p["w"][0], p["w"][1], p["w"][2])


def faces_text(names, certs):
    """`certs[i]` = faces_build(...) result or None (no certificate: empty lists, the kernel check then fails)."""
    lines = [
        "/- GENERATED by harness/c12.py from point_source.configure(layout.without_lfe) - do not edit.",
        "   'Regions meet only in shared faces' certificate per layout of Gen/C05_Tables.lean (same order): the triplet cells",
        "   (Triplet regions; inner triplet number `fan` of every VirtualNgon region) with their positions times 2^K as integer",
        "   literals, their channels inside the region and in the panner; for every pair of cells (canonical order) the rows with",
        "   the same position, a row matching `perm`, and the separating plane: normal `w` (no shared row), `a x w` (one shared",
        "   row a), `+-(a x b)` (two shared rows); `alpha`, `kappa`: constants of the quantitative sliver bound. -/",
        "import Earverif.Model.PointSourceFaces",
        "namespace Earverif.Gen.C12Faces",
        "open Earverif.PointSource.Faces",
        "",
    ]
    cnames = []
    for li, (name, cert) in enumerate(zip(names, certs)):
        cells = cert["cells"] if cert else []
        pairs = cert["pairs"] if cert else []
        cchunks = []
        for ci in range(0, len(cells), 10):
            cn = "F%d_c%d" % (li, ci // 10)
            lines.append("def %s : List RCell := [" % cn)
            lines.append(",\n".join("  " + _cell_text(c) for c in cells[ci:ci + 10]))
            lines.append("]")
            cchunks.append(cn)
        lines.append("def F%d_cells : List RCell := %s" % (li, " ++ ".join(cchunks) if cchunks else "[]"))
        chunks = []
        for ci in range(0, len(pairs), 20):
            cn = "F%d_p%d" % (li, ci // 20)
            lines.append("def %s : List PairCert := [" % cn)
            lines.append(",\n".join("  " + _pair_text(p) for p in pairs[ci:ci + 20]))
            lines.append("]")
            chunks.append(cn)
        lines.append("/-- %s -/" % name)
        lines.append("def F%d : FacesCert := { cells := F%d_cells, pairs := %s, alpha := %d, kappa := %d }" % (
            li, li, " ++ ".join(chunks) if chunks else "[]", cert["alpha"] if cert else 0, cert["kappa"] if cert else 0))
        lines.append("")
        cnames.append("F%d" % li)
    lines.append("def faces : List FacesCert := [%s]" % ", ".join(cnames))
    lines.append("")
    lines.append("end Earverif.Gen.C12Faces")
    return "\n".join(lines) + "\n"


THEOREMS = (
    "edge_unique",
    "edge_exists",
    "triplet_on_edge",
    "edge_agreement",
    "triplet_continuousOn",
    "triplet_handle_continuousOn",
    "stereo_continuousOn",
    "downmix_continuousOn",
    "quad_on_edge",
    "quad_edge_agreement",
    "quad_edge_agreement'",
    "ngon_candidate_on_edge",
    "ngon_on_edge",
    "quad_two_valued_witness",
    # the topological half (pasting along the first-accept loop; Proofs/C12Paste.lean + Props/C12.lean)
    "firstAccept_eq_of_agree",
    "firstAccept_continuousOn",
    "firstAccept_jump_bound",
    "panner_continuousOn_of_regions",
    "panner_jump_bound_of_regions",
    "triplet_accept_isClosed",
    "triplet_accept_isClosed_code",
    "ngon_accept_isClosed",
    "quad_accept_isOpen_of_roots",
    "tripletPannerE_eps",
    "shared_face_agreement",
    "panner_continuousOn_triplets_partial",
    "triplet_sliver_bound_general",
    "triplet_sliver_bound",
    "two_triplet_panner_jump_bound",
    # the virtual n-gon and panners of triplets and n-gons at slack 0 (Proofs/C12Ngon.lean)
    "ngon_handleE_eps",
    "ngon_handle_continuousOn",
    "pannerTNE_eps",
    "panner_continuousOn_tri_ngon_partial",
    # two triplets in any arrangement, quantitatively; a whole list of triplets with the code's threshold (Proofs/C12Faces.lean)
    "pair_gain_bound",
    "pair_out_bound",
    "panner_jump_bound_triplets",
    # the regenerated tables: "regions meet only in shared faces" decided by the kernel, and what follows from it
    "faces_tables_ok",
    "Faces.faces_sound",
    "tripletTR_regions",
    "tables_triplet_pairs_meet_in_faces",
    "tables_triplet_panner_continuousOn",
    "tables_triplet_panner_jump_bound",
    "tables_ngon_continuousOn",
    "tables_tri_ngon_continuousOn",
    # the quad on the cone of its corners (closed-form root selection, C05's sign certificate)
    "continuousOn_of_unique_zero",
    "unit_root_unique",
    "axis_unique_root",
    "quad_cone_continuousOn_partial",
    "quad_handle_continuousOn_cone_partial",
    "tables_quad_continuousOn_cone_partial",
    "C12_partial",
)


class C12(Spec):
    pid = "C12"
    lean_targets = ("Earverif.Props.C12", "c05driver")
    props_module = "Earverif.Props.C12"
    theorems = tuple("Earverif.PointSource." + t for t in THEOREMS)
    trusted_base = c05.C05.trusted_base + (
        "continuity theorems are over the reals: piecewise (per region handler / wrapper), the pasting theorem for the first-accept "
        "loop (firstAccept_continuousOn, panner_continuousOn_of_regions) and its instances in the idealisation 'acceptance slack 0': "
        "all-triplet panner (panner_continuousOn_triplets_partial), virtual n-gon (ngon_handle_continuousOn), panner of triplets and "
        "n-gons (panner_continuousOn_tri_ngon_partial); with the code's slack -1e-11 two triplets in ANY arrangement (rows permuted, "
        "shared edge, shared vertex or nothing shared) differ by at most 45*(3*alpha+1)*kappa*1e-11 per channel where both accept "
        "(pair_gain_bound, pair_out_bound), so a panner of triplets is continuous up to jumps of that order (panner_jump_bound_triplets; "
        "on the ten tables tables_triplet_panner_jump_bound, eta < 2.2e-7); QuadRegion.handle with the closed-form root selection is "
        "continuous on the cone of its corners under C05's sign certificate (quad_handle_continuousOn_cone_partial, "
        "tables_quad_continuousOn_cone_partial); NOT proved: the global statement for a whole layout's panner (quads are not inside "
        "the pasted panner: their acceptance set under the code's tolerances is not closed and their agreement with neighbours is "
        "proved only given the roots) and n-gons with the code's slack (tables_tri_ngon_continuousOn, the Triplet and VirtualNgon "
        "regions of every nominal layout as one panner, is at slack 0); these are searched",
        "the combinatorial hypothesis of the pasting instances (MeetInSharedFace: the slack-0 cones of two cells meet only in a shared "
        "vertex / edge, shared positions on the same channel) is now DECIDED BY THE LEAN KERNEL on every run for the ten nominal "
        "layouts: harness/c12.py regenerates Gen/C12_Faces.lean from the real configured panner (triplet cells = Triplet regions and "
        "inner triplets of the n-gons; per pair the shared rows and a strictly separating plane through them; constants alpha, kappa), "
        "Faces.facesCertOk re-checks it in exact integer arithmetic against the regenerated region table (faces_tables_ok), "
        "Faces.faces_sound turns it into the real statements; the harness's own exact cone check (cone_report: also quads, as the "
        "cone bounded by the planes through consecutive corners) stays as search guidance: an overlap is reported (tag cone-overlap) "
        "only together with an actual gain jump found by the bisection search through the overlap",
    )
    assumptions = (
        "layouts: the ten nominal layouts, a fixed catalogue of admissible symmetric real layouts, the fixed catalogue of "
        "boundary-valued real layouts and the fixed-seed catalogue of corner layouts (every loudspeaker at an inclusive end of its "
        "ranges; symmetric family = inside the quantifier, asymmetric family tagged asymmetric-catalogue:<id>) (harness/c05.py "
        "real_catalogue, boundary_catalogue, corner_catalogue; same admissibility rules as C05)",
        "structural check on every configured panner: the vertex order of every QuadRegion / VirtualNgon (real ngon_vertex_order) "
        "must be a simple polygon and equal the harness's own order by angle around the centre",
        "disagreement-guided search: every (layout, region, direction) on which the Lean model and the real code disagree in the "
        "correspondence is kept, and the bisection search is run on short great circles (half-lengths 0.3, 0.03, 1e-3 rad, three "
        "tangent directions) THROUGH those directions, on the disagreeing layout and on the fixed-catalogue layouts of the same "
        "BS.2051 name; no-real-root predicate (every run; 500 / 3000 (deep) / 6000 (thorough) uniform directions per QuadRegion of "
        "every layout inside the quantifier): at directions where one of the quad's pan quadratics has a clearly negative "
        "discriminant (harness's own coefficients) the real quad must give no answer; an answer is not a hit by itself, it guides "
        "the bisection search through that direction; a jump whose accepting quad used a pan value that is not a real root of its "
        "own quadratic is tagged quad-pan-value-not-a-real-root and is NOT attributed to the two recorded BS.2127 quad findings "
        "(which are about real roots)",
        "a jump is a change of some gain larger than %g + %g*L*angle between two directions %g rad apart, L = largest "
        "|dg|/angle seen on the same path at angles >= %g (a steep but continuous change does not alarm)" % (JUMP_ABS, L_SAFETY, FINAL_ANGLE, L_MIN_ANGLE),
    )
    rule = (
        "a case is one path (great circle through a region-edge point / vertex / pole / loudspeaker, or a full circle: "
        "horizontal plane, meridians, random) on one layout: the path is sampled, the adjacent pairs with the largest gain "
        "change are bisected down to 1e-9 rad; non-trivial = passes within 1e-2 rad of a region boundary, vertex or pole"
    )

    def correspond(self, ctx):
        # the model/code tie is C05's: re-run a reduced version of it here so that C12 never reports on a stale tie.
        # Every (layout, region, direction) on which model and code disagree is kept: the search is then guided through them.
        sub = c05.SPEC
        self._disagreements = []
        orig = ctx.disagree

        def recording_disagree(what, inp, model_out, impl_out):
            try:
                if isinstance(inp, dict) and isinstance(inp.get("layout"), dict) and inp.get("direction") is not None:
                    self._disagreements.append({"what": what, "layout": inp["layout"], "region": inp.get("region"),
                                                "direction": [float(x) for x in inp["direction"]]})
            except Exception:
                pass
            return orig(what, inp, model_out, impl_out)

        try:
            ctx.disagree = recording_disagree
            sub._search = lambda *a, **k: None
            c05.C05.correspond(sub, ctx)
        finally:
            del sub._search
            del ctx.disagree

    _disagreements = ()

    def extract(self, ctx):
        c05.SPEC.extract(ctx)
        self.extract_faces(ctx)

    def extract_faces(self, ctx):
        """'Regions meet only in shared faces' certificate (Gen/C12_Faces.lean) from the real configured panners, exact
        arithmetic.  A pair of cells without a strictly separating plane through its shared positions (overlapping cones, a
        shared position on two channels, a degenerate cell) is NOT patched: the layout gets an empty certificate (so the kernel
        check `faces_ok_<i>` fails too) and a broken obligation that says which pair; the search then runs deep."""
        pans = [c05.Pan(name, name) for name in c05.LAYOUT_NAMES]
        K = c05_cover.scale_exponent([p.regions for p in pans])
        certs = []
        for pan in pans:
            try:
                cert = faces_build(pan, K)
                certs.append(cert)
                ctx.obligation("faces-certificate:" + pan.name, True, "%d triplet cells, %d pairs (%s), alpha=%d kappa=%d" % (
                    len(cert["cells"]), len(cert["pairs"]), ", ".join("%d %s" % (v, k) for k, v in sorted(cert["stats"].items())),
                    cert["alpha"], cert["kappa"]))
                ctx.count("faces|cells|" + pan.name, len(cert["cells"]))
                for kk, v in cert["stats"].items():
                    ctx.count("faces|pairs|%s|%s" % (pan.name, kk), v)
            except FacesError as e:
                certs.append(None)
                ctx.obligation("faces-certificate:" + pan.name, False,
                               "two triplet cells of configure(%s) do not meet in a shared face only: %s %s"
                               % (pan.name, e.what, json.dumps(e.detail, default=str)[:600]))
        text = faces_text(c05.LAYOUT_NAMES, certs)
        changed = write_if_changed(os.path.join(common.GEN, "C12_Faces.lean"), text)
        ctx.count("faces-certificate:regenerated" if changed else "faces-certificate:unchanged")
        ctx.notes.append("Gen/C12_Faces.lean: %d bytes, %d cells, %d pairs, scale 2^%d" % (
            len(text), sum(len(c["cells"]) for c in certs if c), sum(len(c["pairs"]) for c in certs if c), K))

    def _guided_tasks(self, ctx):
        """Tasks for the disagreement-guided search: paths through every direction on which model and code disagreed, on the
        disagreeing layout itself and on the fixed-catalogue layouts of the same BS.2051 layout name."""
        by_layout, by_name = {}, {}
        for d in self._disagreements:
            lay = d["layout"]
            lid, name, real = lay.get("id"), lay.get("layout"), lay.get("real_positions")
            if name not in c05.LAYOUT_NAMES:
                continue
            ent = by_layout.setdefault(lid, (name, real, []))
            key = tuple(round(x, 9) for x in d["direction"])
            if len(ent[2]) < 6 and key not in [tuple(round(x, 9) for x in q) for _, q in ent[2]]:
                ent[2].append((d["region"], d["direction"]))
            dirs = by_name.setdefault(name, [])
            if len(dirs) < 6 and key not in [tuple(round(x, 9) for x in q) for _, q in dirs]:
                dirs.append((None, d["direction"]))
        tasks = []
        for lid, (name, real, dirs) in list(by_layout.items())[:12]:
            tasks.append((lid, name, real, "%s/%d/guided/%s" % (ctx.tier, ctx.seed, lid), dirs, None))
        csym, _ = c05.corner_catalogue()
        for name, dirs in by_name.items():
            cat = [(lid, n, real) for lid, n, real in c05.real_catalogue() if n == name]
            cat += [(lid, n, real) for lid, n, real, always in c05.boundary_catalogue() if n == name and always][:4]
            sym = [c for c in csym if c[1] == name]
            cat += ctx.rng.sample(sym, min(8 if ctx.quick else len(sym), len(sym)))
            for lid, n, real in cat:
                tasks.append((lid, n, real, "%s/%d/guided/%s" % (ctx.tier, ctx.seed, lid), dirs, None))
        return tasks

    def _run(self, ctx, n_local, n_circles, n_disc):
        tasks = []
        for name in c05.LAYOUT_NAMES:
            tasks.append((name, name, None, "%s/%d/%s/%d" % (ctx.tier, ctx.seed, name, ctx.rng.randrange(1 << 30)), n_local, n_circles, None))
        for lid, name, real in c05.real_catalogue():
            tasks.append((lid, name, real, "%s/%d/%s/%d" % (ctx.tier, ctx.seed, lid, ctx.rng.randrange(1 << 30)), n_local // 2, max(4, n_circles // 2), None))
        for lid, name, real in c05.boundary_for_run(ctx, 12 if ctx.quick else None):
            tasks.append((lid, name, real, "%s/%d/%s/%d" % (ctx.tier, ctx.seed, lid, ctx.rng.randrange(1 << 30)), max(40, n_local // 3), max(3, n_circles // 3), None))
        # corner layouts (fixed seed): structural check on all, path search on a seeded sample (all when thorough)
        csym, casym = c05.corner_catalogue()
        full = None if not ctx.quick else {c[0] for c in ctx.rng.sample(csym, min(6, len(csym))) + ctx.rng.sample(casym, min(10, len(casym)))}
        always = c05.failing_catalogue_ids("C12") | {"9+10+3#cornerS11"}
        for fam, tag in ((csym, None), (casym, "asymmetric-catalogue:")):
            for lid, name, real in fam:
                if lid in always:
                    # layouts with recorded findings are searched in every run (all fixed meridians + the meridians through
                    # every loudspeaker), so that their KNOWN-FINDING lines keep being reproduced and anything new on them shows
                    tasks.append((lid, name, real, "%s/%d/%s" % (ctx.tier, ctx.seed, lid), max(40, n_local // (3 if ctx.quick else 8)),
                                  41 if tag is None else max(12, n_circles // 8), (tag + lid) if tag else None))
                    continue
                on = full is None or lid in full
                # not sampled: symmetric layouts still get the paths through every loudspeaker, asymmetric ones the structural check
                div = 3 if ctx.quick else 8
                tasks.append((lid, name, real, "%s/%d/%s" % (ctx.tier, ctx.seed, lid), max(40, n_local // div) if on else (-1 if tag is None else 0),
                              max(3, n_circles // div) if on else 0, (tag + lid) if tag else None))
        # every layout inside the quantifier also gets the no-real-root predicate on its quads (n_disc directions per quad)
        tasks = [t + (n_disc,) for t in tasks]
        results = c05.run_pool(tasks, _task)
        guided = self._guided_tasks(ctx) if self._disagreements else []
        if guided:
            ctx.count("guided|layouts searched through model/code disagreement directions", len(guided))
            ctx.count("guided|disagreement directions collected", len(self._disagreements))
            results = list(results) + list(c05.run_pool(guided, _guided_task))
        mx_d, mx_L = 0.0, 0.0
        for lid, calls, counts, hits, samples in results:
            mx_d = max(mx_d, counts.pop("max-final-delta", 0.0))
            mx_L = max(mx_L, counts.pop("max-L", 0.0))
            for k, v in counts.items():
                ctx.count(k if k.startswith(("cone-pairs|", "no-real-root|")) else "paths|" + k, v)
            ctx.cov["evaluations"] += calls
            ctx.count("handle-calls|" + lid.split("#")[0], calls)
            for s in samples:
                ctx.case(("path", lid, tuple(s["through"]), tuple(s["tangent"])), True, sample=s)
            for h in hits:
                ctx.hit(h["what"], h["input"], h["detail"], h["tags"])
        ctx.notes.append("largest gain change at <= %g rad: %.3g; largest Lipschitz estimate: %.3g" % (FINAL_ANGLE, mx_d, mx_L))

    def search(self, ctx, deep):
        if ctx.quick and not deep:
            self._run(ctx, n_local=90, n_circles=7, n_disc=500)
        elif ctx.quick:
            self._run(ctx, n_local=600, n_circles=30, n_disc=3000)
        else:
            self._run(ctx, n_local=4200, n_circles=120, n_disc=6000)


SPEC = C12()

REGISTRY = dict(
    text="PARTIAL: Lean theorems over the reals for every loudspeaker position (Earverif.PointSource.triplet_continuousOn, "
    "triplet_handle_continuousOn, downmix_continuousOn, stereo_continuousOn: each handler/wrapper is continuous on its "
    "acceptance set; edge_unique, edge_exists, triplet_on_edge, edge_agreement: on a shared edge the gains are uniquely "
    "determined and two adjacent triplets return exactly the same pair with the third gain 0; quad_on_edge, "
    "quad_edge_agreement, quad_edge_agreement': given the roots, the bilinear quad returns the same pair on each of its four "
    "edges when its velocity vector is parallel to the direction; ngon_candidate_on_edge, ngon_on_edge: a virtual n-gon "
    "returns the same pair on its outer edges when the earlier inner triplets reject). "
    "Pasting (topological half): firstAccept_eq_of_agree, firstAccept_continuousOn, panner_continuousOn_of_regions: for finitely "
    "many regions whose acceptance sets are closed in the set of directions, with handlers continuous on them and agreeing "
    "pairwise on the overlaps, the first-accept loop of PointSourcePanner.handle is continuous on the union and equals any "
    "accepting region's value; triplet_accept_isClosed(_code), ngon_accept_isClosed (quad: only quad_accept_isOpen_of_roots). "
    "Slack 0 instances: panner_continuousOn_triplets_partial (all-triplet panner), ngon_handle_continuousOn (the VirtualNgon "
    "handler is continuous on its acceptance set: inner triplets pasted along their shared edges, the centre downmix never "
    "vanishes; ngon_handleE_eps ties the slack-parametrised handler to the model), panner_continuousOn_tri_ngon_partial "
    "(panners of Triplet and VirtualNgon regions; pannerTNE_eps). "
    "The code's slack: triplet_sliver_bound(_general) and, for two triplets in ANY arrangement (row permutations, slivers around "
    "a shared vertex, shared edge, nothing shared), pair_gain_bound / pair_out_bound: where both accept the outputs differ by at "
    "most 45*(3*alpha+1)*kappa*1e-11 per channel, alpha/kappa from a separating plane; firstAccept_jump_bound, "
    "panner_jump_bound_of_regions, two_triplet_panner_jump_bound, panner_jump_bound_triplets: the model's "
    "PointSourcePanner.handle over any list of such triplets is continuous up to jumps of that size on every channel. "
    "Tables (regenerated on every run, decided by the kernel): faces_tables_ok (every pair of triplet cells - Triplet regions and "
    "inner triplets of the n-gons - of each nominal layout is separated strictly by a plane through its shared positions; "
    "Faces.faces_sound), hence tables_triplet_pairs_meet_in_faces (MeetInSharedFace for all pairs of Triplet regions, formerly "
    "checked by the harness), tables_triplet_panner_continuousOn, tables_triplet_panner_jump_bound (the Triplet regions of every "
    "nominal layout as a panner with the code's threshold: jumps < 2.2e-7; tripletTR_regions ties the list to the modelled "
    "panner), tables_ngon_continuousOn (every n-gon of the tables at slack 0), tables_tri_ngon_continuousOn (the modelled "
    "panner's own Triplet and VirtualNgon regions of every nominal layout, pasted into one panner at slack 0, continuous on the "
    "union of their cones: MeetInOuterFace for every triplet cell against every n-gon cell comes from the certificate). "
    "Quads: continuousOn_of_unique_zero, unit_root_unique, axis_unique_root, quad_cone_continuousOn_partial, "
    "quad_handle_continuousOn_cone_partial, tables_quad_continuousOn_cone_partial: with the closed-form root selection and C05's "
    "sign certificate (quad_tables_ok) the selected pan value is THE root in [0,1] and QuadRegion.handle is continuous on the "
    "cone of its four corners, for every QuadRegion of the ten tables. Conjunction C12_partial. "
    "NOT proved (searched): the global statement for a whole layout's panner - every nominal layout has QuadRegions, whose "
    "acceptance set under the code's tolerances is larger than the corner cone and not closed, and whose agreement with "
    "neighbours on shared edges is proved only given the roots (quad_two_valued_witness shows what can go wrong without the "
    "sign certificate); the n-gon (and the panner of triplets + n-gons) with the code's slack -1e-11; coverage is C05's.",
    note="Model, driver and correspondence are C05's (re-run here). Table-level: Gen/C12_Faces.lean (shared rows + separating plane "
    "for every pair of triplet cells of the ten nominal configured panners, exact arithmetic) is regenerated from the real code "
    "and re-decided by the kernel (a pair without a strictly separating plane is a broken obligation naming the pair, and the "
    "search runs deep); the harness's own exact cone-overlap check (incl. quads) guides the search. Search: great circles and "
    "meridians through every region edge, vertex, pole and loudspeaker + full circles, bisected to 1e-9 rad; jump threshold "
    "1e-6 + 4*L*angle (above the proved 2.2e-7 for triplets); guided by (a) the directions on which model and code disagree in "
    "the correspondence and (b) directions at which a quad answers although its pan quadratic has no real root.",
    technique="Lean 4 continuity/uniqueness/pasting proofs over the reals (Mathlib topology; tube lemma for the quad root) on the "
    "scalar-polymorphic model + kernel-decided separating-plane certificate regenerated from the real regions + differential "
    "correspondence + bisection search for gain jumps on the real panner",
    design_ref="DESIGN.md section 4, C12",
)
