import importlib
import json
import os
import sys

# EAR_REPO=<dir> points the checks at another checkout of the repository (scratch worktrees for mutation
# trials); the default is /repo, whose working tree is what `import ear` resolves to in /venv.
_repo = os.environ.get("EAR_REPO")
if _repo:
    sys.path.insert(0, _repo)
    import ear  # noqa: E402
    assert os.path.realpath(ear.__file__).startswith(os.path.realpath(_repo)), ear.__file__

from . import common


def main(argv):
    if not argv:
        print("usage: check <id> [quick|thorough] [--replay file]")
        return 2
    pid = argv[0]
    tier = os.environ.get("VERIF_TIER", "quick")
    replay = None
    rest = argv[1:]
    while rest:
        a = rest.pop(0)
        if a in ("quick", "thorough"):
            tier = a
        elif a == "--replay":
            replay = rest.pop(0)
    seed = int(os.environ.get("VERIF_SEED", "0"))
    if replay:
        r = json.load(open(replay))
        tier, seed = r.get("tier", tier), r.get("seed", seed)
        print("replaying %s: tier=%s seed=%d" % (replay, tier, seed))
    try:
        mod = importlib.import_module("harness." + pid.lower())
    except ModuleNotFoundError as e:
        print("no check for %s: %s" % (pid, e))
        return 2
    return common.run_check(mod.SPEC, tier, seed)


if __name__ == "__main__":
    sys.exit(main(sys.argv[1:]))
