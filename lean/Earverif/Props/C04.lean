/-
C04 — File-to-file rendering contract of ear-render (glue around the renderer).

PARTIAL: the renderer's blocks are a parameter (C02/C03 are about them), float
rounding of `x * gain`, `x * M` is C16's subject, argparse / YAML / filesystem are
not modelled. What is proved here, for all inputs: frame count, channel count,
routing and scaling by the speakers file, the overload flag ⇔ some output sample
exceeds full scale, failure ⇔ flag ∧ fail_on_overload, and that the written code
is within one quantisation step of the exact sample (clipped outside [-1, 1]).
-/
import Earverif.Model.FileRender
import Earverif.Proofs.C04Layout
import Mathlib.Tactic.Linarith
import Mathlib.Tactic.Ring
import Mathlib.Tactic.Tauto
import Mathlib.Algebra.Order.Ring.Rat

namespace Earverif.FileRender

/-- Frames out = frames the renderer returned (which C02 shows equals frames in). -/
theorem run_frame_count (chans speakers gain f M) (rendered : List (List (List Rat))) :
    (run chans speakers gain f M rendered).frames.length = (rendered.map List.length).sum := by
  simp only [run, List.length_map, List.length_flatten, List.map_map]
  congr 1
  apply List.map_congr_left
  intro b _
  simp [outBlock]

theorem upmix_length (sp : List Speaker) (chans : List String) : (upmix sp chans).length = outChannels sp := by
  simp [upmix]

/-- Every written frame has exactly `nChannels` samples: one per loudspeaker of the
layout, or one per output channel of the speakers file (`max channel + 1`). -/
theorem run_channel_count (chans speakers gain f M) (rendered : List (List (List Rat)))
    (hlen : ∀ b ∈ rendered, ∀ fr ∈ b, fr.length = chans.length) :
    ∀ fr ∈ (run chans speakers gain f M rendered).frames,
      fr.length = (run chans speakers gain f M rendered).nChannels := by
  intro fr hfr
  simp only [run, List.mem_map, List.mem_flatten] at hfr
  obtain ⟨ofr, ⟨ob, ⟨b, hb, rfl⟩, hofr⟩, rfl⟩ := hfr
  simp only [outBlock, List.mem_map] at hofr
  obtain ⟨fr0, hfr0, rfl⟩ := hofr
  cases speakers with
  | none => simp [run, nChannels, hlen b hb fr0 hfr0]
  | some sp => simp [run, nChannels, applyUpmix, upmix_length]

/-- Column `name` of the upmix matrix: the matched speaker's gain in the row of
that speaker's output channel, zero in every other row; all zero if no speaker
lists the name (the channel is silent in the output). -/
theorem upmix_column (sp : List Speaker) (name : String) :
    (∀ s, findSpeaker sp name = some s →
        upmixEntry sp s.channel name = s.gain ∧ ∀ o, o ≠ s.channel → upmixEntry sp o name = 0) ∧
    (findSpeaker sp name = none → ∀ o, upmixEntry sp o name = 0) := by
  constructor
  · intro s hs
    constructor
    · simp [upmixEntry, hs]
    · intro o ho
      simp only [upmixEntry, hs]
      rw [if_neg (Ne.symm ho)]
  · intro hn o
    simp [upmixEntry, hn]

/-- A row with a single non-zero entry `g` at index `i` routes input `i` scaled by `g`. -/
theorem dot_single (g : Rat) : ∀ (frame : List Rat) (i : Nat) (n : Nat), frame.length = n → i < n →
    dot frame ((List.replicate n (0 : Rat)).set i g) = frame.getD i 0 * g := by
  intro frame
  induction frame with
  | nil => intro i n h hi; simp at h; omega
  | cons x xs ih =>
    intro i n h hi
    cases n with
    | zero => omega
    | succ n =>
      have hl : xs.length = n := by simpa using h
      cases i with
      | zero =>
        simp only [List.replicate_succ, List.set_cons_zero, dot, List.getD_cons_zero]
        have hz : ∀ (ys : List Rat) m, dot ys (List.replicate m (0 : Rat)) = 0 := by
          intro ys
          induction ys with
          | nil => intro m; cases m <;> simp [dot]
          | cons y ys ihy =>
            intro m; cases m with
            | zero => simp [dot]
            | succ m => simp [List.replicate_succ, dot, ihy m]
        rw [hz]; ring
      | succ i =>
        simp only [List.replicate_succ, List.set_cons_succ, dot, List.getD_cons_succ]
        rw [ih i n hl (by omega)]; ring

/-! ### Peak monitor -/

theorem rmax_ge_left (a b : Rat) : a ≤ rmax a b := by unfold rmax; split <;> linarith
theorem rmax_ge_right (a b : Rat) : b ≤ rmax a b := by unfold rmax; split <;> linarith
theorem rmax_cases (a b : Rat) : rmax a b = a ∨ rmax a b = b := by unfold rmax; split <;> simp

/-- Some entry of the list exceeds 1. -/
def Over (xs : List Rat) : Prop := ∃ x ∈ xs, 1 < x

theorem hasOverloaded_iff (p : List Rat) : hasOverloaded p = true ↔ Over p := by
  simp [hasOverloaded, Over]

theorem peakFrame_length : ∀ (p fr : List Rat), fr.length = p.length → (peakFrame p fr).length = p.length := by
  intro p
  induction p with
  | nil => intro fr h; cases fr <;> simp [peakFrame]
  | cons a p ih =>
    intro fr h
    cases fr with
    | nil => simp at h
    | cons x xs => simp only [peakFrame, List.length_cons]; rw [ih xs (by simpa using h)]

theorem peakFrame_over : ∀ (p fr : List Rat), fr.length = p.length →
    (Over (peakFrame p fr) ↔ Over p ∨ ∃ x ∈ fr, 1 < rabs x) := by
  intro p
  induction p with
  | nil =>
    intro fr h
    have : fr = [] := by cases fr with | nil => rfl | cons _ _ => simp at h
    subst this; simp [peakFrame, Over]
  | cons a p ih =>
    intro fr h
    cases fr with
    | nil => simp at h
    | cons x xs =>
      have hl : xs.length = p.length := by simpa using h
      have ih' := ih xs hl
      simp only [peakFrame, Over, List.mem_cons, exists_eq_or_imp] at ih' ⊢
      rw [show (∃ a ∈ peakFrame p xs, 1 < a) = Over (peakFrame p xs) from rfl] at *
      constructor
      · rintro (h1 | h1)
        · rcases rmax_cases a (rabs x) with e | e
          · rw [e] at h1; exact Or.inl (Or.inl h1)
          · rw [e] at h1; exact Or.inr (Or.inl h1)
        · rcases (ih'.mp h1) with h2 | h2
          · exact Or.inl (Or.inr h2)
          · exact Or.inr (Or.inr h2)
      · rintro ((h1 | h1) | (h1 | h1))
        · exact Or.inl (lt_of_lt_of_le h1 (rmax_ge_left _ _))
        · exact Or.inr (ih'.mpr (Or.inl h1))
        · exact Or.inl (lt_of_lt_of_le h1 (rmax_ge_right _ _))
        · exact Or.inr (ih'.mpr (Or.inr h1))

theorem peakBlock_over : ∀ (b : List (List Rat)) (p : List Rat), (∀ fr ∈ b, fr.length = p.length) →
    ((peakBlock p b).length = p.length ∧
     (Over (peakBlock p b) ↔ Over p ∨ ∃ fr ∈ b, ∃ x ∈ fr, 1 < rabs x)) := by
  intro b
  induction b with
  | nil => intro p _; simp [peakBlock]
  | cons fr b ih =>
    intro p h
    have hfr : fr.length = p.length := h fr (by simp)
    have hl := peakFrame_length p fr hfr
    have ih' := ih (peakFrame p fr) (fun f hf => by rw [hl]; exact h f (by simp [hf]))
    simp only [peakBlock, List.foldl_cons] at ih' ⊢
    refine ⟨by rw [ih'.1, hl], ?_⟩
    rw [ih'.2, peakFrame_over p fr hfr]
    simp only [List.mem_cons, exists_eq_or_imp, or_assoc]

theorem peakBlocks_over : ∀ (bs : List (List (List Rat))) (p : List Rat),
    (∀ b ∈ bs, ∀ fr ∈ b, fr.length = p.length) →
    (Over (bs.foldl peakBlock p) ↔ Over p ∨ ∃ b ∈ bs, ∃ fr ∈ b, ∃ x ∈ fr, 1 < rabs x) := by
  intro bs
  induction bs with
  | nil => intro p _; simp
  | cons b bs ih =>
    intro p h
    have hb := peakBlock_over b p (h b (by simp))
    have ih' := ih (peakBlock p b) (fun b' hb' fr hfr => by rw [hb.1]; exact h b' (by simp [hb']) fr hfr)
    simp only [List.foldl_cons]
    rw [ih', hb.2]
    simp only [List.mem_cons, exists_eq_or_imp, or_assoc]

/-- **Overload flag.** After all blocks the monitor reports an overload exactly
when some output sample (after gain and upmix, before quantisation) has
magnitude greater than 1 — for any number and sizes of blocks, incl. empty ones. -/
theorem overload_iff (n : Nat) (outs : List (List (List Rat)))
    (hlen : ∀ b ∈ outs, ∀ fr ∈ b, fr.length = n) :
    hasOverloaded (outs.foldl peakBlock (List.replicate n 0)) = true ↔
      ∃ b ∈ outs, ∃ fr ∈ b, ∃ x ∈ fr, 1 < rabs x := by
  rw [hasOverloaded_iff, peakBlocks_over outs _ (by simpa using hlen)]
  constructor
  · rintro (h | h)
    · obtain ⟨x, hx, h1⟩ := h
      rw [List.mem_replicate] at hx
      rw [hx.2] at h1; norm_num at h1
    · exact h
  · exact Or.inr

/-- With fail-on-overload the run fails exactly when the flag is set. -/
theorem run_failed_iff (chans speakers gain f M rendered) :
    (run chans speakers gain f M rendered).failed = true ↔
      f = true ∧ hasOverloaded (run chans speakers gain f M rendered).peak = true := by
  simp [run]

/-! ### Quantisation -/

theorem trunc_bounds (x : Rat) : ((trunc x : Int) : Rat) - x < 1 ∧ x - ((trunc x : Int) : Rat) < 1 ∧
    (0 ≤ x → 0 ≤ trunc x ∧ ((trunc x : Int) : Rat) ≤ x) ∧ (x ≤ 0 → trunc x ≤ 0 ∧ x ≤ ((trunc x : Int) : Rat)) := by
  unfold trunc
  have f1 := Rat.floor_le x
  have f2 := Rat.lt_floor_add_one x
  have g1 := Rat.floor_le (-x)
  have g2 := Rat.lt_floor_add_one (-x)
  push_cast at f2 g2
  split
  · rename_i hneg
    push_cast
    refine ⟨by linarith, by linarith, fun h => by linarith, fun _ => ⟨?_, by linarith⟩⟩
    have : (0 : Int) ≤ (-x).floor := Rat.le_floor_iff.mpr (by push_cast; linarith)
    omega
  · rename_i hnn
    have hnn' : 0 ≤ x := not_lt.mp hnn
    refine ⟨by linarith, by linarith, fun _ => ⟨Rat.le_floor_iff.mpr (by push_cast; linarith), f1⟩, fun h => ?_⟩
    have hx0 : x = 0 := le_antisymm h hnn'
    subst hx0
    have : Rat.floor 0 = 0 := by simpa using Rat.floor_intCast 0
    simp [this]

/-- **Within one step.** For a sample inside full scale the written code differs
from the exact scaled value by less than one code (truncation toward zero), and
never exceeds `M` in magnitude. -/
theorem quantise_within_step (M : Int) (hM : 0 < M) (x : Rat) (h1 : -1 ≤ x) (h2 : x ≤ 1) :
    ((quantise M x : Int) : Rat) - x * M < 1 ∧ x * M - ((quantise M x : Int) : Rat) < 1 ∧
    -M ≤ quantise M x ∧ quantise M x ≤ M := by
  have hMq : (0 : Rat) < (M : Rat) := by exact_mod_cast hM
  unfold quantise
  have c1 : ¬ (1 < x) := not_lt.mpr h2
  have c2 : ¬ (x < -1) := not_lt.mpr h1
  simp only [c1, c2, if_false]
  obtain ⟨t1, t2, t3, t4⟩ := trunc_bounds (x * M)
  refine ⟨t1, t2, ?_, ?_⟩
  · by_cases hx : 0 ≤ x
    · have := (t3 (mul_nonneg hx hMq.le)).1; omega
    · have hx' : x * M ≤ 0 := by nlinarith
      have := (t4 hx').2
      have : (-(M : Rat)) ≤ ((trunc (x * M) : Int) : Rat) := by nlinarith
      exact_mod_cast this
  · by_cases hx : 0 ≤ x
    · have := (t3 (mul_nonneg hx hMq.le)).2
      have : ((trunc (x * M) : Int) : Rat) ≤ (M : Rat) := by nlinarith
      exact_mod_cast this
    · have hx' : x * M ≤ 0 := by nlinarith
      have := (t4 hx').1; omega

/-- Values outside [-1, 1] are clipped to full scale. -/
theorem quantise_clips (M : Int) (x : Rat) :
    (1 < x → quantise M x = M) ∧ (x < -1 → quantise M x = -M) := by
  constructor
  · intro h
    simp only [quantise, h, if_true, one_mul, trunc]
    split
    · rw [show -((M : Int) : Rat) = ((-M : Int) : Rat) by push_cast; ring, Rat.floor_intCast]; omega
    · exact Rat.floor_intCast M
  · intro h
    have c1 : ¬ (1 < x) := by linarith
    simp only [quantise, c1, h, if_true, if_false, trunc]
    have e : (-1 : Rat) * (M : Rat) = ((-M : Int) : Rat) := by push_cast; ring
    rw [e]
    split
    · rw [show -(((-M : Int)) : Rat) = ((M : Int) : Rat) by push_cast; ring, Rat.floor_intCast]
    · exact Rat.floor_intCast (-M)

theorem outBlock_frame_len (chans : List String) (speakers : Option (List Speaker)) (gain : Rat)
    (b : List (List Rat)) (hb : ∀ fr ∈ b, fr.length = chans.length) :
    ∀ fr ∈ outBlock gain (speakers.map (fun sp => upmix sp chans)) b, fr.length = nChannels chans speakers := by
  intro fr hfr
  simp only [outBlock, List.mem_map] at hfr
  obtain ⟨fr0, hfr0, rfl⟩ := hfr
  cases speakers with
  | none => simp [nChannels, hb fr0 hfr0]
  | some sp => simp [nChannels, applyUpmix, upmix_length]

theorem outBlock_flatten (gain : Rat) (U : Option (List (List Rat))) (rendered : List (List (List Rat))) :
    (rendered.map (outBlock gain U)).flatten = outBlock gain U rendered.flatten := by
  induction rendered with
  | nil => simp [outBlock]
  | cons b bs ih =>
    simp only [List.map_cons, List.flatten_cons, ih]
    simp [outBlock]

/-- **The result does not depend on how the renderer's output is cut into blocks**: the written frames, the
channel count and the overload outcome of `run` on any sequence of blocks (one per `render` call plus the tail,
including empty ones) are those of `run` on their concatenation as a single block. -/
theorem run_blocking_invariant (chans : List String) (speakers : Option (List Speaker)) (gain : Rat) (f : Bool)
    (M : Int) (rendered : List (List (List Rat)))
    (hlen : ∀ b ∈ rendered, ∀ fr ∈ b, fr.length = chans.length) :
    (run chans speakers gain f M rendered).frames = (run chans speakers gain f M [rendered.flatten]).frames ∧
    (run chans speakers gain f M rendered).nChannels = (run chans speakers gain f M [rendered.flatten]).nChannels ∧
    (run chans speakers gain f M rendered).failed = (run chans speakers gain f M [rendered.flatten]).failed := by
  refine ⟨?_, rfl, ?_⟩
  · simp only [run, List.map_cons, List.map_nil, List.flatten_cons, List.flatten_nil, List.append_nil]
    rw [outBlock_flatten]
  · simp only [run]
    congr 1
    rw [Bool.eq_iff_iff]
    have h1 : ∀ b ∈ rendered.map (outBlock gain (speakers.map fun sp => upmix sp chans)), ∀ fr ∈ b,
        fr.length = nChannels chans speakers := by
      intro b hb fr hfr
      rw [List.mem_map] at hb
      obtain ⟨b0, hb0, rfl⟩ := hb
      exact outBlock_frame_len chans speakers gain b0 (hlen b0 hb0) fr hfr
    have h2 : ∀ b ∈ [rendered.flatten].map (outBlock gain (speakers.map fun sp => upmix sp chans)), ∀ fr ∈ b,
        fr.length = nChannels chans speakers := by
      intro b hb fr hfr
      simp only [List.map_cons, List.map_nil, List.mem_singleton] at hb
      subst hb
      refine outBlock_frame_len chans speakers gain _ ?_ fr hfr
      intro fr' hfr'
      rw [List.mem_flatten] at hfr'
      obtain ⟨b0, hb0, hfr0⟩ := hfr'
      exact hlen b0 hb0 fr' hfr0
    rw [overload_iff _ _ h1, overload_iff _ _ h2]
    simp only [List.map_cons, List.map_nil, List.mem_singleton, exists_eq_left]
    rw [← outBlock_flatten]
    simp only [List.mem_flatten]
    constructor
    · rintro ⟨b, hb, fr, hfr, x⟩
      exact ⟨fr, ⟨b, hb, hfr⟩, x⟩
    · rintro ⟨fr, ⟨b, hb, hfr⟩, x⟩
      exact ⟨b, hb, fr, hfr, x⟩

/-- **Fail-on-overload, in terms of the output samples.** `run` sets `failed` (where the real `run` raises
"error: output overloaded" after the file has been written) exactly when `fail_on_overload` is on and some sample of
the scaled, upmixed output (the concatenation of all blocks, before quantisation) has magnitude greater than 1. -/
theorem run_failed_iff_samples (chans : List String) (speakers : Option (List Speaker)) (gain : Rat) (f : Bool)
    (M : Int) (rendered : List (List (List Rat)))
    (hlen : ∀ b ∈ rendered, ∀ fr ∈ b, fr.length = chans.length) :
    (run chans speakers gain f M rendered).failed = true ↔
      f = true ∧ ∃ fr ∈ outBlock gain (speakers.map fun sp => upmix sp chans) rendered.flatten,
        ∃ x ∈ fr, 1 < rabs x := by
  have h1 : ∀ b ∈ rendered.map (outBlock gain (speakers.map fun sp => upmix sp chans)), ∀ fr ∈ b,
      fr.length = nChannels chans speakers := by
    intro b hb fr hfr
    rw [List.mem_map] at hb
    obtain ⟨b0, hb0, rfl⟩ := hb
    exact outBlock_frame_len chans speakers gain b0 (hlen b0 hb0) fr hfr
  rw [run_failed_iff]
  simp only [run]
  rw [overload_iff _ _ h1, ← outBlock_flatten]
  simp only [List.mem_flatten]
  constructor
  · rintro ⟨hf, b, hb, fr, hfr, x⟩
    exact ⟨hf, fr, ⟨b, hb, hfr⟩, x⟩
  · rintro ⟨hf, fr, ⟨b, hb, hfr⟩, x⟩
    exact ⟨hf, b, hb, fr, hfr, x⟩

/-- `run` with the channel count and the upmix matrix given directly, as `OfflineRenderDriver.run` has them after
`load_output_layout` (`n_channels`, `upmix`): `run` is this with `nChannels chans speakers` and
`speakers.map (upmix · chans)`. Used to state what a speakers file WITHOUT a `speakers` list does (`upmix = eye(n)`,
which is not of the form `upmix sp chans`). -/
def runU (n : Nat) (U : Option (List (List Rat))) (gain : Rat) (failOnOverload : Bool) (M : Int)
    (rendered : List (List (List Rat))) : Result :=
  let outs := rendered.map (outBlock gain U)
  let peak := outs.foldl peakBlock (List.replicate n 0)
  { nChannels := n
    frames := (outs.flatten).map (fun fr => fr.map (quantise M))
    peak := peak
    failed := failOnOverload && hasOverloaded peak }

theorem run_eq_runU (chans : List String) (speakers : Option (List Speaker)) (gain : Rat) (f : Bool) (M : Int)
    (rendered : List (List (List Rat))) :
    run chans speakers gain f M rendered =
      runU (nChannels chans speakers) (speakers.map fun sp => upmix sp chans) gain f M rendered := rfl

/-! Non-vacuity: a 0+2+0 layout routed through a speakers file that swaps the two
channels onto outputs 2 and 0 with gains 1/2 and 1; one loud sample overloads. -/
def exSpeakers : List Speaker := [⟨2, ["M+030"], 1/2⟩, ⟨0, ["M-030"], 1⟩]
example : upmix exSpeakers ["M+030", "M-030"] = [[0, 1], [0, 0], [1/2, 0]] := by decide +kernel
example : (run ["M+030", "M-030"] (some exSpeakers) 1 true 32767 [[[1, 3/2]], [], [[-1/4, 0]]]).frames
    = [[32767, 0, 16383], [0, 0, -4095]] := by decide +kernel
example : (run ["M+030", "M-030"] (some exSpeakers) 1 true 32767 [[[1, 3/2]], [], [[-1/4, 0]]]).failed = true := by
  decide +kernel

end Earverif.FileRender

/-! ## The speakers file, the selection glue (`Model/FileRenderLayout.lean`)

Everything below is about the transliteration of `load_real_layout`, `Layout.with_speakers` /
`with_real_layout`, `check_positions`, `check_upmix_matrix`, `load_output_layout`, `lookup_adm_element`,
`get_rendering_items`, on a parsed YAML value. Statements are for ALL values of the model's types; where the
code raises, the model returns `.error` and the theorems say which inputs those are. -/
namespace Earverif.FileRenderLayout
open Earverif.FileRender

/-- **Output channel count of a speakers file.** When `with_speakers` succeeds, every `channel` entry of the
file is an integer, there is at least one, the matrix has exactly `1 + max channel` rows (channels named by
no layout channel count too), every listed channel number is below that count, every row has one entry per
layout channel and the layout keeps its channels. -/
theorem speakers_file_channels {chans : List Channel} {sp : List RSpeaker} {chans' : List Channel}
    {U : List (List Rat)} (h : withSpeakers chans sp = .ok (chans', U)) :
    ∃ cs : List Int, cs.length = sp.length ∧ (∀ i (h1 : i < sp.length) (h2 : i < cs.length), sp[i].channel = .int cs[i]) ∧
      cs ≠ [] ∧ maxInt cs ∈ cs ∧ (U.length : Int) = maxInt cs + 1 ∧ (∀ c ∈ cs, c < (U.length : Int)) ∧
      (∀ row ∈ U, row.length = chans.length) ∧ chans'.length = chans.length ∧
      chans'.map (·.name) = chans.map (·.name) := by
  obtain ⟨cs, cols, hcs, hne, hout, hcols, rfl, rfl⟩ := withSpeakers_ok h
  have hm := maxInt_mem cs hne
  have hlen := mapE_ok_length _ _ _ hcols
  refine ⟨cs, mapE_ok_length _ _ _ hcs, ?_, hne, hm.1, ?_, ?_, ?_, ?_, ?_⟩
  · intro i h1 h2
    exact chanInt_ok (mapE_ok_get _ _ _ hcs i h1 h2)
  · simp only [List.length_map, List.length_range]; omega
  · intro c hc
    have := hm.2 c hc
    simp only [List.length_map, List.length_range]; omega
  · intro row hrow
    simp only [List.mem_map, List.mem_range] at hrow
    obtain ⟨o, _, rfl⟩ := hrow
    simp [hlen]
  · simp [hlen]
  · apply List.ext_getElem
    · simp [hlen]
    · intro i h1 h2
      simp only [List.getElem_map]
      have hi : i < chans.length := by simpa using h2
      have hi' : i < cols.length := by rw [hlen]; exact hi
      have hc := mapE_ok_get _ _ _ hcols i hi hi'
      rcases column_ok hc with ⟨_, e⟩ | ⟨s, c, row, g, _, _, _, _, e⟩
      · rw [e]
      · rw [e]; cases s.pos <;> rfl

/-- **Routing of a speakers file.** When `with_speakers` succeeds, for each layout channel `i`:
if no entry of the file lists its name the whole column is zero (the channel is silent, not rejected) and
the channel keeps its position; otherwise let `s` be the FIRST entry listing the name: its `channel` is an
integer `c` that resolves (Python indexing: `c`, or `c + rows` for `-rows ≤ c < 0`) to a row inside the matrix,
its gain is a number `g`, the column holds `g` in that row and zero everywhere else, and the channel takes the
entry's position if it has one. -/
theorem speakers_file_routing {chans : List Channel} {sp : List RSpeaker} {chans' : List Channel}
    {U : List (List Rat)} (h : withSpeakers chans sp = .ok (chans', U)) (i : Nat) (hi : i < chans.length) :
    (findRSpeaker sp chans[i].name = none ∧ (∀ o, entry U o i = 0) ∧ chans'[i]? = some chans[i]) ∨
    ∃ s c row g, findRSpeaker sp chans[i].name = some s ∧ s.channel = .int c ∧
      pyIndex U.length c = .ok row ∧ row < U.length ∧ gainValue s.gain = .ok g ∧
      (∀ o, entry U o i = if o = row then g else 0) ∧
      chans'[i]? = some (match s.pos with
        | some p => { chans[i] with pos := p }
        | none => chans[i]) := by
  obtain ⟨cs, cols, hcs, hne, hout, hcols, rfl, rfl⟩ := withSpeakers_ok h
  have hlen := mapE_ok_length _ _ _ hcols
  have hi' : i < cols.length := by rw [hlen]; exact hi
  have hc := mapE_ok_get _ _ _ hcols i hi hi'
  have hU : ((List.range (maxInt cs + 1).toNat).map fun o => cols.map fun c => entryOf o c.1).length
      = (maxInt cs + 1).toNat := by simp
  have hentry : ∀ o, entry ((List.range (maxInt cs + 1).toNat).map fun o => cols.map fun c => entryOf o c.1) o i
      = if o < (maxInt cs + 1).toNat then entryOf o cols[i].1 else 0 := by
    intro o
    unfold entry
    by_cases ho : o < (maxInt cs + 1).toNat
    · simp [List.getD, ho, hi']
    · simp [List.getD, ho]
  rcases column_ok hc with ⟨hf, e⟩ | ⟨s, c, row, g, hf, hch, hrow, hg, e⟩
  · left
    refine ⟨hf, ?_, ?_⟩
    · intro o; rw [hentry, e]; simp [entryOf]
    · simp [hi', e]
  · right
    have hlt := pyIndex_lt hrow
    refine ⟨s, c, row, g, hf, hch, by rw [hU]; exact hrow, by rw [hU]; exact hlt, hg, ?_, ?_⟩
    · intro o
      rw [hentry, e]
      simp only [entryOf]
      by_cases ho : o = row
      · subst ho; simp [hlt]
      · have : ¬ row = o := fun h => ho h.symm
        simp [ho, this]
    · have hget : (List.map (fun x => x.2) cols)[i]? = some cols[i].2 := by simp [hi']
      rw [hget, e]
      cases s.pos <;> rfl

/-- **Columns of a speakers-file matrix.** A column never has more than one non-zero entry (so the message
"mapped to multiple outputs" cannot occur for a matrix built by `with_speakers`); it has none exactly when no
entry of the file lists the channel's name or the first entry that does has gain 0. -/
theorem speakers_file_column_nnz {chans : List Channel} {sp : List RSpeaker} {chans' : List Channel}
    {U : List (List Rat)} (h : withSpeakers chans sp = .ok (chans', U)) (i : Nat) (hi : i < chans.length) :
    nnz (colOf U i) ≤ 1 ∧
    (nnz (colOf U i) = 1 ↔ ∃ s g, findRSpeaker sp chans[i].name = some s ∧ gainValue s.gain = .ok g ∧ g ≠ 0) := by
  rw [colOf_eq_entries]
  unfold nnz
  rw [List.countP_map]
  rcases speakers_file_routing h i hi with ⟨hf, hz, _⟩ | ⟨s, c, row, g, hf, _, _, hlt, hg, hz, _⟩
  · have e : ((fun x : Rat => x != 0) ∘ fun o => entry U o i) = fun _ => false := by
      funext o; simp [hz o]
    rw [e]
    simp [hf]
  · have e : ((fun x : Rat => x != 0) ∘ fun o => entry U o i) = fun o => (if o = row then g else 0) != 0 := by
      funext o; simp [hz o]
    rw [e, countP_single]
    by_cases hg0 : g = 0
    · simp [hg0, hf, hg]
    · simp [hg0, hf, hg, hlt]

/-- **What `check_upmix_matrix` accepts.** It emits no message exactly for the matrices in which every
column (layout channel) has exactly one non-zero entry and every row (output channel) at most one. -/
theorem upmix_check_iff (names : List String) (U : List (List Rat)) :
    checkUpmix names U = [] ↔
      (∀ i, i < names.length → nnz (colOf U i) = 1) ∧ (∀ row ∈ U, nnz row ≤ 1) := by
  unfold checkUpmix
  rw [List.append_eq_nil_iff, List.flatMap_eq_nil_iff, List.flatMap_eq_nil_iff]
  constructor
  · rintro ⟨h1, h2⟩
    constructor
    · intro i hi
      have := h1 (names[i], i) (by rw [List.mem_zipIdx_iff_getElem?]; simp [hi])
      simp only [nonzeroIdx_length, List.append_eq_nil_iff] at this
      obtain ⟨a, b⟩ := this
      by_cases h0 : nnz (colOf U i) = 0
      · simp [h0] at a
      · by_cases h2 : nnz (colOf U i) > 1
        · simp [h2] at b
        · omega
    · intro row hrow
      obtain ⟨o, ho, rfl⟩ := List.getElem_of_mem hrow
      have := h2 (U[o], o) (by rw [List.mem_zipIdx_iff_getElem?]; simp [ho])
      simp only [nonzeroIdx_length] at this
      by_cases h2 : nnz U[o] > 1
      · simp [h2] at this
      · omega
  · rintro ⟨h1, h2⟩
    constructor
    · rintro ⟨name, i⟩ hm
      rw [List.mem_zipIdx_iff_getElem?] at hm
      have hi : i < names.length := by
        by_contra hc
        simp [List.getElem?_eq_none (Nat.le_of_not_lt hc)] at hm
      simp [nonzeroIdx_length, h1 i hi]
    · rintro ⟨row, o⟩ hm
      rw [List.mem_zipIdx_iff_getElem?] at hm
      have hrow : row ∈ U := List.mem_of_getElem? hm
      have := h2 row hrow
      simp only [nonzeroIdx_length]
      rw [if_neg (by omega)]

/-- **When the speakers file passes `check_upmix_matrix` silently**: exactly when every layout channel is listed
by an entry whose (first such) gain is non-zero and no output channel receives two layout channels. -/
theorem speakers_file_check_clean_iff {chans : List Channel} {sp : List RSpeaker} {chans' : List Channel}
    {U : List (List Rat)} (h : withSpeakers chans sp = .ok (chans', U)) :
    checkUpmix (chans.map (·.name)) U = [] ↔
      (∀ i (hi : i < chans.length), ∃ s g, findRSpeaker sp chans[i].name = some s ∧ gainValue s.gain = .ok g ∧ g ≠ 0) ∧
      (∀ row ∈ U, nnz row ≤ 1) := by
  rw [upmix_check_iff]
  simp only [List.length_map]
  constructor
  · rintro ⟨h1, h2⟩
    exact ⟨fun i hi => ((speakers_file_column_nnz h i hi).2).mp (h1 i hi), h2⟩
  · rintro ⟨h1, h2⟩
    exact ⟨fun i hi => ((speakers_file_column_nnz h i hi).2).mpr (h1 i hi), h2⟩

/-- **Speaker entries.** An accepted entry is a mapping with `names` and `channel` (both required: a missing
one is an error, there is no default channel index); `names` may be a list or a single value; `gain_linear`
defaults to 1; `position`, when present, must parse; any other key is ignored. -/
theorem parse_speaker_spec {y : Y} {s : RSpeaker} (h : parseSpeaker y = .ok s) :
    ∃ kvs nm, y = .dict kvs ∧ lookup "names" kvs = some nm ∧ s.names = namesOf nm ∧
      lookup "channel" kvs = some s.channel ∧
      s.gain = (lookup "gain_linear" kvs).getD (.num 1) ∧
      (match lookup "position" kvs with
        | none => s.pos = none
        | some p => ∃ pp, parsePolar p = .ok pp ∧ s.pos = some pp) := by
  unfold parseSpeaker at h
  split at h
  · rename_i kvs
    split at h
    · cases h
    · rename_i nm hnm
      split at h
      · cases h
      · rename_i ch hch
        split at h
        · rename_i hp
          cases h
          refine ⟨kvs, nm, rfl, hnm, rfl, hch, rfl, ?_⟩
          rw [hp]
        · rename_i p hp
          split at h
          · cases h
          · rename_i pp hpp
            cases h
            refine ⟨kvs, nm, rfl, hnm, rfl, hch, rfl, ?_⟩
            rw [hp]
            exact ⟨pp, hpp, rfl⟩
  · cases h

/-- **Real positions.** An accepted `position` is a mapping with exactly the keys `az`, `el`, `r` whose values
lie in [-180, 180], [-90, 90] and [0, ∞): anything else (other/missing keys, out of range) is an error. -/
theorem parse_polar_spec {y : Y} {p : PolarPos} (h : parsePolar y = .ok p) :
    ∃ kvs a e r, y = .dict kvs ∧ keysAre kvs ["az", "el", "r"] = true ∧
      lookup "az" kvs = some a ∧ lookup "el" kvs = some e ∧ lookup "r" kvs = some r ∧
      toFloat a = .ok p.az ∧ toFloat e = .ok p.el ∧ toFloat r = .ok p.r ∧
      -180 ≤ p.az ∧ p.az ≤ 180 ∧ -90 ≤ p.el ∧ p.el ≤ 90 ∧ 0 ≤ p.r := by
  unfold parsePolar at h
  split at h
  · rename_i kvs
    split at h
    · rename_i hk
      split at h
      · rename_i a e r ha he hr
        split at h
        · cases h
        · rename_i az haz
          split at h
          · cases h
          · rename_i el hel
            split at h
            · cases h
            · rename_i d hd
              split at h
              · rename_i hr'
                cases h
                exact ⟨kvs, a, e, r, rfl, hk, ha, he, hr, haz, hel, hd, hr'.1, hr'.2.1, hr'.2.2.1, hr'.2.2.2.1, hr'.2.2.2.2⟩
              · cases h
      · cases h
    · cases h
  · cases h

/-- **`screen:` absent, null or given** (dict form of the file). Absent: the default screen. `null`: no
screen (screen-related processing off). Given: whatever `parse_yaml_screen` makes of it, which is always a
screen. The list form of the file has no place for a screen and gets the default. -/
theorem screen_null_vs_absent (dflt : Screen) (kvs : List (String × Y)) (rl : RealLayout)
    (h : loadRealLayout dflt (.dict kvs) = .ok rl) :
    (lookup "screen" kvs = none → rl.screen = some dflt) ∧
    (lookup "screen" kvs = some .null → rl.screen = none) ∧
    (∀ v, lookup "screen" kvs = some v → parseScreen v = .ok rl.screen) ∧
    (∀ v, lookup "screen" kvs = some v → v ≠ .null → ∃ s, rl.screen = some s) := by
  unfold loadRealLayout at h
  simp only at h
  split at h
  · cases h
  · rename_i sp _
    have key : ∀ v, lookup "screen" kvs = some v → parseScreen v = .ok rl.screen := by
      intro v hv
      rw [hv] at h
      simp only at h
      split at h
      · cases h
      · rename_i sc hsc; cases h; exact hsc
    refine ⟨?_, ?_, key, ?_⟩
    · intro hn; rw [hn] at h; cases h; rfl
    · intro hn
      have := key _ hn
      simp [parseScreen] at this
      exact this.symm
    · intro v hv hnn
      exact parseScreen_some (key v hv) hnn

theorem screen_list_form (dflt : Screen) (xs : List Y) (rl : RealLayout)
    (h : loadRealLayout dflt (.list xs) = .ok rl) : rl.screen = some dflt := by
  unfold loadRealLayout at h
  simp only at h
  split at h
  · cases h
  · have : lookup "screen" [("speakers", Y.list xs)] = none := by simp [lookup]
    rw [this] at h
    cases h; rfl

/-- `with_real_layout` always installs the real layout's screen: the screen of the BS.2051 layout object is
never kept (so `null` really removes it). -/
theorem with_real_layout_screen {chans : List Channel} {rl : RealLayout} {cs : List Channel}
    {sc : Option Screen} {U : List (List Rat)} (h : withRealLayout chans rl = .ok (cs, sc, U)) :
    sc = rl.screen := by
  unfold withRealLayout at h
  split at h
  · cases h; rfl
  · split at h
    · cases h
    · cases h; rfl

/-- The three screen forms seen through `load_output_layout`, and the no-file case. -/
theorem load_output_layout_screen (dflt : Screen) (layScreen : Option Screen) (chans : List Channel) :
    (∀ o, loadOutputLayout dflt layScreen chans none = .ok o →
        o.screen = layScreen ∧ o.upmix = none ∧ o.nChannels = chans.length ∧ o.chans = chans ∧ o.warnings = []) ∧
    (∀ kvs o, loadOutputLayout dflt layScreen chans (some (.dict kvs)) = .ok o →
        (lookup "screen" kvs = none → o.screen = some dflt) ∧
        (lookup "screen" kvs = some .null → o.screen = none)) := by
  constructor
  · intro o h
    simp only [loadOutputLayout] at h
    cases h
    exact ⟨rfl, rfl, rfl, rfl, rfl⟩
  · intro kvs o h
    simp only [loadOutputLayout] at h
    split at h
    · cases h
    · rename_i rl hrl
      split at h
      · cases h
      · rename_i cs sc U hw
        cases h
        have hs := with_real_layout_screen hw
        have := screen_null_vs_absent dflt kvs rl hrl
        simp only [hs]
        exact ⟨this.1, this.2.1⟩

/-- **`inside_angle_range` on a range given as the data files give it** (`start ≤ end ≤ start + 360`, true of
every BS.2051 channel): `x` is inside exactly when some whole-turn representative of `x` lies in `[start, end]`
(so `(-180, 180)` is the whole circle, `(180, 180)` the single direction ±180). -/
theorem inside_angle_range_iff (x s e : Rat) (h1 : s ≤ e) (h2 : e ≤ s + 360) :
    insideAngleRange x s e = true ↔ ∃ k : Int, s ≤ x + 360 * (k : Rat) ∧ x + 360 * (k : Rat) ≤ e := by
  obtain ⟨x1, x2, k, hk⟩ := normX_spec s x
  obtain ⟨_, _, _, he⟩ := normEnd_spec s e
  unfold insideAngleRange
  rw [he h1 h2, decide_eq_true_iff]
  constructor
  · intro h
    exact ⟨k, by rw [← hk]; exact x1, by rw [← hk]; exact h⟩
  · rintro ⟨k', a, b⟩
    by_cases hlt : x + 360 * (k' : Rat) < s + 360
    · have e1 : (((k - k' : Int)) : Rat) < 1 := by push_cast; linarith
      have e2 : (-1 : Rat) < (((k - k' : Int)) : Rat) := by push_cast; linarith
      have e1' : k - k' < 1 := by exact_mod_cast e1
      have e2' : -1 < k - k' := by exact_mod_cast e2
      have : k = k' := by omega
      rw [hk, this]; exact b
    · linarith

/-- **`check_position`**: a channel (with ranges as in the data files) is reported exactly when no whole-turn
representative of its real azimuth lies in its azimuth range, resp. its real elevation is outside its elevation range. -/
theorem check_position_iff (c : Channel) (h1 : c.azLo ≤ c.azHi) (h2 : c.azHi ≤ c.azLo + 360) :
    (Warn.az c.name ∈ checkPosition c ↔ ¬ ∃ k : Int, c.azLo ≤ c.pos.az + 360 * (k : Rat) ∧ c.pos.az + 360 * (k : Rat) ≤ c.azHi) ∧
    (Warn.el c.name ∈ checkPosition c ↔ ¬ (c.elLo ≤ c.pos.el ∧ c.pos.el ≤ c.elHi)) ∧
    (∀ w ∈ checkPosition c, w = Warn.az c.name ∨ w = Warn.el c.name) := by
  have hi := inside_angle_range_iff c.pos.az c.azLo c.azHi h1 h2
  unfold checkPosition
  refine ⟨?_, ?_, ?_⟩
  · rw [← hi]
    by_cases ha : insideAngleRange c.pos.az c.azLo c.azHi = true
    · by_cases hb : c.elLo ≤ c.pos.el ∧ c.pos.el ≤ c.elHi <;> simp [ha, hb]
    · by_cases hb : c.elLo ≤ c.pos.el ∧ c.pos.el ≤ c.elHi <;> simp [ha, hb]
  · by_cases ha : insideAngleRange c.pos.az c.azLo c.azHi = true
    · by_cases hb : c.elLo ≤ c.pos.el ∧ c.pos.el ≤ c.elHi <;> simp [ha, hb]
    · by_cases hb : c.elLo ≤ c.pos.el ∧ c.pos.el ≤ c.elHi <;> simp [ha, hb]
  · intro w hw
    rw [List.mem_append] at hw
    rcases hw with hw | hw
    · by_cases ha : insideAngleRange c.pos.az c.azLo c.azHi = true
      · simp [ha] at hw
      · simp only [ha] at hw
        exact Or.inl (by simpa using hw)
    · by_cases hb : c.elLo ≤ c.pos.el ∧ c.pos.el ≤ c.elHi
      · simp [hb] at hw
      · simp only [hb] at hw
        exact Or.inr (by simpa using hw)

/-- **The parsed speakers file routes exactly as the `FileRender` glue model says.** If every entry has a
non-negative integer channel and a numeric gain (so that `toSpeakers` is defined) and `with_speakers` succeeds,
its matrix is `FileRender.upmix` of those speakers over the layout's channel names, and its row count is
`FileRender.nChannels` — the quantities `FileRender.run` and its theorems are stated about. -/
theorem with_speakers_eq_upmix {chans : List Channel} {sp : List RSpeaker} {chans' : List Channel}
    {U : List (List Rat)} (h : withSpeakers chans sp = .ok (chans', U)) {sp' : List Speaker}
    (hs : toSpeakers sp = some sp') :
    U = upmix sp' (chans.map (·.name)) ∧ U.length = nChannels (chans.map (·.name)) (some sp') := by
  obtain ⟨cs, cols, hcs, hne, hout, hcols, rfl, rfl⟩ := withSpeakers_ok h
  have hlen := mapE_ok_length _ _ _ hcols
  have hcs' := chans_bridge sp sp' cs hs hcs
  have hne' : sp'.map (·.channel) ≠ [] := by
    intro e
    apply hne
    rw [hcs']
    simp only [List.map_eq_nil_iff] at e ⊢
    exact e
  have hout' : (maxInt cs + 1).toNat = outChannels sp' := by
    unfold outChannels
    have := maxInt_cast (sp'.map (·.channel)) hne'
    rw [List.map_map] at this
    rw [hcs']
    have e : (fun s : Speaker => Int.ofNat s.channel) = Int.ofNat ∘ fun x => x.channel := by
      funext s; rfl
    rw [e, this]
    simp
  refine ⟨?_, ?_⟩
  · unfold upmix
    rw [hout']
    apply List.map_congr_left
    intro o ho
    apply List.ext_getElem
    · simp [hlen]
    · intro i h1 h2
      have hi : i < chans.length := by simpa using h2
      have hi' : i < cols.length := by rw [hlen]; exact hi
      have hc := mapE_ok_get _ _ _ hcols i hi hi'
      simp only [List.getElem_map]
      rcases column_ok hc with ⟨hf, e⟩ | ⟨s, c, row, g, hf, hch, hrow, hg, e⟩
      · rcases find_bridge chans[i].name sp sp' hs with ⟨_, b⟩ | ⟨t, t', a, _, _⟩
        · rw [e]; simp [entryOf, upmixEntry, b]
        · rw [hf] at a; cases a
      · rcases find_bridge chans[i].name sp sp' hs with ⟨a, _⟩ | ⟨t, t', a, b, ht⟩
        · rw [hf] at a; cases a
        · rw [hf] at a; cases a
          obtain ⟨c', g', hc', h0, hg', hch', hgain, _⟩ := toSpeaker_spec ht
          rw [hch] at hc'; cases hc'
          rw [hg] at hg'; cases hg'
          have hrow' : row = c.toNat := by
            unfold pyIndex at hrow
            split at hrow
            · cases hrow; rfl
            · split at hrow
              · omega
              · cases hrow
          rw [e]
          simp only [entryOf, upmixEntry, b, hch', hgain, hrow']
  · simp [nChannels, hout']

/-- `np.eye(n)` as upmix leaves every frame as it is (a speakers file without a `speakers` list changes the
screen only). -/
theorem eye_identity (n : Nat) (frame : List Rat) (h : frame.length = n) : applyUpmix (eye n) frame = frame := by
  unfold applyUpmix eye
  rw [List.map_map]
  apply List.ext_getElem
  · simp [h]
  · intro o h1 h2
    have ho : o < n := by simpa using h1
    simp only [List.getElem_map, List.getElem_range, Function.comp]
    rw [eye_row n o ho, dot_single 1 frame o n h ho]
    have : o < frame.length := by omega
    simp [List.getD, this]

/-- One output block with `upmix = eye(n)` is the block without upmix (frames of `n` samples). -/
theorem outBlock_eye (gain : Rat) (n : Nat) (b : List (List Rat)) (hb : ∀ fr ∈ b, fr.length = n) :
    outBlock gain (some (eye n)) b = outBlock gain none b := by
  simp only [outBlock]
  apply List.map_congr_left
  intro fr hfr
  exact eye_identity n _ (by simp [hb fr hfr])

/-- **A speakers file without a `speakers` list gives the same run as no speakers file.** With
`n_channels = len(layout.channels)` and `upmix = eye(n_channels)` (what `load_output_layout` returns for such a file:
`load_output_layout_spec`), the whole result record of the run — channel count, written codes, peaks, failure — is that
of `run` with `speakers = none`, for every sequence of renderer blocks with one sample per layout channel. This is why
`FileRender.run` / `runFile` need no separate case for it. -/
theorem run_eye_upmix (chans : List String) (gain : Rat) (f : Bool) (M : Int) (rendered : List (List (List Rat)))
    (hlen : ∀ b ∈ rendered, ∀ fr ∈ b, fr.length = chans.length) :
    runU chans.length (some (eye chans.length)) gain f M rendered = run chans none gain f M rendered := by
  have e : rendered.map (outBlock gain (some (eye chans.length))) = rendered.map (outBlock gain none) :=
    List.map_congr_left fun b hb => outBlock_eye gain _ b (hlen b hb)
  simp only [run, runU, nChannels, Option.map_none, e]

/-- Non-vacuity / evaluation: two frames through `eye 2` with gain 1/2 and an overload. -/
example : runU 2 (some (eye 2)) (1/2) true 32767 [[[1, 3]], [], [[-1/4, 0]]] =
    run ["M+030", "M-030"] none (1/2) true 32767 [[[1, 3]], [], [[-1/4, 0]]] ∧
    (run ["M+030", "M-030"] none (1/2) true 32767 [[[1, 3]], [], [[-1/4, 0]]]).frames = [[16383, 32767], [-4095, 0]] ∧
    (run ["M+030", "M-030"] none (1/2) true 32767 [[[1, 3]], [], [[-1/4, 0]]]).failed = true := by
  refine ⟨run_eye_upmix ["M+030", "M-030"] (1/2) true 32767 [[[1, 3]], [], [[-1/4, 0]]] (by decide),
    by decide +kernel, by decide +kernel⟩

/-- **`load_output_layout` with a speakers file, as `FileRender.run` sees it.** If the call succeeds, the file
was accepted by `load_real_layout`; without a `speakers` list the matrix is the identity on the layout's channels
and the channel count is the layout's; with a list whose entries have non-negative integer channels and numeric
gains, the matrix and channel count are `FileRender.upmix` / `FileRender.nChannels` of those speakers. The
positions and the matrix have been through `check_positions` / `check_upmix_matrix` (messages only, never an error). -/
theorem load_output_layout_spec (dflt : Screen) (layScreen : Option Screen) (chans : List Channel) (y : Y)
    (o : OutLayout) (h : loadOutputLayout dflt layScreen chans (some y) = .ok o) :
    ∃ rl U, loadRealLayout dflt y = .ok rl ∧ o.upmix = some U ∧ o.nChannels = U.length ∧ o.screen = rl.screen ∧
      o.warnings = checkPositions o.chans ++ checkUpmix (o.chans.map (·.name)) U ∧
      (rl.speakers = none → U = eye chans.length ∧ o.chans = chans ∧ o.nChannels = chans.length) ∧
      (∀ sp sp', rl.speakers = some sp → toSpeakers sp = some sp' →
        U = upmix sp' (chans.map (·.name)) ∧ o.nChannels = nChannels (chans.map (·.name)) (some sp') ∧
        o.chans.map (·.name) = chans.map (·.name)) := by
  simp only [loadOutputLayout] at h
  split at h
  · cases h
  · rename_i rl hrl
    split at h
    · cases h
    · rename_i cs sc U hw
      cases h
      refine ⟨rl, U, hrl, rfl, rfl, ?_, rfl, ?_, ?_⟩
      · unfold withRealLayout at hw
        split at hw
        · cases hw; rfl
        · split at hw
          · cases hw
          · cases hw; rfl
      · intro hn
        unfold withRealLayout at hw
        rw [hn] at hw
        cases hw
        exact ⟨rfl, rfl, by simp [eye]⟩
      · intro sp sp' hsp hts
        unfold withRealLayout at hw
        rw [hsp] at hw
        simp only at hw
        split at hw
        · cases hw
        · rename_i cs' U' hws
          cases hw
          have := with_speakers_eq_upmix hws hts
          exact ⟨this.1, this.2, (speakers_file_channels hws).choose_spec.2.2.2.2.2.2.2.2⟩

/-- **Programme / object lookup is total and never defaults.** With an id given, `lookup_adm_element`
either returns the FIRST element of the document whose id matches (ignoring case) provided it has the requested
type, or raises: `KeyError` exactly when no element has that id, `ValueError` exactly when the first match is of
another type. Only a missing id (`None`) gives `None` (the renderer's default programme choice). -/
theorem programme_lookup_total (adm : List Elem) (id : String) (kind : Kind) :
    (lookupAdmElement adm none kind = .ok none) ∧
    (lookupAdmElement adm (some id) kind ≠ .ok none) ∧
    (∀ e, lookupAdmElement adm (some id) kind = .ok (some e) ↔
        (adm.find? (idMatches id) = some e ∧ e.kind = kind)) ∧
    (lookupAdmElement adm (some id) kind = .error (.keyError id) ↔ ∀ e ∈ adm, idMatches id e = false) ∧
    (lookupAdmElement adm (some id) kind = .error (.valueError id) ↔
        ∃ e, adm.find? (idMatches id) = some e ∧ e.kind ≠ kind) := by
  have hl : lookupElement adm id = adm.find? (idMatches id) := rfl
  refine ⟨rfl, ?_, ?_, ?_, ?_⟩
  · simp only [lookupAdmElement, hl]
    cases adm.find? (idMatches id) with
    | none => simp
    | some e => by_cases hk : e.kind = kind <;> simp [hk]
  · intro e
    simp only [lookupAdmElement, hl]
    cases adm.find? (idMatches id) with
    | none => simp
    | some e' =>
      by_cases hk : e'.kind = kind
      · simp only [hk, if_true]
        constructor
        · intro h; cases h; exact ⟨rfl, hk⟩
        · rintro ⟨h, _⟩; cases h; rfl
      · simp only [hk, if_false]
        constructor
        · intro h; cases h
        · rintro ⟨h, h2⟩; cases h; exact absurd h2 hk
  · simp only [lookupAdmElement, hl]
    cases hf : adm.find? (idMatches id) with
    | none =>
      simp only [true_iff]
      intro e he
      have := List.find?_eq_none.mp hf e he
      simpa using this
    | some e' =>
      have hm := List.mem_of_find?_eq_some hf
      have hp := List.find?_some hf
      by_cases hk : e'.kind = kind
      · simp only [hk, if_true]
        constructor
        · intro h; cases h
        · intro h; rw [h e' hm] at hp; cases hp
      · simp only [hk, if_false]
        constructor
        · intro h; cases h
        · intro h; rw [h e' hm] at hp; cases hp
  · simp only [lookupAdmElement, hl]
    cases adm.find? (idMatches id) with
    | none => simp
    | some e' =>
      by_cases hk : e'.kind = kind
      · simp [hk]
      · simp [hk]

/-- `get_complementary_objects`: all ids resolve (in order) or the call raises. -/
theorem lookupAll_ok (adm : List Elem) (kind : Kind) : ∀ (ids : List String) (es : List Elem),
    lookupAll adm kind ids = .ok es →
      es.length = ids.length ∧
      ∀ j (h1 : j < ids.length) (h2 : j < es.length), lookupAdmElement adm (some ids[j]) kind = .ok (some es[j]) := by
  intro ids
  induction ids with
  | nil => intro es h; simp [lookupAll] at h; subst h; simp
  | cons i is ih =>
    intro es h
    simp only [lookupAll] at h
    split at h
    · cases h
    · cases h
    · rename_i e he
      split at h
      · cases h
      · rename_i es' hes
        cases h
        obtain ⟨l, g⟩ := ih es' hes
        refine ⟨by simp [l], ?_⟩
        intro j h1 h2
        cases j with
        | zero => simpa using he
        | succ j => simpa using g j (by simpa using h1) (by simpa using h2)

/-- **`get_rendering_items` = lookups, then select, preprocess, convert — in that order, nothing else.**
The call succeeds with `r` exactly when the programme id and every complementary-object id resolve to elements of
the right type and the three stages succeed on exactly those elements; a failed lookup is the error of the whole
call whatever the later stages would do (no silent fallback to another programme). -/
theorem get_rendering_items_spec {I : Type} (select : Option Elem → List Elem → Except LErr I)
    (preprocess toCart toPolar : I → Except LErr I) (adm : List Elem) (pid : Option String)
    (compIds : List String) (mode : Option String) (r : I) :
    getRenderingItems select preprocess toCart toPolar adm pid compIds mode = .ok r ↔
      ∃ prog comps i1 i2, lookupAdmElement adm pid .programme = .ok prog ∧
        lookupAll adm .object compIds = .ok comps ∧ select prog comps = .ok i1 ∧ preprocess i1 = .ok i2 ∧
        applyConversion toCart toPolar mode i2 = .ok r := by
  unfold getRenderingItems
  constructor
  · intro h
    split at h
    · cases h
    · rename_i prog hp
      split at h
      · cases h
      · rename_i comps hc
        split at h
        · cases h
        · rename_i i1 h1
          split at h
          · cases h
          · rename_i i2 h2
            exact ⟨prog, comps, i1, i2, hp, hc, h1, h2, h⟩
  · rintro ⟨prog, comps, i1, i2, hp, hc, h1, h2, h⟩
    simp only [hp, hc, h1, h2, h]

theorem get_rendering_items_lookup_error {I : Type} (select : Option Elem → List Elem → Except LErr I)
    (preprocess toCart toPolar : I → Except LErr I) (adm : List Elem) (pid : Option String)
    (compIds : List String) (mode : Option String) :
    (∀ e, lookupAdmElement adm pid .programme = .error e →
      getRenderingItems select preprocess toCart toPolar adm pid compIds mode = .error e) ∧
    (∀ prog e, lookupAdmElement adm pid .programme = .ok prog → lookupAll adm .object compIds = .error e →
      getRenderingItems select preprocess toCart toPolar adm pid compIds mode = .error e) := by
  constructor
  · intro e h; simp only [getRenderingItems, h]
  · intro prog e h1 h2; simp only [getRenderingItems, h1, h2]

/-- `apply_conversion`: no mode = identity; the two named modes call the respective conversion; anything else
trips the `assert`. -/
theorem apply_conversion_spec {I : Type} (toCart toPolar : I → Except LErr I) (items : I) :
    applyConversion toCart toPolar none items = .ok items ∧
    applyConversion toCart toPolar (some "to_cartesian") items = toCart items ∧
    applyConversion toCart toPolar (some "to_polar") items = toPolar items ∧
    ∀ m, m ≠ "to_cartesian" → m ≠ "to_polar" → applyConversion toCart toPolar (some m) items = .error .assertion := by
  refine ⟨rfl, by simp [applyConversion], by simp [applyConversion], ?_⟩
  intro m h1 h2
  simp [applyConversion, h1, h2]

/-! ### Non-vacuity: concrete speakers files and lookups satisfying the hypotheses above -/

def exDflt : Screen := .polar (89 / 50) ⟨0, 0, 1⟩ 58
def exChans : List Channel :=
  [⟨"M+030", ⟨30, 0, 1⟩, 30, 30, 0, 0⟩, ⟨"M-030", ⟨-30, 0, 1⟩, -30, -30, 0, 0⟩]

/-- `speakers: [{channel: 2, names: M+030, gain_linear: 0.5, position: {az: 31, el: 0, r: 2}},
{channel: 0, names: [M-030, X], ignored: 1}]`, `screen: null`. -/
def exFile : Y := .dict [
  ("speakers", .list [
    .dict [("channel", .int 2), ("names", .str "M+030"), ("gain_linear", .num (1 / 2)),
           ("position", .dict [("az", .int 31), ("el", .num 0), ("r", .int 2)])],
    .dict [("names", .list [.str "M-030", .str "X"]), ("channel", .int 0), ("ignored", .int 1)]]),
  ("screen", .null)]

/-- The whole front end on that file: 3 output channels, routing matrix, the moved loudspeaker, no screen, and
the azimuth message for the loudspeaker placed outside its (single-direction) range. -/
def exOut : Option OutLayout := (loadOutputLayout exDflt (some exDflt) exChans (some exFile)).toOption
example : exOut.map (·.nChannels) = some 3 := by decide +kernel
example : exOut.map (·.upmix) = some (some [[0, 1], [0, 0], [1 / 2, 0]]) := by decide +kernel
example : exOut.map (fun o => o.chans.map (·.pos)) = some [⟨31, 0, 2⟩, ⟨-30, 0, 1⟩] := by decide +kernel
example : exOut.map (·.screen) = some none := by decide +kernel
example : exOut.map (·.warnings) = some [Warn.az "M+030"] := by decide +kernel

/-- Hypotheses of `speakers_file_channels` / `_routing` / `with_speakers_eq_upmix` hold for its speakers. -/
def exSp : List RSpeaker :=
  [⟨.int 2, [.str "M+030"], some ⟨31, 0, 2⟩, .num (1 / 2)⟩, ⟨.int 0, [.str "M-030", .str "X"], none, .num 1⟩]
example : (loadRealLayout exDflt exFile).toOption.map
      (fun rl => rl.speakers.map (·.map fun s => (s.pos, (toSpeaker s).map (·.names)))) =
    some (some (exSp.map fun s => (s.pos, (toSpeaker s).map (·.names)))) := by decide +kernel
example : (withSpeakers exChans exSp).toOption.isSome = true ∧
    (toSpeakers exSp).map (·.map fun s => (s.channel, s.names, s.gain)) =
      some [(2, ["M+030"], 1 / 2), (0, ["M-030", "X"], 1)] := by decide +kernel

/-- Absent `screen` key (list form of the file): the default screen. -/
example : (loadRealLayout exDflt (.list [.dict [("channel", .int 0), ("names", .str "M+030")]])).toOption.map (·.screen)
    = some (some exDflt) := by decide +kernel

/-- Error branches: missing `channel`, position with an extra key, azimuth out of range, unknown screen type,
a top-level scalar; a negative channel that does not wrap; an empty speakers list. -/
example : (parseSpeaker (.dict [("names", .str "M+030")])).toOption.isNone = true := by decide +kernel
example : (parsePolar (.dict [("az", .int 0), ("el", .int 0), ("r", .int 1), ("x", .int 1)])).toOption.isNone = true := by
  decide +kernel
example : (parsePolar (.dict [("az", .num (361 / 2)), ("el", .int 0), ("r", .int 1)])).toOption.isNone = true := by
  decide +kernel
example : (parseScreen (.dict [("type", .str "other")])).toOption.isNone = true := by decide +kernel
example : (loadRealLayout exDflt (.int 3)).toOption.isNone = true := by decide +kernel
example : (withSpeakers exChans [⟨.int (-3), [.str "M+030"], none, .num 1⟩, ⟨.int 1, [.str "M-030"], none, .num 1⟩]).toOption.isNone
    = true := by decide +kernel
example : (withSpeakers exChans []).toOption.isNone = true := by decide +kernel
/-- ... and a negative channel that does wrap (`-1` is the last output channel), as numpy indexing has it. -/
example : (withSpeakers exChans [⟨.int (-1), [.str "M+030"], none, .num 1⟩, ⟨.int 1, [.str "M-030"], none, .num 1⟩]).toOption.map (·.2)
    = some [[0, 0], [1, 1]] := by decide +kernel

/-- `check_upmix_matrix`: a permutation with gains is clean; a shared output and an unmapped channel are reported. -/
example : checkUpmix ["a", "b"] [[0, 2], [1 / 2, 0]] = [] := by decide +kernel
example : checkUpmix ["a", "b", "c"] [[1, 1, 0]] = [.notMapped "c", .rowMulti 0 ["a", "b"]] := by decide +kernel

/-- `inside_angle_range`: `(180, 180)` contains `-180`; `(-180, 180)` is the whole circle; `(22.5, 30)` excludes 31. -/
example : insideAngleRange (-180) 180 180 = true ∧ insideAngleRange 77 (-180) 180 = true ∧
    insideAngleRange 31 (45 / 2) 30 = false := by decide +kernel

/-- Lookups: found ignoring case, wrong type, unknown id. -/
def exAdm : List Elem := [⟨some "APR_1001", .programme⟩, ⟨none, .other⟩, ⟨some "AO_1001", .object⟩]
example : lookupAdmElement exAdm (some "apr_1001") .programme = .ok (some ⟨some "APR_1001", .programme⟩) := by decide +kernel
example : lookupAdmElement exAdm (some "AO_1001") .programme = .error (.valueError "AO_1001") := by decide +kernel
example : lookupAdmElement exAdm (some "APR_1002") .programme = .error (.keyError "APR_1002") := by decide +kernel

end Earverif.FileRenderLayout
