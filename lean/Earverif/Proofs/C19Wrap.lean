/- C19: azimuths outside the ADM range `[-180, 180]`.  The real `geom.relative_angle` wraps its argument with two
   `while` loops; with enough loop fuel the model's value is THE representative of `y` modulo 360 in `[x, x + 360)`,
   hence periodic in `y`.  This removes the "azimuth inputs outside [-180, 180]" gap for the angle primitive that
   `_find_sector` and `point_polar_to_cart` are built on. -/
import Earverif.Proofs.C19Real
import Earverif.Proofs.C19Round
import Earverif.Proofs.C19Extent

namespace Earverif.Conv

/-- each loop only adds integer multiples of 360 -/
theorem downGe_cong (x : ℝ) (n : Nat) : ∀ y : ℝ, ∃ j : ℤ, downGe x n y = y + 360 * j := by
  induction n with
  | zero => intro y; exact ⟨0, by simp [downGe]⟩
  | succ n ih =>
    intro y
    rw [downGe_succ]
    split_ifs with hc
    · obtain ⟨j, hj⟩ := ih (y - 360)
      exact ⟨j - 1, by rw [hj]; push_cast; ring⟩
    · exact ⟨0, by simp⟩

theorem upLt_cong (x : ℝ) (n : Nat) : ∀ y : ℝ, ∃ j : ℤ, upLt x n y = y + 360 * j := by
  induction n with
  | zero => intro y; exact ⟨0, by simp [upLt]⟩
  | succ n ih =>
    intro y
    rw [upLt_succ]
    split_ifs with hc
    · obtain ⟨j, hj⟩ := ih (y + 360)
      exact ⟨j + 1, by rw [hj]; push_cast; ring⟩
    · exact ⟨0, by simp⟩

/-- `relative_angle(x, y)` differs from `y` by a whole number of turns (any fuel). -/
theorem relativeAngle_cong (n : Nat) (x y : ℝ) : ∃ j : ℤ, relativeAngle n x y = y + 360 * j := by
  unfold relativeAngle
  obtain ⟨a, ha⟩ := downGe_cong x n y
  obtain ⟨b, hb⟩ := upLt_cong x n (downGe x n y)
  exact ⟨a + b, by rw [hb, ha]; push_cast; ring⟩

/-- two points of `[x, x + 360)` that differ by a whole number of turns are equal -/
theorem eq_of_cong_of_mem (x r s : ℝ) (j : ℤ) (h : r = s + 360 * j)
    (hr1 : x ≤ r) (hr2 : r < x + 360) (hs1 : x ≤ s) (hs2 : s < x + 360) : r = s := by
  have h1 : (-1 : ℝ) < j := by nlinarith
  have h2 : (j : ℝ) < 1 := by nlinarith
  have h1' : (-1 : ℤ) < j := by exact_mod_cast h1
  have h2' : j < (1 : ℤ) := by exact_mod_cast h2
  have : j = 0 := by omega
  subst this; simpa using h

/-- **relativeAngle_unique**: with enough fuel, `relative_angle(x, y)` is the unique `r ∈ [x, x + 360)` with
`r ≡ y (mod 360)`. -/
theorem relativeAngle_unique (n : Nat) (x y r : ℝ) (j : ℤ) (h1 : x - 360 * n ≤ y) (h2 : y < x + 360 * (n + 1))
    (hr : r = y + 360 * j) (hr1 : x ≤ r) (hr2 : r < x + 360) : relativeAngle n x y = r := by
  obtain ⟨m1, m2⟩ := relativeAngle_mem n x y h1 h2
  obtain ⟨i, hi⟩ := relativeAngle_cong n x y
  exact eq_of_cong_of_mem x _ r (i - j) (by rw [hi, hr]; push_cast; ring) m1 m2 hr1 hr2

/-- **relativeAngle_periodic**: whole turns added to the angle do not change `relative_angle`, as long as both
arguments are within the loops' fuel (the real `while` loops have no bound, so for them this is every input). -/
theorem relativeAngle_periodic (n : Nat) (x y : ℝ) (t : ℤ)
    (h1 : x - 360 * n ≤ y) (h2 : y < x + 360 * (n + 1))
    (h1' : x - 360 * n ≤ y + 360 * t) (h2' : y + 360 * t < x + 360 * (n + 1)) :
    relativeAngle n x (y + 360 * t) = relativeAngle n x y := by
  obtain ⟨m1, m2⟩ := relativeAngle_mem n x y h1 h2
  obtain ⟨i, hi⟩ := relativeAngle_cong n x y
  exact relativeAngle_unique n x (y + 360 * t) _ (i - t) h1' h2' (by rw [hi]; push_cast; ring) m1 m2

/-- the premises are satisfiable at a non-trivial point: 190° seen from −180° is −170° + 360 = 190, and 550 ↦ 190 -/
example : relativeAngle 3 (-180 : ℝ) (190 + 360 * (1 : ℤ)) = relativeAngle 3 (-180 : ℝ) 190 := by
  apply relativeAngle_periodic <;> norm_num

/-- `inside_angle_range(x, start, end, tol)` is periodic in `x` (its third loop is `relative_angle(start - tol, x)`). -/
theorem insideAngleRange_periodic (n : Nat) (x start stop tol : ℝ) (t : ℤ)
    (h1 : start - tol - 360 * n ≤ x) (h2 : x < start - tol + 360 * (n + 1))
    (h1' : start - tol - 360 * n ≤ x + 360 * t) (h2' : x + 360 * t < start - tol + 360 * (n + 1)) :
    insideAngleRange n (x + 360 * t) start stop tol = insideAngleRange n x start stop tol := by
  have h := relativeAngle_periodic n (start - tol) x t h1 h2 h1' h2'
  unfold relativeAngle at h
  unfold insideAngleRange
  simp only [h]

/-- **findSector_periodic** (table model): `_find_sector(az + 360 t) = _find_sector(az)` whenever both azimuths are
within the loops' fuel — i.e. the sector lookup sees only `az mod 360`. -/
theorem findSector_periodic (m : Nat) (az : ℝ) (t : ℤ)
    (h1 : 180 - 360 * (m + 1 : ℕ) ≤ az) (h2 : az < -180 + 360 * ((m + 1 : ℕ) + 1))
    (h1' : 180 - 360 * (m + 1 : ℕ) ≤ az + 360 * t) (h2' : az + 360 * t < -180 + 360 * ((m + 1 : ℕ) + 1)) :
    findSector (RP (m + 1)) (az + 360 * t) = findSector (RP (m + 1)) az := by
  unfold findSector
  apply List.find?_congr
  intro s hs
  have g := good_of_mem hs
  have hf : (RP (m + 1)).fuel = m + 1 := (RP_consts (m + 1)).2.2.1
  rw [hf]
  have hk : (k 0 : ℝ) = 0 := by simp [k, Scalar.ofRat]
  rw [hk]
  have gR1 := g.hR1; have gR2 := g.hR2
  apply insideAngleRange_periodic <;> simp only [sub_zero] <;> linarith

/-- **pointPolarToCart_periodic** (table model): `point_polar_to_cart(az + 360 t, el, d) = point_polar_to_cart(az, el, d)`
— same sector index, same coordinates — so with `polar_cart_polar` every azimuth, not only those in `[-180, 180]`,
converts like its representative (the fuel bound is an artefact of the model's loops: the real loops are unbounded). -/
theorem pointPolarToCart_periodic (m : Nat) (az el d : ℝ) (t : ℤ)
    (h1 : 180 - 360 * (m + 1 : ℕ) ≤ az) (h2 : az < -180 + 360 * ((m + 1 : ℕ) + 1))
    (h1' : 180 - 360 * (m + 1 : ℕ) ≤ az + 360 * t) (h2' : az + 360 * t < -180 + 360 * ((m + 1 : ℕ) + 1)) :
    pointPolarToCart (RP (m + 1)) (az + 360 * t) el d = pointPolarToCart (RP (m + 1)) az el d := by
  unfold pointPolarToCart
  rw [findSector_periodic m az t h1 h2 h1' h2']
  cases hfs : findSector (RP (m + 1)) az with
  | none => rfl
  | some s =>
    have hs : s ∈ sectors (RP (m + 1)) := by
      unfold findSector at hfs; exact List.mem_of_find?_eq_some hfs
    have g := good_of_mem hs
    have hf : (RP (m + 1)).fuel = m + 1 := (RP_consts (m + 1)).2.2.1
    have gR1 := g.hR1; have gR2 := g.hR2
    have hp : azToP (RP (m + 1)) s (az + 360 * t) = azToP (RP (m + 1)) s az := by
      unfold azToP
      rw [hf, relativeAngle_periodic (m + 1) s.right.az az t (by linarith) (by linarith) (by linarith) (by linarith)]
    simp only [hp]

/-- non-vacuity: 545° (= 185 + 360) and 185° with fuel 3 -/
example : pointPolarToCart (RP 3) (185 + 360 * (1 : ℤ)) 10 1 = pointPolarToCart (RP 3) 185 10 1 := by
  apply pointPolarToCart_periodic 2 <;> norm_num

/-- every real azimuth is a representative in `[-180, 180)` plus whole turns -/
theorem az_representative (az : ℝ) : ∃ (az0 : ℝ) (t : ℤ), az = az0 + 360 * t ∧ -180 ≤ az0 ∧ az0 < 180 := by
  refine ⟨az - 360 * ⌊(az + 180) / 360⌋, ⌊(az + 180) / 360⌋, by ring, ?_, ?_⟩
  · have := Int.floor_le ((az + 180) / 360); linarith
  · have := Int.lt_floor_add_one ((az + 180) / 360); linarith

/-- **pointPolarToCart_total_any_az**: `point_polar_to_cart` succeeds for EVERY azimuth within the model's loop fuel
(not only `[-180, 180]`), and its value is that of the representative of `az` in `[-180, 180)`. -/
theorem pointPolarToCart_total_any_az (m : Nat) (az el d : ℝ)
    (hf1 : 180 - 360 * (m + 1 : ℕ) ≤ az) (hf2 : az < -180 + 360 * ((m + 1 : ℕ) + 1)) :
    ∃ (az0 : ℝ) (t : ℤ) (r : (ℝ × ℝ × ℝ) × Nat), az = az0 + 360 * t ∧ -180 ≤ az0 ∧ az0 < 180 ∧
      pointPolarToCart (RP (m + 1)) az el d = some r ∧ pointPolarToCart (RP (m + 1)) az0 el d = some r := by
  obtain ⟨az0, t, he, h1, h2⟩ := az_representative az
  obtain ⟨r, hr⟩ := pointPolarToCart_total m az0 el d h1 (le_of_lt h2)
  have hm : (0 : ℝ) ≤ ((m : ℕ) : ℝ) := Nat.cast_nonneg m
  refine ⟨az0, t, r, he, h1, h2, ?_, hr⟩
  rw [he, pointPolarToCart_periodic m az0 el d t (by push_cast; linarith) (by push_cast; linarith)
    (by rw [← he]; exact hf1) (by rw [← he]; exact hf2)]
  exact hr

end Earverif.Conv
