/- C10, concrete model (`Model/DirectSpeakersConcrete.lean`) over ℝ: helper lemmas.
     * rational gain vectors cast to ℝ keep sign, power, support and length        (`castV_*`)
     * `scatterC`, `scaleC`                                                         (`scatterC_*`, `scaleC_*`)
     * `closestIndexC` returns one of the candidates it was given                    (`closestIndexC_is_candidate`)
     * the C05 panner walked over its table returns — whenever it returns — a non-negative vector with Σ² ≤ 1, for
       EVERY well-formed table incl. the stereo wrapper of 0+2+0, and with no "not the zero vector" side condition
                                                                                     (`pspHandle_nonneg_le_one`)
     * the allocentric panner on pairwise distinct positions: non-negative, Σ² = 1  (`allo_fallback_contract`, from C01/C13)
     * case analysis of `lateExitC`                                                  (`lateExitC_cases`)
     * totality pieces for the Cartesian path without screen edge lock              (`scatterC_total`, `treeNonempty_of_spec`,
                                                                                      `handleVectorCart_no_lock`, `lateExitC_total`)
   The C01 / C05 / C13 models and proofs are imported, not edited. -/
import Earverif.Model.DirectSpeakersConcrete
import Earverif.Proofs.C10
import Earverif.Proofs.C10Geom
import Earverif.Proofs.C01Psp
import Earverif.Proofs.C01Concrete
import Earverif.Proofs.C01Tables

namespace Earverif.DS
open Earverif.GainCalc (V3 k Nonneg)
open Earverif.PointSource (RawLayout RawRegion Region)

/-! ### rational vectors as reals -/

theorem castV_nonneg {v : List Rat} (h : ∀ x ∈ v, 0 ≤ x) : Nonneg (castV v : List ℝ) := by
  intro x hx
  simp only [castV, List.mem_map] at hx
  obtain ⟨q, hq, rfl⟩ := hx
  rw [GainCalc.k_real]
  exact_mod_cast h q hq

theorem sumSq_castV : ∀ v : List Rat, GainCalc.sumSq (castV v : List ℝ) = ((sumSq v : Rat) : ℝ)
  | [] => by simp [castV, sumSq]
  | x :: xs => by
    have ih := sumSq_castV xs
    simp only [castV, List.map_cons, GainCalc.sumSq_cons, GainCalc.k_real, sumSq] at ih ⊢
    rw [ih]; push_cast; ring

theorem length_castV (v : List Rat) : (castV v : List ℝ).length = v.length := by simp [castV]

/-- `pv` is zero at every position whose LFE flag differs from `v` (real gains). -/
def ZeroOffR (mask : List Bool) (v : Bool) (pv : List ℝ) : Prop :=
  ∀ i : Nat, mask[i]? = some (!v) → pv[i]? = some 0

theorem zeroOff_castV {mask : List Bool} {v : Bool} {pv : List Rat} (h : ZeroOff mask v pv) :
    ZeroOffR mask v (castV pv) := by
  intro i hi
  have := h i hi
  simp only [castV, List.getElem?_map, this, Option.map_some, GainCalc.k_real]
  norm_num

/-! ### `scatterC`, `scaleC` over ℝ -/

theorem scatterC_spec : ∀ (m : List Bool) (ps pv : List ℝ), scatterC m ps = some pv →
    (Nonneg ps → Nonneg pv) ∧ GainCalc.sumSq pv = GainCalc.sumSq ps ∧ pv.length = m.length ∧ ZeroOffR m false pv
  | [], [], pv, h => by
    simp only [scatterC, Option.some.injEq] at h; subst h
    exact ⟨fun h => h, rfl, rfl, fun i hi => by simp at hi⟩
  | [], _ :: _, pv, h => by simp [scatterC] at h
  | true :: m, ps, pv, h => by
    simp only [scatterC, Option.map_eq_some_iff] at h
    obtain ⟨q, hq, rfl⟩ := h
    obtain ⟨h1, h2, h3, h4⟩ := scatterC_spec m ps q hq
    refine ⟨fun hp x hx => ?_, by simp [h2], by simp [h3], fun i hi => ?_⟩
    · rcases List.mem_cons.mp hx with rfl | hx
      · simp
      · exact h1 hp x hx
    · cases i with
      | zero => simp
      | succ j => simpa using h4 j (by simpa using hi)
  | false :: _, [], pv, h => by simp [scatterC] at h
  | false :: m, p :: ps, pv, h => by
    simp only [scatterC, Option.map_eq_some_iff] at h
    obtain ⟨q, hq, rfl⟩ := h
    obtain ⟨h1, h2, h3, h4⟩ := scatterC_spec m ps q hq
    refine ⟨fun hp x hx => ?_, by simp [h2], by simp [h3], fun i hi => ?_⟩
    · rcases List.mem_cons.mp hx with rfl | hx
      · exact hp x (by simp)
      · exact h1 (fun y hy => hp y (by simp [hy])) x hx
    · cases i with
      | zero => simp at hi
      | succ j => simpa using h4 j (by simpa using hi)

/-- the real number `block gain × object gain` -/
noncomputable def gainR (b : Block) : ℝ := ((b.gain : Rat) : ℝ) * ((objectGainOf b : Rat) : ℝ)

theorem scaleC_nonneg {b : Block} {pv : List ℝ} (h : Nonneg pv) (hg : 0 ≤ b.gain) (hog : 0 ≤ b.objectGain) :
    Nonneg (scaleC b pv) := by
  have hog' : 0 ≤ objectGainOf b := by unfold objectGainOf; split <;> simp [hog]
  intro x hx
  simp only [scaleC, List.mem_map, GainCalc.k_real] at hx
  obtain ⟨y, hy, rfl⟩ := hx
  have h1 : (0 : ℝ) ≤ ((b.gain : Rat) : ℝ) := by exact_mod_cast hg
  have h2 : (0 : ℝ) ≤ ((objectGainOf b : Rat) : ℝ) := by exact_mod_cast hog'
  exact mul_nonneg (mul_nonneg (h y hy) h1) h2

theorem sumSq_scaleC (b : Block) : ∀ pv : List ℝ,
    GainCalc.sumSq (scaleC b pv) = GainCalc.sumSq pv * (gainR b * gainR b)
  | [] => by simp [scaleC]
  | x :: xs => by
    have ih := sumSq_scaleC b xs
    simp only [scaleC, List.map_cons, GainCalc.sumSq_cons, GainCalc.k_real, gainR] at ih ⊢
    rw [ih]; ring

theorem length_scaleC (b : Block) (pv : List ℝ) : (scaleC b pv).length = pv.length := by simp [scaleC]

theorem zeroOff_scaleC {mask : List Bool} {v : Bool} {pv : List ℝ} (b : Block) (h : ZeroOffR mask v pv) :
    ZeroOffR mask v (scaleC b pv) := by
  intro i hi
  have := h i hi
  simp [scaleC, List.getElem?_map, this]

/-! ### `closestIndexC` -/

/-- The index returned by `closest_channel_index` is one of the candidates it was given (any scalar type). -/
theorem closestIndexC_is_candidate {α : Type} [GainCalc.Scalar α] {positions : List (V3 α)} {cart : V3 α}
    {cands : List Bool} {tol : α} {i : Nat} (h : closestIndexC positions cart cands tol = some i) :
    cands[i]? = some true := by
  unfold closestIndexC at h
  simp only at h
  split at h
  · cases h
  · split at h
    · exact mem_flatnonzero.mp (List.mem_of_getElem? h)
    · cases h

/-! ### the C05 panner over its table: non-negative, Σ² ≤ 1, whenever it answers -/

theorem sumsq_of_all_zero : ∀ {v : List ℝ}, (∀ x ∈ v, x = 0) → PointSource.sumsq v = 0
  | [], _ => by simp [PointSource.sumsq]
  | x :: xs, h => by
    simp only [PointSource.sumsq]
    rw [h x (by simp), sumsq_of_all_zero (v := xs) (fun y hy => h y (by simp [hy]))]
    simp

/-- `normalise` of a non-negative vector: non-negative, Σ² ≤ 1 (1, or 0 for the zero vector, where ℝ has `x / 0 = 0`). -/
theorem normalise_nonneg_le_one {v : List ℝ} (hv : ∀ x ∈ v, 0 ≤ x) :
    (∀ x ∈ PointSource.normalise v, 0 ≤ x) ∧ PointSource.sumsq (PointSource.normalise v) ≤ 1 := by
  obtain ⟨h1, h2⟩ := PointSource.normalise_spec hv
  refine ⟨h1, ?_⟩
  rcases h2 with h | h
  · rw [h]
  · rw [sumsq_of_all_zero h]; norm_num

/-- pan values handed to the quad regions lie in [0, 1] -/
def RootsOk (roots : Nat → Option ℝ × Option ℝ) : Prop :=
  ∀ i v, ((roots i).1 = some v → 0 ≤ v ∧ v ≤ 1) ∧ ((roots i).2 = some v → 0 ≤ v ∧ v ≤ 1)

/-- the inner `PointSourcePanner` of a well-formed table answers with non-negative gains -/
theorem inner_nonneg (L : RawLayout) (hregs : L.regions.all (RawRegion.wellFormed L.nInner) = true)
    (regions : List (Region ℝ)) (hmap : L.regions.mapM (RawRegion.toRegion (α := ℝ)) = some regions)
    (roots : Nat → Option ℝ × Option ℝ) (hroots : RootsOk roots) (pos : V3 ℝ) (v : List ℝ)
    (hv : PointSource.PointSourcePanner.handle regions L.nInner roots pos = some v) : ∀ x ∈ v, 0 ≤ x := by
  refine PointSource.panner_inherits regions L.nInner roots pos (fun g => ∀ x ∈ g, 0 ≤ x) ?_ v hv
  intro kk hk g hg
  obtain ⟨raw, hraw, hreg⟩ := GainCalc.mapM_some_mem _ L.regions regions hmap regions[kk] (List.getElem_mem hk)
  simp only [List.all_eq_true] at hregs
  exact GainCalc.region_nonneg L.nInner raw (hregs raw hraw) regions[kk] hreg _ _
    (fun xv hxv => (hroots kk xv).1 hxv) (fun yv hyv => (hroots kk yv).2 hyv) pos g hg

/-- `StereoPanDownmix.handle` on non-negative inner gains: two non-negative gains with Σ² ≤ 1 (the level factor
    `0.5 ** (0.5·back/(front+back))` is in (0, 1]). -/
theorem stereo_nonneg_le_one (w out : List ℝ) (hw : ∀ x ∈ w, 0 ≤ x)
    (h : PointSource.StereoPanDownmix.handle (some w) = some out) :
    (∀ x ∈ out, 0 ≤ x) ∧ PointSource.sumsq out ≤ 1 ∧ out.length = 2 := by
  unfold PointSource.StereoPanDownmix.handle at h
  split at h
  · rename_i g0 g1 g2 g3 g4 heq
    simp only [Option.some.injEq] at heq h
    subst heq; subst h
    have h0 : 0 ≤ g0 := hw g0 (by simp)
    have h1 : 0 ≤ g1 := hw g1 (by simp)
    have h2 : 0 ≤ g2 := hw g2 (by simp)
    have h3 : 0 ≤ g3 := hw g3 (by simp)
    have h4 : 0 ≤ g4 := hw g4 (by simp)
    have hcpos : (0 : ℝ) < Real.sqrt 3 / 3 := div_pos (Real.sqrt_pos.mpr (by norm_num)) (by norm_num)
    have hspos : (0 : ℝ) < Real.sqrt (1 / 2) := Real.sqrt_pos.mpr (by norm_num)
    have hmv := PointSource.stereo_matVec g0 g1 g2 g3 g4
    have hmvnn : ∀ x ∈ PointSource.matVec PointSource.stereoDownmix [g0, g1, g2, g3, g4], 0 ≤ x := by
      rw [hmv]
      intro x hx
      simp only [List.mem_cons, List.mem_nil_iff, or_false] at hx
      rcases hx with rfl | rfl
      · have := mul_nonneg hcpos.le h2; have := mul_nonneg hspos.le h3; linarith
      · have := mul_nonneg hcpos.le h2; have := mul_nonneg hspos.le h4; linarith
    obtain ⟨hn1, hn2⟩ := normalise_nonneg_le_one hmvnn
    -- the level
    have hfront : 0 ≤ Max.max (Max.max g0 g1) g2 := le_trans h2 (le_max_right _ _)
    have hback : 0 ≤ Max.max g3 g4 := le_trans h4 (le_max_right _ _)
    have hcast : (((1 / 2 : Rat)) : ℝ) = 1 / 2 := by push_cast; rfl
    have he0 : 0 ≤ (1 / 2 : ℝ) * Max.max g3 g4 / (Max.max (Max.max g0 g1) g2 + Max.max g3 g4) :=
      div_nonneg (mul_nonneg (by norm_num) hback) (add_nonneg hfront hback)
    have hlev0 : 0 ≤ (1 / 2 : ℝ) ^ ((1 / 2 : ℝ) * Max.max g3 g4 / (Max.max (Max.max g0 g1) g2 + Max.max g3 g4)) :=
      Real.rpow_nonneg (by norm_num) _
    have hlev1 : (1 / 2 : ℝ) ^ ((1 / 2 : ℝ) * Max.max g3 g4 / (Max.max (Max.max g0 g1) g2 + Max.max g3 g4)) ≤ 1 :=
      Real.rpow_le_one (by norm_num) (by norm_num) he0
    refine ⟨?_, ?_, ?_⟩
    · intro x hx
      obtain ⟨y, hy, rfl⟩ := List.mem_map.mp hx
      refine mul_nonneg (hn1 y hy) ?_
      simp only [PointSource.powHalf_real, PointSource.max_real, PointSource.ofRat_real, hcast]
      exact hlev0
    · rw [PointSource.sumsq_map_mul]
      simp only [PointSource.powHalf_real, PointSource.max_real, PointSource.ofRat_real, hcast]
      have hs0 := PointSource.sumsq_nonneg
        (PointSource.normalise (PointSource.matVec PointSource.stereoDownmix [g0, g1, g2, g3, g4]))
      nlinarith [mul_le_one₀ hlev1 hlev0 hlev1]
    · simp [PointSource.normalise, hmv]
  · cases h

/-- `remap [left, right] 2` of two gains, `left ≠ right`, both `< 2`: a permutation of the two. -/
theorem remap2_spec (a b : Nat) (ha : a < 2) (hb : b < 2) (hab : a ≠ b) (out p : List ℝ) (hl : out.length = 2)
    (h : PointSource.remap [a, b] 2 (some out) = some p) :
    ((∀ x ∈ out, 0 ≤ x) → ∀ x ∈ p, 0 ≤ x) ∧ PointSource.sumsq p = PointSource.sumsq out := by
  match out, hl with
  | [x, y], _ =>
    simp only [PointSource.remap, Option.map_some, Option.some.injEq] at h
    subst h
    have hc : (a = 0 ∧ b = 1) ∨ (a = 1 ∧ b = 0) := by omega
    rcases hc with ⟨rfl, rfl⟩ | ⟨rfl, rfl⟩
    · simp only [PointSource.scatter, PointSource.zeros, List.replicate, List.set]
      exact ⟨fun h => h, trivial⟩
    · simp only [PointSource.scatter, PointSource.zeros, List.replicate, List.set]
      refine ⟨fun h z hz => ?_, by simp only [PointSource.sumsq]; ring⟩
      simp only [List.mem_cons, List.mem_nil_iff, or_false] at hz
      rcases hz with rfl | rfl
      · exact h _ (by simp)
      · exact h _ (by simp)

/-- `configure(layout).handle` walked over a well-formed table (incl. the stereo wrapper), pan values in [0, 1]:
    whenever it answers, the gains are non-negative and Σ² ≤ 1. -/
theorem rawHandle_nonneg_le_one (L : RawLayout) (hwf : L.wellFormed = true) (roots : Nat → Option ℝ × Option ℝ)
    (hroots : RootsOk roots) (pos : V3 ℝ) (p : List ℝ) (h : L.handle roots pos = some p) :
    (∀ x ∈ p, 0 ≤ x) ∧ PointSource.sumsq p ≤ 1 := by
  simp only [RawLayout.wellFormed, Bool.and_eq_true] at hwf
  obtain ⟨⟨⟨hregs, _⟩, hdm⟩, hst⟩ := hwf
  unfold RawLayout.handle at h
  split at h
  · exact absurd h (by simp)
  · rename_i regions hmap
    have hD := GainCalc.downmixRows_nonneg L hdm
    -- the downmixed inner answer
    have inner : ∀ w, PointSource.PointSourcePannerDownmix.handle (L.downmixRows : List (List ℝ))
        (PointSource.PointSourcePanner.handle regions L.nInner roots pos) = some w →
        (∀ x ∈ w, 0 ≤ x) ∧ PointSource.sumsq w ≤ 1 := by
      intro w hw
      simp only [PointSource.PointSourcePannerDownmix.handle, Option.map_eq_some_iff] at hw
      obtain ⟨v, hv, rfl⟩ := hw
      exact normalise_nonneg_le_one
        (PointSource.matVec_nonneg hD (inner_nonneg L hregs regions hmap roots hroots pos v hv))
    simp only at h
    cases hs : L.stereo with
    | none =>
      rw [hs] at h
      exact inner p h
    | some lr =>
      obtain ⟨a, b⟩ := lr
      rw [hs] at h hst
      simp only [Bool.and_eq_true, decide_eq_true_eq, bne_iff_ne, ne_eq, beq_iff_eq] at hst
      obtain ⟨⟨⟨ha, hb⟩, hab⟩, _⟩ := hst
      simp only at h
      cases hin : PointSource.PointSourcePannerDownmix.handle (L.downmixRows : List (List ℝ))
          (PointSource.PointSourcePanner.handle regions L.nInner roots pos) with
      | none => rw [hin] at h; simp [PointSource.StereoPanDownmix.handle, PointSource.remap] at h
      | some w =>
        rw [hin] at h
        obtain ⟨hwn, _⟩ := inner w hin
        cases hso : PointSource.StereoPanDownmix.handle (some w) with
        | none => rw [hso] at h; simp [PointSource.remap] at h
        | some out =>
          rw [hso] at h
          obtain ⟨ho1, ho2, ho3⟩ := stereo_nonneg_le_one w out hwn hso
          obtain ⟨hp1, hp2⟩ := remap2_spec a b ha hb hab out p ho3 h
          exact ⟨hp1 ho1, by rw [hp2]; exact ho2⟩

/-- **The C05 panner over its table, every well-formed table** (incl. the stereo wrapper), with the closed-form
    `np.roots` of `pspHandle`: whenever it answers, the gains are non-negative and Σ² ≤ 1. -/
theorem pspHandle_nonneg_le_one (L : RawLayout) (hwf : L.wellFormed = true) (pos : V3 ℝ) (p : List ℝ)
    (h : GainCalc.pspHandle L pos = some p) : Nonneg p ∧ GainCalc.sumSq p ≤ 1 := by
  rw [← GainCalc.sumsq_eq_sumSq]
  unfold GainCalc.pspHandle at h
  split at h
  · exact absurd h (by simp)
  · rename_i regions hmap
    refine rawHandle_nonneg_le_one L hwf _ ?_ pos p h
    intro i v
    constructor
    · intro hxv
      dsimp only at hxv
      split at hxv
      · exact GainCalc.quadRoot_range _ v (by simpa using hxv)
      · simp at hxv
    · intro hyv
      dsimp only at hyv
      split at hyv
      · exact GainCalc.quadRoot_range _ v (by simpa using hyv)
      · simp at hyv

/-! ### the allocentric fallback -/

/-- a rational table position as a `Zone.P3` -/
def ratP3 (p : Vec3) : Zone.P3 Rat := ⟨p.1, p.2.1, p.2.2⟩

theorem toP3_cast3 (p : Vec3) : (GainCalc.toP3 (cast3 p) : Zone.P3 ℝ) = C13.castP3 (ratP3 p) := by
  simp [GainCalc.toP3, cast3, C13.castP3, ratP3]

/-- `AllocentricPanner(positions).handle(p)` on pairwise distinct table positions: non-negative, Σ² = 1. -/
theorem allo_fallback_contract (ps : List Vec3) (hd : C13.distinctB (ps.map ratP3) = true) (st : GainCalc.Tree ℝ)
    (hst : CartLock.speakerTree (ps.map fun p => (GainCalc.toP3 (cast3 p) : Zone.P3 ℝ)) = some st)
    (x y z : ℝ) (g : List ℝ)
    (h : GainCalc.alloHandle (ps.map fun p => (GainCalc.toP3 (cast3 p) : Zone.P3 ℝ)).length st x y z = some g) :
    Nonneg g ∧ GainCalc.sumSq g = 1 := by
  have e : (ps.map fun p => (GainCalc.toP3 (cast3 p) : Zone.P3 ℝ)) = (ps.map ratP3).map C13.castP3 := by
    rw [List.map_map]; exact List.map_congr_left (fun p _ => toP3_cast3 p)
  rw [e] at hst h
  obtain ⟨h1, h2, _⟩ := GainCalc.allo_unit_power_distinct _ (C13.distinct_cast _ hd) st hst x y z g h
  exact ⟨h1, h2⟩

/-! ### the exits after the label match -/

/-- Either one of the position-independent vectors of the rational decision structure (`lateExit` with an empty
    panner result never reaches the panner exit), or the panner exit: a non-LFE block, the fallback answered `g`
    and `g` went to the non-LFE slots. -/
theorem lateExitC_cases {L : Layout} {lfe : Bool} {wb : List Bool} {cl : Option Nat}
    {fb : Unit → Except CError (List ℝ)} {e : Exit} {pv : List ℝ} (h : lateExitC L lfe wb cl fb = .ok (e, pv)) :
    (∃ pvQ, lateExit L lfe ⟨wb, cl, []⟩ = .ok (e, pvQ) ∧ e ≠ .pointSource ∧ pv = castV pvQ) ∨
    (e = .pointSource ∧ lfe = false ∧ ∃ g, fb () = .ok g ∧ scatterC L.isLfe g = some pv) := by
  unfold lateExitC at h
  unfold lateExit
  simp only at h ⊢
  split at h
  · rename_i c hc
    injection h with h; injection h with h1 h2; subst h1; subst h2
    rw [hc]
    exact Or.inl ⟨_, rfl, by decide, rfl⟩
  · rename_i hc
    rw [hc]
    split at h
    · rename_i hlfe
      simp only [hlfe, if_true]
      split at h
      · rename_i hc1
        injection h with h; injection h with h1 h2; subst h1; subst h2
        rw [if_pos hc1]
        exact Or.inl ⟨_, rfl, by decide, rfl⟩
      · rename_i hc1
        injection h with h; injection h with h1 h2; subst h1; subst h2
        rw [if_neg hc1]
        exact Or.inl ⟨_, rfl, by decide, rfl⟩
    · rename_i hlfe
      split at h
      · cases h
      · rename_i g hg
        split at h
        · rename_i q hq
          injection h with h; injection h with h1 h2; subst h1; subst h2
          exact Or.inr ⟨rfl, by simpa using hlfe, g, hg, hq⟩
        · cases h

/-! ### the Cartesian path without screen edge lock never fails -/

theorem scatterC_total : ∀ (m : List Bool) (g : List ℝ), g.length = (m.filter (!·)).length →
    ∃ pv, scatterC m g = some pv
  | [], [], _ => ⟨[], rfl⟩
  | [], _ :: _, h => by simp at h
  | true :: m, g, h => by
    obtain ⟨pv, hpv⟩ := scatterC_total m g (by simpa using h)
    exact ⟨0 :: pv, by simp [scatterC, hpv]⟩
  | false :: m, [], h => by simp at h
  | false :: m, p :: ps, h => by
    obtain ⟨pv, hpv⟩ := scatterC_total m ps (by simpa using h)
    exact ⟨p :: pv, by simp [scatterC, hpv]⟩

theorem treeNonempty_of_spec (ps : List (Zone.P3 ℝ)) (hne : ps ≠ []) (st : GainCalc.Tree ℝ) (hts : C13.TreeS st)
    (hm : ∀ a, a ∈ C13.leaves st ↔ ∃ k c, ps[k]? = some c ∧ a = ⟨k, c.x, c.y, c.z⟩) :
    GainCalc.treeNonempty st = true := by
  simp only [GainCalc.treeNonempty, Bool.and_eq_true, Bool.not_eq_eq_eq_not, Bool.not_true,
    List.isEmpty_eq_false_iff, List.all_eq_true]
  refine ⟨?_, fun pl hpl => ⟨(hts.planes pl hpl).1, fun row hrow => ?_⟩⟩
  · cases ps with
    | nil => exact absurd rfl hne
    | cons c rest =>
      have : (⟨0, c.x, c.y, c.z⟩ : GainCalc.Leaf ℝ) ∈ C13.leaves st := (hm _).mpr ⟨0, c, rfl, rfl⟩
      obtain ⟨pl, hpl, _⟩ := GainCalc.mem_leaves.mp this
      exact List.ne_nil_of_mem hpl
  · have := ((hts.planes pl hpl).2.rows row hrow).ne
    simpa using this

theorem handleVectorCart_no_lock (E : CEnv) (P : Conv.Params ℝ) (p : GainCalc.V3 ℝ) :
    handleVectorCart E P p ⟨none, none⟩ = some p := by
  unfold handleVectorCart
  split <;> simp

/-- the exits after the label match do not fail when the fallback panner answers with one gain per non-LFE slot -/
theorem lateExitC_total (L : Layout) (lfe : Bool) (wb : List Bool) (cl : Option Nat)
    (fb : Unit → Except CError (List ℝ))
    (hfb : ∀ u, ∃ g, fb u = .ok g ∧ g.length = (L.isLfe.filter (!·)).length) :
    ∃ e pv, lateExitC L lfe wb cl fb = .ok (e, pv) := by
  unfold lateExitC
  simp only
  split
  · exact ⟨_, _, rfl⟩
  · split
    · split <;> exact ⟨_, _, rfl⟩
    · obtain ⟨g, hg, hlen⟩ := hfb ()
      rw [hg]
      obtain ⟨pv, hpv⟩ := scatterC_total L.isLfe g hlen
      simp only [hpv]
      exact ⟨_, _, rfl⟩

end Earverif.DS
