/- C19: the conversion model over ℝ instantiated with the regenerated table (`RP`), evaluation of the
   `while` loops, the mod-360 bookkeeping of `relative_angle`, ranges of the azimuth warps and the cone of a
   sector.  Used by Proofs/C19Round.lean and Props/C19.lean. -/
import Earverif.Proofs.C19Real
import Earverif.Gen.C19_Tables

namespace Earverif.Conv
open Real
open Earverif.Gen.C19 (mapping elTop elTopTilde)

/-- The model over ℝ with the regenerated table. -/
noncomputable def RP (fuel : Nat) : Params ℝ := Params.ofTable mapping elTop elTopTilde fuel

theorem RP_consts (n : Nat) :
    (RP n).elTop = 30 ∧ (RP n).elTopTilde = 45 ∧ (RP n).fuel = n ∧
    ∀ r ∈ (RP n).rows, -180 ≤ r.az ∧ r.az ≤ 180 := by
  refine ⟨by simp [RP, Params.ofTable, elTop, k, Scalar.ofRat],
          by simp [RP, Params.ofTable, elTopTilde, k, Scalar.ofRat], rfl, ?_⟩
  intro r hr
  simp [RP, Params.ofTable, mapping, k, Scalar.ofRat] at hr
  rcases hr with rfl | rfl | rfl | rfl | rfl <;> norm_num

/-- `octAz` is the azimuth the model computes (`cartAz`, i.e. `-degrees(atan2(x, y))`) for the eight square
points: ties the rational table check `sector_boundaries_match` to `_find_cart_sector`'s sector ends. -/
theorem cartAz_octant :
    cartAz (0:ℝ) 1 = 0 ∧ cartAz (1:ℝ) 1 = -45 ∧ cartAz (1:ℝ) 0 = -90 ∧ cartAz (1:ℝ) (-1) = -135 ∧
    cartAz (0:ℝ) (-1) = -180 ∧ cartAz (-1:ℝ) (-1) = 135 ∧ cartAz (-1:ℝ) 0 = 90 ∧ cartAz (-1:ℝ) 1 = 45 := by
  have hp : π ≠ 0 := pi_ne_zero
  refine ⟨?_, ?_, ?_, ?_, ?_, ?_, ?_, ?_⟩ <;> rw [cartAz_real]
  · rw [at2_zero_one]; simp
  · rw [at2_one_one]; field_simp; ring
  · rw [at2_one_zero]; field_simp; ring
  · rw [at2_one_neg_one]; field_simp; ring
  · rw [at2_zero_neg_one]; field_simp
  · rw [at2_neg_one_neg_one]; field_simp; ring
  · rw [at2_neg_one_zero]; field_simp; ring
  · rw [at2_neg_one_one]; field_simp; ring

/-! ### Evaluating the loops -/

theorem downGe_id (x y : ℝ) (n : Nat) (h : y < x + 360) : downGe x n y = y := by
  cases n with
  | zero => rfl
  | succ n => rw [downGe_succ, if_neg (by linarith)]

theorem upLt_id (x y : ℝ) (n : Nat) (h : x ≤ y) : upLt x n y = y := by
  cases n with
  | zero => rfl
  | succ n => rw [upLt_succ, if_neg (by linarith)]

theorem downGt_id (x y : ℝ) (n : Nat) (h : y ≤ x + 360) : downGt x n y = y := by
  cases n with
  | zero => rfl
  | succ n =>
    have : downGt x (n + 1) y = if x < y - 360 then downGt x n (y - 360) else y := by
      simp [downGt, k, Scalar.ofRat]
    rw [this, if_neg (by linarith)]

theorem relativeAngle_of_mem (n : Nat) (x y : ℝ) (h1 : x ≤ y) (h2 : y < x + 360) :
    relativeAngle n x y = y := by
  unfold relativeAngle
  rw [downGe_id x y n h2, upLt_id x y n h1]

/-- `inside_angle_range(x, start, end)` when no normalisation step is needed. -/
theorem insideAngleRange_plain (n : Nat) (x start stop : ℝ) (h1 : start ≤ stop) (h2 : stop ≤ start + 360)
    (h3 : start ≤ x) (h4 : x < start + 360) :
    insideAngleRange n x start stop (k 0) = decide (x ≤ stop) := by
  unfold insideAngleRange
  simp only [k, Scalar.ofRat, Rat.cast_zero, sub_zero, add_zero]
  rw [downGt_id start stop n h2, upLt_id start stop n h1, downGe_id start x n h4, upLt_id start x n h3]

/-- one `+= 360` step -/
theorem relativeAngle_up (n : Nat) (x y : ℝ) (h1 : x - 360 ≤ y) (h2 : y < x) :
    relativeAngle (n + 1) x y = y + 360 := by
  unfold relativeAngle
  rw [downGe_id x y (n + 1) (by linarith), upLt_succ, if_pos h2, upLt_id x (y + 360) n (by linarith)]

/-! ### more loop evaluation -/

/-- one `-= 360` step -/
theorem relativeAngle_down (n : Nat) (x y : ℝ) (h1 : x + 360 ≤ y) (h2 : y < x + 720) :
    relativeAngle (n + 1) x y = y - 360 := by
  unfold relativeAngle
  rw [downGe_succ, if_pos (by linarith), downGe_id x (y - 360) n (by linarith),
    upLt_id x (y - 360) (n + 1) (by linarith)]

/-- `relative_angle(x, y)` for `y` at most one turn away from `[x, x+360)`. -/
theorem relativeAngle_near (n : Nat) (x y : ℝ) (h1 : x - 360 ≤ y) (h2 : y < x + 720) :
    relativeAngle (n + 1) x y = if y < x then y + 360 else if x + 360 ≤ y then y - 360 else y := by
  split_ifs with ha hb
  · exact relativeAngle_up n x y h1 ha
  · exact relativeAngle_down n x y hb h2
  · exact relativeAngle_of_mem (n + 1) x y (not_lt.mp ha) (not_le.mp hb)

/-- `inside_angle_range(x, start, end)` (tol = 0) in terms of `relative_angle`. -/
theorem insideAngleRange_eq (n : Nat) (x start stop : ℝ) :
    insideAngleRange n x start stop (k 0) =
      decide (relativeAngle n start x ≤ upLt start n (downGt start n stop)) := by
  unfold insideAngleRange relativeAngle
  simp only [k, Scalar.ofRat, Rat.cast_zero, sub_zero, add_zero]

/-- **mod-360 bookkeeping** (step 3): re-normalising, relative to the sector's right end `R`, an azimuth that was
normalised to `[-180, 180)` recovers the un-normalised warp value `a0 ∈ [R, R + 360)`. -/
theorem relativeAngle_renorm (n : Nat) (R a0 : ℝ) (hR1 : -180 ≤ R) (hR2 : R ≤ 180) (h1 : R ≤ a0)
    (h2 : a0 < R + 360) :
    relativeAngle (n + 1) R (relativeAngle (n + 1) (-180) a0) = a0 := by
  rw [relativeAngle_near n (-180) a0 (by linarith) (by linarith)]
  split_ifs with ha hb
  · linarith
  · rw [relativeAngle_near n R (a0 - 360) (by linarith) (by linarith), if_pos (by linarith)]; ring
  · rw [relativeAngle_of_mem (n + 1) R a0 h1 h2]

/-- Normalising to `[-180, 180)` after normalising relative to `R`: the original azimuth (`180 ↦ -180`). -/
theorem relativeAngle_norm180 (n : Nat) (R az : ℝ) (hR1 : -180 ≤ R) (hR2 : R ≤ 180) (h1 : -180 ≤ az)
    (h2 : az ≤ 180) :
    relativeAngle (n + 1) (-180) (relativeAngle (n + 1) R az) = if az = 180 then -180 else az := by
  by_cases he : az = 180
  · rw [if_pos he, he]
    by_cases hR : R = -180
    · rw [hR, relativeAngle_down n (-180) 180 (by linarith) (by linarith),
        relativeAngle_of_mem (n + 1) (-180) (180 - 360) (by linarith) (by linarith)]; ring
    · have : -180 < R := lt_of_le_of_ne hR1 (Ne.symm hR)
      rw [relativeAngle_of_mem (n + 1) R 180 hR2 (by linarith),
        relativeAngle_down n (-180) 180 (by linarith) (by linarith)]; ring
  · rw [if_neg he]
    have hlt : az < 180 := lt_of_le_of_ne h2 he
    by_cases ha : az < R
    · rw [relativeAngle_up n R az (by linarith) ha,
        relativeAngle_down n (-180) (az + 360) (by linarith) (by linarith)]; ring
    · rw [relativeAngle_of_mem (n + 1) R az (not_lt.mp ha) (by linarith),
        relativeAngle_of_mem (n + 1) (-180) az h1 (by linarith)]

/-! ### ranges of the azimuth warps -/

theorem abs_tan_eq {β : ℝ} (hβ : |β| < π / 2) : |tan β| = tan |β| := by
  rcases le_or_gt 0 β with h | h
  · rw [abs_of_nonneg h] at hβ ⊢
    rw [abs_of_nonneg (tan_nonneg_of_nonneg_of_le_pi_div_two h hβ.le)]
  · rw [abs_of_neg h] at hβ ⊢
    rw [tan_neg, abs_of_neg (tan_neg_of_neg_of_pi_div_two_lt h (by linarith))]

theorem tan_abs_bound {ρ β : ℝ} (hβ : |β| < π / 2) (hρ : |ρ| ≤ |β|) : |tan ρ| ≤ |tan β| := by
  have hβ' : |tan β| = tan |β| := abs_tan_eq hβ
  have hρ' : |tan ρ| = tan |ρ| := abs_tan_eq (lt_of_le_of_lt hρ hβ)
  rw [hβ', hρ']
  rcases eq_or_lt_of_le hρ with h | h
  · rw [h]
  · exact (tan_lt_tan_of_nonneg_of_lt_pi_div_two (abs_nonneg ρ) hβ h).le

/-- Inside the (closed) sector the linear coordinate is in `[0, 1]`. -/
theorem mapAzToLinear_mem01 (l r a : ℝ) (hr0 : r - (l + r) / 2 ≠ 0) (hr : |r - (l + r) / 2| < 90)
    (ha : |a - (l + r) / 2| ≤ |r - (l + r) / 2|) :
    0 ≤ mapAzToLinear l r a ∧ mapAzToLinear l r a ≤ 1 := by
  rw [mapAzToLinear_real]
  set β := (r - (l + r) / 2) * (π / 180) with hβ
  set ρ := (a - (l + r) / 2) * (π / 180) with hρ
  have hβ2 := rad_lt hr
  have hT : tan β ≠ 0 := tan_ne_zero_of (by rw [hβ]; positivity) hβ2
  have hρβ : |ρ| ≤ |β| := by
    rw [hρ, hβ, abs_mul, abs_mul]
    exact mul_le_mul_of_nonneg_right ha (abs_nonneg _)
  have hb := tan_abs_bound hβ2 hρβ
  have hq : |tan ρ / tan β| ≤ 1 := by
    rw [abs_div, div_le_one (abs_pos.mpr hT)]; exact hb
  set g := 1 / 2 + 1 / 2 * tan ρ / tan β with hg
  have hg0 : 0 ≤ g := by
    have := (abs_le.mp hq).1
    rw [hg, mul_div_assoc]; linarith
  have hg1 : g ≤ 1 := by
    have := (abs_le.mp hq).2
    rw [hg, mul_div_assoc]; linarith
  have h0 : 0 ≤ at2 g (1 - g) := by
    unfold at2; rw [Complex.arg_nonneg_iff]; exact hg0
  have h1 : at2 g (1 - g) ≤ π / 2 := by
    unfold at2; rw [Complex.arg_le_pi_div_two_iff]; left; show 0 ≤ 1 - g; linarith
  constructor
  · positivity
  · have : at2 g (1 - g) * (2 / π) ≤ π / 2 * (2 / π) := mul_le_mul_of_nonneg_right h1 (by positivity)
    have e : π / 2 * (2 / π) = 1 := by field_simp
    linarith

theorem gain_mem01 {θ : ℝ} (h0 : 0 ≤ θ) (h1 : θ ≤ π / 2) :
    0 ≤ sin θ / (cos θ + sin θ) ∧ sin θ / (cos θ + sin θ) ≤ 1 := by
  have hs := cos_add_sin_pos h0 h1
  have hc : 0 ≤ cos θ := cos_nonneg_of_neg_pi_div_two_le_of_le (by linarith [pi_pos]) h1
  have hsn : 0 ≤ sin θ := sin_nonneg_of_nonneg_of_le_pi h0 (by linarith [pi_pos])
  exact ⟨div_nonneg hsn hs.le, by rw [div_le_one hs]; linarith⟩

/-- For `p ∈ [0, 1]` the azimuth produced lies in the (closed) sector. -/
theorem mapLinearToAz_mem_sector (l r p : ℝ) (hr : |r - (l + r) / 2| < 90) (hp0 : 0 ≤ p) (hp1 : p ≤ 1) :
    |mapLinearToAz l r p - (l + r) / 2| ≤ |r - (l + r) / 2| := by
  rw [mapLinearToAz_real]
  set β := (r - (l + r) / 2) * (π / 180) with hβ
  have hβ2 := rad_lt hr
  set θ := p * (π / 2) with hθ
  have hθ0 : 0 ≤ θ := by rw [hθ]; positivity
  have hθ1 : θ ≤ π / 2 := by rw [hθ]; nlinarith [pi_pos]
  obtain ⟨hG0, hG1⟩ := gain_mem01 hθ0 hθ1
  set G := sin θ / (cos θ + sin θ) with hG
  set t := 2 * (G - 1 / 2) * tan β with ht
  have htb : |t| ≤ tan |β| := by
    have hβ' : |tan β| = tan |β| := abs_tan_eq hβ2
    rw [ht, abs_mul, hβ']
    have : |2 * (G - 1 / 2)| ≤ 1 := by rw [abs_le]; constructor <;> linarith
    have h0 : 0 ≤ tan |β| := by rw [← hβ']; exact abs_nonneg _
    nlinarith [abs_nonneg (2 * (G - 1 / 2))]
  have hat : |arctan t| ≤ |β| := by
    have h1 : arctan t ≤ arctan (tan |β|) := arctan_le_arctan_iff.mpr (le_trans (le_abs_self t) htb)
    have h2 : arctan (-tan |β|) ≤ arctan t := arctan_le_arctan_iff.mpr (by linarith [neg_abs_le t])
    rw [arctan_tan (by linarith [abs_nonneg β, pi_pos]) hβ2] at h1
    rw [arctan_neg, arctan_tan (by linarith [abs_nonneg β, pi_pos]) hβ2] at h2
    rw [abs_le]; exact ⟨h2, h1⟩
  have e : (l + r) / 2 + arctan t * (180 / π) - (l + r) / 2 = arctan t * (180 / π) := by ring
  rw [e, abs_mul, abs_of_pos (by positivity : (0:ℝ) < 180 / π)]
  have hb : |β| = |r - (l + r) / 2| * (π / 180) := by
    rw [hβ, abs_mul, abs_of_pos (by positivity : (0:ℝ) < π / 180)]
  have : |arctan t| * (180 / π) ≤ |β| * (180 / π) := mul_le_mul_of_nonneg_right hat (by positivity)
  rw [hb] at this
  have e2 : |r - (l + r) / 2| * (π / 180) * (180 / π) = |r - (l + r) / 2| := by field_simp
  linarith

/-! ### the cone of a sector -/

/-- Gains of a point whose direction lies between the two ends of a sector (angles measured like `atan2(x, y)`,
`x = r sin θ`, `y = r cos θ`; sector opening `< π`): both non-negative, sum positive. -/
theorem cone_gains (s : Sector ℝ) (ρL θL ρR θR r θ x y : ℝ)
    (hlx : s.left.x = ρL * sin θL) (hly : s.left.y = ρL * cos θL)
    (hrx : s.right.x = ρR * sin θR) (hry : s.right.y = ρR * cos θR)
    (hx : x = r * sin θ) (hy : y = r * cos θ) (hρL : 0 < ρL) (hρR : 0 < ρR) (hr : 0 < r)
    (h1 : θL ≤ θ) (h2 : θ ≤ θR) (h3 : θR - θL < π) (h4 : θL < θR) :
    0 ≤ (gains s x y).1 ∧ 0 ≤ (gains s x y).2 ∧ 0 < (gains s x y).1 + (gains s x y).2 := by
  have hS : 0 < sin (θR - θL) := sin_pos_of_pos_of_lt_pi (by linarith) h3
  have hdet : s.det = -(ρL * ρR * sin (θR - θL)) := by
    unfold Sector.det; rw [hlx, hly, hrx, hry, sin_sub]; ring
  have hdneg : s.det < 0 := by rw [hdet]; have := mul_pos (mul_pos hρL hρR) hS; linarith
  have hA : 0 ≤ sin (θR - θ) := sin_nonneg_of_nonneg_of_le_pi (by linarith) (by linarith)
  have hB : 0 ≤ sin (θ - θL) := sin_nonneg_of_nonneg_of_le_pi (by linarith) (by linarith)
  have hg1 : (gains s x y).1 = r * ρR * sin (θR - θ) / (ρL * ρR * sin (θR - θL)) := by
    rw [gains_real]; simp only
    rw [hdet, hx, hy, hrx, hry, sin_sub, sin_sub]
    have : ρL * ρR * (sin θR * cos θL - cos θR * sin θL) ≠ 0 := by
      rw [← sin_sub]; exact (mul_pos (mul_pos hρL hρR) hS).ne'
    field_simp; ring
  have hg2 : (gains s x y).2 = r * ρL * sin (θ - θL) / (ρL * ρR * sin (θR - θL)) := by
    rw [gains_real]; simp only
    rw [hdet, hx, hy, hlx, hly, sin_sub, sin_sub]
    have : ρL * ρR * (sin θR * cos θL - cos θR * sin θL) ≠ 0 := by
      rw [← sin_sub]; exact (mul_pos (mul_pos hρL hρR) hS).ne'
    field_simp; ring
  have hden : 0 < ρL * ρR * sin (θR - θL) := mul_pos (mul_pos hρL hρR) hS
  have n1 : 0 ≤ (gains s x y).1 := by rw [hg1]; exact div_nonneg (mul_nonneg (mul_pos hr hρR).le hA) hden.le
  have n2 : 0 ≤ (gains s x y).2 := by rw [hg2]; exact div_nonneg (mul_nonneg (mul_pos hr hρL).le hB) hden.le
  refine ⟨n1, n2, ?_⟩
  rcases lt_or_eq_of_le h2 with hlt | heq
  · have : 0 < sin (θR - θ) := sin_pos_of_pos_of_lt_pi (by linarith) (by linarith)
    have : 0 < (gains s x y).1 := by rw [hg1]; exact div_pos (mul_pos (mul_pos hr hρR) this) hden
    linarith
  · have : 0 < sin (θ - θL) := sin_pos_of_pos_of_lt_pi (by linarith) (by linarith)
    have : 0 < (gains s x y).2 := by rw [hg2]; exact div_pos (mul_pos (mul_pos hr hρL) this) hden
    linarith

end Earverif.Conv
