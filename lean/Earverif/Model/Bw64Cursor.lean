/-
Model of the cursor part of `ear.fileio.bw64.reader.Bw64Reader`
(`seek`, `tell`, `read`, `__len__`, `iter_sample_blocks`).

The only cursor state of the real reader is the position of the underlying
buffer; the model keeps exactly that (`pos`, a byte offset) and transliterates
the integer arithmetic of the Python methods.  Core Lean only (no Mathlib) so
that the driver can run it.
-/
namespace Earverif.Cursor

/-- Constants of an opened file: byte offset of the first data byte, block
alignment (bytes per frame), size of the data chunk in bytes (the ds64 size for
BW64 files) and total file length. -/
structure Cfg where
  data : Int
  A : Int
  size : Int
  fileLen : Int
  deriving Repr

/-- `chunkIndex.position.end`. -/
def Cfg.dend (k : Cfg) : Int := k.data + k.size

/-- `Bw64Reader.__len__` (Python `//` is floor division; `A > 0`). -/
def len (k : Cfg) : Int := k.size / k.A

/-- `Bw64Reader.tell`. -/
def tell (k : Cfg) (pos : Int) : Int := (pos - k.data) / k.A

/-- `Bw64Reader.seek`; `none` = `ValueError` for an unsupported `whence`. -/
def seek (k : Cfg) (pos : Int) (off : Int) (whence : Int) : Option Int :=
  let fo := off * k.A
  let base : Option Int :=
    if whence = 0 then some k.data
    else if whence = 1 then some pos
    else if whence = 2 then some k.dend
    else none
  match base with
  | none => none
  | some b =>
    if b + fo < k.data then some k.data
    else if b + fo > k.dend then some k.dend
    else some (b + fo)

/-- `BytesIO.read(want)` at `pos`: number of bytes returned. A negative
argument reads to the end of the file. -/
def bufRead (k : Cfg) (pos : Int) (want : Int) : Int :=
  let avail := if k.fileLen - pos < 0 then 0 else k.fileLen - pos
  if want < 0 then avail else if want < avail then want else avail

/-- `Bw64Reader.read`: new buffer position and the byte range `(start, count)`
handed to the PCM decoder. -/
def read (k : Cfg) (pos : Int) (n : Int) : Int × (Int × Int) :=
  let n' := if tell k pos + n > len k then len k - tell k pos else n
  let got := bufRead k pos (n' * k.A)
  (pos + got, (pos, got))

/-- `Bw64Reader.iter_sample_blocks`, run to exhaustion, with fuel (the real
loop does not terminate for `blockSize = 0` unless the cursor is at the end). -/
def iter (k : Cfg) (bs : Int) : Nat → Int → Int × List (Int × Int)
  | 0, pos => (pos, [])
  | fuel + 1, pos =>
    if tell k pos = len k then (pos, [])
    else
      let (pos', r) := read k pos bs
      let (pos'', rs) := iter k bs fuel pos'
      (pos'', r :: rs)

/-- Operations a client can perform. -/
inductive Op where
  | seek (off : Int) (whence : Int)
  | tell
  | read (n : Int)
  | iter (bs : Int)
  deriving Repr

/-- Observable result of an operation. -/
inductive Out where
  | unit
  | valueError
  | pos (c : Int)
  | bytes (r : Int × Int)
  | blocks (rs : List (Int × Int))
  deriving Repr, DecidableEq

/-- One step of the concrete reader. Fuel for `iter` is `len + 1`. -/
def step (k : Cfg) (pos : Int) : Op → Int × Out
  | .seek off w =>
    match seek k pos off w with
    | none => (pos, .valueError)
    | some p => (p, .unit)
  | .tell => (pos, .pos (tell k pos))
  | .read n => let (p, r) := read k pos n; (p, .bytes r)
  | .iter bs => let (p, rs) := iter k bs ((len k).toNat + 1) pos; (p, .blocks rs)

/-- Run a sequence of operations, collecting outputs. -/
def run (k : Cfg) : Int → List Op → Int × List Out
  | pos, [] => (pos, [])
  | pos, op :: ops =>
    let (p, o) := step k pos op
    let (p', os) := run k p ops
    (p', o :: os)

/-! ### Specification: a cursor over a list of frames -/

/-- Clamp to `[0, n]`. -/
def clamp (n x : Int) : Int := if x < 0 then 0 else if x > n then n else x

/-- Spec step over a cursor `c ∈ [0, N]`; outputs are frame ranges `(first, count)`. -/
def specSeek (N c off whence : Int) : Option Int :=
  if whence = 0 then some (clamp N off)
  else if whence = 1 then some (clamp N (c + off))
  else if whence = 2 then some (clamp N (N + off))
  else none

def specRead (N c n : Int) : Int × (Int × Int) :=
  let e := if c + n < N then c + n else N
  (e, (c, e - c))

def specIter (N bs : Int) : Nat → Int → Int × List (Int × Int)
  | 0, c => (c, [])
  | fuel + 1, c =>
    if c = N then (c, [])
    else
      let (c', r) := specRead N c bs
      let (c'', rs) := specIter N bs fuel c'
      (c'', r :: rs)

def specStep (N c : Int) : Op → Int × Out
  | .seek off w =>
    match specSeek N c off w with
    | none => (c, .valueError)
    | some c' => (c', .unit)
  | .tell => (c, .pos c)
  | .read n => let (c', r) := specRead N c n; (c', .bytes r)
  | .iter bs => let (c', rs) := specIter N bs (N.toNat + 1) c; (c', .blocks rs)

def specRun (N : Int) : Int → List Op → Int × List Out
  | c, [] => (c, [])
  | c, op :: ops =>
    let (c', o) := specStep N c op
    let (c'', os) := specRun N c' ops
    (c'', o :: os)

end Earverif.Cursor
