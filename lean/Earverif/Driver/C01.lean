/- Line protocol for the C01 gain-calculator model, run over `Float`.
   Floats travel as the decimal value of their IEEE-754 bit pattern (UInt64), both ways (exact; the
   harness prints 17 significant digits in its evidence).  Sections are separated by `;`, rows by `,`,
   groups by `/`, tokens by blanks.
   in : render P ; <n> ; <d...> ; <g row> , <g row> ... ; <D row> , <D row> ... ; <bg> <og> <mute 0/1> ; <lfe mask 0/1 ...> ; <diffuse>
        render C ; <n> ; <d...> ; <g row> , <g row> ... ; <excluded mask 0/1 ...>  ; <bg> <og> <mute 0/1> ; <lfe mask 0/1 ...> ; <diffuse>
                                          out: ok <direct...> | <diffuse...>     or  bad-shape (numpy would raise)
        div none | div <value>            out: ok <gains...>                    (diverge, gains only)
        split <diffuse> ; <gains...>      out: ok <direct...> | <diffuse...>    (direct_diffuse_split)
        ogain <mute 0/1> <object gain>    out: ok <gain>                        (get_object_gain)
        downmix ; <excluded mask> ; <groups of ch 0> , <groups of ch 1> ...    (groups of one channel separated by `/`)
                                          out: ok <row> , <row> ...  |  assert   (downmix_for_excluded)
        depth ; <p1...> ; <p2...>         out: ok <v...>                        (RMS of the two distances)
        pvspread <n> <ammount_spread> ; <p...> ; <s...>   out: ok <v...>        (calc_pv_spread skeleton)
        normalise ; <v...>                out: ok <v...>                        (panning_values_for_weight, last line)
        safenorm ; <v...>                 out: ok <v...>                        (allo_extent.get_gains safe_norm)
        allo <n> <x> <y> <z> ; <plane> , <plane> ...     (rows of a plane separated by `/`, a leaf = <idx> <x> <y> <z>)
                                          out: ok <gains...>  |  assert          (AllocentricPanner.handle)
   `bad-op` for a malformed line. -/
import Earverif.Model.GainCalc
import Earverif.Driver.Util
open Earverif.GainCalc Earverif.Driver

def parseF (s : String) : Option Float := do
  let n ← s.toNat?
  if n < 18446744073709551616 then some (Float.ofBits n.toUInt64) else none

def showF (x : Float) : String := toString x.toBits.toNat

def showFs (xs : List Float) : String := String.intercalate " " (xs.map showF)

def parseFs (s : String) : Option (List Float) := (words s).mapM parseF

def parseRows (s : String) : Option (List (List Float)) :=
  if (words s).isEmpty then some [] else (s.splitOn ",").mapM parseFs

def parseMask (s : String) : Option (List Bool) :=
  (words s).mapM fun w => if w == "0" then some false else if w == "1" then some true else none

def parseNats (s : String) : Option (List Nat) := (words s).mapM (·.toNat?)

def parseLeaves : List String → Option (List (Leaf Float))
  | [] => some []
  | i :: x :: y :: z :: rest => do
    let l : Leaf Float := ⟨← i.toNat?, ← parseF x, ← parseF y, ← parseF z⟩
    pure (l :: (← parseLeaves rest))
  | _ => none

def parseTree (s : String) : Option (Tree Float) :=
  (s.splitOn ",").mapM fun pl => (pl.splitOn "/").mapM fun row => parseLeaves (words row)

def showPair (r : List Float × List Float) : String := s!"ok {showFs r.1} | {showFs r.2}"

def answerRender (kind : String) (secs : List String) : String :=
  match secs with
  | [n, d, g, z, gains, lfe, diffuse] =>
    match parseNats n, parseFs d, parseRows g, parseFs gains, parseMask lfe, parseFs diffuse with
    | some [n], some d, some g, some [bg, og, mute], some lfe, some [diffuse] =>
      let path : Option (ZonePath Float) :=
        if kind == "P" then (parseRows z).map .polar
        else if kind == "C" then (parseMask z).map .cartesian
        else none
      match path with
      | some path =>
        if !(mute == 0.0 || mute == 1.0) then "bad-op" else
        if !shapesOk n path d g lfe then "bad-shape" else
        showPair (render n path d g bg og (mute == 1.0) lfe diffuse)
      | none => "bad-op"
    | _, _, _, _, _, _ => "bad-op"
  | _ => "bad-op"

def answer (line : String) : String :=
  match line.splitOn ";" with
  | [] => "bad-op"
  | hd :: secs =>
    match words hd, secs with
    | ["render", kind], _ => answerRender kind secs
    | ["div", "none"], [] => s!"ok {showFs (divergeGains (none : Option Float))}"
    | ["div", v], [] =>
      match parseF v with
      | some v => s!"ok {showFs (divergeGains (some v))}"
      | none => "bad-op"
    | ["split", x], [g] =>
      match parseF x, parseFs g with
      | some x, some g => showPair (directDiffuseSplit g x)
      | _, _ => "bad-op"
    | ["ogain", m, og], [] =>
      match m, parseF og with
      | "0", some og => s!"ok {showF (getObjectGain false og)}"
      | "1", some og => s!"ok {showF (getObjectGain true og)}"
      | _, _ => "bad-op"
    | ["downmix"], [ex, groups] =>
      match parseMask ex, (groups.splitOn ",").mapM (fun c => (c.splitOn "/").mapM parseNats) with
      | some ex, some groups =>
        match (downmixForExcluded groups ex : Option (List (List Float))) with
        | some D => "ok " ++ String.intercalate " , " (D.map showFs)
        | none => "assert"
      | _, _ => "bad-op"
    | ["depth"], [p1, p2] =>
      match parseFs p1, parseFs p2 with
      | some p1, some p2 => if p1.length != p2.length then "bad-shape" else s!"ok {showFs (depthCombine p1 p2)}"
      | _, _ => "bad-op"
    | ["pvspread", n, a], [p, s] =>
      match n.toNat?, parseF a, parseFs p, parseFs s with
      | some n, some a, some p, some s =>
        if p.length != n || s.length != n then "bad-shape" else s!"ok {showFs (calcPvSpread n a p s)}"
      | _, _, _, _ => "bad-op"
    | ["normalise"], [v] =>
      match parseFs v with
      | some v => s!"ok {showFs (normalise v)}"
      | none => "bad-op"
    | ["safenorm"], [v] =>
      match parseFs v with
      | some v => s!"ok {showFs (safeNorm v)}"
      | none => "bad-op"
    | ["allo", n, x, y, z], [tree] =>
      match n.toNat?, parseF x, parseF y, parseF z, parseTree tree with
      | some n, some x, some y, some z, some st =>
        match alloHandle n st x y z with
        | some r => s!"ok {showFs r}"
        | none => "assert"
      | _, _, _, _, _ => "bad-op"
    | _, _ => "bad-op"

def main : IO Unit := lineLoop answer
