"""C14 helper: valid ADM document generators (via ADMBuilder, both referencing styles) and the
structural fault injector.  Everything is deterministic given the recipe / fault descriptors, which are plain
JSON-able tuples so that hits can be replayed and described minimally.

Element addresses are `(kind, index)` with kind in KINDS = position in the ADM's element lists."""
from fractions import Fraction

KINDS = ("ap", "ac", "ao", "apf", "acf", "asf", "atf", "atu")
LISTS = {"ap": "audioProgrammes", "ac": "audioContents", "ao": "audioObjects", "apf": "audioPackFormats",
         "acf": "audioChannelFormats", "asf": "audioStreamFormats", "atf": "audioTrackFormats",
         "atu": "audioTrackUIDs"}

# (element kind, attribute, target kind) single-valued optional references
SINGLE_REFS = [
    ("atu", "audioPackFormat", "apf"),
    ("atu", "audioTrackFormat", "atf"),
    ("atu", "audioChannelFormat", "acf"),
    ("atf", "audioStreamFormat", "asf"),
    ("asf", "audioChannelFormat", "acf"),
    ("asf", "audioPackFormat", "apf"),
    ("apf", "inputPackFormat", "apf"),
    ("apf", "outputPackFormat", "apf"),
]
# (element kind, attribute, target kind, None allowed as entry)
LIST_REFS = [
    ("ap", "audioContents", "ac", False),
    ("ac", "audioObjects", "ao", False),
    ("ao", "audioObjects", "ao", False),
    ("ao", "audioPackFormats", "apf", False),
    ("ao", "audioTrackUIDs", "atu", True),
    ("ao", "audioComplementaryObjects", "ao", False),
    ("apf", "audioChannelFormats", "acf", False),
    ("apf", "audioPackFormats", "apf", False),
    ("apf", "encodePackFormats", "apf", False),
]
TYPE_NAMES = ("DirectSpeakers", "Matrix", "Objects", "HOA", "Binaural")

DOC_KINDS = ("objects", "ds_stereo", "nested", "comp", "nestedpack", "silent", "hoa", "hoa0", "hoa_nested", "shared",
             "chna", "chna_nested", "noprog", "twoprog", "avs", "matrix_direct", "matrix_decode", "matrix_encdec",
             "matrix_pre", "emptypack", "mixed")


def _imports():
    from ear.fileio.adm import elements as E
    from ear.fileio.adm.builder import ADMBuilder
    from ear.fileio.adm.generate_ids import generate_ids
    return E, ADMBuilder, generate_ids


def default_blocks(E, tname, n=1, k=0):
    """n valid block formats of the type; k makes HOA order/degree distinct per channel."""
    T = E.TypeDefinition
    out = []
    for i in range(n):
        if tname == "Objects":
            out.append(E.AudioBlockFormatObjects(position=E.ObjectPolarPosition(0.0, 0.0, 1.0)))
        elif tname == "DirectSpeakers":
            out.append(E.AudioBlockFormatDirectSpeakers(position=E.DirectSpeakerPolarPosition(
                bounded_azimuth=E.BoundCoordinate(30.0 * (k % 5)), bounded_elevation=E.BoundCoordinate(0.0))))
        elif tname == "HOA":
            order = int(k ** 0.5)
            out.append(E.AudioBlockFormatHoa(order=order, degree=k - order * order - order))
        elif tname == "Matrix":
            out.append(E.AudioBlockFormatMatrix())
        else:
            out.append(E.AudioBlockFormatBinaural())
    return out


class Doc:
    """A built document plus the call arguments."""

    def __init__(self, adm, style, prog=None, sel=()):
        self.adm, self.style = adm, style
        self.prog = prog  # index into adm.audioProgrammes or None
        self.sel = list(sel)  # indices into adm.audioObjects

    def elem(self, addr):
        return getattr(self.adm, LISTS[addr[0]])[addr[1]]

    def addr(self, kind, obj):
        for i, e in enumerate(getattr(self.adm, LISTS[kind])):
            if e is obj:
                return (kind, i)
        raise KeyError("element not in document")

    def call_args(self):
        prog = None if self.prog is None else self.adm.audioProgrammes[self.prog]
        return prog, [self.adm.audioObjects[i] for i in self.sel]


def build(recipe):
    """recipe = (doc kind, style 1|2, variant int)."""
    kind, style, var = recipe
    E, ADMBuilder, generate_ids = _imports()
    T = E.TypeDefinition
    # style 1: BS.2076-1 track-format references (version None = CHNA-only rules, or explicit version 1);
    # style 2: BS.2076-2 direct channel-format references
    if style == 1:
        b = ADMBuilder.for_version(1) if var % 2 else ADMBuilder()
    else:
        b = ADMBuilder.for_version(2)
    prog, sel = None, []

    def pc():
        b.create_programme(audioProgrammeName="prog")
        return b.create_content(audioContentName="content")

    def item(tname, tracks, name, parent=None, **kw):
        n = len(tracks)
        if parent is None:
            return b.create_item_multichannel(type=T[tname], track_indices=tracks, name=name,
                                              block_formats=[default_blocks(E, tname, 1, k) for k in range(n)], **kw)
        return b.create_item_multichannel(type=T[tname], track_indices=tracks, name=name, parent=parent,
                                          block_formats=[default_blocks(E, tname, 1, k) for k in range(n)], **kw)

    def track_for(fmt, i, idx, parent):
        kw = dict(trackIndex=idx, audioPackFormat=fmt.pack_format)
        if style == 2:
            kw["audioChannelFormat"] = fmt.channel_formats[i]
        else:
            kw["audioTrackFormat"] = fmt.track_formats[i]
        return b.create_track_uid(parent=parent, **kw)

    def channel_track_ref(channel):
        """kwargs for an audioTrackUID referencing channel in the document's style"""
        if style == 2:
            return dict(audioChannelFormat=channel)
        s = b.create_stream(audioStreamFormatName="s", format=E.FormatDefinition.PCM, audioChannelFormat=channel)
        t = b.create_track(audioTrackFormatName="t", format=E.FormatDefinition.PCM, parent=s)
        return dict(audioTrackFormat=t)

    def matrix_base():
        """stereo DirectSpeakers pack, mid/side encode pack, decode pack, direct (mono->stereo) pack"""
        stereo = b.create_format_multichannel(type=T.DirectSpeakers, name="stereo",
                                              block_formats=[default_blocks(E, "DirectSpeakers", 1, k) for k in (1, 2)])
        L, R = stereo.channel_formats
        enc = b.create_pack(parent=None, audioPackFormatName="enc", type=T.Matrix, inputPackFormat=stereo.pack_format)
        mk = lambda ins, out=None: [E.AudioBlockFormatMatrix(
            outputChannelFormat=out, matrix=[E.MatrixCoefficient(inputChannelFormat=c, gain=0.5) for c in ins])]
        mid = b.create_channel(parent=enc, audioChannelFormatName="mid", type=T.Matrix, audioBlockFormats=mk([L, R]))
        side = b.create_channel(parent=enc, audioChannelFormatName="side", type=T.Matrix, audioBlockFormats=mk([L, R]))
        dec = b.create_pack(parent=None, audioPackFormatName="dec", type=T.Matrix, outputPackFormat=stereo.pack_format)
        dl = b.create_channel(parent=dec, audioChannelFormatName="dl", type=T.Matrix, audioBlockFormats=mk([mid, side], L))
        dr = b.create_channel(parent=dec, audioChannelFormatName="dr", type=T.Matrix, audioBlockFormats=mk([mid, side], R))
        dec.encodePackFormats = [enc]
        if var % 2:  # decode pack listed before the encode pack it references
            lst = b.adm.audioPackFormats
            i, j = [k for k, e in enumerate(lst) if e is enc or e is dec]
            lst[i], lst[j] = lst[j], lst[i]
        return stereo, enc, (mid, side), dec, (dl, dr)

    if kind == "objects":
        pc()
        for i in range(1 + var % 2):
            b.create_item_objects(track_index=i, name="o%d" % i,
                                  block_formats=default_blocks(E, "Objects", 1 + (var // 2) % 2))
    elif kind == "ds_stereo":
        pc()
        item("DirectSpeakers", [0, 1], "stereo")
    elif kind == "nested":
        c = pc()
        parent = b.create_object(audioObjectName="parent", parent=c)
        b.create_item_objects(track_index=0, name="child1", parent=parent, block_formats=default_blocks(E, "Objects"))
        it = item("DirectSpeakers", [1, 2], "child2", parent=parent)
        if var % 2:
            b.create_item_objects(track_index=3, name="grandchild", parent=it.audio_object,
                                  block_formats=default_blocks(E, "Objects"))
            # a non-leaf object must not reference tracks/packs for a valid document? it may: keep both
    elif kind == "comp":
        c = pc()
        a = b.create_item_objects(track_index=0, name="en", parent=c, block_formats=default_blocks(E, "Objects"))
        d = b.create_item_objects(track_index=1, name="de", parent=c, block_formats=default_blocks(E, "Objects"))
        a.audio_object.audioComplementaryObjects.append(d.audio_object)
        if var % 3 == 1:
            f = b.create_item_objects(track_index=2, name="fr", parent=c, block_formats=default_blocks(E, "Objects"))
            a.audio_object.audioComplementaryObjects.append(f.audio_object)
            sel = [2]
        elif var % 3 == 2:
            sel = [1]
    elif kind == "nestedpack":
        c = pc()
        inner = b.create_format_multichannel(type=T.DirectSpeakers, name="inner",
                                             block_formats=[default_blocks(E, "DirectSpeakers", 1, k) for k in (1, 2)])
        outer = b.create_format_multichannel(type=T.DirectSpeakers, name="outer",
                                             block_formats=[default_blocks(E, "DirectSpeakers", 1, 0)])
        outer.pack_format.audioPackFormats.append(inner.pack_format)
        obj = b.create_object(audioObjectName="obj", parent=c, audioPackFormats=[outer.pack_format])
        track_for(outer, 0, 1, obj)
        t1 = track_for(inner, 0, 2, obj)
        t2 = track_for(inner, 1, 3, obj)
        if var % 2:
            t1.audioPackFormat = outer.pack_format  # tracks may reference any pack on the path
    elif kind == "silent":
        c = pc()
        fmt = b.create_format_multichannel(type=T.DirectSpeakers, name="stereo",
                                           block_formats=[default_blocks(E, "DirectSpeakers", 1, k) for k in (1, 2)])
        obj = b.create_object(audioObjectName="obj", parent=c, audioPackFormats=[fmt.pack_format])
        track_for(fmt, var % 2, 1, obj)
        obj.audioTrackUIDs.append(None)
    elif kind in ("hoa", "hoa0"):
        pc()
        n = 4 if kind == "hoa" else 1
        orders = [int(k ** 0.5) for k in range(n)]
        degrees = [k - o * o - o for k, o in zip(range(n), orders)]
        kw = {}
        if var % 2:
            kw = dict(normalization="N3D", screenRef=True)
        b.create_item_hoa(track_indices=list(range(n)), orders=orders, degrees=degrees, name="hoa", **kw)
    elif kind == "hoa_nested":
        # outer HOA pack (own channel W) containing an inner HOA pack (three first-order channels); parameters set at
        # different levels of the pack path / in the blocks, consistently:
        #   var 0: nothing set; 1: normalization N3D on outer pack only; 2: screenRef on inner pack + its blocks,
        #   nfcRefDist 2.0 on outer pack, rtime/duration on every block, absoluteDistance on outer pack;
        #   3: nfcRefDist 0.0 on the inner pack only (== None for the others), absoluteDistance on both packs (equal)
        c = pc()
        v = var % 4
        bkw = {}
        if v == 2:
            bkw = dict(rtime=Fraction(0), duration=Fraction(1))

        def hblk(o, g, **kw):
            return [E.AudioBlockFormatHoa(order=o, degree=g, **bkw, **kw)]

        inner = b.create_pack(parent=None, audioPackFormatName="inner", type=T.HOA)
        ich = [b.create_channel(parent=inner, audioChannelFormatName="i%d" % g, type=T.HOA,
                                audioBlockFormats=hblk(1, g, **(dict(screenRef=True) if v == 2 else {})))
               for g in (-1, 0, 1)]
        outer = b.create_pack(parent=None, audioPackFormatName="outer", type=T.HOA, audioPackFormats=[inner])
        och = b.create_channel(parent=outer, audioChannelFormatName="w", type=T.HOA,
                               audioBlockFormats=hblk(0, 0, **(dict(screenRef=True) if v == 2 else {})))
        if v == 1:
            outer.normalization = "N3D"
        elif v == 2:
            inner.screenRef = True
            outer.nfcRefDist = 2.0
            outer.absoluteDistance = 1.5
        elif v == 3:
            inner.nfcRefDist = 0.0
            outer.absoluteDistance = 2.5
            inner.absoluteDistance = 2.5
        obj = b.create_object(audioObjectName="obj", parent=c, audioPackFormats=[outer])
        for i, (ch, pk) in enumerate([(och, outer)] + [(x, inner if var % 2 else outer) for x in ich]):
            b.create_track_uid(parent=obj, trackIndex=i + 1, audioPackFormat=pk, **channel_track_ref(ch))
    elif kind == "emptypack":
        # an audioPackFormat without channels: referenced by an object without tracks (var 0), next to a real pack
        # (var 1), as an unreferenced extra pack (var 2), or CHNA-only with an extra empty pack (var 3)
        v = var % 4
        tn = ("Objects", "DirectSpeakers")[(var // 4) % 2]
        empty = b.create_pack(parent=None, audioPackFormatName="empty", type=T[tn])
        if v == 3:
            fmt = b.create_format_multichannel(type=T[tn], name="fmt", block_formats=[default_blocks(E, tn, 1, 0)])
            track_for(fmt, 0, 1, None)
        else:
            c = pc()
            if v == 0:
                b.create_object(audioObjectName="obj", parent=c, audioPackFormats=[empty])
            else:
                fmt = b.create_format_multichannel(type=T[tn], name="fmt", block_formats=[default_blocks(E, tn, 1, 0)])
                obj = b.create_object(audioObjectName="obj", parent=c,
                                      audioPackFormats=[fmt.pack_format] + ([empty] if v == 1 else []))
                track_for(fmt, 0, 1, obj)
    elif kind == "shared":
        c = pc()
        fmt = b.create_format_multichannel(type=T.Objects, name="fmt", block_formats=[default_blocks(E, "Objects")])
        b.create_item_multichannel_from_format(fmt, [0], "a", parent=c)
        b.create_item_multichannel_from_format(fmt, [1], "b", parent=c)
    elif kind == "chna":
        tn = ("Objects", "DirectSpeakers", "HOA")[var % 3]
        n = 2 if tn != "Objects" else 1
        fmt = b.create_format_multichannel(type=T[tn], name="fmt",
                                           block_formats=[default_blocks(E, tn, 1, k) for k in range(n)])
        for i in range(n):
            track_for(fmt, i, i + 1, None)
        if var >= 3:
            fmt2 = b.create_format_multichannel(type=T.Objects, name="fmt2", block_formats=[default_blocks(E, "Objects")])
            track_for(fmt2, 0, 3, None)
    elif kind == "chna_nested":
        # CHNA-only + nested pack: genuinely ambiguous when the tracks reference the inner pack
        inner = b.create_format_multichannel(type=T.DirectSpeakers, name="inner",
                                             block_formats=[default_blocks(E, "DirectSpeakers", 1, 1)])
        outer = b.create_pack(parent=None, audioPackFormatName="outer", type=T.DirectSpeakers,
                              audioPackFormats=[inner.pack_format])
        track_for(inner, 0, 1, None)
    elif kind == "noprog":
        parent = b.create_object(audioObjectName="parent", parent=None)
        b.create_item_objects(track_index=0, name="child", parent=parent, block_formats=default_blocks(E, "Objects"))
        b.create_item_objects(track_index=1, name="root2", parent=None, block_formats=default_blocks(E, "Objects"))
    elif kind == "twoprog":
        p1 = b.create_programme(audioProgrammeName="p1")
        c1 = b.create_content(audioContentName="c1", parent=p1)
        b.create_item_objects(track_index=0, name="a", parent=c1, block_formats=default_blocks(E, "Objects"))
        p2 = b.create_programme(audioProgrammeName="p2")
        c2 = b.create_content(audioContentName="c2", parent=p2)
        b.create_item_objects(track_index=1, name="b", parent=c2, block_formats=default_blocks(E, "Objects"))
        b.create_item_objects(track_index=2, name="c", parent=c2, block_formats=default_blocks(E, "Objects"))
        prog = (None, 0, 1)[var % 3]
    elif kind == "avs":
        p = b.create_programme(audioProgrammeName="prog")
        c = b.create_content(audioContentName="content", parent=p)
        it = b.create_item_objects(track_index=0, name="a", parent=c, block_formats=default_blocks(E, "Objects"))
        avs = E.AlternativeValueSet(gain=0.5)
        it.audio_object.alternativeValueSets.append(avs)
        if var % 4 >= 2:
            it.audio_object.alternativeValueSets.append(E.AlternativeValueSet(mute=True))
        (p if var % 2 == 0 else c).alternativeValueSets.append(avs)
    elif kind.startswith("matrix_"):
        c = pc()
        stereo, enc, (mid, side), dec, (dl, dr) = matrix_base()
        L, R = stereo.channel_formats
        if kind == "matrix_direct":
            mono = b.create_format_multichannel(type=T.DirectSpeakers, name="mono",
                                                block_formats=[default_blocks(E, "DirectSpeakers", 1, 0)])
            M = mono.channel_formats[0]
            direct = b.create_pack(parent=None, audioPackFormatName="direct", type=T.Matrix,
                                   inputPackFormat=mono.pack_format, outputPackFormat=stereo.pack_format)
            for out in (L, R):
                b.create_channel(parent=direct, audioChannelFormatName="d", type=T.Matrix, audioBlockFormats=[
                    E.AudioBlockFormatMatrix(outputChannelFormat=out,
                                             matrix=[E.MatrixCoefficient(inputChannelFormat=M, gain=0.7)])])
            obj = b.create_object(audioObjectName="obj", parent=c, audioPackFormats=[direct])
            b.create_track_uid(parent=obj, trackIndex=1, audioPackFormat=direct, **channel_track_ref(M))
        elif kind == "matrix_decode":
            obj = b.create_object(audioObjectName="obj", parent=c, audioPackFormats=[dec])
            for i, ch in enumerate((mid, side)):
                b.create_track_uid(parent=obj, trackIndex=i + 1, audioPackFormat=dec, **channel_track_ref(ch))
        elif kind == "matrix_encdec":
            obj = b.create_object(audioObjectName="obj", parent=c, audioPackFormats=[dec])
            for i, ch in enumerate((L, R)):
                b.create_track_uid(parent=obj, trackIndex=i + 1, audioPackFormat=enc, **channel_track_ref(ch))
        else:  # pre-applied
            obj = b.create_object(audioObjectName="obj", parent=c, audioPackFormats=[dec])
            for i, ch in enumerate((dl, dr)):
                b.create_track_uid(parent=obj, trackIndex=i + 1, audioPackFormat=dec, **channel_track_ref(ch))
    elif kind == "mixed":
        import random
        r = random.Random(var)
        c = pc()
        c2 = b.create_content(audioContentName="content2") if r.random() < 0.4 else None
        t = 0
        parents = [c, c2] if c2 is not None else [c]
        objs = []
        for i in range(r.randint(2, 4)):
            k = r.choice(["o", "o", "ds", "hoa", "nest", "silent"])
            par = r.choice(parents)
            if k == "o":
                it = b.create_item_objects(track_index=t, name="o%d" % i, parent=par,
                                           block_formats=default_blocks(E, "Objects"))
                t += 1
                objs.append(it.audio_object)
            elif k == "ds":
                it = item("DirectSpeakers", [t, t + 1], "ds%d" % i, parent=par)
                t += 2
                objs.append(it.audio_object)
            elif k == "hoa":
                it = b.create_item_hoa(track_indices=[t, t + 1, t + 2, t + 3], orders=[0, 1, 1, 1],
                                       degrees=[0, -1, 0, 1], name="hoa%d" % i, parent=par)
                t += 4
            elif k == "nest":
                po = b.create_object(audioObjectName="p%d" % i, parent=par)
                parents.append(po)
            else:
                fmt = b.create_format_multichannel(type=T.DirectSpeakers, name="st%d" % i, block_formats=[
                    default_blocks(E, "DirectSpeakers", 1, k2) for k2 in (1, 2)])
                obj = b.create_object(audioObjectName="s%d" % i, parent=par, audioPackFormats=[fmt.pack_format])
                track_for(fmt, 0, t + 1, obj)
                obj.audioTrackUIDs.append(None)
                t += 1
        if len(objs) >= 2 and r.random() < 0.5:
            objs[0].audioComplementaryObjects.append(objs[1])
    else:
        raise ValueError(kind)
    generate_ids(b.adm)
    return Doc(b.adm, style, prog, sel)


# --------------------------------------------------------------------------------------
# fault injector


def fault_sites(doc, rng=None, max_targets=None):
    """All single structural faults applicable to the document, as JSON-able tuples.

    ("set", addr, attr, target|None)        retarget / remove / add a single-valued reference
    ("ldrop", addr, attr, i)                 drop entry i of a reference list
    ("lset", addr, attr, i, target|None)     retarget entry i (None = silent track, audioTrackUIDs only)
    ("lins", addr, attr, target)             append a reference (duplicate if already present, loop if ancestor/self)
    ("type", addr, typename)                 change typeDefinition (channel: blocks replaced by valid ones of that type)
    ("retype", addr, typename)               change typeDefinition of a pack and of its channels consistently
    ("tidx", addr, None|k)                   missing / duplicated track index
    ("param", addr, name)                    object parameter (start, duration, gain, mute, positionOffset, avs)
    ("chan", addr, what)                     channel-level: noblocks twoblocks freq cart noorder nodegree equation duporder
                                             norm scr nfc0 nfc nfc2 (HOA block parameters) rtime duration time time2
    ("ppar", addr, what)                     pack parameters: norm scr nfc0 nfc nfc2 (HOA) absdist absdist2 (any type)
    ("cpar"/"cdel", (acf,i), b, k)           matrix coefficient k of block b: phase set / negative delay
    ("coded", (asf,i), (apf,j))              stream references a pack instead of a channel
    ("bset", (acf,i), attr, target|None)     matrix block outputChannelFormat
    ("cset", (acf,i), k, target|None)        matrix coefficient k inputChannelFormat
    ("avs", addr, op)                        alternativeValueSet references: drop / dup / foreign
    ("prog", p|None|"foreign") ("sel", [object indices])   call arguments
    ("order", kind, k)                       not a fault: declaration-order variant, the element list of that kind is
                                             reversed (k = -1) or shuffled with seed k (see order_variants)
    """
    adm = doc.adm
    n = {k: len(getattr(adm, LISTS[k])) for k in KINDS}

    def targets(kind, current_idx):
        ts = [i for i in range(n[kind]) if i != current_idx]
        if max_targets is not None and rng is not None and len(ts) > max_targets:
            ts = sorted(rng.sample(ts, max_targets))
        return [(kind, i) for i in ts]

    def idx_of(kind, obj):
        if obj is None:
            return None
        for i, e in enumerate(getattr(adm, LISTS[kind])):
            if e is obj:
                return i
        return None

    out = []
    for kind, attr, tk in SINGLE_REFS:
        for i, e in enumerate(getattr(adm, LISTS[kind])):
            cur = getattr(e, attr)
            ci = idx_of(tk, cur)
            if cur is not None:
                out.append(("set", (kind, i), attr, None))
            for t in targets(tk, ci):
                out.append(("set", (kind, i), attr, t))
    for kind, attr, tk, none_ok in LIST_REFS:
        for i, e in enumerate(getattr(adm, LISTS[kind])):
            lst = getattr(e, attr)
            for j, cur in enumerate(lst):
                out.append(("ldrop", (kind, i), attr, j))
                if none_ok and cur is not None:
                    out.append(("lset", (kind, i), attr, j, None))
                for t in targets(tk, idx_of(tk, cur)):
                    out.append(("lset", (kind, i), attr, j, t))
            for t in targets(tk, None):
                out.append(("lins", (kind, i), attr, t))
            if none_ok:
                out.append(("lins", (kind, i), attr, None))
    for kind in ("apf", "acf"):
        for i, e in enumerate(getattr(adm, LISTS[kind])):
            for tn in TYPE_NAMES:
                if e.type.name != tn:
                    out.append(("type", (kind, i), tn))
    for i, e in enumerate(adm.audioPackFormats):
        for tn in TYPE_NAMES:
            if e.type.name != tn and e.audioChannelFormats:
                out.append(("retype", ("apf", i), tn))
    idxs = sorted({t.trackIndex for t in adm.audioTrackUIDs if t.trackIndex is not None})
    for i, t in enumerate(adm.audioTrackUIDs):
        if t.trackIndex is not None:
            out.append(("tidx", ("atu", i), None))
        for k in idxs:
            if k != t.trackIndex:
                out.append(("tidx", ("atu", i), k))
                break
    for i, o in enumerate(adm.audioObjects):
        for name in ("start", "duration", "gain", "mute", "positionOffset", "avs"):
            out.append(("param", ("ao", i), name))
    for i, c in enumerate(adm.audioChannelFormats):
        whats = ["noblocks", "twoblocks", "freq"]
        if c.type.name == "Objects":
            whats.append("cart")
        if c.type.name == "HOA":
            whats += ["noorder", "nodegree", "equation", "duporder", "norm", "scr", "nfc0", "nfc", "nfc2"]
        # block timing (any type): rtime without duration, duration without rtime, both (two different values)
        whats += ["rtime", "duration", "time", "time2"]
        for w in whats:
            out.append(("chan", ("acf", i), w))
        if c.type.name == "Matrix":
            for bi, blk in enumerate(c.audioBlockFormats):
                if hasattr(blk, "matrix"):
                    if blk.outputChannelFormat is not None:
                        out.append(("bset", ("acf", i), bi, None))
                    for t in targets("acf", idx_of("acf", blk.outputChannelFormat)):
                        out.append(("bset", ("acf", i), bi, t))
                    for k, co in enumerate(blk.matrix):
                        out.append(("cpar", ("acf", i), bi, k))
                        out.append(("cdel", ("acf", i), bi, k))
                        out.append(("cset", ("acf", i), bi, k, None))
                        for t in targets("acf", idx_of("acf", co.inputChannelFormat)):
                            out.append(("cset", ("acf", i), bi, k, t))
    for i, pk in enumerate(adm.audioPackFormats):
        if pk.type.name == "HOA":
            for w in ("norm", "scr", "nfc0", "nfc", "nfc2"):
                out.append(("ppar", ("apf", i), w))
        out.append(("ppar", ("apf", i), "absdist"))
        out.append(("ppar", ("apf", i), "absdist2"))
    # a "coded format" stream: audioStreamFormat -> audioPackFormat instead of -> audioChannelFormat (passes
    # AudioStreamFormat.validate, rejected by validate_selected_audioTrackUID when one of its tracks is selected)
    if n["apf"]:
        for i in range(n["asf"]):
            out.append(("coded", ("asf", i), ("apf", i % n["apf"])))
    for kind in ("ap", "ac"):
        for i, e in enumerate(getattr(adm, LISTS[kind])):
            if e.alternativeValueSets:
                out.append(("avs", (kind, i), "drop"))
                out.append(("avs", (kind, i), "dup"))
            out.append(("avs", (kind, i), "foreign"))
            for oi, o in enumerate(adm.audioObjects):
                for ai in range(len(o.alternativeValueSets)):
                    out.append(("avs", (kind, i), "ref", oi, ai))
    if n["ap"]:
        for p in [None] + list(range(n["ap"])):
            if p != doc.prog:
                out.append(("prog", p))
    for oi in range(n["ao"]):
        if [oi] != doc.sel:
            out.append(("sel", [oi]))
    if n["ao"] >= 2:
        out.append(("sel", [0, 1]))
    return out


# element lists whose declaration order may be permuted (programmes are not: the model takes "lowest id" to be
# the first programme, which generate_ids guarantees only for the original order)
ORDER_KINDS = ("ac", "ao", "apf", "acf", "asf", "atf", "atu")


def order_variants(doc, rng=None):
    """declaration-order variants worth trying for this document: reversed pack list (sub-pack before parent,
    decode before/after encode pack), reversed channel list, and (with rng) one random shuffle"""
    out = []
    if len(doc.adm.audioPackFormats) > 1:
        out.append(("order", "apf", -1))
    if len(doc.adm.audioChannelFormats) > 1:
        out.append(("order", "acf", -1))
    if len(doc.adm.audioObjects) > 1:
        out.append(("order", "ao", -1))
    if rng is not None:
        kind = rng.choice(ORDER_KINDS)
        if len(getattr(doc.adm, LISTS[kind])) > 1:
            out.append(("order", kind, rng.randrange(1000)))
    return out


def fault_kind(f):
    """Coarse fault kind for the evidence distribution."""
    op = f[0]
    if op == "set":
        return "ref-remove" if f[3] is None else "ref-retarget-or-add"
    if op == "ldrop":
        return "list-drop"
    if op == "lset":
        return "list-silence" if f[4] is None else "list-retarget"
    if op == "lins":
        return "list-insert-dup-loop"
    if op == "type":
        return "wrong-type"
    if op == "retype":
        return "wrong-type-pack-and-channels"
    if op == "tidx":
        return "track-index-missing" if f[2] is None else "track-index-duplicate"
    if op == "param":
        return "object-parameter"
    if op == "chan":
        return "channel-content"
    if op == "ppar":
        return "hoa-pack-parameter"
    if op in ("cpar", "cdel"):
        return "matrix-coefficient-parameter"
    if op in ("bset", "cset"):
        return "matrix-ref-remove" if f[-1] is None else "matrix-ref-retarget"
    if op == "coded":
        return "stream-to-pack"
    if op == "avs":
        return "avs-ref"
    if op == "order":
        return "declaration-order"
    return "call-" + op


def site_kind(f):
    op = f[0]
    if op in ("set", "ldrop", "lset", "lins"):
        return "%s.%s" % (f[1][0], f[2])
    if op in ("type", "retype"):
        return "%s.type" % f[1][0]
    if op == "tidx":
        return "atu.trackIndex"
    if op == "param":
        return "ao." + f[2]
    if op == "chan":
        return "acf." + f[2]
    if op == "ppar":
        return "apf." + f[2]
    if op == "bset":
        return "block.outputChannelFormat"
    if op == "cpar":
        return "coefficient.phase"
    if op == "cdel":
        return "coefficient.delay"
    if op == "cset":
        return "coefficient.inputChannelFormat"
    if op == "avs":
        return "%s.alternativeValueSets" % f[1][0]
    if op == "coded":
        return "asf.audioPackFormat"
    if op == "order":
        return "adm.%s-list" % f[1]
    return op


def apply_fault(doc, f):
    """Mutate the document in place.  Returns False if the fault is not applicable (e.g. after another fault)."""
    E, _, _ = _imports()
    adm = doc.adm
    op = f[0]
    try:
        if op == "set":
            setattr(doc.elem(f[1]), f[2], None if f[3] is None else doc.elem(tuple(f[3])))
        elif op == "ldrop":
            del getattr(doc.elem(f[1]), f[2])[f[3]]
        elif op == "lset":
            lst = getattr(doc.elem(f[1]), f[2])
            if f[3] >= len(lst):
                return False
            lst[f[3]] = None if f[4] is None else doc.elem(tuple(f[4]))
        elif op == "lins":
            getattr(doc.elem(f[1]), f[2]).append(None if f[3] is None else doc.elem(tuple(f[3])))
        elif op == "type":
            e = doc.elem(f[1])
            e.type = E.TypeDefinition[f[2]]
            if f[1][0] == "acf":
                e.audioBlockFormats = default_blocks(E, f[2], len(e.audioBlockFormats), f[1][1])
        elif op == "retype":
            e = doc.elem(f[1])
            e.type = E.TypeDefinition[f[2]]
            for k, c in enumerate(e.audioChannelFormats):
                c.type = E.TypeDefinition[f[2]]
                c.audioBlockFormats = default_blocks(E, f[2], len(c.audioBlockFormats), k)
        elif op == "tidx":
            doc.elem(f[1]).trackIndex = f[2]
        elif op == "param":
            o = doc.elem(f[1])
            if f[2] == "start":
                o.start = Fraction(1)
            elif f[2] == "duration":
                o.duration = Fraction(1)
            elif f[2] == "gain":
                o.gain = 0.5
            elif f[2] == "mute":
                o.mute = True
            elif f[2] == "positionOffset":
                o.positionOffset = E.PolarPositionOffset(azimuth=20.0)
            else:
                o.alternativeValueSets.append(E.AlternativeValueSet(id="AVS_X"))
        elif op == "chan":
            c = doc.elem(f[1])
            w = f[2]
            if w == "noblocks":
                c.audioBlockFormats = []
            elif w == "twoblocks":
                c.audioBlockFormats = default_blocks(E, c.type.name, 2, f[1][1])
            elif w == "freq":
                c.frequency = E.Frequency(lowPass=120.0)
            elif w == "cart":
                if not c.audioBlockFormats:
                    return False
                c.audioBlockFormats[0].cartesian = True
            elif w in ("rtime", "duration", "time", "time2"):
                if not c.audioBlockFormats:
                    return False
                blk = c.audioBlockFormats[0]
                if w == "rtime":
                    blk.rtime, blk.duration = Fraction(0), None
                elif w == "duration":
                    blk.rtime, blk.duration = None, Fraction(1)
                elif w == "time":
                    blk.rtime, blk.duration = Fraction(0), Fraction(1)
                else:
                    blk.rtime, blk.duration = Fraction(1, 2), Fraction(2)
            else:
                if not c.audioBlockFormats or not hasattr(c.audioBlockFormats[0], "order"):
                    return False
                blk = c.audioBlockFormats[0]
                if w == "noorder":
                    blk.order = None
                elif w == "nodegree":
                    blk.degree = None
                elif w == "equation":
                    blk.equation = "foo"
                elif w == "norm":
                    blk.normalization = "FuMa"
                elif w == "scr":
                    blk.screenRef = True
                elif w == "nfc0":
                    blk.nfcRefDist = 0.0
                elif w == "nfc":
                    blk.nfcRefDist = 2.0
                elif w == "nfc2":
                    blk.nfcRefDist = 3.0
                else:
                    blk.order, blk.degree = 0, 0
        elif op == "ppar":
            pk = doc.elem(f[1])
            if f[2] == "norm":
                pk.normalization = "FuMa"
            elif f[2] == "scr":
                pk.screenRef = True
            elif f[2] == "nfc0":
                pk.nfcRefDist = 0.0
            elif f[2] == "nfc":
                pk.nfcRefDist = 2.0
            elif f[2] == "nfc2":
                pk.nfcRefDist = 3.0
            elif f[2] == "absdist":
                pk.absoluteDistance = 1.0
            else:
                pk.absoluteDistance = 2.0
        elif op == "bset":
            blk = doc.elem(f[1]).audioBlockFormats[f[2]]
            blk.outputChannelFormat = None if f[3] is None else doc.elem(tuple(f[3]))
        elif op == "cpar":
            doc.elem(f[1]).audioBlockFormats[f[2]].matrix[f[3]].phase = 90.0
        elif op == "cdel":
            doc.elem(f[1]).audioBlockFormats[f[2]].matrix[f[3]].delay = -1.0
        elif op == "cset":
            co = doc.elem(f[1]).audioBlockFormats[f[2]].matrix[f[3]]
            co.inputChannelFormat = None if f[4] is None else doc.elem(tuple(f[4]))
        elif op == "coded":
            st = doc.elem(f[1])
            st.audioChannelFormat = None
            st.audioPackFormat = doc.elem(tuple(f[2]))
        elif op == "avs":
            e = doc.elem(f[1])
            if f[2] == "drop":
                del e.alternativeValueSets[0]
            elif f[2] == "dup":
                e.alternativeValueSets.append(e.alternativeValueSets[0])
            elif f[2] == "foreign":
                e.alternativeValueSets.append(E.AlternativeValueSet(id="AVS_FOREIGN"))
            else:
                avss = adm.audioObjects[f[3]].alternativeValueSets
                ai = f[4] if len(f) > 4 else 0
                if ai >= len(avss):
                    return False
                e.alternativeValueSets.append(avss[ai])
        elif op == "order":
            import random
            lst = getattr(adm, LISTS[f[1]])
            n = len(lst)
            perm = list(range(n))
            if f[2] == -1:
                perm.reverse()
            else:
                random.Random(f[2]).shuffle(perm)
            lst[:] = [lst[i] for i in perm]
            if f[1] == "ao":  # selected complementary objects are given by position
                inv = {old: new for new, old in enumerate(perm)}
                doc.sel = [inv[i] for i in doc.sel]
        elif op == "prog":
            doc.prog = f[1]
        elif op == "sel":
            doc.sel = list(f[1])
        else:
            raise ValueError(f)
    except (IndexError, AttributeError):
        return False
    return True


def build_faulty(recipe, faults):
    doc = build(tuple(recipe))
    for f in faults:
        if not apply_fault(doc, f):
            return None
    return doc


# --------------------------------------------------------------------------------------
# running the real code


FAMILIES = [
    ("objloop", r"^loop detected in audioObjects"),
    ("leafstart", r"has both audioObject references and start"),
    ("leafduration", r"has both audioObject references and duration"),
    ("leafgain", r"has both audioObject references and gain"),
    ("leafmute", r"has both audioObject references and mute"),
    ("leafoffset", r"has both audioObject references and positionOffset"),
    ("leafavs", r"has both audioObject references and alternativeValueSet"),
    ("packchtype", r"but contains audioChannelFormat"),
    ("subpacktype", r"but contains audioPackFormat"),
    ("packloop", r"^loop detected in audioPackFormats"),
    ("diamond", r"is included more than once in"),
    ("objfreq", r"^Objects audioChannelFormats must not have frequency"),
    ("cartesian", r"^mismatch between cartesian element"),
    ("hoablocks", r"^HOA audioChannelFormats must have exactly one block"),
    ("hoafreq", r"^HOA audioChannelFormats must not have frequency"),
    ("hoaeq", r"has an 'equation' attribute"),
    ("hoaorder", r"has no 'order' attribute"),
    ("hoadegree", r"has no 'degree' attribute"),
    ("hoadup", r"^duplicate orders and degrees"),
    ("hoaempty", r"^HOA audioPackFormats must contain at least one audioChannelFormat"),
    ("unsupportedtype", r"^Don't know how to produce rendering items for type"),
    ("coeffnoinput", r"^MatrixCoefficient must have an inputChannelFormat"),
    ("blocktime", r"^rtime and duration must be used together"),
    ("mxnoio", r"must have an input or output audioPackFormat"),
    ("mxinmatrix", r"inputPackFormat reference in .* must not be of Matrix"),
    ("mxoutmatrix", r"outputPackFormat reference in .* must not be of Matrix"),
    ("mxencnotdec", r"has encode pack formats but is not a decode"),
    ("mxdecone", r"^decode matrix audioPackFormats must have 1 encode"),
    ("mxencnonmatrix", r"references non-Matrix type audioPackFormat"),
    ("mxencnonenc", r"references non-encode type audioPackFormat"),
    ("mxsubpack", r"^matrix audioPackFormat .* has audioPackFormat references"),
    ("mxinputch", r"which is not in the input or encode audioPackFormat"),
    ("mxoutmissing", r"^outputChannelFormat reference is missing"),
    ("mxoutdup", r"^duplicate outputChannelFormat reference"),
    ("mxoutnotin", r"which is not in the output audioPackFormat"),
    ("mxoutuncovered", r"does not reference audioChannelFormat .* of output audioPackFormat"),
    ("nmxinput", r"^non-matrix audioPackFormat .* has inputPackFormat"),
    ("nmxoutput", r"^non-matrix audioPackFormat .* has outputPackFormat"),
    ("nmxencode", r"^non-matrix audioPackFormat .* has encodePackFormat"),
    ("mxchblocks", r"^matrix audioChannelFormat .* does not have a single audioBlockFormat"),
    ("mxchtime", r"has rtime or duration attributes"),
    ("mxchvar", r"attribute used in .* is not supported"),
    ("mxchdelay", r"attribute used in .* must be non-negative"),
    ("v2ref", r"are not valid before BS.2076-2"),
    ("tracknone", r"is not linked to an audioTrackFormat or audioChannelFormat"),
    ("trackboth", r"is linked to both an audioTrackFormat and a audioChannelFormat"),
    ("avsnotin", r"which is not in one of its constituent audioObjects"),
    ("avsdup", r"^duplicate references to"),
    ("avsboth", r"is referenced by both"),
    ("avsmulti", r"^multiple alternativeValueSets referenced"),
    ("streamboth", r"has a reference to both an audioPackFormat and an audioChannelFormat"),
    ("streamnone", r"has no reference to an audioPackFormat or audioChannelFormat"),
    ("tfnostream", r"is not linked to an audioStreamFormat"),
    ("compnotgroup", r"is not part of any complementary audioObject group"),
    ("compmulti", r"^multiple audioObjects selected from complementary"),
    ("noindex", r"does not have a track index"),
    ("nopack", r"does not have an audioPackFormat reference"),
    ("streamnochannel", r"^audioStreamFormat .* does not have an audioChannelFormat reference"),
    ("conflicting", r"^Conflicting format references found in"),
    ("ambiguous", r"^Ambiguous format references found in"),
]
import re as _re

_FAM = [(k, _re.compile(p, _re.S)) for k, p in FAMILIES]


_PARAM = [("paramshare", _re.compile(r"must share the same (\w+) value")),
          ("parampath", _re.compile(r"^Conflicting (\w+) values in path"))]


def family(msg):
    """message family = the model's AdmKind name (parameter helpers: `<kind>.<parameter name>`); the two messages of
    `_validate_matrix_apf_references` that share their text (pack itself / referenced encode pack without input and
    output reference) are told apart by the raise site, see `real_class`"""
    for k, p in _PARAM:
        m = p.search(msg)
        if m:
            return "%s.%s" % (k, m.group(1))
    for k, p in _FAM:
        if p.search(msg):
            return k
    return "other:" + msg[:60]


# --------------------------------------------------------------------------------------
# raise sites: (qualified function name, ordinal of the `raise` statement in that function), computed from the sources


_SITE_CACHE = {}


def _file_sites(filename):
    """{qualname: [(lineno, end_lineno, exception name)] in source order} for every function of a source file"""
    import ast
    if filename in _SITE_CACHE:
        return _SITE_CACHE[filename]
    with open(filename) as f:
        tree = ast.parse(f.read())
    out = {}

    def exc_name(node):
        e = node.exc
        if isinstance(e, ast.Call):
            e = e.func
        if isinstance(e, ast.Name):
            return e.id
        if isinstance(e, ast.Attribute):
            return e.attr
        return "?"

    def raises_of(fn):
        found = []

        def walk(n):
            for ch in ast.iter_child_nodes(n):
                if isinstance(ch, (ast.FunctionDef, ast.AsyncFunctionDef, ast.Lambda, ast.ClassDef)):
                    continue
                if isinstance(ch, ast.Raise) and ch.exc is not None:
                    found.append((ch.lineno, ch.end_lineno, exc_name(ch)))
                walk(ch)

        walk(fn)
        return sorted(found)

    def visit(node, prefix):
        for ch in ast.iter_child_nodes(node):
            if isinstance(ch, (ast.FunctionDef, ast.AsyncFunctionDef)):
                q = prefix + ch.name
                out[q] = raises_of(ch)
                visit(ch, q + ".")
            elif isinstance(ch, ast.ClassDef):
                visit(ch, prefix + ch.name + ".")
            else:
                visit(ch, prefix)

    visit(tree, "")
    _SITE_CACHE[filename] = out
    return out


def raise_site(tb):
    """(qualified function name, ordinal) of the `raise` statement the traceback ends in, or (name, 0)"""
    while tb.tb_next is not None:
        tb = tb.tb_next
    code = tb.tb_frame.f_code
    q = getattr(code, "co_qualname", code.co_name).replace("<locals>.", "")
    try:
        sites = _file_sites(code.co_filename).get(q, [])
    except (OSError, SyntaxError):
        sites = []
    for n, (lo, hi, _) in enumerate(sites):
        if lo <= tb.tb_lineno <= hi:
            return q, n + 1
    return q, 0


SITE_FILES = ("core/select_items/validate.py", "core/select_items/select_items.py", "core/select_items/utils.py",
              "core/select_items/hoa.py", "core/select_items/matrix.py", "core/select_items/pack_allocation.py",
              "fileio/adm/elements/main_elements.py", "fileio/adm/elements/block_formats.py")
# `raise` statements in those files that item selection cannot reach / that are not failures
SITES_NOT_MODELLED = {
    ("_link_track_stream_format", 1): "only called while references are being resolved (lazy_lookup_references)",
    ("_PackAllocator.OutputAllocationPack.output_channel_allocation", 1): "abstract method, both subclasses override it",
    ("_allocate_packs_impl_obvious.allocate_channel", 1): "_NotPossible: internal control flow, caught in the same function",
}


def code_sites():
    """every `raise` statement of the modules item selection runs through: {(qualname, ordinal): exception name}"""
    import os
    import ear
    root = os.path.dirname(ear.__file__)
    out = {}
    for rel in SITE_FILES:
        for q, lst in _file_sites(os.path.join(root, rel)).items():
            for n, (_, _, name) in enumerate(lst):
                out[(q, n + 1)] = name
    return out


def run_real(doc):
    """-> dict(cls=items|adm|internal, ...) ; AdmError (incl. subclasses) is the only accepted failure."""
    import traceback
    import warnings
    from ear.core.select_items import select_rendering_items
    from ear.fileio.adm.exceptions import AdmError

    prog, sel = doc.call_args()
    with warnings.catch_warnings():
        warnings.simplefilter("ignore")
        try:
            items = select_rendering_items(doc.adm, audio_programme=prog, selected_complementary_objects=sel)
            return {"cls": "items", "n": len(items)}
        except AdmError as e:
            site = raise_site(e.__traceback__)
            try:
                msg = str(e)
            except Exception as e2:  # the message itself cannot be formatted: as bad as any other escaping exception
                tb = traceback.extract_tb(e2.__traceback__)
                return {"cls": "internal", "exc": type(e2).__name__, "fn": "AdmError.__str__:" + tb[-1].name,
                        "msg": str(e2)[:200], "frames": []}
            if not msg:
                return {"cls": "internal", "exc": "AdmErrorWithoutMessage", "fn": "?", "msg": "", "frames": []}
            kind = family(msg)
            if kind == "mxnoio" and site == ("_validate_matrix_apf_references", 7):
                kind = "mxencnoio"
            return {"cls": "adm", "exc": type(e).__name__, "kind": kind, "msg": msg[:300], "full": msg,
                    "site": "%s:%d" % site, "reasons": list(getattr(e, "reasons", []) or [])}
        except RecursionError as e:
            return {"cls": "internal", "exc": "RecursionError", "fn": "?", "msg": "recursion", "frames": []}
        except Exception as e:
            tb = traceback.extract_tb(e.__traceback__)
            frames = ["%s:%d %s" % (fr.filename.split("/ear/")[-1], fr.lineno, fr.name) for fr in tb[-3:]]
            return {"cls": "internal", "exc": type(e).__name__, "fn": tb[-1].name, "msg": str(e)[:200],
                    "frames": frames}
