/- Line protocol for the C18 cursor model.
   in : `<data> <A> <size> <fileLen> ; s <off> <whence> ; t ; r <n> ; i <bs> ; ...`
   out: one token group per op: `u` | `E` | `p <c>` | `b <start> <count>` | `B <start>,<count> ...`
        followed by `| <final pos>`; `bad-op` for a malformed line. -/
import Earverif.Model.Bw64Cursor
import Earverif.Driver.Util
open Earverif.Cursor Earverif.Driver

def parseOp (ws : List String) : Option Op :=
  match ws with
  | ["s", a, b] => do some (.seek (← a.toInt?) (← b.toInt?))
  | ["t"] => some .tell
  | ["r", a] => do some (.read (← a.toInt?))
  | ["i", a] => do some (.iter (← a.toInt?))
  | _ => none

def showOut : Out → String
  | .unit => "u"
  | .valueError => "E"
  | .pos c => s!"p {c}"
  | .bytes (s, g) => s!"b {s} {g}"
  | .blocks rs => "B" ++ String.join (rs.map fun (s, g) => s!" {s},{g}")

def answer (line : String) : String :=
  match line.splitOn ";" with
  | hd :: rest =>
    match parseInts? (words hd), rest.mapM (fun s => parseOp (words s)) with
    | some [d, a, sz, fl], some ops =>
      let k : Cfg := ⟨d, a, sz, fl⟩
      -- the reader's __init__ ends with seek(0): start from the data offset
      let (p, outs) := run k k.data ops
      String.intercalate " ; " (outs.map showOut) ++ s!" | {p}"
    | _, _ => "bad-op"
  | [] => "bad-op"

def main : IO Unit := lineLoop answer
