"""T (DESIGN.md section 1): whitelist translator from the Python SOURCE of scalar kernels to Lean 4 defs.

The translator reads a source file of the repository checkout with `ast` (the module is never
imported), finds a function/method by qualified name and translates a *whitelisted* subset to a Lean
term.  Everything outside the whitelist raises `Refuse` with a message naming the construct; the
caller (`harness/kernels.py`) then writes a stub in place of the def so that the kernel's equality
theorem no longer type-checks (a refusal is never a silent skip).

Floats are treated as exact rationals/reals (the hand-written models do the same): a float literal is
the exact decimal it is written as (or, per kernel, the exact binary64 value, for models that do that),
`float(x)` is the identity, `np.sqrt/cos/sin/tan/arctan/arctan2/pi/...` are the abstract fields of the
`Scalar` class of the model the kernel is tied to (`SCALARS` below).

Whitelist (see `_Tr`):
  statements  docstring; `x = e`, `x = y = e`, `a, b = e1, e2`, `x op= e` (a later assignment shadows:
              Lean `let`); assignment to a *mapped* attribute (`bf.duration -= shift`: the mapped
              expression denotes the new value from then on) or to a designated optional;
              `v[v <cmp> c] = c'` on an array parameter (element-wise clip); `if/elif/else`
              (statements after an `if` are duplicated into both branches, so early `return`s and
              branch-wise assignments need no join); `while c: <assignments>` with a per-kernel fuel
              (an auxiliary structurally recursive def; when the fuel runs out the current values are
              returned); `for x in <mapped list>:` either as the model's `for_each` combinator (ret_mode 'except': the
              body raises or falls off, no `return`) or as a left fold whose state is the outer names the body
              assigns (`for c in l: if t(c): n += 1`); `a, b = divmod(x, y)`; `return e` / `return e1, e2`;
              `raise <ExceptionClass>(<message>)` (only where the kernel declares an error alternative and lists the
              statement in `raises` by exception CLASS and text: ret_mode 'option' = `none`, ret_mode 'except' = the entry's
              Lean error term; the message arguments - also those of `warnings.warn`, `dict(..)`, `"..".format(..)` - may only
              be constants, bound names and attribute chains whose intermediate values are mapped and cannot be None, so that
              building the message cannot raise something else); `assert` of a test that is constant-true on the kernel's
              domain, or (ret_mode 'except') one listed in `raises` with kind 'assert';
              `pass`; calls listed as no-ops (`warnings.warn`); calls listed as *effects*: the
              argument is the result (`self._buffer.seek(x)`), or a mapped state expression is updated
              (`self._buffer.seek(n, 1)` moves what `self._buffer.tell()` denotes).
  expressions parameters and locals; mapped expressions (per-kernel map keyed by the source text after
              expanding local object aliases); int/float/bool literals; `+ - * /`, `//` and `%`
              (`Int.fdiv`/`Int.fmod`, Python's floor semantics; plain `/` `%` on naturals), `divmod`,
              `& | << >>` on naturals, unary `-`/`+`, `~` on a boolean array, `** 2`, `<int literal> ** <int expression>`,
              `0.5 ** x` where the scalar class has `powHalf`; comparisons incl. chains; `and/or/not`;
              truth value of an integer (`!= 0`), `bool()`; `is None` / `is not None` on designated
              optionals (decided by a `match` hoisted to the top of the def; the body is partially
              evaluated per case, so `x is None or x.a == 0` short-circuits as in Python);
              conditional expressions; tuples; `min/max/abs`, `np.abs/np.sign/np.clip/np.hypot`;
              `np.sqrt/cos/sin/tan/arctan/arctan2/arcsin/arccos` and the `math.` equivalents,
              `np.power`, `np.pi`, `np.radians/np.degrees` (numpy's definitions `x*(pi/180)`,
              `x*(180/pi)`), `np.interp(x, [..], [..])` (the model's `interp`); `math.ceil/np.ceil`,
              `math.trunc`, `int()` of an integer, `int(x / c)` of a natural x and a positive integer literal c (division
              of naturals), `float()`, `Fraction(<int>)`; array parameters
              combined with scalars (`a * s`, `s + a`, `a > s`), `np.array(a)`, `np.array([])`,
              `np.arange(n)`, `np.any(a > s)`; `len()` of a mapped list; `any(t for x in l)` / `all(..)` over a mapped
              list (`List.any/all`, one `for` clause, no filter); `a is b` / `a is not b` on identity tokens (kind `id`);
              `x is None` on a first-class Option value (`isNone`/`isSome`), `None` where the other branch fixes the Option
              type, `opt == number`; `==`/`!=` on the enum-like kinds the kernel lists (`eq_kinds`); truth value of a
              mapped list (`not l` = empty); `Fraction(a, b)` of integers; with `strings=True` f-strings,
              `"..".format(..)` and `+` on strings (`List Char`: `{x}` = `decStr`, `{x:0Nd}` = `decPad N`, `{x:0NX}` =
              `hexPad N`, through Model/C08Digits.lean; anything else in a field is refused); calls of other translated
              kernels listed per kernel (`calls`); constructor calls listed per kernel (`slice(a, b)` ->
              pair); calls of same-module helper functions listed per kernel (inlined: the helper must
              be `asserts; return <expr>`).
  selection   the whole function; or `targets`: "the assignments to names X, Y, Z" (+ the branch
              condition as a guard); or `value_of`: the expression of one statement (right-hand side,
              `if` test, returned value); or `range`: the statements from one statement to another of
              the same block, with designated outputs.  A `targets` slice is refused if a selected name is stored to again
              in any statement that follows the slice (however nested).  Whatever the selection, the function's decorators
              and parameter defaults must be exactly the ones the spec lists.  Statements are designated by the beginning of
              their (ast-normalised) source text and must be unique in the function (the stop statement of a
              range: the first match after the start statement in the start statement's block).
"""
import ast
import copy
import hashlib
import re
from fractions import Fraction


class Refuse(Exception):
    """The source is outside the whitelisted subset."""


LEAN_RESERVED = {
    "end", "at", "from", "fun", "in", "open", "then", "else", "if", "let", "have", "show", "do", "match", "with",
    "where", "by", "def", "theorem", "instance", "class", "structure", "namespace", "section", "variable", "import",
    "Type", "Prop", "Sort", "using", "return", "for", "mut", "deriving", "example", "axiom", "private", "protected",
    "local", "macro", "syntax", "universe", "set_option", "export", "abbrev", "inductive", "mutual", "calc", "nomatch",
    "nofun", "this", "extends", "attribute", "infix", "notation", "postfix", "prefix", "opaque", "unsafe", "partial",
}


def mangle(name):
    return name + "_" if name in LEAN_RESERVED else name


NUM = ("lit", "nat", "int", "rat", "alpha")
LEAN_TYPE = {"nat": "Nat", "int": "Int", "rat": "Rat", "alpha": "α", "bool": "Bool"}

# the scalar classes of the models a kernel can be written over: Lean class, abstract fields, IEEE `==`
SCALARS = {
    "GainCalc": dict(cls="Earverif.GainCalc.Scalar", eq="Earverif.GainCalc.eqS",
                     fields={"sqrt", "cos", "sin", "pi", "pow", "atan2"}, interp="Earverif.GainCalc.interp"),
    "Conv": dict(cls="Earverif.Conv.Scalar", eq=None,
                 fields={"pi", "sqrt", "tan", "atan", "atan2", "sin", "cos", "asin", "acos"}, interp=None),
    "PointSource": dict(cls="Earverif.PointSource.Scalar", eq=None, fields={"sqrt", "max", "min", "powHalf"},
                        interp=None),
}
SCALARS["alpha"] = SCALARS["GainCalc"]


class Val:
    """A translated expression.  kind: lit (exact constant, `q`), nat/int/rat/alpha (numeric, Lean text),
    bool (Lean Bool), prop (Lean Prop), vec (array: `src.map fun var => body`), tuple, list0 (`[]`),
    opt (Lean Option, outputs only) or a per-kernel opaque tag.  `const` = known truth value."""

    def __init__(self, lean, kind, q=None, isfloat=False, const=None, src=None, var=None, body=None, items=None):
        self.lean, self.kind, self.q, self.isfloat, self.const = lean, kind, q, isfloat, const
        self.src, self.var, self.body, self.items = src, var, body, items


def _lit(q, isfloat):
    return Val(None, "lit", q=Fraction(q), isfloat=isfloat)


def _const(b):
    return Val("true" if b else "false", "bool", const=bool(b))


class Optional_:
    """A designated optional.  `py`: source text of the expression that may be None; `scrut`: Lean term of
    type `Option _`; `bind`: name bound in the `some` case; `payload`: {source text: (lean, kind)} valid in
    the `some` case (for a scalar optional this includes `py` itself)."""

    def __init__(self, py, scrut, bind, payload):
        self.py, self.scrut, self.bind, self.payload = py, scrut, bind, payload


class KernelSpec:
    """What to translate and how names map (everything the translator may assume about the environment).

    file, qualname   source location (`Class.method` for methods)
    lean_name        name of the generated def
    binders, ret     Lean signature text
    scalar           'rat' (literals are Rat/Int numerals) or a key of SCALARS ('alpha' = 'GainCalc'):
                     written over `α` with that model's Scalar class, literals `Scalar.ofRat q`
    names            {python name: (lean, kind)} for parameters/inputs used as plain names
    exprs            {source text: (lean, kind)} for mapped expressions; kind 'true'/'false' = a constant
                     on this kernel's domain
    optionals        [Optional_]
    effects          {source text of a called function: 'result' | dict(state=<mapped source text>,
                     forms={(nargs,) or (nargs, <int literal 2nd arg>): 'arg' | 'old+arg' | ('expr+arg', lean, kind)})}
    ctors            {(name, arity) or name: template}; template = str with {0},{1}.. or list of keyword names
                     or ("kw", name): the value of that (single) keyword argument
    inline           {called name: qualname of a function of the same file} (expression helpers)
    ret_mode         'plain' | 'option' (values are `some v`, `raise` is `none`)
    ret_wrap         {kind: template} applied to returned values (e.g. {'rat': '(Ext.fin {})'})
    select           None = whole function; or dict with one of
                       targets=[names or 'return'], guard=bool, inputs=[names]
                       value_of=<statement prefix> [, arg_of=<called name>: the first argument of that call]
                       range=(<first statement prefix>, <stop statement prefix or None>)
    outputs          [source texts]: what a path that falls off the end returns (names, mapped expressions,
                     optionals); needed for `range` and for functions that work by assignment
    fuel             Lean term (or list of terms, one per `while`, may mention locals) bounding loops
    float_literals   'decimal' (a literal is the decimal written) | 'binary64' (its exact double value)
    strings          True: f-strings and `"...".format(...)` are values (`List Char` through the Digits model:
                     `{x}` of a natural = `decStr`, `{x:0Nd}` = `decPad N`, `{x:0NX}` = `hexPad N`); otherwise they are
                     message text (only usable in warnings/exceptions)
    calls            {called name: dict(lean=<Lean function: another translated kernel>, args=[kinds], ret=kind)}
    eq_kinds         opaque kinds on which `==` / `!=` is Lean's decidable equality (enum-like values)
    raises           [(exception class name | 'assert', substring of the ast-normalised statement, Lean error term)]:
                     every `raise` must be `raise <Name>(<message arguments>)` (no `from`, no bare re-raise) and exactly one
                     entry must have that class name and a substring of the statement's text; an `assert` that is not
                     constant-true needs an entry of kind 'assert' (it raises AssertionError, not the class of a `raise`).
                     ret_mode 'except': the entry's term is the error value; ret_mode 'option': the term is ignored (`none`),
                     but the class/text match is still required.  Message arguments are restricted (see `_Tr.msg_ok`): they
                     must not be able to raise themselves (no attribute read through a value that may be None).
    decorators       the exact list of decorators (ast-normalised text) the function carries; anything else is refused
                     (a decorator can replace the function: only the ones listed here are known not to)
    defaults         the exact list of `name=<default>` texts of the function's parameter defaults; anything else is refused
                     (a default is part of what a caller that omits the argument computes)
    bound            names that are bound at the selected statements although the selection does not show their assignment
                     (usable in message arguments only)
    local_kinds      {local name: numeric kind}: a literal assigned to that name is a typed `let` (e.g. a counter that is
                     a natural number: an operation that could make it negative then no longer type-checks)
    for_each         ret_mode 'except': Lean name of the model's `for x in l: f(x)` combinator
                     (`List α → (α → Except ε Unit) → Except ε Unit`)
    """

    def __init__(self, file, qualname, lean_name, binders, ret, scalar="rat", names=None, exprs=None, optionals=(),
                 effects=None, ctors=None, inline=None, ret_mode="plain", ret_wrap=None, select=None, outputs=None,
                 fuel=None, float_literals="decimal", notes="", strings=False, calls=None, eq_kinds=(), raises=None,
                 for_each=None, local_kinds=None, decorators=(), defaults=(), bound=()):
        self.file, self.qualname, self.lean_name = file, qualname, lean_name
        self.binders, self.ret, self.scalar = binders, ret, scalar
        self.names, self.exprs, self.optionals = dict(names or {}), dict(exprs or {}), list(optionals)
        self.effects, self.ctors, self.inline = dict(effects or {}), dict(ctors or {}), dict(inline or {})
        self.ret_mode, self.ret_wrap, self.select, self.notes = ret_mode, dict(ret_wrap or {}), select, notes
        self.outputs, self.fuel, self.float_literals = outputs, fuel, float_literals
        self.strings, self.calls, self.eq_kinds = bool(strings), dict(calls or {}), tuple(eq_kinds)
        self.raises, self.for_each, self.local_kinds = list(raises or []), for_each, dict(local_kinds or {})
        self.decorators, self.defaults, self.bound = list(decorators), list(defaults), tuple(bound)
        for ent in self.raises:
            if not (isinstance(ent, tuple) and len(ent) == 3 and isinstance(ent[0], str) and isinstance(ent[1], str)):
                raise ValueError("%s: `raises` entries are (exception class | 'assert', substring, term): %r" % (lean_name, ent))


NOOP_CALLS = {"warnings.warn"}


# --------------------------------------------------------------------------------------
# locating the function


def find_function(tree, qualname):
    parts = qualname.split(".")
    body = tree.body
    node = None
    for i, p in enumerate(parts):
        found = [n for n in body if isinstance(n, (ast.FunctionDef, ast.ClassDef)) and n.name == p]
        if len(found) != 1:
            raise Refuse("%s: %d definitions named %r" % (qualname, len(found), p))
        node = found[0]
        body = node.body
    if not isinstance(node, ast.FunctionDef):
        raise Refuse("%s is not a function" % qualname)
    return node


def function_source(path, qualname):
    """(FunctionDef node, source text of the function incl. decorators, sha256 of that text, module tree)."""
    src = open(path, encoding="utf-8").read()
    tree = ast.parse(src)
    fn = find_function(tree, qualname)
    lines = src.split("\n")
    first = min([fn.lineno] + [d.lineno for d in fn.decorator_list])
    text = "\n".join(lines[first - 1:fn.end_lineno]) + "\n"
    return fn, text, hashlib.sha256(text.encode("utf-8")).hexdigest(), tree


# --------------------------------------------------------------------------------------
# selection


def _assigned_names(stmt):
    out = set()
    for n in ast.walk(stmt):
        if isinstance(n, (ast.Assign, ast.AugAssign, ast.AnnAssign)):
            tg = n.targets if isinstance(n, ast.Assign) else [n.target]
            for t in tg:
                for m in ast.walk(t):
                    if isinstance(m, ast.Name):
                        out.add(m.id)
        elif isinstance(n, (ast.For, ast.With)):
            for m in ast.walk(n):
                if isinstance(m, ast.Name) and isinstance(m.ctx, ast.Store):
                    out.add(m.id)
    return out


def _loads(node):
    return {m.id for m in ast.walk(node) if isinstance(m, ast.Name) and isinstance(m.ctx, ast.Load)}


def _find_block(body, targets, path):
    """Find the statement list that holds assignments to all `targets` (or the unique `return`).
    Returns (path, block, index of last target statement); path = [(block, index of the If, polarity)]."""
    want_ret = targets == ["return"]
    hits = []
    last = -1
    seen = set()
    for i, s in enumerate(body):
        if want_ret:
            if isinstance(s, ast.Return):
                seen.add("return")
                last = i
        elif isinstance(s, (ast.Assign, ast.AugAssign)):
            nm = _assigned_names(s) & set(targets)
            if nm:
                seen |= nm
                last = i
    if seen == set(targets):
        hits.append((path, body, last))
    for i, s in enumerate(body):
        if isinstance(s, ast.If):
            hits += _find_block(s.body, targets, path + [(body, i, True)])
            hits += _find_block(s.orelse, targets, path + [(body, i, False)])
    return hits


def slice_function(fn, select):
    """Synthetic statement list computing the selected names (select['targets']).  `inputs` are names
    taken as given at the slice point (their earlier assignments are outside the slice)."""
    targets = list(select["targets"])
    stop_names = set(select.get("inputs", ()))
    guard = bool(select.get("guard", False))
    hits = _find_block(fn.body, targets, [])
    if len(hits) != 1:
        raise Refuse("slice %r: %d statement blocks assign all of these names (need exactly 1)" % (targets, len(hits)))
    path, block, last = hits[0]
    if targets == ["return"]:
        final = block[last]
        needed = _loads(final)
        tail = [final]
        upto = last
    else:
        tail = [ast.Return(value=ast.Tuple(elts=[ast.Name(id=t, ctx=ast.Load()) for t in targets], ctx=ast.Load())
                           if len(targets) > 1 else ast.Name(id=targets[0], ctx=ast.Load()))]
        needed = set(targets)
        upto = last + 1
    # prefixes, innermost first
    levels = [(block, upto, None)] + [(b, i, pol) for (b, i, pol) in reversed(path)]
    built = tail
    for (b, n, pol) in levels:
        if pol is not None:
            # `built` is the body of the branch of b[n] we came through
            test = b[n].test
            if guard:
                needed |= _loads(test)
                t = test if pol else ast.UnaryOp(op=ast.Not(), operand=test)
                other = ast.Raise(exc=ast.Name(id="_NotReached", ctx=ast.Load()), cause=None)
                other._synthetic = True
                built = [ast.If(test=t, body=built, orelse=[other])]
        keep = []
        needed -= stop_names
        for s in reversed(b[:n]):
            an = _assigned_names(s)
            # a call statement / del that mentions a name the slice depends on could change it in place
            for sub in ast.walk(s):
                if isinstance(sub, ast.Delete) or (isinstance(sub, ast.Expr) and isinstance(sub.value, ast.Call)
                                                   and ast.unparse(sub.value.func) not in NOOP_CALLS):
                    hit = sorted(_loads(sub) & needed)
                    if hit:
                        raise Refuse("slice %r: statement `%s` (line %d) mentions %s, which the slice depends on"
                                     % (targets, ast.unparse(sub)[:80], sub.lineno, hit))
            if not (an & needed):
                continue
            if isinstance(s, (ast.Assign, ast.AugAssign)):
                keep.append(s)
                if isinstance(s, ast.Assign):
                    tnames = set()
                    for t in s.targets:
                        if isinstance(t, ast.Name):
                            tnames.add(t.id)
                    needed -= tnames
                needed |= _loads(s.value)
                if isinstance(s, ast.AugAssign):
                    needed |= an
                needed -= stop_names
            else:
                hit = sorted((an & needed) - set(stop_names))
                if hit:
                    raise Refuse("slice %r: name(s) %s are assigned inside a %s statement outside the slice"
                                 % (targets, hit, type(s).__name__))
        built = list(reversed(keep)) + built
    if targets != ["return"]:
        # a later store to a selected name (in any following statement of the function, however nested) would make the
        # value the rest of the function uses differ from the value of the slice
        later = list(block[last + 1:])
        for (b, i, pol) in path:
            later += b[i + 1:]
        for st in later:
            for sub in ast.walk(st):
                nm = None
                if isinstance(sub, ast.Name) and isinstance(sub.ctx, (ast.Store, ast.Del)) and sub.id in targets:
                    nm = sub.id
                elif isinstance(sub, (ast.Global, ast.Nonlocal)) and set(sub.names) & set(targets):
                    nm = sorted(set(sub.names) & set(targets))[0]
                if nm is not None:
                    raise Refuse("slice %r: `%s` is assigned again after the slice (line %d, in `%s`)"
                                 % (targets, nm, getattr(sub, "lineno", st.lineno), ast.unparse(st).split("\n")[0][:80]))
    for s in built:
        ast.fix_missing_locations(s)
    return built


def _blocks(body):
    """every statement list of a function body (descending into compound statements, not into nested defs)"""
    yield body
    for s in body:
        for fld in ("body", "orelse", "finalbody"):
            sub = getattr(s, fld, None)
            if isinstance(sub, list) and sub and isinstance(sub[0], ast.stmt) \
                    and not isinstance(s, (ast.FunctionDef, ast.ClassDef, ast.AsyncFunctionDef)):
                yield from _blocks(sub)
        for h in getattr(s, "handlers", []) or []:
            yield from _blocks(h.body)


def find_statement(fn, prefix):
    """(block, index) of the unique statement whose ast-normalised source text starts with `prefix`
    (`re:<regex>`: matches the regex at its start)."""
    hits = []
    for blk in _blocks(fn.body):
        for i, s in enumerate(blk):
            text = ast.unparse(s)
            if (re.match(prefix[3:], text) if prefix.startswith("re:") else text.startswith(prefix)):
                hits.append((blk, i))
    if len(hits) != 1:
        raise Refuse("%d statements of `%s` start with %r (need exactly 1)" % (len(hits), fn.name, prefix))
    return hits[0]


def select_value_of(fn, prefix, arg_of=None, arg_index=0):
    blk, i = find_statement(fn, prefix)
    s = blk[i]
    if arg_of is not None:
        # for a compound statement only its header is searched (the test of an `if`/`while`, the iterable of a `for`)
        hdr = s.iter if isinstance(s, ast.For) else (s.test if isinstance(s, (ast.If, ast.While)) else s)
        calls = [n for n in ast.walk(hdr) if isinstance(n, ast.Call) and ast.unparse(n.func) == arg_of and n.args]
        if len(calls) != 1:
            raise Refuse("value_of %r: %d calls of `%s` in the statement (need exactly 1)" % (prefix, len(calls), arg_of))
        if calls[0].keywords or any(isinstance(a, ast.Starred) for a in calls[0].args) or len(calls[0].args) <= arg_index:
            raise Refuse("value_of %r: the call of `%s` has no plain positional argument %d" % (prefix, arg_of, arg_index))
        v = calls[0].args[arg_index]
    elif isinstance(s, (ast.Assign, ast.AugAssign, ast.Return)) and s.value is not None:
        v = s.value
    elif isinstance(s, (ast.If, ast.While)):
        v = ast.Call(func=ast.Name(id="bool", ctx=ast.Load()), args=[s.test], keywords=[])
    elif isinstance(s, ast.For):
        v = s.iter
    elif isinstance(s, ast.Expr) and isinstance(s.value, ast.Call) and len(s.value.args) >= 1:
        v = s.value.args[0]
    else:
        raise Refuse("value_of %r: statement of type %s has no designated expression" % (prefix, type(s).__name__))
    r = ast.Return(value=v)
    ast.copy_location(r, s)
    ast.fix_missing_locations(r)
    return [r]


def select_range(fn, start, stop):
    blk, i = find_statement(fn, start)
    j = len(blk)
    if stop is not None:
        # the stop statement: the first later statement of the start statement's block that matches (the same text may
        # occur in other blocks of the function, e.g. `pv = np.zeros(n)` in several branches)
        later = [n for n in range(i + 1, len(blk))
                 if (re.match(stop[3:], ast.unparse(blk[n])) if stop.startswith("re:") else ast.unparse(blk[n]).startswith(stop))]
        if not later:
            raise Refuse("range (%r, %r): the stop statement is not later in the same block" % (start, stop))
        j = later[0]
    return list(blk[i:j])


# --------------------------------------------------------------------------------------
# the translator proper


class _Env:
    def __init__(self, spec):
        self.names = dict(spec.names)  # python name -> Val or (lean, kind)
        self.exprs = dict(spec.exprs)
        self.over = {}  # mapped source text -> Val: value after an assignment/effect on this path
        self.aliases = {}  # local name -> ast expr (object alias)
        self.none = {}  # optional source text -> True (is None) / False
        self.fresh = [0]

    def child(self):
        e = copy.copy(self)
        e.names = dict(self.names)
        e.exprs = dict(self.exprs)
        e.over = dict(self.over)
        e.aliases = dict(self.aliases)
        e.none = dict(self.none)
        return e


class _Tr:
    def __init__(self, spec, tree=None, src_text=None):
        self.spec = spec
        self.alpha = spec.scalar != "rat"
        if self.alpha and spec.scalar not in SCALARS:
            raise Refuse("unknown scalar class %r" % spec.scalar)
        self.sc = SCALARS[spec.scalar] if self.alpha else None
        self.S = self.sc["cls"] if self.alpha else None
        self.opt = {o.py: o for o in spec.optionals}
        self.tree, self.src_text = tree, src_text
        self.params = set()  # parameter names of the function (set by `translate`): bound names usable in messages
        self.aux = []  # auxiliary defs (while loops)
        self.nloops = 0
        self.outputs = spec.outputs
        self.in_for = 0  # > 0 while translating the body of a `for` loop (no `return` there)
        self.plain_ret = 0  # > 0 while translating a loop body whose value is the tuple of its state variables

    # ---- helpers

    def bad(self, node, what):
        line = getattr(node, "lineno", None)
        txt = ""
        try:
            txt = ast.unparse(node)
        except Exception:
            pass
        raise Refuse("%s%s: `%s`" % (what, " (line %d)" % line if line else "", txt[:120]))

    def canon(self, node, env):
        """Source text of an expression after expanding local object aliases."""
        if env.aliases:
            al = env.aliases

            class Sub(ast.NodeTransformer):
                def visit_Name(self, n):
                    return copy.deepcopy(al[n.id]) if n.id in al else n

            node = Sub().visit(copy.deepcopy(node))
        return ast.unparse(node)

    def is_object_path(self, text, env):
        keys = list(env.exprs) + list(self.opt) + [k for o in self.spec.optionals for k in o.payload]
        return any(k.startswith(text + ".") or k.startswith(text + "[") for k in keys)

    def field(self, name, node):
        if not self.alpha:
            self.bad(node, "`%s` needs a Scalar kernel (abstract function)" % name)
        if name not in self.sc["fields"]:
            self.bad(node, "the scalar class %s of the target model has no `%s`" % (self.S, name))
        return "%s.%s" % (self.S, name)

    def ofrat(self, q):
        a = abs(q)
        s = "%d" % a.numerator if a.denominator == 1 else "(%d / %d)" % (a.numerator, a.denominator)
        if q < 0:
            s = "(-%s)" % s
        return "(%s.ofRat %s : α)" % (self.S, s)

    def num(self, v, kind, node=None):
        """Lean text of numeric value `v` used at numeric kind `kind` (nat/int/rat/alpha)."""
        if v.kind == "lit":
            q = v.q
            neg = q < 0
            a = abs(q)
            if kind == "alpha":
                s = self.ofrat(a)
            elif kind == "rat":
                if a.denominator == 1:
                    s = "(%d : Rat)" % a.numerator
                elif self.spec.float_literals == "binary64":
                    s = "(mkRat %d %d)" % (a.numerator, a.denominator)
                else:
                    s = "((%d : Rat) / %d)" % (a.numerator, a.denominator)
            elif kind in ("int", "nat"):
                if a.denominator != 1 or v.isfloat:
                    self.bad(node, "non-integer literal in integer arithmetic")
                if kind == "nat" and neg:
                    self.bad(node, "negative literal as a natural number")
                s = "(%d : %s)" % (a.numerator, "Int" if kind == "int" else "Nat")
            else:
                self.bad(node, "literal used as %s" % kind)
            return "(-%s)" % s if neg else s
        if v.kind == kind:
            return v.lean
        # explicit cast functions: a type ascription on a compound term would push the cast to the leaves
        if v.kind == "nat" and kind == "int":
            return "(Nat.cast %s : Int)" % v.lean
        if v.kind == "nat" and kind == "rat":
            return "(Nat.cast %s : Rat)" % v.lean
        if v.kind == "int" and kind == "rat":
            return "(Int.cast %s : Rat)" % v.lean
        self.bad(node, "cannot use a %s value as %s" % (v.kind, kind))

    def join(self, a, b, node, op="cmp"):
        """numeric kind of a binary operation on a and b"""
        ka, kb = a.kind, b.kind
        for k in (ka, kb):
            if k not in NUM:
                self.bad(node, "arithmetic/comparison on a non-numeric (%s) value" % k)
        if "alpha" in (ka, kb):
            if {ka, kb} - {"alpha", "lit"}:
                self.bad(node, "mixing the abstract scalar with int/rat values")
            return "alpha"
        if ka == "lit" and kb == "lit":
            return "lit"
        order = ["nat", "int", "rat"]
        ks = [k for k in (ka, kb) if k != "lit"]
        k = max(ks, key=order.index)
        fl = [v for v in (a, b) if v.kind == "lit" and (v.isfloat or v.q.denominator != 1)]
        if fl:
            if self.alpha:
                self.bad(node, "int/rat arithmetic inside a Scalar kernel")
            k = "rat"
        if k == "nat" and (op == "-" or any(v.kind == "lit" and v.q < 0 for v in (a, b))):
            k = "int"  # Python ints are unbounded: never truncated subtraction
        return k

    def as_prop(self, v, node):
        if v.kind == "prop":
            return v.lean
        if v.kind == "bool":
            return "(%s = true)" % v.lean
        if v.kind in ("int", "nat"):
            return "(%s ≠ 0)" % v.lean  # Python truth value of an integer
        if v.kind.startswith("list:"):
            return "(%s.isEmpty = false)" % v.lean  # Python truth value of a list
        self.bad(node, "truth value of a %s expression (only comparisons/booleans/integers/lists are whitelisted)" % v.kind)

    def as_bool(self, v, node):
        if v.kind == "bool":
            return v.lean
        if v.kind in ("prop", "int", "nat") or v.kind.startswith("list:"):
            return "(decide %s)" % self.as_prop(v, node)
        self.bad(node, "expected a boolean, got %s" % v.kind)

    def truth(self, v, node):
        """partial evaluation of a truth value: literal numbers are constants"""
        if v.kind == "lit":
            return _const(v.q != 0)
        return v

    def value(self, v, node):
        """Lean text of `v` where a first-class value is needed (let, return, tuple item)."""
        if v.kind == "lit":
            return self.num(v, "alpha" if self.alpha else ("rat" if (v.isfloat or v.q.denominator != 1) else "int"), node)
        if v.kind == "prop":
            return self.as_bool(v, node)
        if v.kind == "vec":
            b = v.body
            if b.kind in NUM + ("bool", "prop") and self.value(b, node) == v.var.split(" ")[0]:
                return v.src
            return "(%s.map (fun %s => %s))" % (v.src, v.var, self.value(b, node))
        if v.kind == "tuple":
            return "(" + ", ".join(self.value(i, node) for i in v.items) + ")"
        return v.lean

    def fresh(self, env, stem):
        env.fresh[0] += 1
        return "%s%d" % (stem, env.fresh[0])

    # ---- expressions

    def lookup(self, text, node, env):
        """mapped expressions (after assignments/effects on this path), optionals, constants"""
        if text in env.over:
            return env.over[text]
        if text in self.opt:
            st = env.none.get(text)
            o = self.opt[text]
            if st is False and text in o.payload:
                l, k = o.payload[text]
                return Val(l, k)
            if st is False:
                self.bad(node, "optional object used as a value")
            self.bad(node, "value of `%s` used where it may be None" % text)
        for o in self.spec.optionals:
            if text in o.payload:
                if env.none.get(o.py) is False:
                    l, k = o.payload[text]
                    return Val(l, k)
                self.bad(node, "`%s` evaluated where `%s` may be None" % (text, o.py))
        if text in env.exprs:
            l, k = env.exprs[text]
            if k in ("true", "false"):
                return _const(k == "true")  # declared constant on this kernel's domain (see the registry note)
            if k.startswith("vec:"):
                return self.vecparam(l, env, k[4:])
            return Val(l, k) if k != "vec" else self.vecparam(l, env, "rat" if not self.alpha else "alpha")
        return None

    def expr(self, node, env):
        if not isinstance(node, (ast.Constant, ast.Tuple, ast.List)):
            r = self.lookup(self.canon(node, env), node, env)
            if r is not None:
                return r
        f = getattr(self, "e_" + type(node).__name__, None)
        if f is None:
            self.bad(node, "expression of type %s is not in the whitelist" % type(node).__name__)
        return f(node, env)

    def vecparam(self, lean, env, elem):
        var = self.fresh(env, "e")
        return Val(None, "vec", src=lean, var=var, body=Val(var, elem))

    def e_Name(self, node, env):
        if node.id in env.names:
            v = env.names[node.id]
            if isinstance(v, tuple):
                l, k = v
                if k.startswith("vec:"):
                    return self.vecparam(l, env, k[4:])
                return Val(l, k)
            return v
        if node.id in env.aliases:
            self.bad(node, "object alias used as a value")
        self.bad(node, "name `%s` is neither a mapped parameter nor a local" % node.id)

    def e_Constant(self, node, env):
        c = node.value
        if c is True or c is False:
            return _const(c)
        if isinstance(c, int):
            return _lit(c, False)
        if c is None:
            return Val("none", "none")  # only usable where the other side fixes the Option type
        if isinstance(c, str):
            if self.spec.strings:
                return Val(self.strlit(c, node), "str")
            return Val(None, "msg")  # message text: only usable in warnings / exceptions
        if isinstance(c, float):
            if c != c or c in (float("inf"), float("-inf")):
                self.bad(node, "non-finite float literal")
            if self.spec.float_literals == "binary64":
                return _lit(Fraction(c), True)  # the exact value of the double
            src = None
            if self.src_text and getattr(node, "lineno", None) and getattr(node, "end_col_offset", None) is not None:
                try:
                    src = ast.get_source_segment(self.src_text, node)
                except Exception:
                    src = None
            try:
                q = Fraction(src.replace("_", "")) if src else Fraction(repr(c))  # the decimal as written
            except (ValueError, TypeError, AttributeError):
                q = Fraction(repr(c))
            if float(q) != c:
                q = Fraction(repr(c))
            return _lit(q, True)
        self.bad(node, "constant of type %s" % type(c).__name__)

    def e_Attribute(self, node, env):
        text = ast.unparse(node)
        if text in ("np.pi", "numpy.pi", "math.pi"):
            return Val(self.field("pi", node), "alpha")
        self.bad(node, "attribute `%s` is not in this kernel's attribute map" % self.canon(node, env))

    def e_Subscript(self, node, env):
        self.bad(node, "subscript `%s` is not in this kernel's map" % self.canon(node, env))

    def e_UnaryOp(self, node, env):
        v = self.expr(node.operand, env)
        if isinstance(node.op, ast.Not):
            v = self.truth(v, node)
            if v.const is not None:
                return _const(not v.const)
            return Val("(¬ %s)" % self.as_prop(v, node), "prop")
        if isinstance(node.op, (ast.USub, ast.UAdd)):
            if v.kind == "vec":
                return self.vecmap(v, lambda b: self.e_neg(b, node, isinstance(node.op, ast.USub)))
            return self.e_neg(v, node, isinstance(node.op, ast.USub))
        if isinstance(node.op, ast.Invert) and v.kind == "vec" and v.body.kind in ("bool", "prop"):
            # `~mask` on a boolean array: element-wise not
            return self.vecmap(v, lambda b: Val("(¬ %s)" % self.as_prop(b, node), "prop"))
        self.bad(node, "unary operator %s" % type(node.op).__name__)

    def e_neg(self, v, node, neg):
        if v.kind not in NUM:
            self.bad(node, "unary minus on a %s value" % v.kind)
        if not neg:
            return v
        if v.kind == "lit":
            return _lit(-v.q, v.isfloat)
        k = "int" if v.kind == "nat" else v.kind
        return Val("(-%s)" % self.num(v, k, node), k)

    def vecmap(self, v, f):
        return Val(None, "vec", src=v.src, var=v.var, body=f(v.body))

    def e_BinOp(self, node, env):
        a, b = self.expr(node.left, env), self.expr(node.right, env)
        return self.binop(node.op, a, b, node)

    def binop(self, op, a, b, node):
        if a.kind == "vec" and b.kind == "vec":
            self.bad(node, "array (op) array")
        if a.kind == "vec":
            return self.vecmap(a, lambda x: self.binop(op, x, b, node))
        if b.kind == "vec":
            return self.vecmap(b, lambda x: self.binop(op, a, x, node))
        if isinstance(op, ast.Add) and a.kind == "str" and b.kind == "str":
            return self.concat([self.atom(a.lean), self.atom(b.lean)])  # string concatenation
        if isinstance(op, ast.Pow):
            if b.kind == "lit" and b.q == 2 and not b.isfloat:
                if a.kind == "lit":
                    return _lit(a.q * a.q, a.isfloat)
                if a.kind not in NUM:
                    self.bad(node, "** on a %s value" % a.kind)
                k = "int" if a.kind == "nat" else a.kind
                s = self.num(a, k, node)
                return Val("(%s * %s)" % (s, s), k)
            if a.kind == "lit" and not a.isfloat and a.q.denominator == 1 and a.q > 0:
                if b.kind == "lit" and not b.isfloat and b.q.denominator == 1 and 0 <= b.q <= 64:
                    return _lit(a.q ** int(b.q), False)
                if b.kind == "nat":
                    return Val("((%d : Nat) ^ %s)" % (a.q.numerator, b.lean), "nat")
                if b.kind == "int":
                    # Python: int ** non-negative int (a negative exponent would give a float; Int.toNat clamps it)
                    return Val("((%d : Int) ^ (%s).toNat)" % (a.q.numerator, b.lean), "int")
            if a.kind == "lit" and a.q == Fraction(1, 2) and self.alpha and b.kind in ("alpha", "lit"):
                return Val("(%s %s)" % (self.field("powHalf", node), self.num(b, "alpha", node)), "alpha")
            self.bad(node, "`**` other than `x ** 2`, `<positive int literal> ** <int expression>` or `0.5 ** x` "
                           "(with a `powHalf` scalar field)")
        sym = {ast.Add: "+", ast.Sub: "-", ast.Mult: "*", ast.Div: "/", ast.FloorDiv: "//", ast.Mod: "%",
               ast.BitAnd: "&", ast.BitOr: "|", ast.LShift: "<<", ast.RShift: ">>"}.get(type(op))
        if sym is None:
            self.bad(node, "binary operator %s" % type(op).__name__)
        if sym in ("&", "|") and a.kind in ("bool", "prop") and b.kind in ("bool", "prop"):
            # `&` / `|` of booleans (numpy's element-wise and/or): both operands are evaluated
            a, b = self.truth(a, node), self.truth(b, node)
            if a.const is not None or b.const is not None:
                c, o = (a, b) if a.const is not None else (b, a)
                if sym == "&":
                    return o if c.const else _const(False)
                return _const(True) if c.const else o
            return Val("(%s %s %s)" % (self.as_prop(a, node), "∧" if sym == "&" else "∨", self.as_prop(b, node)), "prop")
        k = self.join(a, b, node, op=sym)
        if k == "lit" and self.alpha and (a.isfloat or b.isfloat) and sym in ("+", "-", "*", "/"):
            k = "alpha"  # float constants of a Scalar kernel are not folded: the scalar class has no algebraic laws
        if k == "lit":
            fl = a.isfloat or b.isfloat
            if sym == "+":
                return _lit(a.q + b.q, fl)
            if sym == "-":
                return _lit(a.q - b.q, fl)
            if sym == "*":
                return _lit(a.q * b.q, fl)
            if sym == "/" and b.q != 0:
                return _lit(a.q / b.q, True)
            if not fl and a.q.denominator == 1 and b.q.denominator == 1:
                x, y = int(a.q), int(b.q)
                try:
                    if sym == "//" and y != 0:
                        return _lit(x // y, False)
                    if sym == "%" and y != 0:
                        return _lit(x % y, False)
                    if sym == "&" and x >= 0 and y >= 0:
                        return _lit(x & y, False)
                    if sym == "|" and x >= 0 and y >= 0:
                        return _lit(x | y, False)
                    if sym == "<<" and 0 <= y <= 128 and x >= 0:
                        return _lit(x << y, False)
                    if sym == ">>" and y >= 0 and x >= 0:
                        return _lit(x >> y, False)
                except Exception:
                    pass
            self.bad(node, "constant expression")
        if sym in ("&", "|", "<<", ">>"):
            if k != "nat":
                self.bad(node, "bit operation `%s` on a possibly negative integer (declare the operands natural)" % sym)
            lsym = {"&": "&&&", "|": "|||", "<<": "<<<", ">>": ">>>"}[sym]
            return Val("(%s %s %s)" % (self.num(a, "nat", node), lsym, self.num(b, "nat", node)), "nat")
        if sym in ("//", "%"):
            if k == "nat":
                return Val("(%s %s %s)" % (self.num(a, "nat", node), "/" if sym == "//" else "%", self.num(b, "nat", node)), "nat")
            if k != "int":
                self.bad(node, "`%s` on non-integers" % sym)
            fn = "Int.fdiv" if sym == "//" else "Int.fmod"  # Python: floor division, remainder with the divisor's sign
            return Val("(%s %s %s)" % (fn, self.num(a, "int", node), self.num(b, "int", node)), "int")
        if sym == "/" and k in ("int", "nat"):
            # Python true division of ints gives a float: exact rational here
            return Val("(%s / %s)" % (self.num(a, "rat", node), self.num(b, "rat", node)), "rat")
        return Val("(%s %s %s)" % (self.num(a, k, node), sym, self.num(b, k, node)), k)

    def e_BoolOp(self, node, env):
        is_and = isinstance(node.op, ast.And)
        parts = []
        for vnode in node.values:
            v = self.truth(self.expr(vnode, env), node)  # left to right; later operands only if not short-circuited
            if v.const is not None:
                if v.const == (not is_and):
                    # `False and ...` / `True or ...`: the rest is not evaluated
                    if not parts:
                        return _const(v.const)
                    parts.append(v)
                    break
                continue  # neutral element
            parts.append(v)
        if not parts:
            return _const(is_and)
        if parts[-1].const is not None:
            # `a and False` / `a or True` with boolean a: a is evaluated (it is pure and was translated above, so it is
            # inside the whitelist) and the result is the constant
            tail = parts.pop()
            if all(p.kind in ("bool", "prop") for p in parts):
                return _const(tail.const)
            parts.append(Val("False" if not tail.const else "True", "prop"))
        if len(parts) == 1:
            v = parts[0]
            if v.kind not in ("bool", "prop"):
                self.bad(node, "`and`/`or` returning a non-boolean operand")
            return v
        if any(p.kind not in ("bool", "prop", "int", "nat") and not p.kind.startswith("list:") for p in parts):
            self.bad(node, "`and`/`or` on non-boolean operands")
        sym = " ∧ " if is_and else " ∨ "
        return Val("(" + sym.join(self.as_prop(p, node) for p in parts) + ")", "prop")

    def cmp1(self, op, a, b, node):
        if a.kind == "vec" and b.kind != "vec":
            return self.vecmap(a, lambda x: self.cmp1(op, x, b, node))
        if b.kind == "vec" and a.kind != "vec":
            return self.vecmap(b, lambda x: self.cmp1(op, a, x, node))
        if isinstance(op, (ast.Eq, ast.NotEq)) and a.kind in ("bool", "prop") and b.kind in ("bool", "prop"):
            s = "(%s = %s)" % (self.as_bool(a, node), self.as_bool(b, node))
            return Val(s if isinstance(op, ast.Eq) else "(¬ %s)" % s, "prop")
        if isinstance(op, (ast.Eq, ast.NotEq)):
            s = None
            if a.kind == b.kind and a.kind in self.spec.eq_kinds:
                s = "(%s = %s)" % (a.lean, b.lean)  # enum-like values: Lean's decidable equality
            else:
                for x, y in ((a, b), (b, a)):
                    # `opt == number`: None is not equal to any number
                    if x.kind.startswith("option:") and x.kind[7:] in NUM and y.kind in NUM:
                        s = "(%s = some %s)" % (x.lean, self.num(y, x.kind[7:], node))
                        break
            if s is not None:
                return Val(s if isinstance(op, ast.Eq) else "(¬ %s)" % s, "prop")
        k = self.join(a, b, node, op="cmp")
        if k == "lit":
            r = {ast.Lt: a.q < b.q, ast.LtE: a.q <= b.q, ast.Gt: a.q > b.q, ast.GtE: a.q >= b.q, ast.Eq: a.q == b.q,
                 ast.NotEq: a.q != b.q}.get(type(op))
            if r is None:
                self.bad(node, "comparison operator %s" % type(op).__name__)
            return _const(r)
        x, y = self.num(a, k, node), self.num(b, k, node)
        # normal form: only `<`, `≤`, `=` (a > b is b < a)
        if isinstance(op, ast.Lt):
            return Val("(%s < %s)" % (x, y), "prop")
        if isinstance(op, ast.LtE):
            return Val("(%s ≤ %s)" % (x, y), "prop")
        if isinstance(op, ast.Gt):
            return Val("(%s < %s)" % (y, x), "prop")
        if isinstance(op, ast.GtE):
            return Val("(%s ≤ %s)" % (y, x), "prop")
        if isinstance(op, (ast.Eq, ast.NotEq)):
            if k == "alpha":
                if not self.sc["eq"]:
                    self.bad(node, "`==` on the abstract scalar: the target model's class has no IEEE equality")
                v = Val("(%s %s %s)" % (self.sc["eq"], x, y), "bool")
                return v if isinstance(op, ast.Eq) else Val("(¬ %s)" % self.as_prop(v, node), "prop")
            s = "(%s = %s)" % (x, y)
            return Val(s if isinstance(op, ast.Eq) else "(¬ %s)" % s, "prop")
        self.bad(node, "comparison operator %s" % type(op).__name__)

    def e_Compare(self, node, env):
        # `x is None` / `x is not None`
        if len(node.ops) == 1 and isinstance(node.ops[0], (ast.Is, ast.IsNot)):
            r = node.comparators[0]
            pos = isinstance(node.ops[0], ast.Is)
            if not (isinstance(r, ast.Constant) and r.value is None):
                # object identity of two values that carry identity tokens (kind `id`)
                a, b = self.expr(node.left, env), self.expr(r, env)
                if a.kind != "id" or b.kind != "id":
                    self.bad(node, "`is` between values that are not both identity tokens (kinds %s / %s)" % (a.kind, b.kind))
                s = "(%s = %s)" % (a.lean, b.lean)
                return Val(s if pos else "(¬ %s)" % s, "prop")
            text = self.canon(node.left, env)
            if text not in self.opt:
                v = self.lookup(text, node, env)
                if v is None and isinstance(node.left, ast.Name) and node.left.id in env.names:
                    v = self.e_Name(node.left, env)
                if v is not None and v.kind.startswith("option:"):
                    # a first-class Option value (e.g. an attribute of a loop variable)
                    return Val("(%s.%s = true)" % (v.lean, "isNone" if pos else "isSome"), "prop")
                self.bad(node, "`is None` test on `%s`, which is neither a designated optional nor an Option value" % text)
            st = env.none.get(text)
            if st is None:
                self.bad(node, "internal: optional not case-split")
            return _const(st if isinstance(node.ops[0], ast.Is) else not st)
        vals = [self.expr(node.left, env)] + [self.expr(c, env) for c in node.comparators]
        parts = [self.cmp1(op, vals[i], vals[i + 1], node) for i, op in enumerate(node.ops)]
        if len(parts) == 1:
            return parts[0]
        if any(p.kind == "vec" for p in parts):
            self.bad(node, "chained comparison on arrays")
        # chained comparison = conjunction (operands are pure, so evaluating the middle one twice is harmless)
        live = []
        for p in parts:
            if p.const is False:
                return _const(False)
            if p.const is True:
                continue
            live.append(p)
        if not live:
            return _const(True)
        if len(live) == 1:
            return live[0]
        return Val("(" + " ∧ ".join(self.as_prop(p, node) for p in live) + ")", "prop")

    def e_IfExp(self, node, env):
        t = self.truth(self.expr(node.test, env), node)
        if t.const is not None:
            return self.expr(node.body if t.const else node.orelse, env)
        a, b = self.expr(node.body, env), self.expr(node.orelse, env)
        k = self.same_kind(a, b, node)
        return Val("(if %s then %s else %s)" % (self.as_prop(t, node), self.at(a, k, node), self.at(b, k, node)), k)

    def same_kind(self, a, b, node):
        if a.kind in NUM and b.kind in NUM:
            k = self.join(a, b, node, op="sel")
            if k == "lit":
                k = "alpha" if self.alpha else ("rat" if any(v.isfloat or v.q.denominator != 1 for v in (a, b)) else "int")
            return k
        if a.kind in ("bool", "prop") and b.kind in ("bool", "prop"):
            return "bool"
        if a.kind == b.kind and a.kind not in ("vec", "tuple", "none"):
            return a.kind
        for x, y in ((a, b), (b, a)):
            if x.kind == "none" and y.kind.startswith("option:"):
                return y.kind
        self.bad(node, "branches of different kinds (%s / %s)" % (a.kind, b.kind))

    def at(self, v, k, node):
        if k in NUM:
            return self.num(v, k, node)
        if k == "bool":
            return self.as_bool(v, node)
        return v.lean

    def e_Tuple(self, node, env):
        return Val(None, "tuple", items=[self.expr(e, env) for e in node.elts])

    def inline_call(self, node, env, qualname):
        """`helper(args)` where helper is `[docstring] asserts* return <expr>` in the same file."""
        if self.tree is None:
            self.bad(node, "internal: no module tree for inlining")
        callee = find_function(self.tree, qualname)
        a = callee.args
        if a.vararg or a.kwarg or a.kwonlyargs or node.keywords or len(node.args) != len(a.args):
            self.bad(node, "inlined call with other than plain positional arguments")
        sub = {p.arg: arg for p, arg in zip(a.args, node.args)}

        class Sub(ast.NodeTransformer):
            def visit_Name(self, n):
                return copy.deepcopy(sub[n.id]) if n.id in sub else n

        result = None
        for s in callee.body:
            if isinstance(s, ast.Expr) and isinstance(s.value, ast.Constant) and isinstance(s.value.value, str):
                continue
            s2 = Sub().visit(copy.deepcopy(s))
            ast.fix_missing_locations(s2)
            if isinstance(s2, ast.Assert):
                t = self.truth(self.expr(s2.test, env), s2)
                if t.const is not True:
                    self.bad(s, "assert in inlined `%s` that is not constant-true on this kernel's domain" % qualname)
                continue
            if isinstance(s2, ast.Return) and s2.value is not None and result is None:
                result = self.expr(s2.value, env)
                continue
            self.bad(s, "inlined helper `%s` is not of the form `asserts; return <expr>`" % qualname)
        if result is None:
            self.bad(node, "inlined helper `%s` returns nothing" % qualname)
        return result

    def e_Call(self, node, env):
        fn = ast.unparse(node.func)
        if fn in self.spec.inline:
            return self.inline_call(node, env, self.spec.inline[fn])
        if isinstance(node.func, ast.Attribute) and node.func.attr == "format" and self.spec.strings \
                and isinstance(node.func.value, ast.Constant) and isinstance(node.func.value.value, str):
            return self.format_call(node, env)
        if fn == "dict" or (isinstance(node.func, ast.Attribute) and node.func.attr == "format"
                            and isinstance(node.func.value, ast.Constant) and isinstance(node.func.value.value, str)):
            self.msg_ok(node, env)  # evaluated where it stands: it must not be able to raise
            return Val(None, "msg")  # message arguments (dict(...), "...".format(...)): not part of the value
        if fn in ("any", "all") and len(node.args) == 1 and not node.keywords \
                and isinstance(node.args[0], (ast.GeneratorExp, ast.ListComp)):
            return self.any_all(fn, node.args[0], node, env)
        if fn in self.spec.calls:
            return self.kernel_call(fn, node, env)
        if node.keywords and fn not in self.spec.ctors:
            self.bad(node, "keyword arguments")
        n = len(node.args)
        # per-kernel constructors (tuples)
        key = (fn, n) if (fn, n) in self.spec.ctors else (fn if fn in self.spec.ctors else None)
        if key is not None:
            t = self.spec.ctors[key]
            if isinstance(t, tuple) and len(t) == 2 and t[0] == "kw":
                # a copy-with-one-field-replaced call (`evolve(state, field=e)`): the kernel's value is that field
                kws = [k for k in node.keywords if k.arg == t[1]]
                if len(kws) != 1 or len(node.keywords) != 1:
                    self.bad(node, "`%s` called with other than the single keyword %s" % (fn, t[1]))
                return self.expr(kws[0].value, env)
            if isinstance(t, list):
                if node.args or sorted(k.arg for k in node.keywords) != sorted(t):
                    self.bad(node, "constructor `%s` called with other than the keywords %s" % (fn, t))
                kw = {k.arg: k.value for k in node.keywords}
                return Val(None, "tuple", items=[self.expr(kw[a], env) for a in t])
            args = [self.expr(a, env) for a in node.args]
            return Val(t.format(*[self.value(a, node) for a in args]), "ctor")
        if fn in ("np.array", "numpy.array") and n == 1 and isinstance(node.args[0], ast.List) and not node.args[0].elts:
            return Val("[]", "list0")
        if fn in ("np.interp", "numpy.interp") and n == 3:
            if not (self.alpha and self.sc["interp"]):
                self.bad(node, "np.interp: the target model has no `interp`")
            x = self.expr(node.args[0], env)
            lists = []
            for ln in node.args[1:]:
                if not isinstance(ln, ast.List):
                    self.bad(node, "np.interp with anything but list displays for xp/fp")
                lists.append("[" + ", ".join(self.num(self.expr(e, env), "alpha", node) for e in ln.elts) + "]")
            return Val("(%s %s %s %s)" % (self.sc["interp"], self.num(x, "alpha", node), lists[0], lists[1]), "alpha")
        args = [self.expr(a, env) for a in node.args]
        if fn in ("min", "max") and n == 2:
            a, b = args
            k = self.same_kind(a, b, node)
            if k not in NUM:
                self.bad(node, "%s of non-numeric values" % fn)
            x, y = self.num(a, k, node), self.num(b, k, node)
            if k == "alpha":
                if fn in self.sc["fields"]:
                    return Val("(%s.%s %s %s)" % (self.S, fn, x, y), k)
                # Python: max(a, b) is b iff a < b; min(a, b) is b iff b < a (no Max/Min instance on Scalar)
                return Val("(if %s < %s then %s else %s)" % ((x, y, y, x) if fn == "max" else (y, x, y, x)), k)
            return Val("(%s %s %s)" % (fn, x, y), k)
        if fn in ("abs", "np.abs", "numpy.abs", "math.fabs") and n == 1:
            a = args[0]
            if a.kind == "lit":
                return _lit(abs(a.q), a.isfloat)
            if a.kind not in NUM:
                self.bad(node, "abs of a %s value" % a.kind)
            k = "int" if a.kind == "nat" else a.kind
            x = self.num(a, k, node)
            return Val("(if %s < %s then -%s else %s)" % (x, self.num(_lit(0, False), k, node), x, x), k)
        if fn in ("np.sign", "numpy.sign") and n == 1:
            a = args[0]
            if a.kind != "alpha":
                self.bad(node, "np.sign outside a Scalar kernel")
            z = self.ofrat(Fraction(0))
            return Val("(if %s < %s then %s else if %s < %s then %s else %s)"
                       % (a.lean, z, self.ofrat(Fraction(-1)), z, a.lean, self.ofrat(Fraction(1)), z), "alpha")
        if fn in ("np.clip", "numpy.clip") and n == 3:
            ks = [v.kind for v in args if v.kind != "lit"]
            k = "alpha" if self.alpha else ("rat" if "rat" in ks or any(v.kind == "lit" and v.isfloat for v in args) else "int")
            xs, ls, hs = (self.num(v, k, node) for v in args)
            return Val("(if %s < %s then %s else if %s < %s then %s else %s)" % (xs, ls, ls, hs, xs, hs, xs), k)
        if fn in ("np.hypot", "numpy.hypot", "math.hypot") and n == 2:
            x, y = (self.num(v, "alpha", node) for v in args)
            return Val("(%s ((%s * %s) + (%s * %s)))" % (self.field("sqrt", node), x, x, y, y), "alpha")
        unary = {"sqrt": "sqrt", "cos": "cos", "sin": "sin", "tan": "tan", "arctan": "atan", "atan": "atan",
                 "arcsin": "asin", "asin": "asin", "arccos": "acos", "acos": "acos"}
        mod, _, base = fn.rpartition(".")
        if mod in ("np", "numpy", "math") and base in unary and n == 1:
            a = args[0]
            f = self.field(unary[base], node)
            if a.kind == "vec":
                return self.vecmap(a, lambda x: Val("(%s %s)" % (f, self.num(x, "alpha", node)), "alpha"))
            return Val("(%s %s)" % (f, self.num(a, "alpha", node)), "alpha")
        if mod in ("np", "numpy", "math") and base in ("arctan2", "atan2") and n == 2:
            return Val("(%s %s %s)" % (self.field("atan2", node), self.num(args[0], "alpha", node),
                                       self.num(args[1], "alpha", node)), "alpha")
        if fn in ("np.power", "numpy.power") and n == 2:
            return Val("(%s %s %s)" % (self.field("pow", node), self.num(args[0], "alpha", node),
                                       self.num(args[1], "alpha", node)), "alpha")
        if mod in ("np", "numpy", "math") and base in ("radians", "degrees") and n == 1:
            # numpy's definitions: x * (pi / 180), x * (180 / pi)
            pi = self.field("pi", node)
            c = "(%s / %s)" % (pi, self.ofrat(Fraction(180))) if base == "radians" else "(%s / %s)" % (self.ofrat(Fraction(180)), pi)
            a = args[0]
            if a.kind == "vec":
                return self.vecmap(a, lambda x: Val("(%s * %s)" % (self.num(x, "alpha", node), c), "alpha"))
            return Val("(%s * %s)" % (self.num(a, "alpha", node), c), "alpha")
        if fn in ("math.ceil", "np.ceil", "numpy.ceil") and n == 1:
            a = args[0]
            if a.kind in ("int", "nat"):
                return a
            if a.kind == "lit":
                return _lit(-((-a.q.numerator) // a.q.denominator), False)
            if a.kind != "rat":
                self.bad(node, "ceil of a %s value" % a.kind)
            return Val("(Rat.ceil %s)" % a.lean, "int")
        if fn == "math.trunc" and n == 1:
            a = args[0]
            if a.kind in ("int", "nat"):
                return a
            if a.kind != "rat":
                self.bad(node, "trunc of a %s value" % a.kind)
            return Val("(Earverif.Gen.pyTrunc %s)" % a.lean, "int")
        if fn == "int" and n == 1:
            a = args[0]
            d = node.args[0]
            if isinstance(d, ast.BinOp) and isinstance(d.op, ast.Div):
                # int(x / c) of a natural number x and a positive integer literal c: the quotient is >= 0, so truncation
                # is the floor, i.e. division of naturals
                x, c = self.expr(d.left, env), self.expr(d.right, env)
                if x.kind == "nat" and c.kind == "lit" and not c.isfloat and c.q.denominator == 1 and c.q > 0:
                    return Val("(%s / %s)" % (x.lean, self.num(c, "nat", node)), "nat")
            if a.kind in ("int", "nat") or (a.kind == "lit" and not a.isfloat):
                return a
            self.bad(node, "int() of a non-integer (%s) value (use math.trunc/ceil)" % a.kind)
        if fn == "bool" and n == 1:
            a = self.truth(args[0], node)
            if a.const is not None:
                return a
            return Val(self.as_bool(a, node), "bool")
        if fn == "divmod" and n == 2:
            fd = ast.BinOp(left=node.args[0], op=ast.FloorDiv(), right=node.args[1])
            md = ast.BinOp(left=node.args[0], op=ast.Mod(), right=node.args[1])
            return Val(None, "tuple", items=[self.binop(fd.op, args[0], args[1], node), self.binop(md.op, args[0], args[1], node)])
        if fn == "float" and n == 1:
            a = args[0]  # floats are exact here: float(x) is x as a rational
            if a.kind == "lit":
                return _lit(a.q, True)
            if a.kind in ("int", "nat"):
                return Val(self.num(a, "rat", node), "rat")
            if a.kind in ("rat", "alpha"):
                return a
            self.bad(node, "float() of a %s value" % a.kind)
        if fn == "len" and n == 1:
            a = args[0]
            if a.kind.startswith("list:") or a.kind == "str":
                return Val("%s.length" % self.atom(a.lean), "nat")
            if a.kind == "vec":
                return Val("%s.length" % self.atom(a.src), "nat")
            self.bad(node, "len() of a %s value" % a.kind)
        if fn in ("Fraction", "fractions.Fraction") and n == 2:
            # Fraction(a, b) of integers: the exact quotient (b = 0 raises in Python; `x / 0 = 0` here, as for `/`)
            a, b = args
            if not all(v.kind in ("int", "nat") or (v.kind == "lit" and not v.isfloat and v.q.denominator == 1) for v in args):
                self.bad(node, "Fraction(a, b) of non-integers")
            if a.kind == "lit" and b.kind == "lit":
                if b.q == 0:
                    self.bad(node, "Fraction(a, 0)")
                return _lit(a.q / b.q, False)
            return Val("(%s / %s)" % (self.num(a, "rat", node), self.num(b, "rat", node)), "rat")
        if fn in ("Fraction", "fractions.Fraction") and n == 1:
            a = args[0]
            if a.kind == "lit" and not a.isfloat:
                return Val(self.num(a, "rat", node), "rat")
            self.bad(node, "Fraction() of anything but an integer literal")
        if fn in ("np.array", "numpy.array", "np.asarray") and n == 1:
            if args[0].kind == "vec":
                return args[0]
            self.bad(node, "np.array of anything but an array parameter or []")
        if fn in ("np.arange", "numpy.arange") and n == 1:
            a = args[0]
            if a.kind not in ("int", "nat"):
                self.bad(node, "np.arange of a non-integer")
            var = self.fresh(env, "i")
            src = "(List.range %s)" % (a.lean if a.kind == "nat" else "(%s).toNat" % a.lean)
            return Val(None, "vec", src=src, var=var, body=Val(var, "nat"))
        if fn in ("np.any", "numpy.any") and n == 1:
            a = args[0]
            if a.kind != "vec" or a.body.kind not in ("prop", "bool"):
                self.bad(node, "np.any of anything but an element-wise comparison")
            return Val("(%s.any (fun %s => %s))" % (a.src, a.var, self.as_bool(a.body, node)), "bool")
        self.bad(node, "call of `%s` is not in the whitelist" % fn)

    def e_List(self, node, env):
        self.bad(node, "list display")

    # ---- lists, identity, calls of other kernels

    @staticmethod
    def atom(lean):
        """parenthesise a Lean term unless it is an identifier / projection path or already bracketed"""
        if re.fullmatch(r"[A-Za-z_][\w.']*", lean) or (lean.startswith("(") and lean.endswith(")")):
            return lean
        return "(%s)" % lean

    def bind_elem(self, target, kind, env, node):
        """child environment in which the loop/comprehension variable `target` is a Lean-bound element of kind `kind`"""
        if not isinstance(target, ast.Name):
            self.bad(node, "loop target other than a single name")
        if kind in ("vec", "tuple", "lit", "msg", "none") or kind.startswith("list:list:"):
            self.bad(node, "iteration over elements of kind %s" % kind)
        e = env.child()
        e.names[target.id] = Val(mangle(target.id), kind)
        e.aliases.pop(target.id, None)
        return e, mangle(target.id)

    def any_all(self, fn, comp, node, env):
        """`any(<test> for x in <list>)` / `all(...)`: `List.any` / `List.all` (the test is pure, so evaluating it on
        every element instead of stopping at the first hit gives the same value)"""
        if len(comp.generators) != 1:
            self.bad(node, "%s() over more than one `for` clause" % fn)
        g = comp.generators[0]
        if g.ifs or g.is_async:
            self.bad(node, "%s() over a filtered / async comprehension" % fn)
        it = self.expr(g.iter, env)
        if not it.kind.startswith("list:"):
            self.bad(node, "%s() over a %s value (only mapped lists)" % (fn, it.kind))
        benv, var = self.bind_elem(g.target, it.kind[5:], env, node)
        t = self.truth(self.expr(comp.elt, benv), node)
        return Val("(%s.%s (fun %s => %s))" % (self.atom(it.lean), fn, var, self.as_bool(t, node)), "bool")

    def kernel_call(self, fn, node, env):
        """call of a function that is itself a translated kernel (listed in `calls`)"""
        c = self.spec.calls[fn]
        if node.keywords or any(isinstance(a, ast.Starred) for a in node.args) or len(node.args) != len(c["args"]):
            self.bad(node, "call of the kernel `%s` with other than its %d positional arguments" % (fn, len(c["args"])))
        out = []
        for a, want in zip(node.args, c["args"]):
            v = self.expr(a, env)
            if want in NUM:
                out.append(self.num(v, want, node))
            elif v.kind == want:
                out.append(self.atom(self.value(v, node)))
            else:
                self.bad(node, "argument of kind %s where the kernel `%s` takes %s" % (v.kind, fn, want))
        return Val("(%s %s)" % (c["lean"], " ".join(out)), c["ret"])

    # ---- strings (through the Digits model)

    def strlit(self, text, node):
        if not all(32 <= ord(ch) < 127 and ch not in '"\\' for ch in text):
            self.bad(node, "string literal with characters outside printable ASCII (or a quote/backslash)")
        if len(text) == 1 and text != "'":
            return "['%s']" % text  # (a one-character literal as a list: the models write `c :: _`)
        return '"%s".toList' % text

    def fmt_value(self, v, spec, conv, node):
        """one replacement field: value `v` formatted with the format spec `spec` (a constant string)"""
        if conv not in (None, -1):
            self.bad(node, "conversion (!r/!s/!a) in a format field")
        D = "Earverif.Digits."
        if spec == "":
            if v.kind == "str":
                return self.atom(v.lean)
            if v.kind == "nat":
                return "(%sdecStr %s)" % (D, self.atom(v.lean))
            self.bad(node, "format field of kind %s without a format spec (only strings and naturals)" % v.kind)
        m = re.fullmatch(r"0(\d+)([dX])", spec)
        if not m:
            self.bad(node, "format spec %r (only 0<width>d and 0<width>X are whitelisted)" % spec)
        if v.kind == "lit" and not v.isfloat and v.q.denominator == 1 and v.q >= 0:
            v = Val(self.num(v, "nat", node), "nat")
        if v.kind != "nat":
            self.bad(node, "format spec %r applied to a %s value (declare it natural: a sign would be printed)" % (spec, v.kind))
        return "(%s%s %d %s)" % (D, "decPad" if m.group(2) == "d" else "hexPad", int(m.group(1)), self.atom(v.lean))

    def concat(self, parts):
        parts = [p for p in parts if p is not None]
        if not parts:
            return Val('"".toList', "str")
        return Val("(" + " ++ ".join(parts) + ")", "str")

    def e_JoinedStr(self, node, env):
        if not self.spec.strings:
            self.msg_ok(node, env)
            return Val(None, "msg")  # message text
        parts = []
        for v in node.values:
            if isinstance(v, ast.Constant) and isinstance(v.value, str):
                parts.append(self.strlit(v.value, node) if v.value else None)
            elif isinstance(v, ast.FormattedValue):
                spec = ""
                if v.format_spec is not None:
                    fs = v.format_spec
                    if not (isinstance(fs, ast.JoinedStr) and all(isinstance(x, ast.Constant) for x in fs.values)):
                        self.bad(node, "computed format spec")
                    spec = "".join(x.value for x in fs.values)
                parts.append(self.fmt_value(self.expr(v.value, env), spec, v.conversion, node))
            else:
                self.bad(node, "f-string part of type %s" % type(v).__name__)
        return self.concat(parts)

    def format_call(self, node, env):
        """`"...{name:spec}...".format(name=e, ...)`; a field name may continue with attribute access (`{t.value}`)"""
        import string

        fmt = node.func.value.value
        if any(isinstance(a, ast.Starred) for a in node.args) or any(k.arg is None for k in node.keywords):
            self.bad(node, "format() with * / ** arguments")
        kw = {k.arg: k.value for k in node.keywords}
        parts, auto, manual = [], 0, False
        try:
            fields = list(string.Formatter().parse(fmt))
        except ValueError as e:
            self.bad(node, "format string does not parse: %s" % e)
        for lit, name, spec, conv in fields:
            if lit:
                parts.append(self.strlit(lit, node))
            if name is None:
                continue
            if "{" in (spec or ""):
                self.bad(node, "nested format spec")
            m = re.fullmatch(r"([A-Za-z_]\w*|\d*)((?:\.[A-Za-z_]\w*)*)", name)
            if not m:
                self.bad(node, "format field name %r" % name)
            head, attrs = m.group(1), m.group(2)
            if head == "" or head.isdigit():
                i = auto if head == "" else int(head)
                auto += head == ""
                manual = manual or head != ""
                if auto and manual:
                    self.bad(node, "format string mixing automatic and manual field numbering")
                if i >= len(node.args):
                    self.bad(node, "format field %r without an argument" % name)
                base = node.args[i]
            else:
                if head not in kw:
                    self.bad(node, "format field %r without a keyword argument" % name)
                base = kw[head]
            e = copy.deepcopy(base)
            for a in [x for x in attrs.split(".") if x]:
                e = ast.Attribute(value=e, attr=a, ctx=ast.Load())
            ast.copy_location(e, node)
            ast.fix_missing_locations(e)
            parts.append(self.fmt_value(self.expr(e, env), spec or "", None if conv is None else conv, node))
        return self.concat(parts)

    # ---- statements

    def ret(self, v, node):
        if self.plain_ret:
            return self.value(v, node)
        if v.kind == "ctor":
            s = v.lean
        elif v.kind in self.spec.ret_wrap:
            s = self.spec.ret_wrap[v.kind].format(self.value(v, node))
        elif v.kind == "lit" and self.spec.ret.strip() == "Nat" and not self.spec.ret_wrap:
            s = self.num(v, "nat", node)  # a constant kernel declared natural (negative / non-integer literals are refused)
        elif v.kind == "lit" and ("rat" in self.spec.ret_wrap or "alpha" in self.spec.ret_wrap):
            k = "alpha" if self.alpha else "rat"
            s = self.spec.ret_wrap[k].format(self.num(v, k, node))
        else:
            s = self.value(v, node)
        if self.plain_ret:
            return s
        if self.spec.ret_mode == "except":
            return "Except.ok %s" % self.atom(s)
        return "some %s" % s if self.spec.ret_mode == "option" else s

    def output_val(self, text, env):
        node = ast.parse(text, mode="eval").body
        c = self.canon(node, env)
        if c in self.opt and c not in env.over:
            if env.none.get(c):
                return Val("none", "opt")
            o = self.opt[c]
            if c not in o.payload:
                raise Refuse("output `%s`: optional object" % text)
            return Val("(some %s)" % o.payload[c][0], "opt")
        if c in self.opt:
            return Val("(some %s)" % self.value(env.over[c], node), "opt")
        return self.expr(node, env)

    def fall_off(self, env, ind):
        if self.outputs is None:
            raise Refuse("a path through `%s` ends without returning a value" % self.spec.qualname)
        vals = [self.output_val(t, env) for t in self.outputs]
        if not vals:
            v = Val("()", "unit")  # a function that works by raising or not (`outputs=[]`)
        else:
            v = vals[0] if len(vals) == 1 else Val(None, "tuple", items=vals)
        return "  " * ind + self.ret(v, None)

    def stmts(self, body, env, ind):
        """Lean term for the statement list `body` (the rest of the function on this path)."""
        pad = "  " * ind
        if not body:
            return self.fall_off(env, ind)
        s, rest = body[0], body[1:]
        if isinstance(s, ast.Expr):
            if isinstance(s.value, ast.Constant) and isinstance(s.value.value, str):
                return self.stmts(rest, env, ind)  # docstring
            if isinstance(s.value, ast.Call):
                fn = self.canon(s.value.func, env)
                if fn in NOOP_CALLS:
                    self.noop_args(s.value, env)
                    return self.stmts(rest, env, ind)  # warnings are not part of the value
                eff = self.spec.effects.get(fn)
                if eff == "result":
                    if len(s.value.args) != 1 or s.value.keywords:
                        self.bad(s, "effect call with other than one argument")
                    if rest:
                        self.bad(rest[0], "statement after the effect `%s(...)` that is the kernel's result" % fn)
                    return pad + self.ret(self.expr(s.value.args[0], env), s)
                if isinstance(eff, dict):
                    return self.state_effect(s, fn, eff, rest, env, ind)
            self.bad(s, "expression statement")
        if isinstance(s, ast.Pass):
            return self.stmts(rest, env, ind)
        if isinstance(s, ast.Assert):
            t = self.truth(self.expr(s.test, env), s)
            if t.const is True:
                return self.stmts(rest, env, ind)
            if self.spec.ret_mode == "except" and not self.plain_ret:
                err = pad + "Except.error %s" % self.atom(self.raise_term(s, env))
                if t.const is False:
                    return err
                return "%sif %s then\n%s\n%selse\n  %s" % (pad, self.as_prop(t, s), self.stmts(rest, env.child(), ind + 1), pad, err)
            self.bad(s, "assert whose test is not constant-true on this kernel's domain")
        if isinstance(s, ast.Return):
            if self.in_for:
                self.bad(s, "`return` inside a `for` loop")
            if s.value is None:
                if self.outputs is not None:
                    return self.fall_off(env, ind)
                self.bad(s, "bare return")
            return pad + self.ret(self.expr(s.value, env), s)
        if isinstance(s, ast.Raise):
            if self.plain_ret:
                self.bad(s, "`raise` inside a loop that accumulates values")
            if self.spec.ret_mode == "except":
                return pad + "Except.error %s" % self.atom(self.raise_term(s, env))
            if self.in_for:
                self.bad(s, "`raise` inside a `for` loop of a kernel whose errors are not distinguished")
            if self.spec.ret_mode != "option":
                self.bad(s, "`raise` in a kernel without an error alternative")
            if not getattr(s, "_synthetic", False):  # (the guard of a guarded slice: "this path is outside the slice")
                self.raise_term(s, env)  # the exception class and text must be the declared ones; the value is `none`
            return pad + "none"
        if isinstance(s, ast.Assign):
            return self.assign(s, rest, env, ind)
        if isinstance(s, ast.AugAssign):
            tl = copy.deepcopy(s.target)
            for m in ast.walk(tl):
                if hasattr(m, "ctx"):
                    m.ctx = ast.Load()
            syn = ast.Assign(targets=[s.target], value=ast.BinOp(left=tl, op=s.op, right=s.value))
            ast.copy_location(syn, s)
            ast.fix_missing_locations(syn)
            return self.assign(syn, rest, env, ind)
        if isinstance(s, ast.If):
            t = self.truth(self.expr(s.test, env), s)
            if t.const is not None:
                return self.stmts((s.body if t.const else s.orelse) + rest, env, ind)
            if self.only_noops(s.body, env) and self.only_noops(s.orelse, env):
                return self.stmts(rest, env, ind)  # e.g. `if ...: warnings.warn(...)`
            a = self.stmts(s.body + rest, env.child(), ind + 1)
            b = self.stmts(s.orelse + rest, env.child(), ind + 1)
            return "%sif %s then\n%s\n%selse\n%s" % (pad, self.as_prop(t, s), a, pad, b)
        if isinstance(s, ast.While):
            return self.while_(s, rest, env, ind)
        if isinstance(s, ast.For):
            return self.for_(s, rest, env, ind)
        self.bad(s, "statement of type %s is not in the whitelist" % type(s).__name__)

    def raise_term(self, s, env):
        """Lean error term of a `raise` / failing `assert`: the entry of the spec's `raises` with the statement's exception
        class (`assert`: the kind 'assert') and a substring of its text; the message arguments must be harmless."""
        text = ast.unparse(s)
        if isinstance(s, ast.Assert):
            cls, msgs = "assert", ([s.msg] if s.msg is not None else [])
        else:
            e = s.exc
            if e is None:
                self.bad(s, "bare `raise` (re-raise)")
            if s.cause is not None:
                self.bad(s, "`raise ... from ...`")
            if not (isinstance(e, ast.Call) and isinstance(e.func, ast.Name)):
                self.bad(s, "`raise` of anything but a call of a named exception class")
            if any(isinstance(a, ast.Starred) for a in e.args) or any(k.arg is None for k in e.keywords):
                self.bad(s, "`raise` with * / ** arguments")
            cls, msgs = e.func.id, list(e.args) + [k.value for k in e.keywords]
        for m in msgs:
            self.msg_ok(m, env)
        hits = [ent for ent in self.spec.raises if ent[0] == cls and ent[1] in text]
        if len(hits) != 1:
            self.bad(s, "%d entries of this kernel's `raises` match the statement's exception class (%s) and text (need "
                        "exactly 1)" % (len(hits), "AssertionError of an assert" if cls == "assert" else cls))
        return hits[0][2]

    # ---- message arguments (of raise / assert / warnings.warn / dict(...) / "..".format(...) used as message text)

    def msg_chain(self, node, env, whole_mapped=False):
        """`root.a1.a2...an` in a message: the root must be bound and every proper prefix `root.a1..ai` (i < n) must be a
        mapped expression that cannot be None (an unmapped or Option-typed intermediate value may be None: reading an
        attribute of it raises AttributeError instead of the exception the kernel is tied to)."""
        try:
            node = ast.parse(self.canon(node, env), mode="eval").body  # local object aliases expanded
        except SyntaxError:
            self.bad(node, "message argument")
        chain, n = [], node
        while isinstance(n, ast.Attribute):
            chain.append(n)
            n = n.value
        if not isinstance(n, ast.Name):
            self.bad(node, "message argument that is not an attribute chain on a name")
        root = n.id

        def optional(text, nd):
            """True if the value may be None here; refuses if nothing is known about it"""
            if text in self.opt:
                return env.none.get(text) is not False
            for o in self.spec.optionals:
                if text in o.payload:
                    return env.none.get(o.py) is not False
            v = env.over.get(text)
            k = v.kind if v is not None else (env.exprs[text][1] if text in env.exprs else None)
            if k is None:
                if self.is_object_path(text, env):
                    return False  # a prefix of mapped expressions: the kernel's domain has an object there
                self.bad(nd, "message argument reads through `%s`, which is not a mapped expression of this kernel (it may "
                             "be None)" % text)
            return k.startswith("option:") or k == "none"

        # the root
        if root in env.names:
            v = env.names[root]
            k = v[1] if isinstance(v, tuple) else v.kind
            if chain and (k.startswith("option:") or k == "none"):
                self.bad(node, "message argument reads an attribute of `%s`, which may be None" % root)
        elif root in self.opt:
            if chain and env.none.get(root) is not False:
                self.bad(node, "message argument reads an attribute of `%s`, which may be None" % root)
        elif not (root in self.params or root in self.spec.bound or self.is_object_path(root, env)):
            self.bad(node, "message argument uses the name `%s`, which is not known to be bound" % root)
        for a in chain[1:] + (chain[:1] if whole_mapped else []):  # proper prefixes (chain[0] is the whole expression)
            if optional(ast.unparse(a), a):
                self.bad(node, "message argument reads through `%s`, which may be None" % ast.unparse(a))

    def msg_ok(self, node, env):
        """refuse a message argument that could raise an exception of its own"""
        if isinstance(node, ast.Constant):
            return
        if isinstance(node, ast.JoinedStr):
            for v in node.values:
                if isinstance(v, ast.Constant):
                    continue
                if not isinstance(v, ast.FormattedValue):
                    self.bad(node, "f-string part of type %s in a message" % type(v).__name__)
                fs = v.format_spec
                if fs is not None and not (isinstance(fs, ast.JoinedStr) and all(isinstance(x, ast.Constant) for x in fs.values)):
                    self.bad(node, "computed format spec in a message")
                self.msg_ok(v.value, env)
            return
        if isinstance(node, ast.BinOp) and isinstance(node.op, ast.Add):
            self.msg_ok(node.left, env)
            self.msg_ok(node.right, env)
            return
        if isinstance(node, ast.Call):
            f = node.func
            if any(isinstance(a, ast.Starred) for a in node.args):
                self.bad(node, "* argument in a message")
            if isinstance(f, ast.Attribute) and f.attr == "format" and isinstance(f.value, ast.Constant) \
                    and isinstance(f.value.value, str):
                return self.msg_format(node, env)
            if isinstance(f, ast.Name) and f.id == "dict" and not node.args:
                for k in node.keywords:
                    if k.arg is None:
                        self.bad(node, "** argument in a message dict")
                    self.msg_ok(k.value, env)
                return
            if isinstance(f, ast.Name) and f.id in ("str", "repr") and len(node.args) == 1 and not node.keywords:
                return self.msg_ok(node.args[0], env)
            if isinstance(f, ast.Name) and f.id == "len" and len(node.args) == 1 and not node.keywords:
                # len() of a mapped list (len(None) raises TypeError)
                v = self.lookup(self.canon(node.args[0], env), node, env)
                if v is None or not (v.kind.startswith("list:") or v.kind in ("vec", "str")):
                    self.bad(node, "len() in a message of anything but a mapped list")
                return self.msg_chain(node.args[0], env, whole_mapped=True)
            self.bad(node, "call in a message argument other than str()/repr()/len(<mapped list>)/dict(k=..)/'..'.format(..)")
        if isinstance(node, ast.IfExp):
            self.truth(self.expr(node.test, env), node)  # the test must be inside the whitelist (it is evaluated)
            self.msg_ok(node.body, env)
            self.msg_ok(node.orelse, env)
            return
        if isinstance(node, (ast.Name, ast.Attribute)):
            return self.msg_chain(node, env)
        self.bad(node, "message argument of type %s" % type(node).__name__)

    def msg_format(self, node, env):
        """`"..{name.attr}..".format(name=e, ...)` as message text: every argument and every field (with the attribute
        accesses the format string adds) is checked; `**d` only for a local that was built by `dict(k=..)` (checked there)"""
        import string

        kw = {}
        for k in node.keywords:
            if k.arg is None:
                v = env.names.get(k.value.id) if isinstance(k.value, ast.Name) else None
                if not (isinstance(v, Val) and v.kind == "msg"):
                    self.bad(node, "** argument of format() that is not a local built by dict(k=..)")
                if len(node.keywords) != 1 or node.args:
                    self.bad(node, "format(**d) mixed with other arguments")
                return  # the fields are the dict's values (already checked; a missing key is a KeyError: not modelled)
            kw[k.arg] = k.value
            self.msg_ok(k.value, env)
        for a in node.args:
            self.msg_ok(a, env)
        try:
            fields = list(string.Formatter().parse(node.func.value.value))
        except ValueError as e:
            self.bad(node, "format string does not parse: %s" % e)
        auto = 0
        for lit, name, spec, conv in fields:
            if name is None:
                continue
            if "{" in (spec or ""):
                self.bad(node, "nested format spec in a message")
            m = re.fullmatch(r"([A-Za-z_]\w*|\d*)((?:\.[A-Za-z_]\w*)*)", name)
            if not m:
                self.bad(node, "format field name %r in a message" % name)
            head, attrs = m.group(1), m.group(2)
            if head == "" or head.isdigit():
                i = auto if head == "" else int(head)
                auto += head == ""
                if i >= len(node.args):
                    self.bad(node, "format field %r without an argument" % name)
                base = node.args[i]
            else:
                if head not in kw:
                    self.bad(node, "format field %r without a keyword argument" % name)
                base = kw[head]
            if not attrs:
                continue
            e = copy.deepcopy(base)
            for a in [x for x in attrs.split(".") if x]:
                e = ast.Attribute(value=e, attr=a, ctx=ast.Load())
            ast.copy_location(e, node)
            ast.fix_missing_locations(e)
            self.msg_ok(e, env)

    def for_(self, s, rest, env, ind):
        """`for x in <mapped list>: body`.
        (a) ret_mode 'except', the body assigns no name that exists outside: the model's `for_each` combinator
            (`forE l (fun x => body)`; the body raises or falls off);
        (b) otherwise: a left fold over the list whose state is the tuple of the outer names the body assigns
            (`for c in l: if t(c): n += 1`); no return/raise in the body."""
        pad = "  " * ind
        if s.orelse:
            self.bad(s, "for/else")
        it = self.expr(s.iter, env)
        if not it.kind.startswith("list:"):
            self.bad(s, "`for` over a %s value (only mapped lists)" % it.kind)
        benv, var = self.bind_elem(s.target, it.kind[5:], env, s)
        assigned = set()
        for b in s.body:
            assigned |= _assigned_names(b)
        assigned.discard(s.target.id)
        state = sorted(n for n in assigned if n in env.names)
        if state and any(isinstance(sub, (ast.For, ast.While)) for b in s.body for sub in ast.walk(b)):
            self.bad(s, "nested loop inside an accumulating `for` loop")
        after = env.child()
        for n in assigned | {s.target.id}:
            if n not in state:
                after.names.pop(n, None)  # loop-local names are not visible after the loop
                after.aliases.pop(n, None)
        saved = (self.outputs, self.in_for, self.plain_ret)
        try:
            self.in_for += 1
            if not state:
                if self.spec.ret_mode != "except" or not self.spec.for_each or self.plain_ret:
                    self.bad(s, "`for` loop that assigns no outer name in a kernel without a `for_each` combinator")
                self.outputs = []
                body = self.stmts(list(s.body), benv, ind + 2)
                term = "%s %s (fun %s =>\n%s)" % (self.spec.for_each, self.atom(it.lean), var, body)
            else:
                kinds = {}
                for n in state:
                    v = env.names[n]
                    v = Val(*v) if isinstance(v, tuple) else v
                    if v.kind not in LEAN_TYPE or v.lean is None:
                        self.bad(s, "loop state `%s` of kind %s (bind it to a typed local/parameter before the loop)" % (n, v.kind))
                    kinds[n] = v
                    benv.names[n] = Val(mangle(n), v.kind)
                self.outputs = list(state)
                self.plain_ret += 1
                body = self.stmts(list(s.body), benv, ind + 2)
        finally:
            self.outputs, self.in_for, self.plain_ret = saved
        if not state:
            if not rest and self.outputs == []:
                return pad + term  # the loop is the last statement of a function / loop body that returns nothing
            return "%smatch %s with\n%s| .error e => .error e\n%s| .ok _ =>\n%s" % (
                pad, term, pad, pad, self.stmts(rest, after, ind + 1))
        sv = [mangle(n) for n in state]
        pat = sv[0] if len(sv) == 1 else "(" + ", ".join(sv) + ")"
        init = kinds[state[0]].lean if len(sv) == 1 else "(" + ", ".join(kinds[n].lean for n in state) + ")"
        # the body's value must have the state's kinds (e.g. a natural counter must stay natural)
        fold = "(List.foldl (fun %s %s =>\n%s) %s %s)" % (pat, var, body, init, self.atom(it.lean))
        out = ""
        if len(sv) == 1:
            out += "%slet %s := %s;\n" % (pad, sv[0], fold)
            after.names[state[0]] = Val(sv[0], kinds[state[0]].kind)
        else:
            tmp = self.fresh(env, "fold")
            out += "%slet %s := %s;\n" % (pad, tmp, fold)
            for i, n in enumerate(state):
                proj = ".2" * i + (".1" if i < len(state) - 1 else "")
                out += "%slet %s := %s%s;\n" % (pad, sv[i], tmp, proj)
                after.names[n] = Val(sv[i], kinds[n].kind)
        return out + self.stmts(rest, after, ind)

    def noop_args(self, call, env):
        """arguments of a call that is not part of the value (`warnings.warn(msg)`): they are still evaluated"""
        if any(isinstance(a, ast.Starred) for a in call.args) or any(k.arg is None for k in call.keywords):
            self.bad(call, "* / ** arguments")
        for a in list(call.args) + [k.value for k in call.keywords]:
            self.msg_ok(a, env)

    def only_noops(self, body, env):
        for s in body:
            if isinstance(s, ast.Pass):
                continue
            if isinstance(s, ast.Expr) and isinstance(s.value, ast.Call) and self.canon(s.value.func, env) in NOOP_CALLS:
                self.noop_args(s.value, env)
                continue
            return False
        return True

    def state_effect(self, s, fn, eff, rest, env, ind):
        """`f(args)` as a statement updates what the mapped expression `eff['state']` denotes."""
        pad = "  " * ind
        call = s.value
        if call.keywords or not call.args:
            self.bad(s, "effect call with keyword/no arguments")
        key = (len(call.args),)
        if len(call.args) == 2:
            a2 = call.args[1]
            if not (isinstance(a2, ast.Constant) and isinstance(a2.value, int)):
                self.bad(s, "effect call whose second argument is not an integer literal")
            key = (2, a2.value)
        form = eff["forms"].get(key)
        if form is None:
            self.bad(s, "effect call form %r of `%s` is not mapped" % (key, fn))
        arg = self.expr(call.args[0], env)
        state = eff["state"]
        old = self.lookup(state, s, env)
        if old is None:
            self.bad(s, "internal: effect state `%s` is not a mapped expression" % state)
        add = ast.Add()
        if form == "arg":
            new = arg
        elif form == "old+arg":
            new = self.binop(add, old, arg, s)
        elif isinstance(form, tuple) and form[0] == "expr+arg":
            new = self.binop(add, Val(form[1], form[2]), arg, s)
        else:
            self.bad(s, "internal: unknown effect form %r" % (form,))
        if new.kind == "lit":
            env = env.child()
            env.over[state] = new
            return self.stmts(rest, env, ind)
        name = self.fresh(env, "st")
        env = env.child()
        env.over[state] = Val(name, new.kind)
        return "%slet %s := %s;\n" % (pad, name, self.value(new, s)) + self.stmts(rest, env, ind)

    def while_(self, s, rest, env, ind):
        """`while c: <assignments to names>` -> auxiliary def by structural recursion on fuel."""
        pad = "  " * ind
        if self.spec.fuel is None:
            self.bad(s, "`while` loop in a kernel without a fuel bound")
        if s.orelse:
            self.bad(s, "while/else")
        state = []
        for b in s.body:
            if isinstance(b, ast.Assign) and all(isinstance(t, ast.Name) for t in b.targets):
                for t in b.targets:
                    if t.id not in state:
                        state.append(t.id)
            elif isinstance(b, ast.AugAssign) and isinstance(b.target, ast.Name):
                if b.target.id not in state:
                    state.append(b.target.id)
            else:
                self.bad(b, "statement in a `while` body other than an assignment to a name")
        if not state:
            self.bad(s, "`while` loop that assigns nothing")
        loads = _loads(s.test)
        for b in s.body:
            loads |= _loads(b)
        # loop variables and the free names, all of which must be plain Lean identifiers of known numeric/bool kind
        def ident(name):
            if name not in env.names:
                self.bad(s, "name `%s` used in a `while` loop is not a local or parameter" % name)
            v = env.names[name]
            v = Val(*v) if isinstance(v, tuple) else v
            if v.kind == "lit":
                return v
            if v.kind not in LEAN_TYPE or v.lean is None or not v.lean.replace("_", "a").replace("'", "a").isalnum():
                self.bad(s, "name `%s` (kind %s) cannot be passed to a loop" % (name, v.kind))
            return v
        for n in state:
            if ident(n).kind == "lit":
                self.bad(s, "loop variable `%s` starts as a literal: bind it to a parameter kind first" % n)
        free = sorted(n for n in loads if n not in state and n in env.names and ident(n).kind != "lit")
        unknown = sorted(n for n in loads if n not in env.names and n not in state
                         and n not in ("np", "numpy", "math", "abs", "min", "max", "float", "int", "bool"))
        if unknown:
            self.bad(s, "names %s in a `while` loop are not locals/parameters" % unknown)
        self.nloops += 1
        aux = "%s_loop%d" % (self.spec.lean_name, self.nloops)
        # environment of the auxiliary def: only identifiers
        aenv = _Env(self.spec)
        aenv.names = {n: env.names[n] for n in loads if n in env.names and ident(n).kind == "lit"}
        aenv.exprs, aenv.fresh = {}, env.fresh
        kinds = {}
        for n in free + state:
            v = ident(n)
            kinds[n] = v.kind
            aenv.names[n] = Val(mangle(n), v.kind)
        saved_opt = self.opt
        self.opt = {}
        try:
            cond = self.truth(self.expr(s.test, aenv), s)
            if cond.const is not None:
                self.bad(s, "`while` with a constant condition")
            benv = aenv.child()
            lets = ""
            for b in s.body:
                if isinstance(b, ast.AugAssign):
                    val = self.binop(b.op, self.expr(ast.Name(id=b.target.id, ctx=ast.Load()), benv), self.expr(b.value, benv), b)
                    tg = [b.target.id]
                else:
                    val = self.expr(b.value, benv)
                    tg = [t.id for t in b.targets]
                for t in tg:
                    lets += "      let %s := %s;\n" % (mangle(t), self.at(val, kinds[t], b))
                    benv.names[t] = Val(mangle(t), kinds[t])
        finally:
            self.opt = saved_opt
        sv = [mangle(n) for n in state]
        tup = sv[0] if len(sv) == 1 else "(" + ", ".join(sv) + ")"
        rty = LEAN_TYPE[kinds[state[0]]] if len(state) == 1 else " × ".join(LEAN_TYPE[kinds[n]] for n in state)
        head = "def %s %s%s: Nat → %s → %s\n" % (
            aux, ("{α : Type} [%s α] " % self.S) if self.alpha else "",
            "".join("(%s : %s) " % (mangle(n), LEAN_TYPE[kinds[n]]) for n in free),
            " → ".join(LEAN_TYPE[kinds[n]] for n in state), rty)
        call = "%s %s" % (aux, "".join(mangle(n) + " " for n in free))
        text = head
        text += "  | 0, %s => %s\n" % (", ".join(sv), tup)
        text += "  | fuel + 1, %s =>\n    if %s then\n%s      %sfuel %s\n    else %s\n" % (
            ", ".join(sv), self.as_prop(cond, s), lets, call, " ".join(sv), tup)
        self.aux.append(text)
        fuel = self.spec.fuel
        if isinstance(fuel, (list, tuple)):
            if self.nloops > len(fuel):
                self.bad(s, "no fuel term for loop %d" % self.nloops)
            fuel = fuel[self.nloops - 1]
        init = " ".join(ident(n).lean for n in state)
        env = env.child()
        out = ""
        if len(state) == 1:
            out += "%slet %s := %s(%s) %s;\n" % (pad, sv[0], "%s %s" % (aux, "".join(ident(n).lean + " " for n in free)), fuel, init)
            env.names[state[0]] = Val(sv[0], kinds[state[0]])
        else:
            tmp = self.fresh(env, "loop")
            out += "%slet %s := %s(%s) %s;\n" % (pad, tmp, "%s %s" % (aux, "".join(ident(n).lean + " " for n in free)), fuel, init)
            for i, n in enumerate(state):
                proj = ".2" * i + (".1" if i < len(state) - 1 else "")
                out += "%slet %s := %s%s;\n" % (pad, sv[i], tmp, proj)
                env.names[n] = Val(sv[i], kinds[n])
        return out + self.stmts(rest, env, ind)

    def assign_mapped(self, text, t, v, s, rest, env, ind):
        """assignment to a mapped attribute / designated optional: it denotes the new value from here on"""
        pad = "  " * ind
        env = env.child()
        if text in self.opt:
            if isinstance(s.value, ast.Constant) and s.value.value is None:
                env.none[text] = True
                env.over.pop(text, None)
                return self.stmts(rest, env, ind)
            env.none[text] = False
        if v.kind == "lit" or v.const is not None:
            env.over[text] = v
            return self.stmts(rest, env, ind)
        if v.kind not in NUM + ("bool", "prop"):
            self.bad(s, "assignment of a %s value to a mapped expression" % v.kind)
        stem = t.attr if isinstance(t, ast.Attribute) else "m"
        name = self.fresh(env, mangle(stem) + "_")
        kind = "bool" if v.kind == "prop" else v.kind
        env.over[text] = Val(name, kind)
        return "%slet %s := %s;\n" % (pad, name, self.value(v, s)) + self.stmts(rest, env, ind)

    def assign(self, s, rest, env, ind):
        pad = "  " * ind
        # element-wise clip: v[v <cmp> c] = c'
        if len(s.targets) == 1 and isinstance(s.targets[0], ast.Subscript) \
                and self.canon(s.targets[0], env) not in env.exprs:
            t = s.targets[0]
            if isinstance(t.value, ast.Name) and isinstance(t.slice, ast.Compare) and len(t.slice.ops) == 1 \
                    and isinstance(t.slice.left, ast.Name) and t.slice.left.id == t.value.id:
                v = self.expr(t.value, env)
                c = self.expr(t.slice.comparators[0], env)
                new = self.expr(s.value, env)
                if v.kind != "vec" or c.kind not in NUM or new.kind not in NUM:
                    self.bad(s, "masked assignment other than `v[v <cmp> c] = c'` on an array")
                k = self.join(v.body, new, s, op="sel")
                cur = self.num(v.body, k, s)
                if cur == v.var:
                    tv, pre = cur, ""
                else:
                    tv = self.fresh(env, "t")
                    pre = "let %s := %s; " % (tv, cur)
                cond = self.cmp1(t.slice.ops[0], Val(tv, k), c, s)
                body = Val("(%sif %s then %s else %s)" % (pre, self.as_prop(cond, s), self.num(new, k, s), tv), k)
                env = env.child()
                env.names[t.value.id] = Val(None, "vec", src=v.src, var=v.var, body=body)
                return self.stmts(rest, env, ind)
            self.bad(s, "assignment to a subscript")
        # a, b = e1, e2
        if len(s.targets) == 1 and isinstance(s.targets[0], ast.Tuple):
            tg = s.targets[0].elts
            if not all(isinstance(t, ast.Name) for t in tg):
                self.bad(s, "tuple assignment to other than names")
            if isinstance(s.value, ast.Tuple) and len(s.value.elts) == len(tg):
                vals = [self.expr(e, env) for e in s.value.elts]  # all right-hand sides first, as Python does
            else:
                tv = self.expr(s.value, env)  # e.g. `a, b = divmod(x, y)`
                if tv.kind != "tuple" or tv.items is None or len(tv.items) != len(tg) or tv.lean is not None:
                    self.bad(s, "tuple assignment other than `a, b = e1, e2` / `a, b = divmod(x, y)` to names")
                vals = list(tv.items)
            env = env.child()
            out = ""
            tmp = []
            for t, v in zip(tg, vals):
                if v.kind in ("vec", "lit", "list0") or v.const is not None:
                    tmp.append((t.id, v))
                    continue
                nm = self.fresh(env, mangle(t.id) + "_")
                out += "%slet %s := %s;\n" % (pad, nm, self.value(v, s))
                tmp.append((t.id, Val(nm, "bool" if v.kind == "prop" else v.kind, items=v.items)))
            for n, v in tmp:
                if v.kind in ("vec", "lit", "list0") or v.const is not None:
                    env.names[n] = v
                else:
                    out += "%slet %s := %s;\n" % (pad, mangle(n), v.lean)
                    env.names[n] = Val(mangle(n), v.kind, items=v.items)
                env.aliases.pop(n, None)
            return out + self.stmts(rest, env, ind)
        # assignment to a mapped attribute / optional
        if len(s.targets) == 1 and isinstance(s.targets[0], (ast.Attribute, ast.Subscript)):
            t = s.targets[0]
            text = self.canon(t, env)
            mapped = text in env.exprs or text in env.over or text in self.opt
            if not mapped:
                self.bad(s, "assignment to `%s`, which is not a mapped expression of this kernel" % text)
            if isinstance(s.value, ast.Constant) and s.value.value is None and text in self.opt:
                return self.assign_mapped(text, t, None, s, rest, env, ind)
            return self.assign_mapped(text, t, self.expr(s.value, env), s, rest, env, ind)
        for t in s.targets:
            if not isinstance(t, ast.Name):
                self.bad(s, "assignment target of type %s" % type(t).__name__)
        # local object alias (e.g. `chunkIndex = self._chunks[b'data']`): substituted, no Lean binding
        text = self.canon(s.value, env)
        if isinstance(s.value, (ast.Attribute, ast.Subscript, ast.Name)) and text not in env.exprs \
                and text not in self.opt and text not in env.over and self.is_object_path(text, env) \
                and not (isinstance(s.value, ast.Name) and s.value.id in env.names):
            env = env.child()
            al = s.value
            if env.aliases:
                al = ast.parse(text, mode="eval").body
            for t in s.targets:
                env.aliases[t.id] = al
                env.names.pop(t.id, None)
            return self.stmts(rest, env, ind)
        v = self.expr(s.value, env)
        env = env.child()
        if v.kind == "lit" and self.alpha and v.isfloat:
            v = Val(self.num(v, "alpha", s), "alpha")  # a named float constant of a Scalar kernel is a `let`
        if len(s.targets) == 1 and s.targets[0].id in self.spec.local_kinds and v.kind in NUM:
            lk = self.spec.local_kinds[s.targets[0].id]
            v = Val(self.num(v, lk, s), lk)  # declared kind of this local
        if v.kind in ("vec", "lit", "list0", "msg") or v.const is not None:
            for t in s.targets:  # symbolic: no Lean binding needed
                env.names[t.id] = v
                env.aliases.pop(t.id, None)
            return self.stmts(rest, env, ind)
        first = mangle(s.targets[0].id)
        kind = "bool" if v.kind == "prop" else v.kind
        out = "%slet %s := %s;\n" % (pad, first, self.value(v, s))
        env.names[s.targets[0].id] = Val(first, kind, items=v.items)
        env.aliases.pop(s.targets[0].id, None)
        for t in s.targets[1:]:  # x = y = e
            out += "%slet %s := %s;\n" % (pad, mangle(t.id), first)
            env.names[t.id] = Val(mangle(t.id), kind, items=v.items)
            env.aliases.pop(t.id, None)
        return out + self.stmts(rest, env, ind)

    # ---- whole def

    def body_term(self, body, ind):
        """Hoist one `match` over all designated optionals; translate the body once per case."""
        env0 = _Env(self.spec)
        opts = self.spec.optionals
        if not opts:
            return self.stmts(body, env0, ind)
        pad = "  " * ind
        out = "%smatch %s with\n" % (pad, ", ".join(o.scrut for o in opts))
        for mask in range(2 ** len(opts)):
            env = env0.child()
            pats = []
            for j, o in enumerate(opts):
                some = bool(mask >> (len(opts) - 1 - j) & 1)
                env.none[o.py] = not some
                pats.append("some %s" % o.bind if some else "none")
            out += "%s| %s =>\n%s\n" % (pad, ", ".join(pats), self.stmts(body, env, ind + 2))
        return out.rstrip("\n")


def translate(spec, repo):
    """Returns (lean text: auxiliary defs + the def, sha256 of the function source).  Raises Refuse."""
    import os

    path = os.path.join(repo, spec.file)
    try:
        fn, text, sha, tree = function_source(path, spec.qualname)
    except (OSError, SyntaxError) as e:
        raise Refuse("cannot read/parse %s: %s" % (spec.file, e))
    tr = _Tr(spec, tree=tree, src_text=open(path, encoding="utf-8").read())
    tr.params = {a.arg for a in fn.args.posonlyargs + fn.args.args}
    if fn.args.vararg or fn.args.kwarg or fn.args.kwonlyargs:
        raise Refuse("%s: *args/**kwargs/keyword-only parameters" % spec.qualname)
    # what the statements of the body do not show: decorators (can replace the function) and parameter defaults (what a
    # caller that omits the argument computes).  Both are pinned by the spec.
    decos = [ast.unparse(d) for d in fn.decorator_list]
    if decos != list(spec.decorators):
        raise Refuse("%s: decorators %r (the kernel's spec allows exactly %r)" % (spec.qualname, decos, list(spec.decorators)))
    pos = fn.args.posonlyargs + fn.args.args
    dflt = ["%s=%s" % (a.arg, ast.unparse(d)) for a, d in zip(pos[len(pos) - len(fn.args.defaults):], fn.args.defaults)]
    if dflt != list(spec.defaults):
        raise Refuse("%s: parameter defaults %r (the kernel's spec pins %r)" % (spec.qualname, dflt, list(spec.defaults)))
    body = fn.body
    sel = spec.select
    if sel is not None:
        if "targets" in sel:
            body = slice_function(fn, sel)
            if sel.get("guard") and spec.ret_mode != "option":
                raise Refuse("internal: a guarded slice needs ret_mode='option'")
        elif "value_of" in sel:
            body = select_value_of(fn, sel["value_of"], sel.get("arg_of"), sel.get("arg_index", 0))
        elif "range" in sel:
            body = select_range(fn, sel["range"][0], sel["range"][1])
            if spec.outputs is None:
                raise Refuse("internal: a statement range needs `outputs`")
        else:
            raise Refuse("internal: unknown selection %r" % (sel,))
    if spec.optionals and any(isinstance(n, ast.While) for s in body for n in ast.walk(s)):
        raise Refuse("`while` loop in a kernel with designated optionals")
    term = tr.body_term(body, 1)
    head = "def %s %s%s : %s :=\n" % (
        spec.lean_name, ("{α : Type} [%s α] " % tr.S) if tr.alpha else "", spec.binders, spec.ret)
    return "".join(a + "\n" for a in tr.aux) + head + term + "\n", sha
