"""C08 round 5 — the id map / reference resolution of `ADM` and the CHNA <-> audioTrackUID transfer:
id-level descriptions of real documents for the Lean driver (`ar`, `al`, `cp`, `cl`, `cv`, `cg`, `cc`, `cx`),
the real outcome in the same canonical form, fault injection, and the direct predicates (real code only):

  * CHNA transfer round trip (populate -> fresh copy of the document -> load restores index and references; CHNA-only);
  * a repeated id within a class is always rejected with AdmIDError (never resolved to one of the two);
  * a dangling reference is always rejected with KeyError.

Everything is a function of the generator arguments so that a failing document can be replayed.
"""
import copy
import io
import random
import struct
import warnings

from . import c08_docs as docs
from .c08_codec import enc

# (driver tag, ADM list attribute)
CLS = [("ap", "audioProgrammes"), ("ac", "audioContents"), ("ao", "audioObjects"), ("apf", "audioPackFormats"),
       ("acf", "audioChannelFormats"), ("asf", "audioStreamFormats"), ("atf", "audioTrackFormats"),
       ("atu", "audioTrackUIDs")]

# reference attributes as the real classes name them: (model field name, IDRef attribute, resolved attribute or None,
# single-valued).  Order is irrelevant here (the model owns the order of resolution).
FIELDS = {
    "ap": [("audioContents", "audioContentIDRef", "audioContents", False),
           ("alternativeValueSets", "alternativeValueSetIDRef", "alternativeValueSets", False)],
    "ac": [("audioObjects", "audioObjectIDRef", "audioObjects", False),
           ("alternativeValueSets", "alternativeValueSetIDRef", "alternativeValueSets", False)],
    "ao": [("audioPackFormats", "audioPackFormatIDRef", "audioPackFormats", False),
           ("audioTrackUIDs", "audioTrackUIDRef", "audioTrackUIDs", False),
           ("audioObjects", "audioObjectIDRef", "audioObjects", False),
           ("audioComplementaryObjects", "audioComplementaryObjectIDRef", "audioComplementaryObjects", False)],
    "apf": [("audioChannelFormats", "audioChannelFormatIDRef", "audioChannelFormats", False),
            ("audioPackFormats", "audioPackFormatIDRef", "audioPackFormats", False),
            ("decodePackFormats", "decodePackFormatIDRef", None, False),
            ("encodePackFormats", "encodePackFormatIDRef", None, False),
            ("inputPackFormat", "inputPackFormatIDRef", "inputPackFormat", True),
            ("outputPackFormat", "outputPackFormatIDRef", "outputPackFormat", True)],
    "acf": [],
    "asf": [("audioChannelFormat", "audioChannelFormatIDRef", "audioChannelFormat", True),
            ("audioPackFormat", "audioPackFormatIDRef", "audioPackFormat", True),
            ("audioTrackFormats", "audioTrackFormatIDRef", None, False)],
    "atf": [("audioStreamFormat", "audioStreamFormatIDRef", None, True)],
    "atu": [("audioTrackFormat", "audioTrackFormatIDRef", "audioTrackFormat", True),
            ("audioChannelFormat", "audioChannelFormatIDRef", "audioChannelFormat", True),
            ("audioPackFormat", "audioPackFormatIDRef", "audioPackFormat", True)],
}


class Oids:
    """object identity -> small integer (keeps the objects alive so that id() is not reused)"""

    def __init__(self):
        self.m, self.keep = {}, []

    def __call__(self, obj):
        k = id(obj)
        if k not in self.m:
            self.m[k] = len(self.m) + 1
            self.keep.append(obj)
        return self.m[k]


def _idtok(s):
    return "~" if s is None else enc(s)


def _pend(v, single):
    if v is None:
        return "~"
    items = [v] if single else list(v)
    return "P" + ",".join(_idtok(x) for x in items)


def _res(v, single, oids):
    if single:
        return "R" if v is None else "R%d" % oids(v)
    return "R" + ",".join("~" if x is None else str(oids(x)) for x in (v or []))


def _is_matrix(b):
    return type(b).__name__ == "AudioBlockFormatMatrix"


def elem_tokens(tag, e, oids):
    toks = [tag, str(oids(e)), _idtok(e.id), "1" if e.is_common_definition else "0"]
    sl = e.audioStreamFormat if tag == "atf" else None
    toks.append("~" if sl is None else str(oids(sl)))
    encp = e.encodePackFormats if tag == "apf" else []
    toks.append("~" if not encp else ",".join(str(oids(x)) for x in encp))
    avs = e.alternativeValueSets if tag == "ao" else []
    toks.append("~" if not avs else ",".join("%d:%s" % (oids(a), _idtok(a.id)) for a in avs))
    if tag == "acf":
        for b in e.audioBlockFormats:
            toks.append("blk")
            if _is_matrix(b):
                toks += ["out", _pend(b.outputChannelFormatIDRef, True), _res(b.outputChannelFormat, True, oids)]
                for c in b.matrix:
                    toks += ["in", _pend(c.inputChannelFormatIDRef, True), _res(c.inputChannelFormat, True, oids)]
    else:
        for name, idref, resolved, single in FIELDS[tag]:
            toks += [name, _pend(getattr(e, idref), single),
                     _res(getattr(e, resolved) if resolved else None, single, oids)]
    return toks


def describe(adm, oids):
    """the `ar` request for the document as it is now (elements class by class, list order)"""
    return "ar " + " ; ".join(" ".join(elem_tokens(tag, e, oids)) for tag, lst in CLS for e in getattr(adm, lst))


def lookup_line(adm, key, oids):
    return "al %s ; " % enc(key) + " ; ".join(" ".join(elem_tokens(tag, e, oids))
                                             for tag, lst in CLS for e in getattr(adm, lst))


def _elem_out(tag, e, oids):
    """canonical resolved state of one element: (oid, streamLink, encodePackFormats, fields)"""
    sl = e.audioStreamFormat if tag == "atf" else None
    encp = [oids(x) for x in e.encodePackFormats] if tag == "apf" else []
    if tag == "acf":
        fs = []
        for b in e.audioBlockFormats:
            if _is_matrix(b):
                fs.append(("outputChannelFormat", b.outputChannelFormatIDRef is not None,
                           _res(b.outputChannelFormat, True, oids)))
                for c in b.matrix:
                    fs.append(("inputChannelFormat", c.inputChannelFormatIDRef is not None,
                               _res(c.inputChannelFormat, True, oids)))
    else:
        fs = sorted((name, getattr(e, idref) is not None, _res(getattr(e, resolved) if resolved else None, single, oids))
                    for name, idref, resolved, single in FIELDS[tag])
    return (oids(e), None if sl is None else oids(sl), encp, fs)


def real_outcome(adm, oids):
    """run the real lazy_lookup_references; ('ok', [elem_out…]) in chain order, or ('E', kind)"""
    from ear.fileio.adm.exceptions import AdmError, AdmIDError

    tag_of = {}
    for tag, lst in CLS:
        for e in getattr(adm, lst):
            tag_of[id(e)] = tag
    try:
        with warnings.catch_warnings():
            warnings.simplefilter("ignore")
            adm.lazy_lookup_references()
    except AdmIDError:
        return ("E", "admIDError")
    except AdmError:
        return ("E", "admError")
    except KeyError:
        return ("E", "keyError")
    except AttributeError:
        return ("E", "attributeError")
    except AssertionError:
        return ("E", "assertionError")
    except Exception as e:  # anything else is a difference worth seeing
        return ("E", "X:" + type(e).__name__)
    return ("ok", [_elem_out(tag_of[id(e)], e, oids) for e in adm.elements])


def parse_model_outcome(line):
    if line.startswith("E "):
        return ("E", line[2:])
    if not line.startswith("ok"):
        return ("?", line)
    out = []
    body = line[2:].strip()
    if not body:
        return ("ok", out)
    for seg in body.split(";"):
        w = seg.split()
        oid, sl, encp = int(w[0]), (None if w[1] == "~" else int(w[1])), ([] if w[2] == "~" else [int(x) for x in w[2].split(",")])
        fs = []
        for f in w[3:]:
            name, p, r = f.split(":")
            fs.append((name, p == "P", r))
        if not (fs and fs[0][0] in ("outputChannelFormat", "inputChannelFormat")):
            fs = sorted(fs)
        out.append((oid, sl, encp, fs))
    return ("ok", out)


# ---------------------------------------------------------------------------------------------
# documents before resolution, faults


def _all_pending(adm):
    """every (owner, attribute, is_list) holding a pending reference, incl. block formats"""
    out = []
    for tag, lst in CLS:
        for e in getattr(adm, lst):
            if tag == "acf":
                for b in e.audioBlockFormats:
                    if _is_matrix(b):
                        if b.outputChannelFormatIDRef is not None:
                            out.append((b, "outputChannelFormatIDRef", False, "acf"))
                        for c in b.matrix:
                            if c.inputChannelFormatIDRef is not None:
                                out.append((c, "inputChannelFormatIDRef", False, "acf"))
                continue
            for name, idref, resolved, single in FIELDS[tag]:
                v = getattr(e, idref)
                if v is not None and (single or len(v) > 0):
                    out.append((e, idref, not single, tag))
    return out


def _mentioned(adm):
    s = set()
    for o, a, is_list, _ in _all_pending(adm):
        v = getattr(o, a)
        for x in (v if is_list else [v]):
            if isinstance(x, str):
                s.add(x.upper())
    return s


def axml_of(adm):
    import lxml.etree
    from ear.fileio.adm.xml import adm_to_xml

    return lxml.etree.tostring(adm_to_xml(adm), pretty_print=True)


def unresolved_doc(rng, axml, extra_ids=()):
    """what xml.py leaves before `lazy_lookup_references`: a subset of (private copies of) the common definitions —
    every one the document mentions plus a few others — followed by the parsed elements with their IDRef attributes"""
    from ear.fileio.adm.adm import ADM
    from ear.fileio.adm.xml import load_axml_string

    parsed = ADM()
    if axml is not None:  # (None: the 'no AXML' mode, common definitions only)
        with warnings.catch_warnings():
            warnings.simplefilter("ignore")
            load_axml_string(parsed, axml, lookup_references=False)
    want = _mentioned(parsed) | {x.upper() for x in extra_ids}
    cm = copy.deepcopy(docs.common())
    adm = ADM(version=parsed.version)
    for tag, lst in CLS:
        src = getattr(cm, lst)
        keep = [e for e in src if e.id.upper() in want]
        others = [e for e in src if e.id.upper() not in want]
        keep_ids = {id(e) for e in keep} | {id(e) for e in rng.sample(others, min(2, len(others)))}
        for e in src:
            if id(e) in keep_ids:
                getattr(adm, lst).append(e)
    for tag, lst in CLS:
        getattr(adm, lst).extend(getattr(parsed, lst))
    return adm


def resolved_doc(rng, axml, extra_ids=()):
    adm = unresolved_doc(rng, axml, extra_ids)
    with warnings.catch_warnings():
        warnings.simplefilter("ignore")
        adm.lazy_lookup_references()
    return adm


FAULTS = ["none", "none", "dup-same-class", "dup-same-class-case", "dup-cross-class", "dup-shadow-common",
          "dup-common-common", "dangling", "dangling", "wrong-class", "none-ref", "lower-case-ref", "id-none",
          "avs-dup", "avs-dangling", "link-conflict", "decode-refs", "decode-wrong-class", "stream-track-wrong-class",
          "already-resolved"]


def _non_common(adm, lst):
    return [e for e in getattr(adm, lst) if not e.is_common_definition]


def inject(rng, adm, fault):
    """apply one id-level fault in place; returns the tag actually applied ('none' when not applicable)"""
    r = rng
    if fault in ("none", "already-resolved"):
        return fault
    if fault in ("dup-same-class", "dup-same-class-case"):
        lst = r.choice([l for _, l in CLS if _non_common(adm, l)])
        e = r.choice(_non_common(adm, lst))
        c = copy.copy(e)
        if fault.endswith("case"):
            c.id = e.id.lower()
        getattr(adm, lst).insert(r.randint(0, len(getattr(adm, lst))), c)
        return fault
    if fault == "dup-cross-class":
        (_, l1), (_, l2) = r.sample([c for c in CLS if _non_common(adm, c[1])], 2)
        a, b = r.choice(_non_common(adm, l1)), r.choice(_non_common(adm, l2))
        b.id = a.id
        return fault
    if fault == "dup-shadow-common":
        cands = [(l, e) for _, l in CLS for e in getattr(adm, l) if e.is_common_definition and _non_common(adm, l)]
        if not cands:
            return "none"
        l, c = r.choice(cands)
        e = copy.copy(r.choice(_non_common(adm, l)))
        e.id = c.id if r.random() < 0.5 else c.id.lower()
        getattr(adm, l).append(e)
        return fault
    if fault == "dup-common-common":
        cands = [(l, e) for _, l in CLS for e in getattr(adm, l) if e.is_common_definition]
        if not cands:
            return "none"
        l, c = r.choice(cands)
        getattr(adm, l).append(copy.copy(c))
        return fault
    pend = _all_pending(adm)
    if fault in ("dangling", "wrong-class", "lower-case-ref", "none-ref"):
        pend = [p for p in pend if not p[1].startswith("alternativeValueSet")]
        if not pend:
            return "none"
        o, a, is_list, tag = r.choice(pend)
        if fault == "dangling":
            new = r.choice(["XX_9999", "AP_0001FFFF", "", "ATU_00000000"])
        elif fault == "wrong-class":
            els = [e for t, l in CLS for e in getattr(adm, l) if e.id is not None]
            new = r.choice(els).id
        elif fault == "lower-case-ref":
            v = getattr(o, a)
            old = (r.choice([x for x in v if x is not None] or [None]) if is_list else v)
            if old is None:
                return "none"
            new = old.lower()
            if is_list:
                setattr(o, a, [new if x == old else x for x in v])
            else:
                setattr(o, a, new)
            return fault
        else:
            if not is_list:
                return "none"
            new = None
        if is_list:
            v = list(getattr(o, a))
            v[r.randrange(len(v))] = new
            setattr(o, a, v)
        else:
            setattr(o, a, new)
        return fault
    if fault == "id-none":
        lst = r.choice([l for _, l in CLS if _non_common(adm, l)])
        r.choice(_non_common(adm, lst)).id = None
        return fault
    if fault in ("avs-dup", "avs-dangling"):
        avs = [a for o in adm.audioObjects for a in o.alternativeValueSets]
        if fault == "avs-dup":
            if len(avs) < 2:
                return "none"
            a, b = r.sample(avs, 2)
            b.id = a.id.lower() if r.random() < 0.5 else a.id
            return fault
        pe = [p for p in pend if p[1].startswith("alternativeValueSet")]
        if not pe:
            return "none"
        o, a, _, _ = r.choice(pe)
        v = list(getattr(o, a))
        v[r.randrange(len(v))] = "AVS_9999_0001"
        setattr(o, a, v)
        return fault
    if fault == "link-conflict":
        ss = [s for s in _non_common(adm, "audioStreamFormats")]
        ts = [t for t in _non_common(adm, "audioTrackFormats") if t.audioStreamFormatIDRef is not None]
        if len(ss) < 2 or not ts:
            return "none"
        t = r.choice(ts)
        s = r.choice([s for s in ss if s.id.upper() != t.audioStreamFormatIDRef.upper()])
        s.audioTrackFormatIDRef = list(s.audioTrackFormatIDRef or []) + [t.id]
        return fault
    if fault in ("decode-refs", "decode-wrong-class"):
        ps = _non_common(adm, "audioPackFormats")
        if not ps:
            return "none"
        p = r.choice(ps)
        if fault == "decode-refs":
            allp = [q.id for q in adm.audioPackFormats]
            p.decodePackFormatIDRef = [r.choice(allp) for _ in range(r.randint(1, 3))]
            if r.random() < 0.5:
                p.encodePackFormatIDRef = list(p.encodePackFormatIDRef or []) + [r.choice(allp), r.choice(allp)]
        else:
            els = [e for t, l in CLS if l != "audioPackFormats" for e in getattr(adm, l) if e.id is not None]
            p.decodePackFormatIDRef = [r.choice(els).id]
        return fault
    if fault == "stream-track-wrong-class":
        ss = _non_common(adm, "audioStreamFormats")
        if not ss:
            return "none"
        els = [e for t, l in CLS if l != "audioTrackFormats" for e in getattr(adm, l) if e.id is not None]
        s = r.choice(ss)
        s.audioTrackFormatIDRef = list(s.audioTrackFormatIDRef or []) + [r.choice(els).id]
        return fault
    return "none"


def ascii_ids(adm):
    for _, lst in CLS:
        for e in getattr(adm, lst):
            if e.id is not None and not e.id.isascii():
                return False
    return True


# ---------------------------------------------------------------------------------------------
# CHNA transfer: descriptions


def hexs(s):
    b = s.encode("utf-8")
    return b.hex().upper() if b else "-"


def hopt(s):
    return "~" if s is None else hexs(s)


def track_tokens(t):
    rid = lambda x: None if x is None else x.id
    return [hexs(t.id), "~" if t.trackIndex is None else str(t.trackIndex), hopt(rid(t.audioTrackFormat)),
            hopt(rid(t.audioChannelFormat)), hopt(rid(t.audioPackFormat)), hopt(t.audioTrackFormatIDRef),
            hopt(t.audioChannelFormatIDRef), hopt(t.audioPackFormatIDRef)]


def tracks_str(tracks):
    return " ".join(["%d" % len(tracks)] + [" ".join(track_tokens(t)) for t in tracks])


def row_tokens(row):
    idx, uid, ref, pack = row
    return [str(idx), hexs(uid), hexs(ref), hopt(pack)]


def rows_str(rows):
    return " ".join(["%d" % len(rows)] + [" ".join(row_tokens(r)) for r in rows])


def rows_of(chna):
    return [(a.trackIndex, a.audioTrackUID, a.audioTrackFormatIDRef, a.audioPackFormatIDRef) for a in chna.audioIDs]


def others_str(adm):
    ids = [e.id for tag, lst in CLS if tag != "atu" for e in getattr(adm, lst)]
    return " ".join(["%d" % len(ids)] + [hopt(i) for i in ids])


def classify_chna_exc(e):
    from ear.fileio.adm.exceptions import AdmIDError

    m = str(e)
    if isinstance(e, AdmIDError):
        return "duplicateID"
    if isinstance(e, AssertionError):
        return "indexMismatch" if "ids have not been generated" not in m else "X:ids-not-generated"
    if isinstance(e, KeyError):
        return "unknownRef"
    if type(e) is Exception:
        for frag, kind in [("is linked to both", "bothLinked"), ("CHNA entry references", "refConflict"),
                           ("does not match value in AXML", "packConflict"), ("reserved for silent", "silentUID"),
                           ("has no track number", "noTrackIndex"), ("has no track or channel format", "noFormatRef"),
                           ("has both track and channel formats", "bothFormats"), ("(1-based) in a file with", "indexTooLarge"),
                           ("Invalid track UID", "invalidUID")]:
            if frag in m:
                return kind
    return "X:%s" % type(e).__name__


def real_populate(adm):
    from ear.fileio.adm.chna import populate_chna_chunk
    from ear.fileio.bw64.chunks import ChnaChunk

    ch = ChnaChunk()
    try:
        populate_chna_chunk(ch, adm)
    except Exception as e:
        return "E " + classify_chna_exc(e), None
    rows = rows_of(ch)
    return "ok " + rows_str(rows), rows


def real_load(adm, rows):
    from ear.fileio.adm.chna import load_chna_chunk
    from ear.fileio.bw64.chunks import AudioID, ChnaChunk

    ch = ChnaChunk([AudioID(*r) for r in rows])
    try:
        with warnings.catch_warnings():
            warnings.simplefilter("ignore")
            load_chna_chunk(adm, ch)
    except Exception as e:
        return "E " + classify_chna_exc(e)
    return "ok " + tracks_str(adm.audioTrackUIDs)


def real_validate(adm, n):
    from ear.fileio.adm.chna import validate_trackIndex

    try:
        validate_trackIndex(adm, n)
    except Exception as e:
        return "E " + classify_chna_exc(e)
    return "ok"


def real_guess(adm):
    from ear.fileio.adm.chna import guess_track_indices

    try:
        guess_track_indices(adm)
    except AssertionError:
        return "E indexAlreadySet"
    except Exception as e:
        return "E " + classify_chna_exc(e)
    return "ok " + tracks_str(adm.audioTrackUIDs)


def real_chunk_bytes(rows):
    from ear.fileio.bw64.chunks import AudioID, ChnaChunk

    try:
        b = ChnaChunk([AudioID(*r) for r in rows]).asByteArray()
    except (AssertionError, struct.error):
        return "E"
    except Exception as e:
        return "X:" + type(e).__name__
    assert b[:4] == b"chna" and struct.unpack("<I", b[4:8])[0] == len(b) - 8
    return b[8:].hex().upper() or "-"


def real_read_chunk(data):
    """Bw64Reader on a file whose last chunk is `chna` with the given data (so that a table announced longer than the
    chunk runs into the end of the file, as in the model)"""
    from ear.fileio.bw64 import Bw64Reader

    fmt = struct.pack("<HHIIHH", 1, 1, 48000, 96000, 2, 16)
    pad = b"\0" if len(data) % 2 else b""
    body = b"WAVE" + b"fmt " + struct.pack("<I", len(fmt)) + fmt + b"data" + struct.pack("<I", 0) + \
        b"chna" + struct.pack("<I", len(data)) + data
    raw = b"RIFF" + struct.pack("<I", len(body) + len(pad)) + body  # (no pad byte written: the table must hit EOF)
    try:
        with warnings.catch_warnings():
            warnings.simplefilter("ignore")
            rd = Bw64Reader(io.BytesIO(raw))
    except struct.error:
        return "E short"
    except ValueError as e:
        return "E numTracks" if "numTracks in CHNA" in str(e) else "X:ValueError:" + str(e)[:60]
    except Exception as e:
        return "X:" + type(e).__name__
    return "ok " + rows_str(rows_of(rd.chna))


# ---------------------------------------------------------------------------------------------
# CHNA transfer: scenarios for the correspondence

ROW_EDITS = ["none", "none", "none", "ref-other-same-kind", "ref-other-kind", "pack-other", "pack-none", "uid-unknown",
             "uid-unknown-twice", "uid-duplicate-row", "uid-silent", "uid-lower", "ref-lower", "ref-lower-prefix",
             "ref-unknown", "pack-unknown", "drop-rows", "shuffle", "index-changed", "ref-wrong-class"]
TRACK_EDITS = ["keep", "keep", "strip-all", "strip-all", "strip-format", "strip-pack", "preset-index",
               "preset-other-index", "both-formats", "id-lower"]


def edit_tracks(rng, adm, edit):
    ts = adm.audioTrackUIDs
    if not ts or edit == "keep":
        return "keep"
    if edit == "strip-all":
        for t in ts:
            t.audioTrackFormat = t.audioChannelFormat = t.audioPackFormat = None
    elif edit == "strip-format":
        for t in ts:
            if rng.random() < 0.6:
                t.audioTrackFormat = t.audioChannelFormat = None
    elif edit == "strip-pack":
        for t in ts:
            if rng.random() < 0.6:
                t.audioPackFormat = None
    elif edit in ("preset-index", "preset-other-index"):
        return edit  # applied with the rows at hand
    elif edit == "both-formats":
        t = rng.choice(ts)
        if adm.audioTrackFormats and adm.audioChannelFormats:
            t.audioTrackFormat = rng.choice(adm.audioTrackFormats)
            t.audioChannelFormat = rng.choice(adm.audioChannelFormats)
    elif edit == "id-lower":
        for t in ts:
            t.id = t.id.lower()
    return edit


def edit_rows(rng, adm, rows, edit):
    rows = list(rows)
    if not rows or edit == "none":
        return rows, "none"
    i = rng.randrange(len(rows))
    idx, uid, ref, pack = rows[i]
    ids = lambda lst: [e.id for e in getattr(adm, lst)]
    if edit == "ref-other-same-kind":
        pool = ids("audioChannelFormats") if ref.startswith("AC_") else ids("audioTrackFormats")
        rows[i] = (idx, uid, rng.choice(pool), pack)
    elif edit == "ref-other-kind":
        pool = ids("audioTrackFormats") if ref.startswith("AC_") else ids("audioChannelFormats")
        if not pool:
            return rows, "none"
        rows[i] = (idx, uid, rng.choice(pool), pack)
    elif edit == "pack-other":
        rows[i] = (idx, uid, ref, rng.choice(ids("audioPackFormats")))
    elif edit == "pack-none":
        rows[i] = (idx, uid, ref, None)
    elif edit == "uid-unknown":
        rows[i] = (idx, "ATU_%08X" % rng.randint(0x10000, 0xFFFFFFFF), ref, pack)
    elif edit == "uid-unknown-twice":
        u = "ATU_%08X" % rng.randint(0x10000, 0xFFFFFFFF)
        rows[i] = (idx, u, ref, pack)
        rows.insert(rng.randint(0, len(rows)), (idx, u.lower() if rng.random() < 0.5 else u, ref, pack))
    elif edit == "uid-duplicate-row":
        j = rng.randrange(len(rows))
        rows.insert(rng.randint(0, len(rows)), (rows[j][0] if rng.random() < 0.7 else idx + 1, rows[j][1],
                                                rows[j][2] if rng.random() < 0.5 else ref, rows[j][3]))
    elif edit == "uid-silent":
        rows[i] = (idx, "ATU_00000000", ref, pack)
    elif edit == "uid-lower":
        rows[i] = (idx, uid.lower(), ref, pack)
    elif edit == "ref-lower":
        rows[i] = (idx, uid, ref[:3] + ref[3:].lower(), pack)
    elif edit == "ref-lower-prefix":
        rows[i] = (idx, uid, ref.lower(), pack)
    elif edit == "ref-unknown":
        rows[i] = (idx, uid, rng.choice(["AC_0003FFFF", "AT_0003FFFF_01"]), pack)
    elif edit == "pack-unknown":
        rows[i] = (idx, uid, ref, "AP_0003FFFF")
    elif edit == "drop-rows":
        rows = [r for r in rows if rng.random() < 0.5]
    elif edit == "shuffle":
        rng.shuffle(rows)
    elif edit == "index-changed":
        rows[i] = (rng.choice([0, idx + 1, 65535]), uid, ref, pack)
    elif edit == "ref-wrong-class":
        rows[i] = (idx, uid, rng.choice(ids("audioPackFormats") + ids("audioStreamFormats")), pack)
    return rows, edit


# ---------------------------------------------------------------------------------------------
# direct predicates (real code only; written from the property text)


def _track_state(t):
    rid = lambda x: None if x is None else x.id
    return (t.trackIndex, rid(t.audioTrackFormat), rid(t.audioChannelFormat), rid(t.audioPackFormat))


def predicate_transfer(seed, version, size):
    """CHNA transfer round trip on one generated document. Returns list of (tag, detail)."""
    from ear.fileio.adm.adm import ADM
    from ear.fileio.adm.chna import load_chna_chunk, populate_chna_chunk
    from ear.fileio.adm.common_definitions import load_common_definitions
    from ear.fileio.adm.xml import load_axml_string
    from ear.fileio.bw64.chunks import ChnaChunk

    fails = []
    with warnings.catch_warnings():
        warnings.simplefilter("ignore")
        try:
            adm, _ = docs.make_doc(seed, version, size)
        except Exception as e:
            return [("chna-transfer-make_doc-raises", {"exc": "%s: %s" % (type(e).__name__, e)})]
        want = {t.id: _track_state(t) for t in adm.audioTrackUIDs}
        chna = ChnaChunk()
        try:
            populate_chna_chunk(chna, adm)
        except Exception as e:
            return [("chna-transfer-populate-raises", {"exc": "%s: %s" % (type(e).__name__, e)})]
        rows = rows_of(chna)
        # the rows are the document's track UIDs, in order, with their own 1-based index and unpadded ids
        exp = [(t.trackIndex, t.id, (t.audioTrackFormat or t.audioChannelFormat).id,
                None if t.audioPackFormat is None else t.audioPackFormat.id) for t in adm.audioTrackUIDs]
        if rows != exp:
            fails.append(("chna-transfer-rows-not-the-trackuids", {"rows": rows[:6], "trackUIDs": exp[:6]}))
        try:
            axml = axml_of(adm)
        except Exception as e:
            return fails + [("chna-transfer-adm_to_xml-raises", {"exc": "%s: %s" % (type(e).__name__, e)})]
        for mode in ("axml-refs-kept", "track-info-stripped"):
            fresh = copy.deepcopy(docs.common())  # = ADM() + load_common_definitions, without re-parsing the file
            try:
                load_axml_string(fresh, axml)
            except Exception as e:
                return fails + [("chna-transfer-load_axml_string-raises",
                                 {"exc": "%s: %s" % (type(e).__name__, str(e)[:400]), "axml_written": axml.decode()[:3000]})]
            if mode == "track-info-stripped":
                for t in fresh.audioTrackUIDs:
                    t.audioTrackFormat = t.audioChannelFormat = t.audioPackFormat = None
            if any(t.trackIndex is not None for t in fresh.audioTrackUIDs):
                fails.append(("chna-transfer-index-from-axml", {}))
            try:
                load_chna_chunk(fresh, chna)
            except Exception as e:
                fails.append(("chna-transfer-load-raises", {"mode": mode, "exc": "%s: %s" % (type(e).__name__, e),
                                                            "rows": rows[:6]}))
                continue
            got = {t.id: _track_state(t) for t in fresh.audioTrackUIDs}
            if got != want:
                bad = [(k, want.get(k), got.get(k)) for k in sorted(set(want) | set(got)) if want.get(k) != got.get(k)]
                fails.append(("chna-transfer-not-restored", {"mode": mode, "differences(uid, original, loaded)": bad[:6],
                                                             "rows": rows[:6]}))
                continue
            again = ChnaChunk()
            try:
                populate_chna_chunk(again, fresh)
                if rows_of(again) != rows:
                    fails.append(("chna-transfer-populate-not-fixed-point", {"mode": mode, "first": rows[:6],
                                                                             "second": rows_of(again)[:6]}))
            except Exception as e:
                fails.append(("chna-transfer-populate-raises", {"mode": mode, "exc": "%s: %s" % (type(e).__name__, e)}))
    return fails


def predicate_chna_only(seed):
    """no AXML: every row yields an audioTrackUID with exactly the row's data"""
    from ear.fileio.adm.adm import ADM
    from ear.fileio.adm.chna import load_chna_chunk, populate_chna_chunk
    from ear.fileio.adm.common_definitions import load_common_definitions
    from ear.fileio.bw64.chunks import ChnaChunk

    fails = []
    with warnings.catch_warnings():
        warnings.simplefilter("ignore")
        try:
            adm, _ = docs.make_chna_only_doc(seed)
            chna = ChnaChunk()
            populate_chna_chunk(chna, adm)
        except Exception as e:
            return [("chna-only-populate-raises", {"exc": "%s: %s" % (type(e).__name__, e)})]
        rows = rows_of(chna)
        fresh = copy.deepcopy(docs.common())
        try:
            load_chna_chunk(fresh, chna)
        except Exception as e:
            return [("chna-only-load-raises", {"exc": "%s: %s" % (type(e).__name__, e), "rows": rows})]
        got = [(t.trackIndex, t.id,
                None if t.audioTrackFormat is None else t.audioTrackFormat.id,
                None if t.audioChannelFormat is None else t.audioChannelFormat.id,
                None if t.audioPackFormat is None else t.audioPackFormat.id) for t in fresh.audioTrackUIDs]
        exp = [(i, u, None if r.startswith("AC_") else r, r if r.startswith("AC_") else None, p) for i, u, r, p in rows]
        if got != exp:
            fails.append(("chna-only-trackuids-not-the-rows", {"rows": rows, "trackUIDs": got}))
    return fails


MAIN_TAGS = ["audioProgramme", "audioContent", "audioObject", "audioPackFormat", "audioChannelFormat",
             "audioStreamFormat", "audioTrackFormat", "audioTrackUID"]


def _local(el):
    t = el.tag
    return t.split("}")[-1] if isinstance(t, str) else ""


def _baseline(seed, version, size):
    """the generated document, written and read back without any fault injected: (adm, lxml root), or a list with one
    failure when the real code raises already here (so that it is not mistaken for the reaction to the fault)"""
    import lxml.etree
    from ear.fileio.adm.adm import ADM
    from ear.fileio.adm.xml import load_axml_string

    try:
        adm, _ = docs.make_doc(seed, version, size)
        stage = "adm_to_xml"
        axml = axml_of(adm)
        stage = "load_axml_string"
        load_axml_string(ADM(), axml, lookup_references=False)
    except Exception as e:
        st = locals().get("stage", "make_doc")
        det = {"exc": "%s: %s" % (type(e).__name__, str(e)[:400])}
        if st == "load_axml_string":
            det["axml_written"] = axml.decode()[:3000]
        return [("unmodified-document-%s-raises" % st, det)]
    return adm, lxml.etree.fromstring(axml)


def predicate_duplicate(seed, version, size):
    """a document in which one main element occurs twice (same id, same class) is rejected with AdmIDError by
    parse_string — it is never resolved to one of the two"""
    import lxml.etree
    from ear.fileio.adm.exceptions import AdmIDError
    from ear.fileio.adm.xml import parse_string

    rng = random.Random("c08dup/%d/%d/%d" % (seed, version, size))
    with warnings.catch_warnings():
        warnings.simplefilter("ignore")
        base = _baseline(seed, version, size)
        if isinstance(base, list):
            return base, "baseline"
        adm, root = base
        mains = [el for el in root.iter() if _local(el) in MAIN_TAGS]
        el = rng.choice(mains)
        dup = copy.deepcopy(el)
        how = rng.choice(["same", "lower-case-id", "renamed"])
        idattr = [k for k in dup.attrib if k.endswith("ID") or k == "UID"][0]
        if how == "lower-case-id":
            dup.attrib[idattr] = dup.attrib[idattr].lower()
        elif how == "renamed":
            for k in dup.attrib:
                if k.endswith("Name"):
                    dup.attrib[k] = "another"
        el.getparent().append(dup)
        xml = lxml.etree.tostring(root)
        try:
            parsed = parse_string(xml)
        except AdmIDError:
            return [], how
        except Exception as e:
            return [("duplicate-id-other-error", {"element": _local(el), "id": el.attrib[idattr], "how": how,
                                                  "exc": "%s: %s" % (type(e).__name__, str(e)[:200])})], how
        n = sum(1 for e in parsed.elements if e.id is not None and e.id.upper() == el.attrib[idattr].upper())
        return [("duplicate-id-accepted", {"element": _local(el), "id": el.attrib[idattr], "how": how,
                                           "elements_with_that_id_after_parsing": n,
                                           "axml": xml.decode()[:3000]})], how


def predicate_dangling(seed, version, size):
    """a reference to an id that no element has is rejected with KeyError by parse_string"""
    import lxml.etree
    from ear.fileio.adm.xml import parse_string

    rng = random.Random("c08dangling/%d/%d/%d" % (seed, version, size))
    with warnings.catch_warnings():
        warnings.simplefilter("ignore")
        base = _baseline(seed, version, size)
        if isinstance(base, list):
            return base, "baseline"
        adm, root = base
        refs = [el for el in root.iter() if _local(el).endswith("IDRef") or _local(el) == "audioTrackUIDRef"]
        if not refs:
            return [], None
        el = rng.choice(refs)
        old = el.text
        el.text = rng.choice(["XX_DEAD", old[:-1] + ("0" if old[-1] != "0" else "1") + "F", "AP_0001FFFF"])
        known = {e.id.upper() for e in adm.elements if e.id} | \
            {a.id.upper() for o in adm.audioObjects for a in o.alternativeValueSets if a.id}
        if el.text.upper() in known or el.text == "ATU_00000000":
            return [], None
        xml = lxml.etree.tostring(root)
        kind = _local(el)
        try:
            parse_string(xml)
        except KeyError:
            return [], kind
        except Exception as e:
            return [("dangling-ref-other-error", {"reference": kind, "was": old, "now": el.text,
                                                  "exc": "%s: %s" % (type(e).__name__, str(e)[:200])})], kind
        return [("dangling-ref-accepted", {"reference": kind, "was": old, "now": el.text,
                                           "axml": xml.decode()[:3000]})], kind
