/-
C20 — the function the line-protocol driver executes (`Driver/C20.lean`, modes T/P:
`trackProcessor s` / `build s`, then `runRG delaySamplesF nch p calls` with one sample rate per call)
is the function the theorems of `Props/C20.lean` speak about (`runG delaySamplesF fs` / `runSpecF`)
when all calls carry the same sample rate; and two exact cases of the binary64 ms → samples
conversion that the margin theorem (`Proofs/C20FloatMargin.lean`, needs `0 < ms` and a non-zero distance
from every half sample) does not cover: delay 0 and "every intermediate result is a binary64 number".
Core Lean only (kept out of `Props/C20.lean` so that `Props/C02.lean`, `Props/C06.lean`, which import it, are
not rebuilt).
-/
import Earverif.Props.C20

namespace Earverif.TrackSpec

variable {α : Type} [Sample α]

/-- **runRG_const.**  The driver's entry point `runRG ds nch p calls` (a sample rate per call, conversion
`ds`; the driver passes `ds = delaySamplesF`) with one rate `fs` for all calls is `runG ds fs nch p`
(the analogue of `runR_const` for the function the driver really runs). -/
theorem runRG_const (ds : Int → Rat → Int) (fs : Int) (nch : Nat) (parts : List (List (List α))) :
    ∀ p : Proc α, runRG ds nch p (parts.map fun b => (fs, b)) = runG ds fs nch p parts := by
  induction parts with
  | nil => intro p; rfl
  | cons b rest ih =>
    intro p
    simp only [List.map_cons, runRG, runG]
    cases stepG ds fs nch p b with
    | error e => rfl
    | ok r => simp only [ih]

variable [DecidableEq α]

/-- **runSpecF_eq_driver.**  `runSpecF` (the subject of `processorF_eq_meaningStrict`) is literally what the
driver computes in mode T: `trackProcessor s`, then `runRG delaySamplesF` over the calls `(fs, block)`. -/
theorem runSpecF_eq_driver (fs : Int) (nch : Nat) (s : Spec α) (parts : List (List (List α))) :
    runSpecF fs nch s parts =
      (match trackProcessor s with
       | .error e => .error e
       | .ok p => runRG delaySamplesF nch p (parts.map fun b => (fs, b))) := by
  simp only [runSpecF, trackProcessor]
  cases build (simplify s) with
  | error e => rfl
  | ok p => simp only [runRG_const]

/-- **driver_eq_meaningStrict (C20, stated on the driver's function).**  For a spec inside the quantifier whose
delays are float-exact and an `(n, nch)` input cut into any blocks, `trackProcessor s` succeeds and
`runRG delaySamplesF` on the calls `(fs, block)` returns, block by block, the strict literal meaning. -/
theorem driver_eq_meaningStrict (fs : Int) (nch : Nat) (s : Spec α) (hwf : s.wf fs nch = true)
    (hfe : s.floatExact fs = true) (parts : List (List (List α))) (hrect : ∀ b ∈ parts, Rect nch b) :
    ∃ p v, trackProcessor s = .ok p ∧ meaningStrict fs nch s parts.flatten = some v ∧
      runRG delaySamplesF nch p (parts.map fun b => (fs, b)) = .ok (chunks (parts.map List.length) v) := by
  obtain ⟨v, h1, h2, -⟩ := processorF_eq_meaningStrict fs nch s hwf hfe parts hrect
  rw [runSpecF_eq_driver] at h2
  cases hp : trackProcessor s with
  | error e => rw [hp] at h2; cases h2
  | ok p => rw [hp] at h2; exact ⟨p, v, rfl, h1, h2⟩

/-- **delaySamplesF_eq_of_exact.**  If the int → float conversion of the sample rate, the product, the
quotient and the difference are all binary64 numbers (no rounding happens anywhere; four decidable
conditions), the code's conversion is the exact one.  Covers the exactly representable ties, where
`delaySamplesF_eq_of_margin` does not apply (distance 0 from a half sample). -/
theorem delaySamplesF_eq_of_exact (fs : Int) (ms : Rat)
    (h1 : Ieee.rn53 (fs : Rat) = (fs : Rat))
    (h2 : Ieee.rn53 ((fs : Rat) * ms) = (fs : Rat) * ms)
    (h3 : Ieee.rn53 ((fs : Rat) * ms / 1000) = (fs : Rat) * ms / 1000)
    (h4 : Ieee.rn53 ((fs : Rat) * ms / 1000 - 1 / 2) = (fs : Rat) * ms / 1000 - 1 / 2) :
    delaySamplesF fs ms = delaySamples fs ms := by
  simp only [delaySamplesF, delaySamples, h1, h2, h3, h4]

/-- non-vacuity: 0.03125 ms at 48 kHz = exactly 1.5 samples (→ 1), 5 ms at 44.1 kHz = exactly 220.5
samples (→ 220): all four conditions hold -/
example : Ieee.rn53 ((48000 : Int) : Rat) = ((48000 : Int) : Rat) ∧
    Ieee.rn53 (((48000 : Int) : Rat) * (1 / 32)) = ((48000 : Int) : Rat) * (1 / 32) ∧
    Ieee.rn53 (((48000 : Int) : Rat) * (1 / 32) / 1000) = ((48000 : Int) : Rat) * (1 / 32) / 1000 ∧
    Ieee.rn53 (((48000 : Int) : Rat) * (1 / 32) / 1000 - 1 / 2) = ((48000 : Int) : Rat) * (1 / 32) / 1000 - 1 / 2 ∧
    delaySamplesF 48000 (1 / 32) = 1 ∧ delaySamplesF 44100 5 = 220 ∧ delaySamples 44100 5 = 220 := by
  decide +kernel

/-- the hypotheses of `driver_eq_meaningStrict` on `exSpec` (which contains the 1.5-sample tie) -/
example : exSpec.wf 48000 3 = true ∧ exSpec.floatExact 48000 = true := by decide +kernel

end Earverif.TrackSpec
