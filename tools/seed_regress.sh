#!/bin/sh
# tools/seed_regress.sh <jobs> <VERIF_SEED> <seed names...>: run each seeded change against its own property's quick check
# (scratch worktree via tools/seed_run.sh), <jobs> at a time; one result line per seed on stdout.
J=$1; VS=$2; shift 2
for S in "$@"; do echo $S; done | xargs -P $J -I{} sh -c '
  S={}; PID=${S%%_*}
  OUT=$(VERIF_SEED='$VS' sh /verif/tools/seed_run.sh $S $PID quick 2>&1)
  V=$(echo "$OUT" | grep -c "^VIOLATION")
  NF=$(echo "$OUT" | grep -c "no-failing-input-found")
  RC=$(echo "$OUT" | sed -n "s/.*exit=\([0-9]*\)$/\1/p" | tail -1)
  W=$(echo "$OUT" | grep "failing input" | head -1 | cut -c1-160)
  echo "$S vs='$VS' exit=$RC violation=$V nofail=$NF | $W"
'
