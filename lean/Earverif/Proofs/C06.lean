/-
Helper lemmas for C06 (item selection): `mapE`/`flatMapE`, `pathsFrom`.
Core Lean only.
-/
import Earverif.Model.SelectItems

namespace Earverif.Adm

/-! ### `mapE` / `flatMapE` -/

/-- value of a successful call (only used inside proofs). -/
def okVal {α β : Type} [Inhabited β] (f : α → Except Err β) (x : α) : β :=
  match f x with
  | .ok y => y
  | .error _ => default

theorem mapE_ok_iff {α β : Type} [Inhabited β] (f : α → Except Err β) (l : List α) (ys : List β) :
    mapE f l = .ok ys ↔ (∀ x ∈ l, ∃ y, f x = .ok y) ∧ ys = l.map (okVal f) := by
  induction l generalizing ys with
  | nil => simp [mapE]
  | cons x xs ih =>
    simp only [mapE, List.mem_cons, forall_eq_or_imp, List.map_cons]
    cases hx : f x with
    | error e => simp
    | ok y =>
      cases hxs : mapE f xs with
      | error e =>
        simp only [reduceCtorEq, false_iff, not_and]
        intro ⟨_, h⟩ hys
        have := (ih (xs.map (okVal f))).2 ⟨h, rfl⟩
        rw [hxs] at this; cases this
      | ok zs =>
        have := (ih zs).1 hxs
        simp only [Except.ok.injEq, exists_eq', true_and]
        constructor
        · intro h; subst h
          refine ⟨this.1, ?_⟩
          simp [okVal, hx, this.2]
        · intro ⟨_, h⟩
          rw [h, this.2]; simp [okVal, hx]

theorem mapE_ok_of_all {α β : Type} [Inhabited β] (f : α → Except Err β) (l : List α)
    (h : ∀ x ∈ l, ∃ y, f x = .ok y) : mapE f l = .ok (l.map (okVal f)) :=
  (mapE_ok_iff f l _).2 ⟨h, rfl⟩

theorem flatMapE_ok_iff {α β : Type} (f : α → Except Err (List β)) (l : List α) (ys : List β) :
    flatMapE f l = .ok ys ↔ (∀ x ∈ l, ∃ y, f x = .ok y) ∧ ys = l.flatMap (okVal f) := by
  unfold flatMapE
  cases h : mapE f l with
  | error e =>
    simp only [reduceCtorEq, false_iff, not_and]
    intro hall _
    rw [mapE_ok_of_all f l hall] at h; cases h
  | ok zs =>
    have := (mapE_ok_iff f l zs).1 h
    simp only [Except.ok.injEq]
    rw [this.2, List.flatMap_def]
    exact ⟨fun h => ⟨this.1, h.symm⟩, fun h => h.2.symm⟩

theorem flatMapE_mem {α β : Type} {f : α → Except Err (List β)} {l : List α} {ys : List β}
    (h : flatMapE f l = .ok ys) {y : β} (hy : y ∈ ys) : ∃ x ∈ l, ∃ zs, f x = .ok zs ∧ y ∈ zs := by
  obtain ⟨hall, rfl⟩ := (flatMapE_ok_iff f l ys).1 h
  obtain ⟨x, hx, hyx⟩ := List.mem_flatMap.1 hy
  obtain ⟨zs, hzs⟩ := hall x hx
  exact ⟨x, hx, zs, hzs, by simpa [okVal, hzs] using hyx⟩

theorem mapE_mem {α β : Type} [Inhabited β] {f : α → Except Err β} {l : List α} {ys : List β}
    (h : mapE f l = .ok ys) {y : β} (hy : y ∈ ys) : ∃ x ∈ l, f x = .ok y := by
  obtain ⟨hall, rfl⟩ := (mapE_ok_iff f l ys).1 h
  obtain ⟨x, hx, rfl⟩ := List.mem_map.1 hy
  obtain ⟨z, hz⟩ := hall x hx
  exact ⟨x, hx, by simp [okVal, hz]⟩

/-- successful nested loops over a permuted list give permuted results. -/
theorem flatMapE_perm {α β : Type} (f : α → Except Err (List β)) {l₁ l₂ : List α} (hp : l₁.Perm l₂)
    {ys : List β} (h : flatMapE f l₁ = .ok ys) : ∃ zs, flatMapE f l₂ = .ok zs ∧ ys.Perm zs := by
  obtain ⟨hall, rfl⟩ := (flatMapE_ok_iff f l₁ ys).1 h
  refine ⟨l₂.flatMap (okVal f), (flatMapE_ok_iff f l₂ _).2 ⟨fun x hx => hall x (hp.mem_iff.2 hx), rfl⟩, ?_⟩
  exact hp.flatMap_right _

/-! ### `pathsFrom` -/

/-- `Chain ch r p`: `p` is a path `r = p₀ → p₁ → …` along the child relation `ch`. -/
inductive Chain (ch : Nat → List Nat) : Nat → List Nat → Prop
  | single (r : Nat) : Chain ch r [r]
  | cons (r s : Nat) (p : List Nat) : s ∈ ch r → Chain ch s p → Chain ch r (r :: p)

theorem Chain.head {ch r p} (h : Chain ch r p) : p.head? = some r := by cases h <;> rfl

theorem Chain.ne_nil {ch r p} (h : Chain ch r p) : p ≠ [] := by cases h <;> simp

theorem chain_of_mem_pathsFrom {ch : Nat → List Nat} : ∀ fuel r p, p ∈ pathsFrom ch fuel r → Chain ch r p
  | 0, _, _, h => by simp [pathsFrom] at h
  | fuel + 1, r, p, h => by
    simp only [pathsFrom, List.mem_cons, List.mem_flatMap, List.mem_map] at h
    rcases h with rfl | ⟨s, hs, q, hq, rfl⟩
    · exact .single r
    · exact .cons r s q hs (chain_of_mem_pathsFrom fuel s q hq)

theorem mem_pathsFrom_of_chain {ch : Nat → List Nat} {r p} (h : Chain ch r p) :
    ∀ fuel, p.length ≤ fuel → p ∈ pathsFrom ch fuel r := by
  induction h with
  | single r =>
    intro fuel hf
    cases fuel with
    | zero => simp at hf
    | succ f => simp [pathsFrom]
  | cons r s p hs _ ih =>
    intro fuel hf
    cases fuel with
    | zero => simp at hf
    | succ f =>
      simp only [pathsFrom, List.mem_cons, List.mem_flatMap, List.mem_map]
      right
      exact ⟨s, hs, p, ih f (by simpa using hf), rfl⟩

/-- along a strictly decreasing rank, chains are short. -/
theorem Chain.length_le {ch : Nat → List Nat} {rank : Nat → Nat}
    (hr : ∀ o c, c ∈ ch o → rank c < rank o) {r p} (h : Chain ch r p) : p.length ≤ rank r + 1 := by
  induction h with
  | single r => simp
  | cons r s p hs _ ih => have := hr r s hs; simp; omega

theorem pathsFrom_nodup {ch : Nat → List Nat} (hnd : ∀ o, (ch o).Nodup) :
    ∀ fuel r, (pathsFrom ch fuel r).Nodup
  | 0, _ => by simp [pathsFrom]
  | fuel + 1, r => by
    simp only [pathsFrom, List.nodup_cons, List.mem_flatMap, List.mem_map, not_exists, not_and]
    constructor
    · intro s _ q hq h
      have := (chain_of_mem_pathsFrom fuel s q hq).ne_nil
      cases q <;> simp_all
    · unfold List.Nodup
      rw [List.pairwise_flatMap]
      constructor
      · intro s _
        have := pathsFrom_nodup hnd fuel s
        unfold List.Nodup at this
        rw [List.pairwise_map]
        exact this.imp (fun h h' => h (List.cons.inj h').2)
      · have := hnd r
        unfold List.Nodup at this
        refine this.imp ?_
        intro s₁ s₂ hne x hx y hy hxy
        simp only [List.mem_map] at hx hy
        obtain ⟨q₁, hq₁, rfl⟩ := hx
        obtain ⟨q₂, hq₂, rfl⟩ := hy
        have h1 := (chain_of_mem_pathsFrom fuel s₁ q₁ hq₁).head
        have h2 := (chain_of_mem_pathsFrom fuel s₂ q₂ hq₂).head
        have : q₁ = q₂ := (List.cons.inj hxy).2
        subst this
        rw [h1] at h2
        exact hne (Option.some.inj h2)

/-! ### generic list lemmas (core lacks them) -/

theorem nodup_flatMap_of {α β : Type} {l : List α} {f : α → List β} (hl : l.Nodup)
    (hf : ∀ x ∈ l, (f x).Nodup)
    (hdisj : ∀ x ∈ l, ∀ y ∈ l, x ≠ y → ∀ b, b ∈ f x → b ∈ f y → False) : (l.flatMap f).Nodup := by
  unfold List.Nodup
  rw [List.pairwise_flatMap]
  refine ⟨hf, ?_⟩
  unfold List.Nodup at hl
  refine hl.imp_of_mem ?_
  intro x y hx hy hne b hb c hc hbc
  subst hbc
  exact hdisj x hx y hy hne b hb hc

theorem nodup_map_of_inj {α β : Type} {l : List α} {f : α → β} (hl : l.Nodup)
    (hf : ∀ x y, f x = f y → x = y) : (l.map f).Nodup := by
  unfold List.Nodup at *
  rw [List.pairwise_map]
  exact hl.imp (fun h h' => h (hf _ _ h'))

theorem nodup_filter {α : Type} {l : List α} (p : α → Bool) (hl : l.Nodup) : (l.filter p).Nodup :=
  List.Pairwise.filter p hl

/-- two-sided permutation congruence of `flatMap` (core only has the right-hand one). -/
theorem perm_flatMap_congr {α β : Type} {l₁ l₂ : List α} {f g : α → List β} (hp : l₁.Perm l₂)
    (hfg : ∀ x ∈ l₁, (f x).Perm (g x)) : (l₁.flatMap f).Perm (l₂.flatMap g) := by
  refine List.Perm.trans ?_ (hp.flatMap_right g)
  clear hp
  induction l₁ with
  | nil => exact .refl _
  | cons x xs ih =>
    simp only [List.flatMap_cons]
    exact (hfg x (List.mem_cons_self ..)).append (ih fun y hy => hfg y (List.mem_cons_of_mem _ hy))

/-- in a concatenation of blocks, each carrying its own key, filtering by a key returns that block. -/
theorem filter_flatMap_key {α β : Type} [DecidableEq α] {l : List α} (hnd : l.Nodup) (f : α → List β)
    (key : β → α) (hf : ∀ s ∈ l, ∀ b ∈ f s, key b = s) (k : α) :
    (l.flatMap f).filter (fun b => decide (key b = k)) = if k ∈ l then f k else [] := by
  induction l with
  | nil => simp
  | cons s ss ih =>
    rw [List.nodup_cons] at hnd
    have ih' := ih hnd.2 (fun t ht => hf t (List.mem_cons_of_mem _ ht))
    simp only [List.flatMap_cons, List.filter_append, ih']
    by_cases hs : s = k
    · subst hs
      have h1 : (f s).filter (fun b => decide (key b = s)) = f s :=
        List.filter_eq_self.2 fun b hb => by simp [hf s (List.mem_cons_self ..) b hb]
      simp [h1, hnd.1]
    · have h1 : (f s).filter (fun b => decide (key b = k)) = [] :=
        List.filter_eq_nil_iff.2 fun b hb => by
          simp [hf s (List.mem_cons_self ..) b hb, hs]
      have : (k ∈ s :: ss) ↔ k ∈ ss := by
        simp only [List.mem_cons]
        exact ⟨fun h => h.resolve_left (fun h' => hs h'.symm), Or.inr⟩
      simp only [h1, List.nil_append]
      by_cases hk : k ∈ ss <;> simp [hk, this]

/-! ### moved here from `Props/C06.lean` (shared with `Proofs/C06WF.lean`, `Proofs/C06Spec.lean`) -/

theorem flatMap_congr' {α β : Type} {l : List α} {f g : α → List β} (h : ∀ x ∈ l, f x = g x) :
    l.flatMap f = l.flatMap g := by
  induction l with
  | nil => rfl
  | cons x xs ih =>
    simp only [List.flatMap_cons, h x (List.mem_cons_self ..)]
    rw [ih fun y hy => h y (List.mem_cons_of_mem _ hy)]

theorem nodup_of_nodup_map {α β : Type} (f : α → β) : ∀ {l : List α}, (l.map f).Nodup → l.Nodup
  | [], _ => List.nodup_nil
  | x :: xs, h => by
    simp only [List.map_cons, List.nodup_cons] at h ⊢
    exact ⟨fun hx => h.1 (List.mem_map.2 ⟨x, hx, rfl⟩), nodup_of_nodup_map f h.2⟩

/-- one step of `get_wrapped_packs`. -/
def wrapOne (f : Formats) (p : Nat) : Except Err (List WPack) :=
  if (f.pack p).type ≠ 2 then .ok [wrapRegular f p] else wrapMatrix f p

theorem wrappedPacks_eq (f : Formats) : wrappedPacks f = flatMapE (wrapOne f) (List.range f.packs.length) := rfl

end Earverif.Adm
