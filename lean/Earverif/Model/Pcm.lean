/-
Model of `ear/fileio/bw64/utils.py`: `decode_pcm_samples`, `encode_pcm_samples`,
`interleave`, `deinterleave`.  Core Lean only.

Sample codes are `Int`, float64 values are exact `Rat`s (see `Model/Ieee.lean`),
byte strings are `List Nat` (every element < 256), numpy arrays are `List`s.
`b` is the bit depth (16, 24 or 32; anything else raises `RuntimeError` in the
Python and is `none` in the byte-level functions here).
-/
import Earverif.Model.Ieee

namespace Earverif.Pcm
open Earverif.Ieee

/-- `2**(bitdepth - 1) - 1`, the scale used by both directions. -/
def scale (b : Nat) : Int := 2 ^ (b - 1) - 1

/-- `decodedSamples / float(2**(bitdepth-1) - 1)` for one sample code: the int
array is converted to float64 exactly (|c| < 2^53) and divided in float64. -/
def decode (b : Nat) (c : Int) : Rat := rn53 ((c : Rat) / (scale b : Rat))

/-- `samples[samples > 1.0] = 1.0; samples[samples < -1.0] = -1.0`. -/
def clip (x : Rat) : Rat := if 1 < x then 1 else if x < -1 then -1 else x

/-- `ndarray.astype('int16' / 'int32')` on an in-range float64: truncation toward zero. -/
def truncZ (x : Rat) : Int := if 0 ≤ x then x.floor else -((-x).floor)

/-- `encode_pcm_samples` for one sample up to the integer code:
clip, then multiply by the scale in float64, then `astype(int)`. -/
def encode (b : Nat) (x : Rat) : Int := truncZ (rn53 (clip x * (scale b : Rat)))

/-! ### bytes -/

/-- `n` little-endian bytes of the two's complement representation of `v`
(`ndarray.tobytes()` of an int16/int32 array on a little-endian machine). -/
def toLE : Nat → Int → List Nat
  | 0, _ => []
  | n + 1, v => (v % 256).toNat :: toLE n (v / 256)

/-- unsigned value of little-endian bytes. -/
def fromLE : List Nat → Nat
  | [] => 0
  | x :: xs => x + 256 * fromLE xs

/-- two's complement reading of an unsigned `n`-bit value (`np.frombuffer(.., 'int16'/'int32')`). -/
def sext (n : Nat) (u : Nat) : Int := if u < 2 ^ (n - 1) then (u : Int) else (u : Int) - 2 ^ n

/-- One code to bytes as `encode_pcm_samples` does it:
16: `astype('int16').tobytes()`; 32: `astype('int32').tobytes()`;
24: `astype('int32').tobytes()` and then `del encodedSamples[3::4]` (drop the top byte). -/
def packCode (b : Nat) (v : Int) : Option (List Nat) :=
  if b = 16 then some (toLE 2 v)
  else if b = 24 then some ((toLE 4 v).take 3)
  else if b = 32 then some (toLE 4 v)
  else none

def pack (b : Nat) : List Int → Option (List Nat)
  | [] => if b = 16 ∨ b = 24 ∨ b = 32 then some [] else none
  | v :: vs => do
    let x ← packCode b v
    let r ← pack b vs
    some (x ++ r)

def unpack16 : List Nat → Option (List Int)
  | [] => some []
  | b0 :: b1 :: rest => (unpack16 rest).map (sext 16 (fromLE [b0, b1]) :: ·)
  | _ => none   -- `np.frombuffer`: buffer size must be a multiple of element size

def unpack32 : List Nat → Option (List Int)
  | [] => some []
  | b0 :: b1 :: b2 :: b3 :: rest => (unpack32 rest).map (sext 32 (fromLE [b0, b1, b2, b3]) :: ·)
  | _ => none

/-- 24 bit: the three bytes become bytes 0..2 of a zeroed int32 (so the value is
the unsigned 24-bit number), then `x[x > 2**23 - 1] -= 2**24`. -/
def unpack24go : List Nat → Option (List Int)
  | [] => some []
  | b0 :: b1 :: b2 :: rest =>
    let u : Int := (fromLE [b0, b1, b2, 0] : Nat)
    (unpack24go rest).map ((if u > 2 ^ 23 - 1 then u - 2 ^ 24 else u) :: ·)
  | _ => none   -- the strided assignment raises (shape mismatch)

/-- With fewer than 3 bytes `numberOfSamples = 0` and numpy broadcasts the one-element
strided source into the empty destination without complaint: empty result. -/
def unpack24 (bs : List Nat) : Option (List Int) :=
  if bs.length < 3 then some [] else unpack24go bs

/-- the integer codes `decode_pcm_samples` sees. -/
def unpack (b : Nat) (bs : List Nat) : Option (List Int) :=
  if b = 16 then unpack16 bs else if b = 24 then unpack24 bs else if b = 32 then unpack32 bs else none

/-- `decode_pcm_samples(bytes, b)`. -/
def decodeBytes (b : Nat) (bs : List Nat) : Option (List Rat) :=
  (unpack b bs).map (·.map (decode b))

/-- `encode_pcm_samples(samples, b)`. -/
def encodeBytes (b : Nat) (xs : List Rat) : Option (List Nat) :=
  pack b (xs.map (encode b))

/-- What a byte string becomes after one decode/encode pass according to the
property: the most negative code is replaced by the negated maximum. -/
def canonCode (b : Nat) (c : Int) : Int := if c = -2 ^ (b - 1) then -(2 ^ (b - 1) - 1) else c

def canonBytes (b : Nat) (bs : List Nat) : Option (List Nat) :=
  (unpack b bs).bind fun cs => pack b (cs.map (canonCode b))

/-! ### interleaving -/

/-- `interleave(deinterleaved)` for a frames × channels array given as a list of
`ch`-element rows: element `i` of the output is `deinterleaved[i / ch][i % ch]`
(`interleaved[channel::channels] = deinterleaved[:, channel]` for every channel;
for one channel `deinterleaved.T[0]`, the same thing). -/
def interleave {α} [Inhabited α] (ch : Nat) (frames : List (List α)) : List α :=
  (List.range (frames.length * ch)).map fun i => (frames.getD (i / ch) []).getD (i % ch) default

/-- `deinterleave(interleaved, channels)`: `numberOfFrames = int(size / channels)`,
`deinterleaved[:, channel] = interleaved[channel::channels]`; numpy raises when the
strided slices do not all have `numberOfFrames` elements, i.e. when the size is not
a multiple of `channels` (`none`) -- except that with fewer than `channels` elements
`numberOfFrames = 0` and the one-element slices broadcast into the empty columns
(empty result).  `channels = 0` divides by zero (`none`). -/
def deinterleave {α} [Inhabited α] (ch : Nat) (flat : List α) : Option (List (List α)) :=
  if ch = 0 then none
  else if flat.length < ch then some []
  else if flat.length % ch ≠ 0 then none
  else some ((List.range (flat.length / ch)).map fun f =>
    (List.range ch).map fun c => flat.getD (c + f * ch) default)

end Earverif.Pcm
