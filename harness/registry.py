"""Which properties are claimed, with the manifest text for each. tools/mk_manifest.py writes MANIFEST.json
from this; a property without a built check is listed under not_applicable with the reason."""

ALL = ["C%02d" % i for i in range(1, 21)]

# pid -> dict(text, note, technique, design_ref)
CLAIMED = {
    "C18": dict(
        text="FULL: Lean theorems (Earverif.Cursor.ops_refine, seek_spec, read_spec, tell_spec, iter_refines, "
        "specIter_tiles) prove for every operation sequence, file size and cursor that the byte-level model of "
        "Bw64Reader.seek/tell/read/iter_sample_blocks refines a list-plus-cursor specification; the model is tied to "
        "the code on every run by driving the real reader and the Lean model with the same generated operation "
        "sequences (exhaustive over a boundary alphabet up to a length bound, then random) and diffing outputs.",
        note="Trusted: Lean kernel, hand transliteration of the reader's cursor arithmetic + correspondence harness, "
        "BytesIO semantics as modelled. Quantifier limits: read(n>=0), iter block size >= 1 (0 hangs in the real code).",
        technique="Lean 4 refinement proof (induction over operation sequences) + differential correspondence with the real reader",
        design_ref="DESIGN.md section 4, C18",
    ),
}

NOT_YET = "no Lean model/correspondence built for this property yet in this session (planned in DESIGN.md section 4); not claimed rather than claimed with another technique"
