/-
Transliteration of `ear.core.select_items.select_items.select_rendering_items`
(+ `utils.py`, `hoa.py`) over the index-based document of `Model/Adm.lean`.

Generators become lists in yield order, exceptions become `Except Err`.
`validate_structure` is NOT modelled: the model describes selection on documents
that pass validation (no object loops, pack/channel multitree, object parameters
only in leaves, consistent alternativeValueSet references, ...).

Not modelled: Matrix packs (`unsupported` as soon as the document contains one)
and the general back-tracking allocator `pack_allocation.allocate_packs` (C07's
subject).  `allocateObject` / `allocateChna` compute *the* allocation for the
class of documents in which every real track has exactly one compatible slot
(each track's (channel format, pack format) determines its slot); outside that
class they answer `unsupported`.  The order of the allocated packs follows what
the real allocator does for a unique solution: packs holding real tracks in the
order of their first track, then all-silent packs in `audioPackFormats` order.
Core Lean only.
-/
import Earverif.Model.Adm
namespace Earverif.Adm

inductive Err where
  | notComplementary   -- AdmError "selected audioObject .. is not part of any complementary audioObject group"
  | multipleSelected   -- AdmError "multiple audioObjects selected from complementary object group"
  | conflicting        -- AdmFormatRefError "Conflicting format references"
  | unsupported        -- outside the modelled class (matrix packs, ambiguous allocations)
  | pathParamConflict  -- AdmError "Conflicting .. values in path" (get_path_param)
  | paramMismatch      -- AdmError "All audioChannelFormats in a single audioPackFormat must share .." (get_single_param)
  | notImplemented     -- NotImplementedError in _get_rendering_items
  | internal           -- cannot happen on validated documents (ValueError/IndexError in Python)
  deriving DecidableEq, Repr

/-- `for x in xs: ... f(x)` with exceptions: first error in iteration order wins. -/
def mapE {α β : Type} (f : α → Except Err β) : List α → Except Err (List β)
  | [] => .ok []
  | x :: xs =>
    match f x with
    | .error e => .error e
    | .ok y =>
      match mapE f xs with
      | .error e => .error e
      | .ok ys => .ok (y :: ys)

/-- nested generator loops: `for x in xs: for y in f(x): yield y`. -/
def flatMapE {α β : Type} (f : α → Except Err (List β)) (xs : List α) : Except Err (List β) :=
  match mapE f xs with
  | .error e => .error e
  | .ok ys => .ok ys.flatten

/-- `_ItemSelectionState` after `_select_programme_content_objects`. -/
structure State where
  programme : Option Nat
  content : Option Nat
  objPath : Option (List Nat)
  deriving DecidableEq, Inhabited

/-! ### programme / content / object paths -/

/-- `min(programmes, key=id)`: position of the first programme with the lowest id. -/
def minByIdGo : List Programme → Nat → Option (Nat × Nat) → Option (Nat × Nat)
  | [], _, best => best
  | p :: rest, i, none => minByIdGo rest (i + 1) (some (i, p.idKey))
  | p :: rest, i, some (bi, bk) =>
    if p.idKey < bk then minByIdGo rest (i + 1) (some (i, p.idKey))
    else minByIdGo rest (i + 1) (some (bi, bk))

def minById (ps : List Programme) : Option Nat := (minByIdGo ps 0 none).map (·.1)

/-- `_select_programme` (the `assert in_by_id` on a given programme is the
driver's range check). -/
def selectProgramme (a : Adm) (given : Option Nat) : Option Nat :=
  match given with
  | some p => some p
  | none =>
    match a.programmes with
    | [] => none
    | [_] => some 0
    | ps => minById ps

/-- `_select_content`. -/
def selectContent (a : Adm) (st : State) : List State :=
  match st.programme with
  | some p => (a.prog p).contents.map fun c => { st with content := some c }
  | none => [st]

/-- `_root_objects`. -/
def rootObjects (a : Adm) : List Nat :=
  let nonRoot := a.objects.flatMap (·.subObjects)
  (List.range a.objects.length).filter fun i => !nonRoot.contains i

/-- `_select_root_objects`. -/
def selectRootObjects (a : Adm) (st : State) : List Nat :=
  match st.content with
  | some c => (a.cont c).objects
  | none => rootObjects a

/-- `utils._paths_from` (recursive generator) with fuel. -/
def pathsFrom (children : Nat → List Nat) : Nat → Nat → List (List Nat)
  | 0, _ => []
  | fuel + 1, r => [r] :: (children r).flatMap fun s => (pathsFrom children fuel s).map (r :: ·)

def Adm.subs (a : Adm) (i : Nat) : List Nat := (a.obj i).subObjects

/-- `utils.object_paths_from`; fuel = number of objects (loops are rejected by
validation first). -/
def objectPathsFrom (a : Adm) (r : Nat) : List (List Nat) :=
  pathsFrom a.subs a.objects.length r

/-- `_select_object_paths`. -/
def selectObjectPaths (a : Adm) (st : State) : List State :=
  (selectRootObjects a st).flatMap fun r =>
    (objectPathsFrom a r).map fun p => { st with objPath := some p }

/-- `_select_programme_content_objects`. -/
def selectPCO (a : Adm) (given : Option Nat) : List State :=
  if a.programmes ≠ [] ∨ a.objects ≠ [] then
    let st : State := { programme := selectProgramme a given, content := none, objPath := none }
    (selectContent a st).flatMap (selectObjectPaths a)
  else [{ programme := none, content := none, objPath := none }]

/-! ### complementary objects -/

def compRoots (a : Adm) : List Nat :=
  (List.range a.objects.length).filter fun i => (a.obj i).complementary ≠ []

/-- `objects_in_group`. -/
def compGroup (a : Adm) (r : Nat) : List Nat := r :: (a.obj r).complementary

/-- `all_selected` of `_select_complementary_objects`. -/
def compAllSelected (a : Adm) (sel : List Nat) : List Nat :=
  sel ++ (compRoots a).filter fun r => !(compGroup a r).any (sel.contains ·)

/-- `_select_complementary_objects`: the objects to ignore. -/
def selectComplementary (a : Adm) (sel : List Nat) : Except Err (List Nat) :=
  let roots := compRoots a
  let allComp := roots.flatMap (compGroup a)
  if sel.any (fun s => !allComp.contains s) then .error .notComplementary
  else
    let allSel := compAllSelected a sel
    if roots.any (fun r => ((compGroup a r).filter (allSel.contains ·)).length > 1) then
      .error .multipleSelected
    else .ok (roots.flatMap fun r => (compGroup a r).filter (fun o => !allSel.contains o))

/-- `_select_only_selected_complementary`. -/
def onlySelected (ign : List Nat) (st : State) : List State :=
  match st.objPath with
  | none => [st]
  | some p => if p.any (ign.contains ·) then [] else [st]

/-! ### pack / track allocation (restricted class, see header) -/

def Formats.packSubs (f : Formats) (i : Nat) : List Nat := (f.pack i).subPacks

/-- `utils.pack_format_paths_from`. -/
def packPathsFrom (f : Formats) (p : Nat) : List (List Nat) :=
  pathsFrom f.packSubs f.packs.length p

/-- channels of `wrap_non_matrix_pack`: (pack path, channel) in order. -/
def slots (f : Formats) (p : Nat) : List (List Nat × Nat) :=
  (packPathsFrom f p).flatMap fun path => (f.pack (path.getLastD 0)).channels.map fun ch => (path, ch)

/-- `_PackAllocator.channel_format_for_track_uid`. -/
def trackChannel (f : Formats) (u : Nat) : Nat :=
  match (f.uid u).ref with
  | .trackFormat tf => f.streamFormats.getD (f.trackFormats.getD tf 0) 0
  | .channel c => c

/-- `pack_allocation._is_compatible` for a real track. -/
def compatible (f : Formats) (u : Nat) (slot : List Nat × Nat) : Bool :=
  trackChannel f u == slot.2 && slot.1.contains (f.uid u).pack

/-- one allocated pack: root pack and (channel, track uid or silent) per slot. -/
structure AllocPack where
  pack : Nat
  alloc : List (Nat × Option Nat)
  deriving DecidableEq, Inhabited

/-- all (instance, slot) positions a track is compatible with. -/
def candidates (f : Formats) (insts : List (Nat × List (List Nat × Nat))) (u : Nat) : List (Nat × Nat) :=
  insts.zipIdx.flatMap fun (inst, j) =>
    inst.2.zipIdx.filterMap fun (slot, k) => if compatible f u slot then some (j, k) else none

/-- `allocate_packs(packs, tracks, pack_refs, n_silent)` for an audioObject, on
the class where every track has exactly one compatible slot among the referenced
packs (then the valid allocation is unique). -/
def allocateObject (f : Formats) (prs : List Nat) (tracks : List Nat) (nSilent : Nat) :
    Except Err (List AllocPack) :=
  let insts := prs.map fun p => (p, slots f p)
  match mapE (fun u => match candidates f insts u with
      | [jk] => .ok (jk, u)
      | [] => .error .conflicting
      | _ => .error .unsupported) tracks with
  | .error e => .error e
  | .ok assign =>
    let used := assign.map (·.1)
    if used.eraseDups.length != used.length then .error .conflicting
    else if insts.any (·.2.isEmpty) then .error .conflicting
    else if (insts.map (·.2.length)).sum != tracks.length + nSilent then .error .conflicting
    else
      let fill (j : Nat) : AllocPack :=
        let inst := insts.getD j default
        ⟨inst.1, inst.2.zipIdx.map fun (slot, k) => (slot.2, (assign.find? (·.1 == (j, k))).map (·.2))⟩
      let withReal := (used.map (·.1)).eraseDups
      let silentOnly := (List.range insts.length).filter fun j => !withReal.contains j
      let silentSorted := (List.range f.packs.length).flatMap fun p =>
        silentOnly.filter fun j => prs.getD j 0 == p
      .ok ((withReal ++ silentSorted).map fill)

/-- `allocate_packs(packs, all tracks, None, 0)` (CHNA-only mode) on the class
where every track references a root pack and each multi-channel pack is used once. -/
def allocateChna (f : Formats) (tracks : List Nat) : Except Err (List AllocPack) :=
  flatMapE (fun (ui : Nat × Nat) =>
    let u := ui.1
    let p := (f.uid u).pack
    if f.packs.any (·.subPacks.contains p) then .error .unsupported
    else
      let sl := slots f p
      if (sl.filter (compatible f u)).isEmpty then .error .conflicting
      else match sl with
        | [slot] => .ok [⟨p, [(slot.2, some u)]⟩]
        | _ =>
          let group := tracks.filter fun v => (f.uid v).pack == p
          if (tracks.zipIdx.find? fun vi => (f.uid vi.1).pack == p).map (·.2) != some ui.2 then .ok []
          else
            match mapE (fun (slot : List Nat × Nat) =>
                match group.filter (fun v => compatible f v slot) with
                | [v] => .ok (slot.2, some v)
                | [] => .error .conflicting
                | _ => .error .unsupported) sl with
            | .error e => .error e
            | .ok al => .ok [⟨p, al⟩]) tracks.zipIdx

/-- `get_selected_packs_tracks_silent` + `select_pack_mapping`. -/
def selectPackMapping (a : Adm) (st : State) : Except Err (List AllocPack) :=
  match st.objPath with
  | some p =>
    let o := a.obj (p.getLastD 0)
    let real := o.tracks.filterMap id
    allocateObject a.fmt o.packs real (o.tracks.length - real.length)
  | none => allocateChna a.fmt (List.range a.fmt.trackUIDs.length)

/-! ### per-channel data -/

/-- `ExtraData` (`screen = some 0` is `default_screen`). -/
structure Extra where
  objectStart : Option Rat := none
  objectDuration : Option Rat := none
  screen : Option Nat := some 0
  lowPass : Option Rat := none
  highPass : Option Rat := none
  absDist : Option Rat := none
  gain : Rat := 1
  mute : Bool := false
  posOff : Option Nat := none
  deriving DecidableEq, Inhabited

/-- `HOATypeMetadata` without its extra data. -/
structure HoaMeta where
  rtime : Option Rat
  duration : Option Rat
  orders : List Int
  degrees : List Int
  gains : List Rat
  importances : List Int
  normalization : Nat
  nfcRefDist : Option Rat
  screenRef : Bool
  deriving DecidableEq, Inhabited

/-- A rendering item; non-HOA items have singleton `tracks`/`channels`/`packPaths`/`importances`. -/
structure Item where
  kind : Nat
  tracks : List (Option Nat)        -- DirectTrackSpec(index) / SilentTrackSpec
  channels : List Nat
  programme : Option Nat
  content : Option Nat
  objPath : Option (List Nat)
  packPaths : List (List Nat)
  extra : Extra
  importances : List (Option Int × Option Int)
  blocks : List Nat
  hoa : Option HoaMeta
  deriving DecidableEq, Inhabited

/-- `_get_pack_format_path`. -/
def getPackFormatPath (f : Formats) (p ch : Nat) : Except Err (List Nat) :=
  match (packPathsFrom f p).filter fun path => (f.pack (path.getLastD 0)).channels.contains ch with
  | [path] => .ok path
  | _ => .error .internal

/-- `utils.get_path_param` on the list of attribute values along a path. -/
def getPathParam {β : Type} [DecidableEq β] (vals : List (Option β)) : Except Err (Option β) :=
  match vals.filterMap id with
  | [] => .ok none
  | x :: rest => if rest.any (· != x) then .error .pathParamConflict else .ok (some x)

def checkPairs {α β : Type} [DecidableEq β] (f : α → Except Err β) : List α → Except Err Unit
  | a :: b :: rest =>
    match f a with
    | .error e => .error e
    | .ok x =>
      match f b with
      | .error e => .error e
      | .ok y => if x ≠ y then .error .paramMismatch else checkPairs f (b :: rest)
  | _ => .ok ()

/-- `utils.get_single_param`. -/
def getSingleParam {α β : Type} [DecidableEq β] (ppc : List α) (f : α → Except Err β) : Except Err β :=
  match checkPairs f ppc with
  | .error e => .error e
  | .ok () =>
    match ppc with
    | [] => .error .internal
    | a :: _ => f a

/-- the leaf object of a state (`state.audioObject`). -/
def State.leaf (a : Adm) (st : State) : Option Obj := st.objPath.map fun p => a.obj (p.getLastD 0)

/-- `_get_alternativeValueSet`: the last alternativeValueSet referenced from
the programme, then the content, that belongs to the leaf object. -/
def getAvs (a : Adm) (st : State) : Option Avs :=
  match st.leaf a with
  | none => none
  | some o =>
    let refs := (match st.programme with | some q => (a.prog q).avs | none => []) ++
                (match st.content with | some c => (a.cont c).avs | none => [])
    (refs.filterMap fun l => o.avs.find? (·.label == l)).getLast?

/-- the part of `_get_extra_data` that cannot fail. -/
def extraOf (a : Adm) (st : State) (chan : Option Nat) (absDist : Option Rat) : Extra :=
  let e : Extra := {}
  let e := match st.programme with | some p => { e with screen := (a.prog p).screen } | none => e
  let e := match chan with
    | some c => { e with lowPass := (a.fmt.chan c).lowPass, highPass := (a.fmt.chan c).highPass }
    | none => e
  let e := { e with absDist := absDist }
  let e := match st.leaf a with
    | some o => { e with objectStart := o.start, objectDuration := o.duration, gain := o.gain,
                         mute := o.mute, posOff := o.posOff }
    | none => e
  match getAvs a st with
  | none => e
  | some v =>
    let e := match v.gain with | some g => { e with gain := g } | none => e
    let e := match v.mute with | some m => { e with mute := m } | none => e
    match v.posOff with | some o => { e with posOff := some o } | none => e

/-- `_get_extra_data`. -/
def getExtraData (a : Adm) (st : State) (ppc : List (List Nat × Nat)) (chan : Option Nat) :
    Except Err Extra :=
  match getSingleParam ppc (fun pc => getPathParam (pc.1.map fun p => (a.fmt.pack p).absDist)) with
  | .error e => .error e
  | .ok ad => .ok (extraOf a st chan ad)

def impLt : Option Int → Option Int → Bool
  | some x, some y => x < y
  | some _, none => true
  | none, _ => false

/-- `min(values, key=None -> inf)`: first minimal element. -/
def minImp : List (Option Int) → Option Int
  | [] => none
  | x :: xs => xs.foldl (fun best y => if impLt y best then y else best) x

/-- `_get_importance`. -/
def getImportance (a : Adm) (st : State) (packPath : List Nat) : Option Int × Option Int :=
  ((match st.objPath with
    | some p => minImp (p.map fun o => (a.obj o).importance)
    | none => none),
   minImp (packPath.map fun p => (a.fmt.pack p).importance))

/-- `_PackAllocator.get_track_spec`. -/
def trackSpec (f : Formats) (t : Option Nat) : Option Nat := t.map fun u => (f.uid u).trackIndex - 1

/-- `_get_RenderingItems_Objects` / `_DirectSpeakers`: one item per allocated channel. -/
def singleItem (a : Adm) (st : State) (ty p : Nat) (ct : Nat × Option Nat) : Except Err Item :=
  match getPackFormatPath a.fmt p ct.1 with
  | .error e => .error e
  | .ok pp =>
    match getExtraData a st [(pp, ct.1)] (some ct.1) with
    | .error e => .error e
    | .ok ex => .ok {
        kind := ty, tracks := [trackSpec a.fmt ct.2], channels := [ct.1],
        programme := st.programme, content := st.content, objPath := st.objPath,
        packPaths := [pp], extra := ex, importances := [getImportance a st pp],
        blocks := (a.fmt.chan ct.1).blocks, hoa := none }

/-- `hoa._get_pack_param`: a parameter that may sit on any pack of the path or on the block. -/
def hoaPackParam {β : Type} [DecidableEq β] (f : Formats) (ps : Pack → Option β) (bs : HoaBlock → Option β)
    (pc : List Nat × Nat) : Except Err (Option β) :=
  getPathParam (pc.1.map (fun p => ps (f.pack p)) ++ [bs (f.chan pc.2).hoa])

/-- `_get_RenderingItems_HOA`: one item per allocated pack. -/
def hoaItem (a : Adm) (st : State) (ap : AllocPack) : Except Err Item :=
  let f := a.fmt
  match mapE (fun (ct : Nat × Option Nat) =>
      match getPackFormatPath f ap.pack ct.1 with
      | .error e => .error e
      | .ok pp => .ok (pp, ct.1)) ap.alloc with
  | .error e => .error e
  | .ok ppc =>
    let blk (c : Nat) := (f.chan c).hoa
    match getSingleParam ppc (fun pc => (.ok (blk pc.2).rtime : Except Err (Option Rat))) with
    | .error e => .error e
    | .ok rtime =>
    match getSingleParam ppc (fun pc => (.ok (blk pc.2).duration : Except Err (Option Rat))) with
    | .error e => .error e
    | .ok duration =>
    match getSingleParam ppc (fun pc =>
        match hoaPackParam f (·.normalization) (·.normalization) pc with
        | .error e => .error e
        | .ok v => .ok (v.getD 0)) with
    | .error e => .error e
    | .ok norm =>
    match getSingleParam ppc (fun pc =>
        match hoaPackParam f (·.nfcRefDist) (·.nfcRefDist) pc with
        | .error e => .error e
        | .ok v => .ok (if v = some 0 then none else v)) with
    | .error e => .error e
    | .ok nfc =>
    match getSingleParam ppc (fun pc =>
        match hoaPackParam f (·.screenRef) (·.screenRef) pc with
        | .error e => .error e
        | .ok v => .ok (v.getD false)) with
    | .error e => .error e
    | .ok sref =>
    match getExtraData a st ppc none with
    | .error e => .error e
    | .ok ex => .ok {
        kind := 4, tracks := ap.alloc.map fun ct => trackSpec f ct.2, channels := ppc.map (·.2),
        programme := st.programme, content := st.content, objPath := st.objPath,
        packPaths := ppc.map (·.1), extra := ex,
        importances := ppc.map fun pc => getImportance a st pc.1,
        blocks := [],
        hoa := some {
          rtime := rtime, duration := duration,
          orders := ppc.map fun pc => (blk pc.2).order,
          degrees := ppc.map fun pc => (blk pc.2).degree,
          gains := ppc.map fun pc => (blk pc.2).gain,
          importances := ppc.map fun pc => (blk pc.2).importance,
          normalization := norm, nfcRefDist := nfc, screenRef := sref } }

/-- `_get_rendering_items`. -/
def itemsOfPack (a : Adm) (st : State) (ap : AllocPack) : Except Err (List Item) :=
  let ty := (a.fmt.pack ap.pack).type
  if ty = 3 ∨ ty = 1 then mapE (singleItem a st ty ap.pack) ap.alloc
  else if ty = 4 then
    match hoaItem a st ap with
    | .error e => .error e
    | .ok it => .ok [it]
  else .error .notImplemented

/-- items of one selected state: `select_pack_mapping` then `_get_rendering_items`. -/
def itemsOfState (a : Adm) (st : State) : Except Err (List Item) :=
  match selectPackMapping a st with
  | .error e => .error e
  | .ok packs => flatMapE (itemsOfPack a st) packs

/-- the selected states: `_select_programme_content_objects` filtered by
`_select_only_selected_complementary`. -/
def selectStates (a : Adm) (given : Option Nat) (ign : List Nat) : List State :=
  (selectPCO a given).flatMap (onlySelected ign)

/-- `select_rendering_items(adm, audio_programme, selected_complementary_objects)`
on a document that passed `validate_structure`. -/
def selectRenderingItems (a : Adm) (given : Option Nat) (sel : List Nat) : Except Err (List Item) :=
  if a.fmt.packs.any (·.type == 2) then .error .unsupported
  else
    match selectComplementary a sel with
    | .error e => .error e
    | .ok ign => flatMapE (itemsOfState a) (selectStates a given ign)

end Earverif.Adm
