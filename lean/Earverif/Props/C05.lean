/- C05 — point-source panner: non-negative, unit power, exact at loudspeakers, mirror-invariant; the panner
   inherits from the first accepting region.  All theorems are over ℝ and hold for EVERY loudspeaker position
   matrix / list and every direction (not only the nominal layouts).

   PARTIAL: `C05_partial` is the conjunction of the region-level and wrapper-level claims below.

   TOTALITY ("never no result") is proved for the ten nominal BS.2051 layouts at the level of the model over ℝ
   (`panner_total_layouts`, `pspHandle_total_layouts`), in three stages (Proofs/C05Cover*.lean):
     1. `Cover.cover_of_cells` — pure geometry: a closed, locally strictly convex polyhedral surface around the origin
        (cells with outward normals summing to zero and spanning ℝ³, every edge shared with a cell that has the opposite
        vertex strictly inside) covers every direction by the vertex cones of its cells;
     2. `cover_tables_ok` (decide +kernel on `Gen/C05_Cover.lean`, regenerated from the real configured panner on every
        run) + `Cover.cover_of_cert` ⇒ `cover_layouts`: every direction is a non-negative combination of three
        independent vertices of one region of the regenerated table (exact binary64 coordinates);
     3. `Cover.panner_total_of_cert`: Triplet and VirtualNgon regions accept on their cones; QuadRegions accept on the
        cone of their corners (`quad_accepts_layouts`: sign certificate `quad_tables_ok` decided by the kernel +
        `Cover.quad_accepts`), with the pan values chosen by the closed form `GainCalc.quadRoot` that models `np.roots`
        and the code's scan (the order of LAPACK's eigenvalues is an assumption of that model, checked by C01's
        correspondence, not proved).  `panner_total_layouts_partial` is the same statement for ANY root selection `sel`
        under the hypothesis `Cover.QuadAcceptsOnCone sel`.
   EXACTNESS AT A LOUDSPEAKER of the COMPOSED panner is proved for the ten nominal layouts (model level, over ℝ):
   `pspHandle_exact_at_speaker_layouts` — at the table position of loudspeaker `k` the modelled `configure(layout).handle`
   returns exactly `e_k` (0+2+0: M+030 ↦ left only, M-030 ↦ right only).  Certificate `Gen/C05_Exact.lean` (regenerated on
   every run, harness/c05_exact.py) + `exact_tables_ok` (decide +kernel: every region before the first one containing `k`
   rejects `k`'s position with the code's own tolerances, in exact integer arithmetic: Cramer components for triplets, sign
   conditions on the two pan quadratics / the bilinear sign test on a root box for quads) + soundness
   (Proofs/C05Exact*.lean: `quadRoot_mem`, `quadRoot_exact`, `regionRejects_sound`, `regionExact_sound`, `spkOk_sound`).
   LAYER SEPARATION: `layer_separation_lower_layouts` (no hypothesis: `p.z > 3e-11` ⇒ every lower-layer loudspeaker gets
   exactly 0), `layer_separation_upper_layouts_partial` (`p.z < −3e-11` ⇒ upper-layer loudspeakers get exactly 0, under the
   hypothesis `Cover.QuadsZeroFar`: the QuadRegions with an upper-layer corner answer `None` or give those corners the
   weight exactly 0 for such a direction; `layer_separation_upper_noquad`
   without hypothesis where there is no such quad: 3+7+0).
   Still NOT proved: totality / exactness on real (non-nominal) loudspeaker positions, that one side never gets less
   power than the other, the QuadRegion step of the upper-layer clause, that the composed panner is mirror-symmetric, and
   everything about rounding (the theorems are over ℝ; Qhull's facets are extracted as a table, not re-derived).  Those
   are watched by the search in harness/c05.py.

   Over ℝ, `x / 0 = 0`, whereas numpy produces NaN: the theorems that need a non-zero vector say so
   (`sumsq _ ≠ 0`); for an invertible `P` and `p ≠ 0` the un-normalised gains are never the zero vector. -/
import Earverif.Proofs.PointSourceReal
import Earverif.Proofs.C05CoverTotal
import Earverif.Proofs.C05CoverQuadCert
import Earverif.Proofs.C05ExactCert
import Earverif.Proofs.C05ExactLayer
import Earverif.Gen.C05_Tables
import Earverif.Gen.C05_Cover
import Earverif.Gen.C05_Exact

namespace Earverif.PointSource

/-! ### Triplet -/

/-- Every gain a triplet returns lies in [0, 1]. -/
theorem triplet_nonneg (P : Mat3 ℝ) (p g : Vec3 ℝ) (h : Triplet.handle P p = some g) :
    (0 ≤ g.1 ∧ g.1 ≤ 1) ∧ (0 ≤ g.2.1 ∧ g.2.1 ≤ 1) ∧ (0 ≤ g.2.2 ∧ g.2.2 ≤ 1) := by
  unfold Triplet.handle at h
  split at h
  · simp only [Option.some.injEq] at h
    subst h
    simp only [Triplet.gains]
    exact ⟨⟨clip01_nonneg _, clip01_le_one _⟩, ⟨clip01_nonneg _, clip01_le_one _⟩, ⟨clip01_nonneg _, clip01_le_one _⟩⟩
  · simp at h

/-- The power of a triplet's result never exceeds 1 (clipping can only remove power). -/
theorem triplet_norm_le_one (P : Mat3 ℝ) (p g : Vec3 ℝ) (h : Triplet.handle P p = some g) :
    g.1 * g.1 + g.2.1 * g.2.1 + g.2.2 * g.2.2 ≤ 1 := by
  unfold Triplet.handle at h
  split at h
  · simp only [Option.some.injEq] at h
    subst h
    simp only [Triplet.gains, sqrt_real]
    generalize Triplet.pv P p = v
    obtain ⟨x, y, z⟩ := v
    simp only
    set s := x * x + y * y + z * z with hs
    have hs0 : 0 ≤ s := by rw [hs]; nlinarith [mul_self_nonneg x, mul_self_nonneg y, mul_self_nonneg z]
    have h1 := clip01_sq_le (x / Real.sqrt s)
    have h2 := clip01_sq_le (y / Real.sqrt s)
    have h3 := clip01_sq_le (z / Real.sqrt s)
    have hsum : x / Real.sqrt s * (x / Real.sqrt s) + y / Real.sqrt s * (y / Real.sqrt s)
        + z / Real.sqrt s * (z / Real.sqrt s) ≤ 1 := by
      by_cases h0 : s = 0
      · rw [h0]; simp
      · have hpos : 0 < s := lt_of_le_of_ne hs0 (Ne.symm h0)
        have hq : Real.sqrt s * Real.sqrt s = s := Real.mul_self_sqrt hs0
        have hq0 : Real.sqrt s ≠ 0 := (Real.sqrt_pos.mpr hpos).ne'
        have : x / Real.sqrt s * (x / Real.sqrt s) + y / Real.sqrt s * (y / Real.sqrt s)
            + z / Real.sqrt s * (z / Real.sqrt s) = s / (Real.sqrt s * Real.sqrt s) := by
          rw [hs]; field_simp
        rw [this, hq, div_self h0]
    linarith
  · simp at h

/-- If no un-normalised gain is negative (the direction is inside the triplet's cone) the power is exactly 1. -/
theorem triplet_unit_of_strict (P : Mat3 ℝ) (p g : Vec3 ℝ) (h : Triplet.handle P p = some g)
    (h0 : 0 ≤ (Triplet.pv P p).1) (h1 : 0 ≤ (Triplet.pv P p).2.1) (h2 : 0 ≤ (Triplet.pv P p).2.2)
    (hne : Triplet.pv P p ≠ (0, 0, 0)) :
    g.1 * g.1 + g.2.1 * g.2.1 + g.2.2 * g.2.2 = 1 := by
  unfold Triplet.handle at h
  split at h
  · simp only [Option.some.injEq] at h
    subst h
    simp only [Triplet.gains, sqrt_real]
    revert h0 h1 h2 hne
    generalize Triplet.pv P p = v
    obtain ⟨x, y, z⟩ := v
    intro h0 h1 h2 hne
    simp only at h0 h1 h2 ⊢
    set s := x * x + y * y + z * z with hs
    have hs0 : 0 ≤ s := by rw [hs]; nlinarith [mul_self_nonneg x, mul_self_nonneg y, mul_self_nonneg z]
    have hsne : s ≠ 0 := by
      intro hz
      have hx : x * x = 0 := by nlinarith [mul_self_nonneg x, mul_self_nonneg y, mul_self_nonneg z]
      have hy : y * y = 0 := by nlinarith [mul_self_nonneg x, mul_self_nonneg y, mul_self_nonneg z]
      have hz' : z * z = 0 := by nlinarith [mul_self_nonneg x, mul_self_nonneg y, mul_self_nonneg z]
      apply hne
      rw [mul_self_eq_zero.mp hx, mul_self_eq_zero.mp hy, mul_self_eq_zero.mp hz']
    have hpos : 0 < s := lt_of_le_of_ne hs0 (Ne.symm hsne)
    have hq : Real.sqrt s * Real.sqrt s = s := Real.mul_self_sqrt hs0
    have hqpos : 0 < Real.sqrt s := Real.sqrt_pos.mpr hpos
    have hle : ∀ w : ℝ, 0 ≤ w → w * w ≤ s → w / Real.sqrt s ≤ 1 := by
      intro w hw hws
      rw [div_le_one hqpos]
      exact Real.le_sqrt_of_sq_le (by nlinarith)
    rw [clip01_of_mem (div_nonneg h0 hqpos.le) (hle x h0 (by nlinarith [mul_self_nonneg y, mul_self_nonneg z])),
      clip01_of_mem (div_nonneg h1 hqpos.le) (hle y h1 (by nlinarith [mul_self_nonneg x, mul_self_nonneg z])),
      clip01_of_mem (div_nonneg h2 hqpos.le) (hle z h2 (by nlinarith [mul_self_nonneg x, mul_self_nonneg y]))]
    have : x / Real.sqrt s * (x / Real.sqrt s) + y / Real.sqrt s * (y / Real.sqrt s)
        + z / Real.sqrt s * (z / Real.sqrt s) = s / (Real.sqrt s * Real.sqrt s) := by
      rw [hs]; field_simp
    rw [this, hq, div_self hsne]
  · simp at h

/-- VBAP on an invertible triplet: a direction `s·a + t·b + u·c` with non-negative coefficients is accepted and
    gets the gains `(s, t, u) / ‖(s, t, u)‖` (so `gains · P` is collinear with the direction). -/
theorem triplet_of_comb (P : Mat3 ℝ) (hd : det3 P ≠ 0) (s t u : ℝ) (hs : 0 ≤ s) (ht : 0 ≤ t) (hu : 0 ≤ u)
    (hne : s * s + t * t + u * u ≠ 0) :
    Triplet.handle P (comb3 s t u P) =
      some (s / Real.sqrt (s * s + t * t + u * u), t / Real.sqrt (s * s + t * t + u * u),
        u / Real.sqrt (s * s + t * t + u * u)) := by
  have hpv := pv_comb3 P hd s t u
  have heps := tripletEps_neg
  unfold Triplet.handle
  have hacc : Triplet.accepts P (comb3 s t u P) := by
    simp only [Triplet.accepts, hpv]
    exact ⟨by linarith, by linarith, by linarith⟩
  rw [if_pos hacc]
  simp only [Triplet.gains, hpv, sqrt_real]
  set m := s * s + t * t + u * u with hm
  have hm0 : 0 ≤ m := by rw [hm]; nlinarith [mul_self_nonneg s, mul_self_nonneg t, mul_self_nonneg u]
  have hpos : 0 < m := lt_of_le_of_ne hm0 (Ne.symm hne)
  have hqpos : 0 < Real.sqrt m := Real.sqrt_pos.mpr hpos
  have hle : ∀ w : ℝ, 0 ≤ w → w * w ≤ m → w / Real.sqrt m ≤ 1 := by
    intro w hw hws
    rw [div_le_one hqpos]
    exact Real.le_sqrt_of_sq_le (by nlinarith)
  rw [clip01_of_mem (div_nonneg hs hqpos.le) (hle s hs (by nlinarith [mul_self_nonneg t, mul_self_nonneg u])),
    clip01_of_mem (div_nonneg ht hqpos.le) (hle t ht (by nlinarith [mul_self_nonneg s, mul_self_nonneg u])),
    clip01_of_mem (div_nonneg hu hqpos.le) (hle u hu (by nlinarith [mul_self_nonneg s, mul_self_nonneg t]))]

/-- A source exactly at one of the three loudspeakers of an invertible triplet excites only that loudspeaker. -/
theorem triplet_exact_at_vertex (P : Mat3 ℝ) (hd : det3 P ≠ 0) :
    Triplet.handle P P.1 = some (1, 0, 0) ∧ Triplet.handle P P.2.1 = some (0, 1, 0) ∧
      Triplet.handle P P.2.2 = some (0, 0, 1) := by
  have e1 : comb3 1 0 0 P = P.1 := by
    obtain ⟨⟨a0, a1, a2⟩, ⟨b0, b1, b2⟩, ⟨c0, c1, c2⟩⟩ := P
    simp [comb3, add3, smul3]
  have e2 : comb3 0 1 0 P = P.2.1 := by
    obtain ⟨⟨a0, a1, a2⟩, ⟨b0, b1, b2⟩, ⟨c0, c1, c2⟩⟩ := P
    simp [comb3, add3, smul3]
  have e3 : comb3 0 0 1 P = P.2.2 := by
    obtain ⟨⟨a0, a1, a2⟩, ⟨b0, b1, b2⟩, ⟨c0, c1, c2⟩⟩ := P
    simp [comb3, add3, smul3]
  have h1 := triplet_of_comb P hd 1 0 0 (by norm_num) (by norm_num) (by norm_num) (by norm_num)
  have h2 := triplet_of_comb P hd 0 1 0 (by norm_num) (by norm_num) (by norm_num) (by norm_num)
  have h3 := triplet_of_comb P hd 0 0 1 (by norm_num) (by norm_num) (by norm_num) (by norm_num)
  rw [e1] at h1; rw [e2] at h2; rw [e3] at h3
  refine ⟨?_, ?_, ?_⟩
  · rw [h1]; norm_num
  · rw [h2]; norm_num
  · rw [h3]; norm_num

/-- Left/right mirror: x is the left/right axis (`cart(az, el)` has `x = sin(-az)·cos(el)`). -/
def mirror3 (v : Vec3 ℝ) : Vec3 ℝ := (-v.1, v.2.1, v.2.2)
def mirrorM (P : Mat3 ℝ) : Mat3 ℝ := (mirror3 P.1, mirror3 P.2.1, mirror3 P.2.2)

theorem pv_mirror (P : Mat3 ℝ) (p : Vec3 ℝ) : Triplet.pv (mirrorM P) (mirror3 p) = Triplet.pv P p := by
  obtain ⟨⟨a0, a1, a2⟩, ⟨b0, b1, b2⟩, ⟨c0, c1, c2⟩⟩ := P
  obtain ⟨p0, p1, p2⟩ := p
  have hdet : det3 (mirrorM ((a0, a1, a2), (b0, b1, b2), (c0, c1, c2))) = -det3 ((a0, a1, a2), (b0, b1, b2), (c0, c1, c2)) := by
    simp only [det3, mirrorM, mirror3]; ring
  simp only [Triplet.pv, vecMat, inv3, hdet]
  simp only [mirrorM, mirror3, div_neg]
  generalize det3 ((a0, a1, a2), (b0, b1, b2), (c0, c1, c2)) = d
  refine Prod.ext ?_ (Prod.ext ?_ ?_) <;> simp only <;> ring

/-- Mirroring the source direction and all three loudspeaker positions in the median (y-z) plane leaves the
    triplet's answer unchanged (no invertibility hypothesis needed). -/
theorem triplet_mirror (P : Mat3 ℝ) (p : Vec3 ℝ) :
    Triplet.handle (mirrorM P) (mirror3 p) = Triplet.handle P p := by
  simp only [Triplet.handle, Triplet.accepts, Triplet.gains, pv_mirror]

/-! ### VirtualNgon -/

theorem vecList_nonneg {g : Vec3 ℝ} (h : (0 ≤ g.1 ∧ g.1 ≤ 1) ∧ (0 ≤ g.2.1 ∧ g.2.1 ≤ 1) ∧ (0 ≤ g.2.2 ∧ g.2.2 ≤ 1)) :
    ∀ x ∈ vecList g, 0 ≤ x := by
  intro x hx
  simp only [vecList, List.mem_cons, List.mem_nil_iff, or_false] at hx
  rcases hx with rfl | rfl | rfl
  · exact h.1.1
  · exact h.2.1.1
  · exact h.2.2.1

theorem zipWith_nonneg (c : ℝ) (hc : 0 ≤ c) : ∀ (a b : List ℝ), (∀ x ∈ a, 0 ≤ x) → (∀ d ∈ b, 0 ≤ d) →
    ∀ x ∈ List.zipWith (fun x d => x + c * d) a b, 0 ≤ x
  | [], _, _, _ => by simp
  | _ :: _, [], _, _ => by simp
  | x :: xs, d :: ds, ha, hb => by
    intro z hz
    simp only [List.zipWith_cons_cons, List.mem_cons] at hz
    rcases hz with rfl | hz
    · have := mul_nonneg hc (hb d (by simp))
      have := ha x (by simp)
      linarith
    · exact zipWith_nonneg c hc xs ds (fun y hy => ha y (by simp [hy])) (fun y hy => hb y (by simp [hy])) z hz

theorem mix_spec (cd pv : List ℝ) (hcd : ∀ d ∈ cd, 0 ≤ d) (hpv : ∀ x ∈ pv, 0 ≤ x) :
    (∀ x ∈ VirtualNgon.mix cd pv, 0 ≤ x) ∧
      (sumsq (VirtualNgon.mix cd pv) = 1 ∨ ∀ x ∈ VirtualNgon.mix cd pv, x = 0) := by
  unfold VirtualNgon.mix
  apply normalise_spec
  have hlast : 0 ≤ pv.getD cd.length zero := by
    rw [List.getD_eq_getElem?_getD]
    cases h : pv[cd.length]? with
    | none => simp
    | some y => simpa using hpv y (List.mem_of_getElem? h)
  exact zipWith_nonneg _ hlast _ _ (fun x hx => hpv x (List.mem_of_mem_take hx)) hcd

/-- A virtual n-gon with a non-negative centre downmix returns non-negative gains of unit power
    (or the zero vector, which over ℝ stands for numpy's 0/0; it cannot arise from a non-zero triplet answer
    whose channels are distinct — that is a table obligation). -/
theorem ngon_nonneg_unit (g : VirtualNgon ℝ) (p : Vec3 ℝ) (out : List ℝ)
    (hcd : ∀ d ∈ g.centreDownmix, 0 ≤ d) (h : g.handle p = some out) :
    (∀ x ∈ out, 0 ≤ x) ∧ (sumsq out = 1 ∨ ∀ x ∈ out, x = 0) := by
  unfold VirtualNgon.handle at h
  have hm := firstAccept_mem h
  simp only [List.mem_map] at hm
  obtain ⟨r, _, hr⟩ := hm
  cases ht : Triplet.handle r.2 p with
  | none => simp [ht, remap] at hr
  | some gv =>
    simp only [ht, remap, Option.map_some, Option.some.injEq] at hr
    subst hr
    apply mix_spec _ _ hcd
    exact scatter_nonneg _ _ _ (zeros_nonneg _) (vecList_nonneg (triplet_nonneg _ _ _ ht))

/-! ### QuadRegion -/

/-- the 24 orders `ngon_vertex_order` can return for four vertices -/
theorem perm4_fin : ∀ a b c d : Fin 4, isPermOfRange [a.1, b.1, c.1, d.1] 4 = true →
    [a.1, b.1, c.1, d.1] ∈ [[0,1,2,3],[0,1,3,2],[0,2,1,3],[0,2,3,1],[0,3,1,2],[0,3,2,1],[1,0,2,3],[1,0,3,2],[1,2,0,3],
      [1,2,3,0],[1,3,0,2],[1,3,2,0],[2,0,1,3],[2,0,3,1],[2,1,0,3],[2,1,3,0],[2,3,0,1],[2,3,1,0],[3,0,1,2],
      [3,0,2,1],[3,1,0,2],[3,1,2,0],[3,2,0,1],[3,2,1,0]] := by decide

theorem perm4_mem {o : List Nat} (h : isPermOfRange o 4 = true) :
    o ∈ [[0,1,2,3],[0,1,3,2],[0,2,1,3],[0,2,3,1],[0,3,1,2],[0,3,2,1],[1,0,2,3],[1,0,3,2],[1,2,0,3],
      [1,2,3,0],[1,3,0,2],[1,3,2,0],[2,0,1,3],[2,0,3,1],[2,1,0,3],[2,1,3,0],[2,3,0,1],[2,3,1,0],[3,0,1,2],
      [3,0,2,1],[3,1,0,2],[3,1,2,0],[3,2,0,1],[3,2,1,0]] := by
  have hlen : o.length = 4 := by
    simp only [isPermOfRange, Bool.and_eq_true, beq_iff_eq] at h
    exact h.1.1
  match o, hlen with
  | [a, b, c, d], _ =>
    have hall : a < 4 ∧ b < 4 ∧ c < 4 ∧ d < 4 := by
      simp only [isPermOfRange, Bool.and_eq_true, List.all_cons, List.all_nil, decide_eq_true_eq, Bool.and_true] at h
      exact ⟨h.1.2.1, h.1.2.2.1, h.1.2.2.2.1, h.1.2.2.2.2⟩
    exact perm4_fin ⟨a, hall.1⟩ ⟨b, hall.2.1⟩ ⟨c, hall.2.2.1⟩ ⟨d, hall.2.2.2⟩ h

theorem scatter4_sumsq {o : List Nat} (h : isPermOfRange o 4 = true) (a b c d : ℝ) :
    sumsq (scatter (zeros 4) o [a, b, c, d]) = a * a + b * b + c * c + d * d := by
  have hm := perm4_mem h
  simp only [List.mem_cons, List.mem_nil_iff, or_false] at hm
  rcases hm with rfl | rfl | rfl | rfl | rfl | rfl | rfl | rfl | rfl | rfl | rfl | rfl | rfl | rfl | rfl | rfl
      | rfl | rfl | rfl | rfl | rfl | rfl | rfl | rfl <;>
    simp [scatter, zeros, sumsq, List.replicate] <;> ring

/-- A quad region whose pan values lie in [0,1] returns non-negative gains of unit power. -/
theorem quad_nonneg_unit (q : QuadRegion ℝ) (p : Vec3 ℝ) (x y : ℝ) (out : List ℝ)
    (ho : isPermOfRange q.order 4 = true) (hx0 : 0 ≤ x) (hx1 : x ≤ 1) (hy0 : 0 ≤ y) (hy1 : y ≤ 1)
    (h : q.handle (some x) (some y) p = some out) :
    (∀ g ∈ out, 0 ≤ g) ∧ sumsq out = 1 := by
  simp only [QuadRegion.handle] at h
  split at h
  · simp at h
  · simp only [Option.some.injEq] at h
    subst h
    have hw : ∀ g ∈ QuadRegion.weights x y, 0 ≤ g := by
      intro g hg
      simp only [QuadRegion.weights, one_real, List.mem_cons, List.mem_nil_iff, or_false] at hg
      rcases hg with rfl | rfl | rfl | rfl
      · exact mul_nonneg (by linarith) (by linarith)
      · exact mul_nonneg hx0 (by linarith)
      · exact mul_nonneg hx0 hy0
      · exact mul_nonneg (by linarith) hy0
    refine ⟨normalise_nonneg (scatter_nonneg _ _ _ (zeros_nonneg _) hw), ?_⟩
    apply sumsq_normalise
    simp only [QuadRegion.weights, one_real]
    rw [scatter4_sumsq ho]
    have hsum : (1 - x) * (1 - y) + x * (1 - y) + x * y + (1 - x) * y = 1 := by ring
    intro h0
    nlinarith [mul_self_nonneg ((1 - x) * (1 - y)), mul_self_nonneg (x * (1 - y)), mul_self_nonneg (x * y),
      mul_self_nonneg ((1 - x) * y), mul_self_nonneg ((1 - x) * (1 - y) + x * (1 - y) + x * y + (1 - x) * y)]

/-- At a corner of the pan square (x, y ∈ {0, 1}) an accepting quad returns exactly that corner's unit vector:
    corner number `k` in the ordered quad is loudspeaker `order[k]`. -/
theorem quad_corner (q : QuadRegion ℝ) (p : Vec3 ℝ) (x y : ℝ) (k : Nat) (out : List ℝ)
    (ho : isPermOfRange q.order 4 = true)
    (hk : (x, y, k) ∈ [((0 : ℝ), (0 : ℝ), 0), (1, 0, 1), (1, 1, 2), (0, 1, 3)])
    (h : q.handle (some x) (some y) p = some out) :
    out = (zeros 4).set (q.order.getD k 0) 1 := by
  simp only [QuadRegion.handle] at h
  split at h
  · simp at h
  · simp only [Option.some.injEq] at h
    subst h
    have hone : sumsq (scatter (zeros 4) q.order (QuadRegion.weights x y)) = 1 := by
      simp only [QuadRegion.weights, one_real]
      rw [scatter4_sumsq ho]
      simp only [List.mem_cons, Prod.mk.injEq, List.mem_nil_iff, or_false] at hk
      rcases hk with ⟨rfl, rfl, _⟩ | ⟨rfl, rfl, _⟩ | ⟨rfl, rfl, _⟩ | ⟨rfl, rfl, _⟩ <;> norm_num
    have hnorm : normalise (scatter (zeros 4) q.order (QuadRegion.weights x y))
        = scatter (zeros 4) q.order (QuadRegion.weights x y) := by
      unfold normalise norm
      rw [hone, sqrt_real, Real.sqrt_one]
      simp
    rw [hnorm]
    have hm := perm4_mem ho
    generalize q.order = o at hm ⊢
    simp only [List.mem_cons, Prod.mk.injEq, List.mem_nil_iff, or_false] at hk hm
    rcases hk with ⟨rfl, rfl, rfl⟩ | ⟨rfl, rfl, rfl⟩ | ⟨rfl, rfl, rfl⟩ | ⟨rfl, rfl, rfl⟩ <;>
      rcases hm with rfl | rfl | rfl | rfl | rfl | rfl | rfl | rfl | rfl | rfl | rfl | rfl | rfl | rfl | rfl | rfl
        | rfl | rfl | rfl | rfl | rfl | rfl | rfl | rfl <;>
      simp [scatter, zeros, QuadRegion.weights, List.replicate]

/-! ### PointSourcePanner: the first region that accepts -/

/-- Whatever holds of every accepting candidate holds of the chosen one. -/
theorem first_accept_inherits {γ : Type} (rs : List (Option γ)) (Q : γ → Prop)
    (hQ : ∀ r ∈ rs, ∀ g, r = some g → Q g) : ∀ g, firstAccept rs = some g → Q g :=
  fun g h => hQ _ (firstAccept_mem h) g rfl

/-- "no result" iff every candidate is "no result". -/
theorem first_accept_none_iff {γ : Type} (rs : List (Option γ)) :
    firstAccept rs = none ↔ ∀ r ∈ rs, r = none := firstAccept_eq_none

theorem results_mem {regions : List (Region ℝ)} {n : Nat} {roots : Nat → Option ℝ × Option ℝ} {p : Vec3 ℝ}
    {x : Option (List ℝ)} :
    x ∈ PointSourcePanner.results regions n roots p ↔
      ∃ k, ∃ h : k < regions.length, x = remap regions[k].channels n (regions[k].handle (roots k) p) := by
  unfold PointSourcePanner.results
  rw [List.mem_iff_getElem]
  constructor
  · rintro ⟨i, hi, rfl⟩
    have hi' : i < regions.length := by simpa using hi
    exact ⟨i, hi', by simp⟩
  · rintro ⟨k, hk, rfl⟩
    exact ⟨k, by simpa using hk, by simp⟩

/-- The panner's answer has every property shared by the (remapped) answers of its accepting regions. -/
theorem panner_inherits (regions : List (Region ℝ)) (n : Nat) (roots : Nat → Option ℝ × Option ℝ) (p : Vec3 ℝ)
    (Q : List ℝ → Prop)
    (hQ : ∀ k, ∀ h : k < regions.length, ∀ g, remap regions[k].channels n (regions[k].handle (roots k) p) = some g → Q g) :
    ∀ g, PointSourcePanner.handle regions n roots p = some g → Q g := by
  intro g h
  obtain ⟨k, hk, he⟩ := results_mem.mp (firstAccept_mem h)
  exact hQ k hk g he.symm

/-- The panner answers "no result" iff every one of its regions rejects the direction. -/
theorem panner_none_iff (regions : List (Region ℝ)) (n : Nat) (roots : Nat → Option ℝ × Option ℝ) (p : Vec3 ℝ) :
    PointSourcePanner.handle regions n roots p = none ↔
      ∀ k, ∀ h : k < regions.length, regions[k].handle (roots k) p = none := by
  unfold PointSourcePanner.handle
  rw [firstAccept_eq_none]
  constructor
  · intro h k hk
    have := h _ (results_mem.mpr ⟨k, hk, rfl⟩)
    simpa [remap] using this
  · intro h x hx
    obtain ⟨k, hk, rfl⟩ := results_mem.mp hx
    simp [remap, h k hk]

/-! ### downmix wrappers -/

theorem matVec_nonneg {D : List (List ℝ)} {v : List ℝ} (hD : ∀ row ∈ D, ∀ x ∈ row, 0 ≤ x) (hv : ∀ x ∈ v, 0 ≤ x) :
    ∀ x ∈ matVec D v, 0 ≤ x := by
  intro x hx
  simp only [matVec, List.mem_map] at hx
  obtain ⟨row, hrow, rfl⟩ := hx
  exact dot_nonneg (hD row hrow) hv

/-- PointSourcePannerDownmix: a non-negative matrix applied to non-negative inner gains, not mapped to zero,
    gives non-negative gains of unit power; "no result" is passed through. -/
theorem downmix_nonneg_unit (D : List (List ℝ)) (v out : List ℝ) (hD : ∀ row ∈ D, ∀ x ∈ row, 0 ≤ x)
    (hv : ∀ x ∈ v, 0 ≤ x) (hne : sumsq (matVec D v) ≠ 0)
    (h : PointSourcePannerDownmix.handle D (some v) = some out) :
    (∀ x ∈ out, 0 ≤ x) ∧ sumsq out = 1 ∧ PointSourcePannerDownmix.handle D none = none := by
  simp only [PointSourcePannerDownmix.handle, Option.map_some, Option.some.injEq, Option.map_none] at h ⊢
  subst h
  exact ⟨normalise_nonneg (matVec_nonneg hD hv), sumsq_normalise hne, trivial⟩

theorem stereo_matVec (g0 g1 g2 g3 g4 : ℝ) :
    matVec stereoDownmix [g0, g1, g2, g3, g4] =
      [g0 + Real.sqrt 3 / 3 * g2 + Real.sqrt (1 / 2) * g3, g1 + Real.sqrt 3 / 3 * g2 + Real.sqrt (1 / 2) * g4] := by
  simp only [matVec, stereoDownmix, List.map_cons, List.map_nil, dot, one_real, zero_real, sqrt_real, ofRat_real]
  push_cast
  congr 1
  · ring
  · congr 1; ring

/-- StereoPanDownmix (0+2+0): for non-negative inner 0+5+0 gains of unit power the two outputs are non-negative
    and their power lies between −3 dB and 0 dB. -/
theorem stereo_level (g0 g1 g2 g3 g4 : ℝ) (h0 : 0 ≤ g0) (h1 : 0 ≤ g1) (h2 : 0 ≤ g2) (h3 : 0 ≤ g3) (h4 : 0 ≤ g4)
    (hunit : sumsq [g0, g1, g2, g3, g4] = 1) :
    ∃ out, StereoPanDownmix.handle (some [g0, g1, g2, g3, g4]) = some out ∧ out.length = 2 ∧
      (∀ x ∈ out, 0 ≤ x) ∧ 1 / 2 ≤ sumsq out ∧ sumsq out ≤ 1 := by
  simp only [StereoPanDownmix.handle]
  have hcpos : (0 : ℝ) < Real.sqrt 3 / 3 := div_pos (Real.sqrt_pos.mpr (by norm_num)) (by norm_num)
  have hspos : (0 : ℝ) < Real.sqrt (1 / 2) := Real.sqrt_pos.mpr (by norm_num)
  have hmv := stereo_matVec g0 g1 g2 g3 g4
  have hmvnn : ∀ x ∈ matVec stereoDownmix [g0, g1, g2, g3, g4], 0 ≤ x := by
    rw [hmv]
    intro x hx
    simp only [List.mem_cons, List.mem_nil_iff, or_false] at hx
    rcases hx with rfl | rfl
    · have := mul_nonneg hcpos.le h2; have := mul_nonneg hspos.le h3; linarith
    · have := mul_nonneg hcpos.le h2; have := mul_nonneg hspos.le h4; linarith
  refine ⟨_, rfl, by simp [normalise, hmv], ?_, ?_⟩
  · -- non-negative
    intro x hx
    obtain ⟨y, hy, rfl⟩ := List.mem_map.mp hx
    refine mul_nonneg (normalise_nonneg hmvnn y hy) ?_
    simp only [powHalf_real]; positivity
  · -- level
    rw [sumsq_map_mul]
    have hne : sumsq (matVec stereoDownmix [g0, g1, g2, g3, g4]) ≠ 0 := by
      rw [hmv]
      simp only [sumsq, zero_real] at hunit ⊢
      set c := Real.sqrt 3 / 3 with hc
      set s := Real.sqrt (1 / 2) with hs
      intro hz
      have hL : 0 ≤ g0 + c * g2 + s * g3 := by have := mul_nonneg hcpos.le h2; have := mul_nonneg hspos.le h3; linarith
      have hR : 0 ≤ g1 + c * g2 + s * g4 := by have := mul_nonneg hcpos.le h2; have := mul_nonneg hspos.le h4; linarith
      have hL0 : g0 + c * g2 + s * g3 = 0 := by nlinarith
      have hR0 : g1 + c * g2 + s * g4 = 0 := by nlinarith
      have e0 : g0 = 0 := by nlinarith [mul_nonneg hcpos.le h2, mul_nonneg hspos.le h3]
      have e1 : g1 = 0 := by nlinarith [mul_nonneg hcpos.le h2, mul_nonneg hspos.le h4]
      have e2 : c * g2 = 0 := by nlinarith [mul_nonneg hcpos.le h2, mul_nonneg hspos.le h3]
      have e3 : s * g3 = 0 := by nlinarith [mul_nonneg hcpos.le h2, mul_nonneg hspos.le h3]
      have e4 : s * g4 = 0 := by nlinarith [mul_nonneg hcpos.le h2, mul_nonneg hspos.le h4]
      have e2' : g2 = 0 := by
        rcases mul_eq_zero.mp e2 with h | h
        · exact absurd h hcpos.ne'
        · exact h
      have e3' : g3 = 0 := by
        rcases mul_eq_zero.mp e3 with h | h
        · exact absurd h hspos.ne'
        · exact h
      have e4' : g4 = 0 := by
        rcases mul_eq_zero.mp e4 with h | h
        · exact absurd h hspos.ne'
        · exact h
      rw [e0, e1, e2', e3', e4'] at hunit
      norm_num at hunit
    rw [sumsq_normalise hne, one_mul]
    simp only [powHalf_real, max_real, ofRat_real]
    set front := Max.max (Max.max g0 g1) g2 with hf
    set back := Max.max g3 g4 with hb
    have hfront : 0 ≤ front := le_trans h2 (le_max_right _ _)
    have hback : 0 ≤ back := le_trans h4 (le_max_right _ _)
    have hcast : (((1 / 2 : Rat)) : ℝ) = 1 / 2 := by push_cast; rfl
    rw [hcast]
    set e : ℝ := 1 / 2 * back / (front + back) with he
    have he0 : 0 ≤ e := by rw [he]; positivity
    have he1 : e ≤ 1 / 2 := by
      rw [he]
      by_cases hz : front + back = 0
      · rw [hz]; simp
      · have hpos : 0 < front + back := lt_of_le_of_ne (by linarith) (Ne.symm hz)
        rw [div_le_iff₀ hpos]; nlinarith
    have hmul : (1 / 2 : ℝ) ^ e * (1 / 2 : ℝ) ^ e = (1 / 2 : ℝ) ^ (2 * e) := by
      rw [← Real.rpow_add (by norm_num : (0 : ℝ) < 1 / 2)]; ring_nf
    rw [hmul]
    constructor
    · calc (1 / 2 : ℝ) = (1 / 2 : ℝ) ^ (1 : ℝ) := (Real.rpow_one _).symm
        _ ≤ (1 / 2 : ℝ) ^ (2 * e) :=
          Real.rpow_le_rpow_of_exponent_ge (by norm_num) (by norm_num) (by linarith)
    · exact Real.rpow_le_one (by norm_num) (by norm_num) (by linarith)

/-! ### `extra_pos_vertical_nominal`: which mid-layer channels get an extra loudspeaker -/

/-- the azimuth limit of `extra_pos_vertical_nominal` for the layer `[lb, ub]` -/
noncomputable def azLimit (nominal : List (ℝ × ℝ)) (lb ub : ℝ) : ℝ :=
  let inLayer := nominal.filter fun x => decide (lb ≤ x.2 ∧ x.2 ≤ ub)
  if inLayer.isEmpty then 0 else maxList (inLayer.map fun x => |x.1|) + 40

theorem absS_real (x : ℝ) : absS x = |x| := by
  simp only [absS, max_real, zero_real, zero_sub]; rfl

theorem maxList_ge : ∀ (l : List ℝ) (x : ℝ), x ∈ l → x ≤ maxList l
  | [], x, h => by simp at h
  | [y], x, h => by simp at h; simp [maxList, h]
  | y :: z :: zs, x, h => by
    simp only [maxList, max_real]
    rcases List.mem_cons.mp h with rfl | h
    · exact le_max_left _ _
    · exact le_trans (maxList_ge (z :: zs) x h) (le_max_right _ _)

/-- Which mid-layer channels get an extra (virtual) loudspeaker in a layer: exactly the channels with nominal
    elevation in [-10, 10] whose |nominal azimuth| is at least the limit minus 1e-5. -/
theorem extra_mem_iff (nominal : List (ℝ × ℝ)) (lb ub : ℝ) (k : Nat) :
    k ∈ extraChannels nominal lb ub ↔
      ∃ az el, nominal[k]? = some (az, el) ∧ -10 ≤ el ∧ el ≤ 10 ∧ azLimit nominal lb ub - 1 / 100000 ≤ |az| := by
  have hc1 : (((-10 : Rat)) : ℝ) = -10 := by push_cast; rfl
  have hc2 : (((10 : Rat)) : ℝ) = 10 := by push_cast; rfl
  have hc3 : (((40 : Rat)) : ℝ) = 40 := by push_cast; rfl
  have hc4 : (((1 / 100000 : Rat)) : ℝ) = 1 / 100000 := by push_cast; rfl
  have habs : (fun x : ℝ × ℝ => absS x.1) = fun x => |x.1| := funext fun x => absS_real x.1
  unfold extraChannels azLimit
  simp only [List.mem_filter, List.mem_range, ofRat_real, zero_real, hc1, hc2, hc3, hc4, habs]
  constructor
  · rintro ⟨hk, h⟩
    cases hn : nominal[k]? with
    | none => simp [hn] at h
    | some v =>
      obtain ⟨az, el⟩ := v
      simp only [hn, decide_eq_true_eq, absS_real] at h
      exact ⟨az, el, rfl, h.1, h.2.1, h.2.2⟩
  · rintro ⟨az, el, hn, h1, h2, h3⟩
    have hk : k < nominal.length := by
      by_contra hlt
      rw [List.getElem?_eq_none (by omega)] at hn
      simp at hn
    refine ⟨hk, ?_⟩
    simp only [hn, decide_eq_true_eq, absS_real]
    exact ⟨h1, h2, h3⟩

/-- If the layout has no loudspeaker in the layer, every mid-layer channel gets a copy there. -/
theorem extra_all_mid_of_empty_layer (nominal : List (ℝ × ℝ)) (lb ub : ℝ)
    (hempty : ∀ v ∈ nominal, ¬ (lb ≤ v.2 ∧ v.2 ≤ ub)) (k : Nat) :
    k ∈ extraChannels nominal lb ub ↔ ∃ az el, nominal[k]? = some (az, el) ∧ -10 ≤ el ∧ el ≤ 10 := by
  rw [extra_mem_iff]
  have hl : azLimit nominal lb ub = 0 := by
    unfold azLimit
    have : (nominal.filter fun (x : ℝ × ℝ) => decide (lb ≤ x.2 ∧ x.2 ≤ ub)) = [] := by
      rw [List.filter_eq_nil_iff]
      intro v hv; simpa using hempty v hv
    simp only [this, List.isEmpty_nil, if_true]
  constructor
  · rintro ⟨az, el, h, h1, h2, _⟩; exact ⟨az, el, h, h1, h2⟩
  · rintro ⟨az, el, h, h1, h2⟩
    exact ⟨az, el, h, h1, h2, by rw [hl]; have := abs_nonneg az; linarith⟩

/-- The azimuth margin: with a loudspeaker of the layer at |azimuth| `A`, a mid-layer channel closer than
    `A + 40 − 1e-5` to the front gets NO extra loudspeaker (so sources do not jump vertically there). -/
theorem extra_margin (nominal : List (ℝ × ℝ)) (lb ub : ℝ) (v : ℝ × ℝ) (hv : v ∈ nominal) (hl : lb ≤ v.2 ∧ v.2 ≤ ub)
    (k : Nat) (az el : ℝ) (hk : nominal[k]? = some (az, el)) (hclose : |az| < |v.1| + 40 - 1 / 100000) :
    k ∉ extraChannels nominal lb ub := by
  rw [extra_mem_iff]
  rintro ⟨az', el', h, _, _, h3⟩
  rw [hk] at h
  simp only [Option.some.injEq, Prod.mk.injEq] at h
  obtain ⟨rfl, rfl⟩ := h
  have hmem : v ∈ nominal.filter fun (x : ℝ × ℝ) => decide (lb ≤ x.2 ∧ x.2 ≤ ub) := by
    rw [List.mem_filter]; exact ⟨hv, by simpa using hl⟩
  have hlim : |v.1| + 40 ≤ azLimit nominal lb ub := by
    unfold azLimit
    have hne : (nominal.filter fun (x : ℝ × ℝ) => decide (lb ≤ x.2 ∧ x.2 ≤ ub)).isEmpty = false := by
      rw [List.isEmpty_eq_false_iff]; exact List.ne_nil_of_mem hmem
    simp only [hne]
    have hm : |v.1| ∈ List.map (fun x : ℝ × ℝ => |x.1|) (nominal.filter fun (x : ℝ × ℝ) => decide (lb ≤ x.2 ∧ x.2 ≤ ub)) :=
      List.mem_map.mpr ⟨v, hmem, rfl⟩
    have := maxList_ge _ |v.1| hm
    simp only [Bool.false_eq_true, if_false]
    linarith
  linarith

/-- The result lists each chosen channel once, in increasing order. -/
theorem extra_sorted (nominal : List (ℝ × ℝ)) (lb ub : ℝ) :
    (extraChannels nominal lb ub).Sublist (List.range nominal.length) := by
  unfold extraChannels
  exact List.filter_sublist

/-! ### table obligations (re-checked against `configure()` on every run) -/

/-- For each of the ten nominal layouts: every region's channel indices are in range and distinct, the vertex
    orders are permutations, the n-gon centre downmix coefficients are positive, every inner channel is a vertex of
    some region, and the downmix is the identity on the real channels and maps every extra (virtual) column onto
    real channels with non-negative coefficients. -/
theorem tables_wellFormed : Earverif.Gen.C05.layouts.all RawLayout.wellFormed = true := by decide +kernel

theorem tables_ten : Earverif.Gen.C05.layouts.map (·.name) =
    ["0+2+0", "0+5+0", "2+5+0", "4+5+0", "4+5+1", "3+7+0", "4+9+0", "9+10+3", "0+7+0", "4+7+0"] := by decide +kernel

/-! ### totality: the region cones cover the sphere (Stages 1-3; proofs in Proofs/C05Cover*.lean)

    `Gen/C05_Cover.lean` is regenerated on every run from the real configured panner (harness/c05_cover.py): a closed
    polyhedral surface made of the regions' vertex triples / coplanar quadruples with the neighbour across every edge.
    The kernel re-decides every side condition of the covering theorem `Cover.cover_of_cells` on it. -/

open Cover in
/-- Table obligation: for each of the ten nominal layouts the regenerated certificate passes `Cover.coverCertOk`
    against the regenerated region table (exact integer arithmetic on the binary64 coordinates). -/
theorem cover_tables_ok :
    coverTablesOk Earverif.Gen.C05Cover.scaleExp Earverif.Gen.C05.layouts Earverif.Gen.C05Cover.covers = true := by
  decide +kernel

open Cover in
/-- **Sphere coverage of the ten nominal layouts.**  Every non-zero direction is a non-negative combination of three
    linearly independent vertices (loudspeaker positions, virtual extra loudspeakers or the virtual top/bottom
    centre; exact binary64 coordinates) of ONE region of the configured panner. -/
theorem cover_layouts (l : RawLayout) (hl : l ∈ Earverif.Gen.C05.layouts) (p : Vec3 ℝ) (hp : p ≠ (0, 0, 0)) :
    ∃ r ∈ l.regions, ∃ a ∈ verts r, ∃ b ∈ verts r, ∃ c ∈ verts r,
      det3 ((p3 a : Vec3 ℝ), p3 b, p3 c) ≠ 0 ∧ InCone3 (p3 a) (p3 b) (p3 c) p := by
  obtain ⟨cert, _, c, _, r, hr, _, hcone⟩ := cover_of_tables _ _ _ cover_tables_ok l hl p hp
  refine ⟨r, List.mem_of_getElem? hr, ?_⟩
  have one : ∀ i1 i2 i3, RegionCone3 r i1 i2 i3 p → ∃ a ∈ verts r, ∃ b ∈ verts r, ∃ c ∈ verts r,
      det3 ((p3 a : Vec3 ℝ), p3 b, p3 c) ≠ 0 ∧ InCone3 (p3 a) (p3 b) (p3 c) p := by
    rintro i1 i2 i3 ⟨a, b, d, ha, hb, hd, hdet, hin⟩
    exact ⟨a, List.mem_of_getElem? ha, b, List.mem_of_getElem? hb, d, List.mem_of_getElem? hd, hdet, hin⟩
  split at hcone
  · exact one _ _ _ hcone
  · exact hcone.elim (one _ _ _) (one _ _ _)
  · exact hcone.elim

open Cover in
/-- **Totality of the modelled panner on the ten nominal layouts, PARTIAL.**  Missing: `QuadAcceptsOnCone sel` — that a
    QuadRegion accepts every direction in the cone of its four corners when its two pan values are chosen by `sel`
    from the coefficients of the two quadratics (for `np.roots` + the code's scan: `GainCalc.quadRoot`).  Proved:
    the cones cover the sphere (`cover_layouts`), Triplet and VirtualNgon regions accept on their cones, the first
    accepting region / downmix / stereo wrappers pass a result through. -/
theorem panner_total_layouts_partial (sel : ℝ × ℝ × ℝ → Option ℝ)
    (hq : ∀ l ∈ Earverif.Gen.C05.layouts, QuadAcceptsOnCone sel l) (l : RawLayout)
    (hl : l ∈ Earverif.Gen.C05.layouts) (p : Vec3 ℝ) (hp : p ≠ (0, 0, 0)) : handleSel sel l p ≠ none := by
  obtain ⟨cert, _, hok⟩ := cert_of_tables _ _ _ cover_tables_ok l hl
  have hwf : l.wellFormed = true := by
    have := tables_wellFormed
    rw [List.all_eq_true] at this
    exact this l hl
  exact panner_total_of_cert sel _ l cert hwf hok (hq l hl) p hp

open Cover in
/-- Table obligation: every QuadRegion of the ten regenerated tables passes the sign check `Cover.quadRegionOk`
    (strictly convex corner position, no sign change of either pan quadratic on [−1e-10, 0] and [1, 1+1e-10] at any
    corner, all corners in one open half-space). -/
theorem quad_tables_ok : quadTablesOk Earverif.Gen.C05Cover.scaleExp Earverif.Gen.C05.layouts = true := by
  decide +kernel

open Cover in
/-- **The quad step, proved for the ten tables** with the closed-form root selection `GainCalc.quadRoot` (the
    transliteration of `np.roots` + the scan in `QuadRegion.pan_axis`, Model/GainCalcConcrete.lean). -/
theorem quad_accepts_layouts (l : RawLayout) (hl : l ∈ Earverif.Gen.C05.layouts) :
    QuadAcceptsOnCone Earverif.GainCalc.quadRoot l := by
  have h := quad_tables_ok
  unfold quadTablesOk at h
  rw [List.all_eq_true] at h
  exact quadAccepts_of_check _ l (h l hl)

open Cover in
/-- **C05 totality on the ten nominal BS.2051 layouts (model level).**  For every non-zero direction the modelled panner
    `configure(layout).handle` — regenerated region table, first accepting region, downmix, stereo wrapper, quad pan
    values by the closed form `GainCalc.quadRoot` — returns a result, never "no result". -/
theorem panner_total_layouts (l : RawLayout) (hl : l ∈ Earverif.Gen.C05.layouts) (p : Vec3 ℝ) (hp : p ≠ (0, 0, 0)) :
    handleSel Earverif.GainCalc.quadRoot l p ≠ none :=
  panner_total_layouts_partial _ quad_accepts_layouts l hl p hp

open Cover in
/-- `handleSel quadRoot` is C01's `pspHandle` (same function, stated here so that C01/C13 can use the theorem above) -/
theorem handleSel_eq_pspHandle (l : RawLayout) (p : Vec3 ℝ) :
    handleSel Earverif.GainCalc.quadRoot l p = Earverif.GainCalc.pspHandle l p := by
  unfold handleSel Earverif.GainCalc.pspHandle
  cases l.regions.mapM (RawRegion.toRegion (α := ℝ)) with
  | none => rfl
  | some regions =>
    simp only
    congr 1
    funext i
    unfold rootsOf
    cases regions[i]? with
    | none => rfl
    | some r => cases r <;> rfl

/-- the same with the name C01 uses -/
theorem pspHandle_total_layouts (l : RawLayout) (hl : l ∈ Earverif.Gen.C05.layouts) (p : Vec3 ℝ) (hp : p ≠ (0, 0, 0)) :
    Earverif.GainCalc.pspHandle l p ≠ none := by
  rw [← handleSel_eq_pspHandle]; exact panner_total_layouts l hl p hp

/-! ### exactness of the COMPOSED panner at every loudspeaker position (proofs in Proofs/C05Exact*.lean)

    `Gen/C05_Exact.lean` is regenerated on every run from the real configured panner (harness/c05_exact.py): per
    loudspeaker the first region that has it as a channel, its slot, and root intervals for the earlier QuadRegions.  The
    kernel re-decides, in exact integer arithmetic on the binary64 coordinates, that every earlier region rejects the
    loudspeaker's position (with the code's own tolerances −1e-11 / ±1e-10) and that the named region answers the unit
    vector (`Cover.spkOk`). -/

open Cover in
/-- Table obligation: the regenerated exactness certificate passes `Cover.exactLayoutOk` for each of the ten tables. -/
theorem exact_tables_ok :
    exactTablesOk Earverif.Gen.C05Cover.scaleExp Earverif.Gen.C05.layouts Earverif.Gen.C05Exact.certs = true := by
  decide +kernel

open Cover in
/-- **C05 "a source exactly at a loudspeaker's position excites only that loudspeaker", composed panner, ten nominal
    layouts (model level, over ℝ).**  For every loudspeaker `k` of the layout (`nSpeakers`: all real channels; for 0+2+0 the
    two channels M+030, M-030 of the stereo wrapper), at its table position `v` (exact binary64 coordinates,
    `speakerPos`), the modelled `configure(layout).handle` — every region before the first one that contains `k`
    rejects, that region answers `e_k`, the downmix of the virtual loudspeakers and the renormalisation keep `e_k`, the
    stereo wrapper maps M+030 ↦ left only, M-030 ↦ right only — returns exactly the unit vector of `k`
    (`speakerOut`: `k` itself, or the left/right output index of 0+2+0). -/
theorem panner_exact_at_speaker_layouts (l : RawLayout) (hl : l ∈ Earverif.Gen.C05.layouts) (k : Nat)
    (hk : k < nSpeakers l) :
    ∃ v, speakerPos l k = some v ∧
      handleSel Earverif.GainCalc.quadRoot l (p3 v) = some (unitV (nSpeakers l) (speakerOut l k)) := by
  obtain ⟨c, _, hc⟩ := exactTablesOk_layout _ _ _ exact_tables_ok l hl
  have hwf : l.wellFormed = true := by
    have := tables_wellFormed
    rw [List.all_eq_true] at this
    exact this l hl
  exact exactLayoutOk_sound _ l hwf c hc k hk

open Cover in
/-- the same with the name C01/C10/C13 use for the panner -/
theorem pspHandle_exact_at_speaker_layouts (l : RawLayout) (hl : l ∈ Earverif.Gen.C05.layouts) (k : Nat)
    (hk : k < nSpeakers l) :
    ∃ v, speakerPos l k = some v ∧
      Earverif.GainCalc.pspHandle l (p3 v) = some (unitV (nSpeakers l) (speakerOut l k)) := by
  obtain ⟨v, hv, h⟩ := panner_exact_at_speaker_layouts l hl k hk
  exact ⟨v, hv, by rw [← handleSel_eq_pspHandle]; exact h⟩

open Cover in
/-- non-vacuity / readable instances: 0+5+0 (table `L1`), M+000 = channel 2 at `(0, 1, 0)` ↦ `e_2`; 0+2+0 (table `L0`):
    M+030 = channel 0 ↦ left only -/
example : ∃ v, speakerPos Earverif.Gen.C05.L1 2 = some v ∧ (p3 v : Vec3 ℝ) = (0, 1, 0) ∧
    Earverif.GainCalc.pspHandle Earverif.Gen.C05.L1 (p3 v) = some ([0, 0, 1, 0, 0] : List ℝ) := by
  obtain ⟨v, hv, h⟩ := pspHandle_exact_at_speaker_layouts Earverif.Gen.C05.L1 (by simp [Earverif.Gen.C05.layouts]) 2
    (by decide)
  refine ⟨v, hv, ?_, ?_⟩
  · have : speakerPos Earverif.Gen.C05.L1 2 = some ((0, 0), (1, 0), (0, 0)) := by decide +kernel
    rw [this, Option.some.injEq] at hv
    subst hv
    simp [p3, OfF2.ofF2, f2Rat]
  · rw [h]; simp [unitV, nSpeakers, speakerOut, Earverif.Gen.C05.L1, List.replicate]

open Cover in
example : ∃ v, speakerPos Earverif.Gen.C05.L0 0 = some v ∧
    Earverif.GainCalc.pspHandle Earverif.Gen.C05.L0 (p3 v) = some ([1, 0] : List ℝ) := by
  obtain ⟨v, hv, h⟩ := pspHandle_exact_at_speaker_layouts Earverif.Gen.C05.L0 (by simp [Earverif.Gen.C05.layouts]) 0
    (by decide)
  exact ⟨v, hv, by rw [h]; simp [unitV, nSpeakers, speakerOut, Earverif.Gen.C05.L0, List.replicate]⟩

/-! ### layer separation of the COMPOSED panner (proofs in Proofs/C05ExactLayer.lean)

    Layers are read off the table: a real channel is LOWER-layer if its table position has z < 0 (B+000, B±045 of 4+5+1
    and 9+10+3), UPPER-layer if z > 0 (U…, UH+180, T+000); mid-layer positions have z = 0 exactly (`Cover.layerRows`;
    harness/c05.py checks that this is the split by nominal elevation < −10° / > 10°).  Slack: `layerDelta = 3e-11`, three
    times the acceptance tolerance of `Triplet.handle` (a triplet accepts `Σ gᵢ Pᵢ` with `gᵢ ≥ −1e-11`, `|z| ≤ 1`). -/

open Cover in
/-- Table obligation: in each of the ten tables every region with a channel that feeds a lower-layer loudspeaker
    (directly, or a virtual loudspeaker downmixed onto it) is a Triplet / VirtualNgon with independent positions all at
    z ∈ [−1, 0]; every region feeding an upper-layer loudspeaker is such a region with z ∈ [0, 1] or a QuadRegion. -/
theorem layer_tables_ok : layerTablesOk Earverif.Gen.C05Cover.scaleExp Earverif.Gen.C05.layouts = true := by
  decide +kernel

open Cover in
/-- **C05 "sources above the horizontal plane never excite lower-layer loudspeakers", ten nominal layouts (model level,
    over ℝ), no hypothesis left.**  For every direction `p` (any length) with `p.z > 3e-11` the modelled
    `configure(layout).handle` answers one gain per loudspeaker (`out.length = l.nReal`, so `out.getD k 0` below IS the gain
    of loudspeaker `k`, not the default of an out-of-range index) and gives every lower-layer loudspeaker the gain
    EXACTLY 0. -/
theorem layer_separation_lower_layouts (l : RawLayout) (hl : l ∈ Earverif.Gen.C05.layouts) (p : Vec3 ℝ)
    (hp : layerDelta < p.2.2) (out : List ℝ) (hout : Earverif.GainCalc.pspHandle l p = some out) (k : Nat)
    (hk : k ∈ layerRows l false) : out.length = l.nReal ∧ out.getD k 0 = 0 := by
  have hwf : l.wellFormed = true := by
    have := tables_wellFormed
    rw [List.all_eq_true] at this
    exact this l hl
  have ht := layer_tables_ok
  unfold layerTablesOk at ht
  rw [List.all_eq_true] at ht
  have hc := ht l hl
  rw [Bool.and_eq_true] at hc
  obtain ⟨hkr, hst⟩ := layerRows_lt l false k hk
  obtain ⟨hQ, hq⟩ := layerOk_noquad _ l _ false hc.1
  rw [← handleSel_eq_pspHandle] at hout
  exact layer_separation_of_check _ l hwf hst _ false hQ hq p hp out hout k hk hkr

open Cover in
/-- **"sources below the horizontal plane never excite upper-layer loudspeakers", PARTIAL.**  Missing: `QuadsZeroFar` —
    that every QuadRegion with an upper-layer corner (mid/upper quads of 2+5+0, 4+5+0, 4+5+1, 4+9+0, 9+10+3, 4+7+0), asked
    for a direction with `p.z < −3e-11`, answers `None` OR gives its upper-layer corners the weight exactly 0
    (`Cover.QuadZeroAt`).  Both cases occur in the real code: a quad finds pan values for the antipodal cone as well and
    rejects it only by its final sign test; and for `p.z` between about −1e-10 and −3e-11 the vertical pan root is still
    inside `pan_axis`' window (−1e-10, 1+1e-10), is clipped to 0, and the quad ACCEPTS with weight exactly 0 on its upper
    corners (so "the quads reject below the plane" is false; instance: the `example` after this theorem).  The hypothesis
    is a statement about the roots of the two quadratics at a general direction (including `np.roots`' nearly-real
    complex pairs) and is not proved.  Proved: every Triplet and the top VirtualNgon with an upper-layer vertex rejects
    such a direction, regions without a channel feeding an upper-layer loudspeaker, and quads under the hypothesis, leave
    it at exactly 0 through scatter, downmix and renormalisation; the answer has one entry per loudspeaker. -/
theorem layer_separation_upper_layouts_partial (l : RawLayout) (hl : l ∈ Earverif.Gen.C05.layouts)
    (hq : QuadsZeroFar l (layerRows l true) true) (p : Vec3 ℝ)
    (hp : p.2.2 < -layerDelta) (out : List ℝ) (hout : Earverif.GainCalc.pspHandle l p = some out) (k : Nat)
    (hk : k ∈ layerRows l true) : out.length = l.nReal ∧ out.getD k 0 = 0 := by
  have hwf : l.wellFormed = true := by
    have := tables_wellFormed
    rw [List.all_eq_true] at this
    exact this l hl
  have ht := layer_tables_ok
  unfold layerTablesOk at ht
  rw [List.all_eq_true] at ht
  have hc := ht l hl
  rw [Bool.and_eq_true] at hc
  obtain ⟨hkr, hst⟩ := layerRows_lt l true k hk
  rw [← handleSel_eq_pspHandle] at hout
  exact layer_separation_of_check _ l hwf hst _ true hc.2 hq p hp out hout k hk hkr

open Cover in
/-- the upper clause WITHOUT hypothesis for a table no QuadRegion of which has an upper-layer corner (decidable:
    `layerOk … true`); of the ten tables with upper-layer loudspeakers this is 3+7+0 (see the `example` below) -/
theorem layer_separation_upper_noquad (l : RawLayout) (hl : l ∈ Earverif.Gen.C05.layouts)
    (hnq : layerOk Earverif.Gen.C05Cover.scaleExp l (layerRows l true) true = true) (p : Vec3 ℝ)
    (hp : p.2.2 < -layerDelta) (out : List ℝ) (hout : Earverif.GainCalc.pspHandle l p = some out) (k : Nat)
    (hk : k ∈ layerRows l true) : out.length = l.nReal ∧ out.getD k 0 = 0 :=
  layer_separation_upper_layouts_partial l hl (layerOk_noquad _ l _ true hnq).2 p hp out hout k hk

open Cover in
/-- **an instance of the hypothesis `QuadsZeroFar`** (and the reason why the earlier hypothesis "the quad answers `None`" was
    false): 4+5+0 (table `L3`), the rear mid/upper QuadRegion `L3_r6` (channels U-110, M+110, M-110, U+110; vertex order
    M+110, U+110, U-110, M-110, so `pan_x` is the vertical pan value), direction `(0, −2³⁴, −1)` (straight back, 5.8e-11 below
    the plane after normalisation; the real `configure("4+5+0").handle` ACCEPTS it in this region with gains
    `[0, .7071, .7071, 0]`).  The kernel decides on the scaled integer corners that the vertical quadratic has no root in
    `(0, 1 + 1e-10)` and no nearly-real complex pair (`quadAxisOk`), hence every pan value `quadRoot` can return is the clip
    of a root in `(−1e-10, 0]`, i.e. exactly 0, and the two upper corners get the weights `0·(1−y)`, `0·y`. -/
example : FarSide true (p3 ((0, 0), (-17179869184, 0), (-1, 0)) : Vec3 ℝ) ∧
    QuadZeroAt Earverif.Gen.C05.L3 (layerRows Earverif.Gen.C05.L3 true) Earverif.Gen.C05.L3_r6
      (p3 ((0, 0), (-17179869184, 0), (-1, 0))) := by
  constructor
  · simp only [FarSide, if_true, layerDelta, p3, OfF2.ofF2, f2Rat]
    norm_num
  · have hrows : layerRows Earverif.Gen.C05.L3 true = [5, 6, 7, 8] := by decide +kernel
    rw [hrows]
    have hax := quadAxisOk_sound Earverif.Gen.C05Cover.scaleExp Earverif.Gen.C05.L3_r6 ((0, 0), (-17179869184, 0), (-1, 0)) false
      (-1, bigEI) (0, 1) (by decide +kernel)
    simp only [Bool.false_eq_true, if_false, Int.cast_zero, Int.cast_one, div_one] at hax
    intro gv hgv j c hj hf
    set P := (⟨List.map p3 Earverif.Gen.C05.L3_r6.pos, Earverif.Gen.C05.L3_r6.order⟩ : QuadRegion ℝ).polys
      (p3 ((0, 0), (-17179869184, 0), (-1, 0))) with hP
    cases hx : Earverif.GainCalc.quadRoot P.1 with
    | none => rw [hx] at hgv; simp [QuadRegion.handle] at hgv
    | some x =>
      have hx0 : x = 0 := hax.eq_zero x hx
      subst hx0
      rw [hx] at hgv
      cases hy : Earverif.GainCalc.quadRoot P.2 with
      | none => rw [hy] at hgv; simp [QuadRegion.handle] at hgv
      | some y =>
        rw [hy] at hgv
        simp only [QuadRegion.handle] at hgv
        split at hgv
        · exact absurd hgv (by simp)
        · simp only [Option.some.injEq] at hgv
          subst hgv
          apply getD_normalise
          have hord : Earverif.Gen.C05.L3_r6.order = [1, 3, 0, 2] := rfl
          have hch : Earverif.Gen.C05.L3_r6.ch = [8, 3, 4, 7] := rfl
          rw [hch] at hj
          simp only [hord]
          match j, hj with
          | 0, _ => simp [scatter, zeros, QuadRegion.weights, zero_real, one_real]
          | 1, hj =>
            simp only [List.getElem?_cons_succ, List.getElem?_cons_zero, Option.some.injEq] at hj
            subst hj
            exact absurd hf (by decide +kernel)
          | 2, hj =>
            simp only [List.getElem?_cons_succ, List.getElem?_cons_zero, Option.some.injEq] at hj
            subst hj
            exact absurd hf (by decide +kernel)
          | 3, _ => simp [scatter, zeros, QuadRegion.weights, zero_real, one_real]
          | j + 4, hj => simp at hj

open Cover in
/-- the loudspeaker counts of the ten tables (`nSpeakers`: the real channels without LFE; 2 for the stereo wrapper) -/
example : Earverif.Gen.C05.layouts.map nSpeakers = [2, 5, 7, 9, 10, 10, 13, 22, 7, 11] := by decide +kernel

open Cover in
/-- non-vacuity: 4+5+1 (table `L4`) has the lower-layer loudspeaker B+000 = channel 9 and four upper-layer ones;
    3+7+0 (table `L5`) has U+045, U-045, UH+180 = channels 3, 4, 9 and satisfies `hnq` -/
example : layerRows Earverif.Gen.C05.L4 false = [9] ∧ layerRows Earverif.Gen.C05.L4 true = [5, 6, 7, 8] ∧
    layerRows Earverif.Gen.C05.L5 true = [3, 4, 9] ∧
    layerOk Earverif.Gen.C05Cover.scaleExp Earverif.Gen.C05.L5 (layerRows Earverif.Gen.C05.L5 true) true = true := by
  decide +kernel

/-! ### non-vacuity -/

/-- the hypotheses of the covering / quad theorems are met by the regenerated tables themselves (`cover_tables_ok`,
    `quad_tables_ok`); a concrete direction: straight up is covered on 0+5+0 -/
example : ∃ l ∈ Earverif.Gen.C05.layouts, l.name = "0+5+0" ∧
    Cover.handleSel Earverif.GainCalc.quadRoot l (0, 0, 1) ≠ none := by
  refine ⟨Earverif.Gen.C05.L1, by simp [Earverif.Gen.C05.layouts], rfl, ?_⟩
  exact panner_total_layouts _ (by simp [Earverif.Gen.C05.layouts]) _ (by norm_num)

/-- the standard basis is an invertible triplet; the diagonal direction gets equal gains -/
example : det3 (((1 : ℝ), 0, 0), (0, 1, 0), (0, 0, 1)) ≠ 0 := by norm_num [det3]
example : Triplet.handle (((1 : ℝ), 0, 0), (0, 1, 0), (0, 0, 1)) (1, 0, 0) = some (1, 0, 0) :=
  (triplet_exact_at_vertex _ (by norm_num [det3])).1
example : isPermOfRange [2, 3, 1, 0] 4 = true := by decide
example : sumsq [(1 : ℝ), 0, 0, 0, 0] = 1 := by norm_num [sumsq]
example : firstAccept [none, some 1, some 2] = some 1 := rfl

/-- PARTIAL (see the header): conjunction of the region- and wrapper-level claims. -/
theorem C05_partial :
    (type_of% @triplet_nonneg) ∧ (type_of% @triplet_norm_le_one) ∧ (type_of% @triplet_unit_of_strict) ∧
    (type_of% @triplet_of_comb) ∧ (type_of% @triplet_exact_at_vertex) ∧ (type_of% @triplet_mirror) ∧
    (type_of% @ngon_nonneg_unit) ∧ (type_of% @quad_nonneg_unit) ∧ (type_of% @quad_corner) ∧
    (type_of% @first_accept_inherits) ∧ (type_of% @first_accept_none_iff) ∧ (type_of% @panner_inherits) ∧
    (type_of% @panner_none_iff) ∧ (type_of% @downmix_nonneg_unit) ∧ (type_of% @stereo_level) ∧
    (type_of% @tables_wellFormed) ∧ (type_of% @extra_mem_iff) ∧ (type_of% @extra_all_mid_of_empty_layer) ∧
    (type_of% @extra_margin) ∧ (type_of% @extra_sorted) :=
  ⟨@triplet_nonneg, @triplet_norm_le_one, @triplet_unit_of_strict, @triplet_of_comb, @triplet_exact_at_vertex,
    @triplet_mirror, @ngon_nonneg_unit, @quad_nonneg_unit, @quad_corner, @first_accept_inherits,
    @first_accept_none_iff, @panner_inherits, @panner_none_iff, @downmix_nonneg_unit, @stereo_level,
    @tables_wellFormed, @extra_mem_iff, @extra_all_mid_of_empty_layer, @extra_margin, @extra_sorted⟩

end Earverif.PointSource
