"""C06 — select_rendering_items returns exactly the items implied by the document structure.

Correspondence: generated scene -> REAL ADM -> (a) real select_rendering_items, (b) the same document serialised by
index -> Lean model (c06driver); canonical items compared in order and as multisets, for the document as built and
for 3 re-declarations (block formats / extra data of every item are read through metadata_source.get_next_block()
after select_rendering_items returned); the model's validation predicates multitreeOK / wrappedNonempty (hypotheses
of the theorems) vs the real _validate_pack_channel_multitree / AllocationPacks, also on injected diamonds, pack loops
and channel-less packs.  Search (direct predicate on the real code alone): real items vs an independent
comprehension oracle written from the property text, and equality of the item multiset across re-declarations."""
import random
import warnings
from collections import Counter

from .common import Spec, Driver
from . import c06_gen as G

THEOREMS = (
    # traversal = comprehension
    "select_eq_spec", "selectStates_eq_spec", "singleItem_spec", "items_from_states",
    # once per distinct object path
    "select_once_per_path", "specStates_nodup", "mem_specStates_iff", "mem_objectPathsFrom_iff",
    # complementary groups
    "select_excludes_ignored", "mem_ignored_iff", "comp_at_most_one_selected",
    # per-item data from the item's own paths
    "extra_data_from_own_path", "importance_from_own_path", "getExtraData_eq", "extraOf_objectStart",
    "extraOf_objectDuration", "extraOf_screen", "extraOf_frequency", "extraOf_absDist", "extraOf_gain",
    "extraOf_mute", "extraOf_posOff",
    # declaration order
    "select_perm_partial", "itemsOfState_strip", "select_programme_lowest_id", "select_programme_order_independent",
    "select_perm_objects", "select_perm_objects_rename", "renameObjects_renamed", "itemsOfState_rename",
    "selectComplementary_ok_iff",
    # re-numbering the format part (packs / channels / trackUIDs / stream+track formats): success in both directions,
    # items equal up to Perm and renaming, CHNA-only mode included
    "select_perm_formats", "select_perm_formats_rename", "fmtRenamed_itemsOfState_iff", "fmtRenamed_stateIso",
    "FmtRenamed.multitreeOK", "FmtRenamed.mtVisit", "FmtRenamed.wrappedPacks_back", "ProbIso.valid", "ProbIso.symm",
    "ProbIso.roundtrip", "ProbIso.accepted", "ProbIso.dropEmpty", "outputOf_reAllocated", "wrappedPacks_all_bounds",
    "renameFormats_renamed",
    "fmtRenamed_selectPackMapping", "fmtRenamed_itemsOfState", "valid_rename", "allocWF_of_check",
    "FmtRenamed.wrappedPacks", "FmtRenamed.outputOf", "FmtRenamed.matrixSpec", "FmtRenamed.itemsOfPack",
    # modes
    "chna_only_all_tracks", "chna_only_problem", "no_programme_all_roots", "mem_rootObjects",
    # the items, declaratively: valid + unique allocation (C07), track index / silence / matrix sum, per-channel data
    "select_eq_decl", "itemsOfState_spec", "itemsOfState_spec_wf", "declItemsOfSol_perm", "itemsOfPack_eq_decl",
    "declItems_regular", "declSingle_eq_specItem",
    "itemsOfPack_ok_facts", "outputOf_ok_iff", "regular_item_path", "allocProblem_fields", "hoaItem_ok_iff",
    "hoaMetaOf_ok_iff", "getExtraData_ok_iff", "getPackFormatPath_ok_iff",
    # matrix track specs = C20's packSpec; their audio = the matrix sum
    "matrixSpec_eq_packSpec", "matrixSpec_ok_iff", "matrixTrack_meaning", "matrix_item_spec_meaning",
    # C07's well-formedness of the allocation problems, from the multitree check
    "allocWF_of_multitree", "allocWF0_of_multitree", "allocWFCheck_of_multitree", "packsWF_of_multitree",
    "slots_cf_nodup", "wrappedPacks_ids_nodup", "wrappedPacks_cf_nodup",
    # semantic lemmas of the helpers
    "minImp_spec", "getPathParam_ok_iff", "getSingleParam_ok_iff", "hoaNorm_ok_iff", "hoaNfc_ok_iff",
    "hoaSref_ok_iff", "getAvs_some", "getAvs_eq_none_iff", "getAvs_unique", "trackChannel_lt", "wrapOne_shape",
    # re-ordering an object's own pack / track reference lists
    "select_perm_own_refs", "ownRefsPerm_itemsOfState", "ownRefs_valid", "valid_retrack", "perm_index_maps",
    # re-numbering audioContents / audioProgrammes: the same items in the same order, index renamed
    "select_renumber_contents", "select_renumber_contents_rename", "renameContents_renamed",
    "select_renumber_programmes", "select_renumber_programmes_rename", "renameProgrammes_renamed",
    "ProgRenamed.selectProgramme_none",
    # link to the C14 model of validate_structure: validation => multitreeOK, the AllocationPacks can be built
    "multitreeOK_of_validate", "multitreeOK_of_validateMultitree", "mtVisit_sublist", "toDoc_packGraph",
    "wrappedPacks_ok_of_validate", "validatedB_iff",
    # when does selection succeed; the headline on validated documents
    # the object-loop validator of C14 => Acyclic (fuel of objectPathsFrom suffices); the state enumeration as chains
    "acyclic_of_validate", "validateObjectLoops_of_validate", "objLoopDfs_chains", "chains_short_of_loops",
    "rank_of_chains_short", "mem_specStates_none_iff", "select_eq_decl_chain",
    # re-ordering the complementary-object reference list of an audioObject: the same result (equality)
    "select_perm_comps", "CompPerm.selectComplementary", "CompPerm.specStates", "CompPerm.symm",
    "select_ok_iff", "select_ok_iff_of_multitree", "select_eq_decl_validated", "itemsOfState_ok_iff",
    "itemsOfState_accepted_ok_iff", "itemsOfState_error_cases", "itemsOfPack_ok_iff", "singleItem_ok_iff",
    "flatMapE_error_mem",
)


def classify(e):
    from ear.fileio.adm.exceptions import AdmError
    m = str(e)
    if isinstance(e, NotImplementedError):
        return "notImplemented"
    if isinstance(e, AdmError):
        if "is not part of any complementary" in m:
            return "notComplementary"
        if "multiple audioObjects selected" in m:
            return "multipleSelected"
        if m.startswith("Conflicting format references"):
            return "conflicting"
        if m.startswith("Ambiguous format references"):
            return "ambiguous"
        if m.startswith("Conflicting ") and " values in path" in m:
            return "pathParamConflict"
        if "must share the same" in m:
            return "paramMismatch"
        if m.startswith("Don't know how to produce rendering items for type"):
            # `_get_rendering_items` on a pack type other than Objects / DirectSpeakers / HOA (an AdmError since commit
            # 76cae51, NotImplementedError before): the model's error kind `notImplemented`
            return "notImplemented"
        return "AdmError:" + m[:80]
    return "%s:%s" % (type(e).__name__, m[:80])


def run_real(b):
    from ear.core.select_items import select_rendering_items
    with warnings.catch_warnings():
        warnings.simplefilter("ignore")
        try:
            items = select_rendering_items(b.adm, audio_programme=b.given,
                                           selected_complementary_objects=list(b.selected))
        except Exception as e:  # classified and compared with the model's error kind
            return ("err", validation_site(e) or classify(e))
        return ("ok", G.item_records(items))


def validation_site(e):
    """`validate:<function containing the raise statement>` when an AdmError was raised inside `validate_structure`
    (compared with the raise site `AdmKind.site` of the C14 model run by `Adm.selectValidated`), else None"""
    from ear.fileio.adm.exceptions import AdmError
    if not isinstance(e, AdmError):
        return None
    names, tb = [], e.__traceback__
    while tb is not None:
        names.append(tb.tb_frame.f_code.co_name)
        tb = tb.tb_next
    if "validate_structure" not in names:
        return None
    return "validate:" + names[-1]


def same_error(model, real):
    """model `err` payload vs the real classification: validation-stage errors agree when the function of the raise
    statement is the same (the model prints the qualified name, the traceback gives the innermost name)"""
    if model.startswith("validate:") and real.startswith("validate:"):
        return model.split(":", 1)[1].split(".")[-1] == real.split(":", 1)[1]
    return model == real


def real_wf(b, maps):
    """what the real code says about the validation predicates of the model: does
    `_validate_pack_channel_multitree` pass, does every AllocationPack of `_PackAllocator` (restricted to the
    serialised packs) have a channel (None when building them fails, e.g. on a pack loop), and does the whole
    `validate_structure` pass (None if it raises something other than AdmError)."""
    from ear.core.select_items.validate import _validate_pack_channel_multitree, validate_structure
    from ear.core.select_items.select_items import _PackAllocator
    from ear.fileio.adm.exceptions import AdmError
    try:
        _validate_pack_channel_multitree(b.adm)
        mt = 1
    except AdmError:
        mt = 0
    try:
        packs = _PackAllocator(b.adm).packs
        ne = int(all(len(p.channels) > 0 for p in packs if id(p.root_pack) in maps["pk"]))
    except Exception:
        ne = None
    with warnings.catch_warnings():
        warnings.simplefilter("ignore")
        try:
            validate_structure(b.adm)
            vs = 1
        except AdmError:
            vs = 0
        except Exception:
            vs = None
    return mt, ne, vs


def variants(scene, vseeds):
    """The document as built, then re-declarations (declaration order; the last one also child reference lists)."""
    out = []
    for k, vs in enumerate(vseeds):
        b = G.build(scene)
        if vs is not None:
            G.redeclare(b, random.Random(vs), children=(k == len(vseeds) - 1))
        out.append(b)
    return out


class C06(Spec):
    pid = "C06"
    lean_targets = ("Earverif.Props.C06", "c06driver")
    props_module = "Earverif.Props.C06"
    theorems = tuple("Earverif.Adm." + t for t in THEOREMS)
    trusted_base = (
        "model Earverif/Model/Adm.lean + SelectItems.lean is a hand transliteration of select_items.py / utils.py / "
        "hoa.py / matrix.py over index-based documents; validate_selected_audioTrackUID is not modelled; "
        "validate_structure is the C14 model (Earverif/Model/Validate.lean, tied to validate.py by the C14 check) run "
        "on the document graph toDoc adm (Model/SelectItems.lean: the translation between the two document models); "
        "the theorems use of it multitreeOK (success condition of _validate_pack_channel_multitree: no node visited "
        "twice by its dfs; proved from the C14 model: multitreeOK_of_validate) and that the AllocationPacks can be built "
        "(wrappedPacks_ok_of_validate); multitreeOK, and validateMultitree / validateStructure on toDoc, are evaluated "
        "by the driver and compared with the real functions on every generated document and on injected diamonds / "
        "pack loops / channel-less packs / audioObject loops / duplicated alternativeValueSet references / inconsistent "
        "HOA normalization; an R request executes Adm.selectValidated (validation model, then selection) and the "
        "error stage + raise-site function of rejected documents is compared with the real code",
        "pack_allocation.allocate_packs is the C07 model (Earverif/Model/PackAlloc.lean, imported); identities of "
        "AllocationPack objects are modelled as 3*root+variant, of AllocationTrackUID objects as their position",
        "harness/c06_gen.py: serialisation of the real ADM by index (unused common-definition packs/channels are "
        "pruned), canonicalisation of RenderingItems and track spec trees, labels for screens/position offsets/"
        "block formats",
    )
    assumptions = (
        "documents pass validate_structure (no audioObject loops, pack/channel multitree, object parameters only in "
        "leaves, consistent alternativeValueSet references, well-formed matrix packs); reference lists contain no "
        "duplicates",
        "audioProgramme ids are distinct fixed-width strings (string order = numeric order)",
        "every selected audioTrackUID has a track index, a pack reference and a channel format",
    )
    rule = (
        "scene model: 0..3 programmes x 0..3 contents x 0..8 objects in a DAG with shared sub-objects x 0..2 "
        "complementary groups and selections x 1..6 formats (Objects/DirectSpeakers/HOA; mono, multichannel, nested "
        "packs 2-3 deep; BS.2094 common-definition packs; direct and encode/decode Matrix packs in their 5 usages) x silent tracks x track->trackFormat / track->channelFormat "
        "referencing x alternativeValueSets x CHNA-only and programme-less modes; a few scenes get a channel-less pack, "
        "or (outside the property's quantifier: compared are the validation predicates and the error stage / raise "
        "site) a diamond, a pack loop, an audioObject loop, a duplicated alternativeValueSet reference or an HOA "
        "channel with another normalization; every scene is also re-declared in 3 "
        "random orders; a case is one (scene, declaration order); non-trivial = at least one item selected; "
        "distinct by canonical item list"
    )

    # ---------------------------------------------------------------------------------
    def _features(self, ctx, scene, b, recs):
        ctx.count("mode:" + scene["mode"])
        ctx.count("programmes:%d" % len(scene["programmes"]))
        if scene["given"] is not None:
            ctx.count("programme-given")
        elif len(scene["programmes"]) > 1:
            ctx.count("programme-lowest-id" + ("-not-first" if min(
                scene["programmes"], key=lambda p: p["id"]) is not scene["programmes"][0] else "-first"))
        ctx.count("complementary-groups:%d" % len(scene["groups"]))
        if scene["selected"]:
            ctx.count("complementary-selection-nonempty")
        if scene["common"]:
            ctx.count("common-definitions")
        for u in b.matrix_usages:
            ctx.count("matrix-usage:" + u)
        paths = Counter()
        for r in recs:
            ctx.count("item-kind:%d" % r["kind"])
            if "S" in r["tracks"]:
                ctx.count("item-with-silent-track")
            if any(t.startswith("G(") for t in r["tracks"]):
                ctx.count("item-with-matrix-track-spec")
            if any(len(p.audioPackFormats) > 1 for p in r["paths"]):
                ctx.count("item-nested-pack-path")
            p0 = r["paths"][0]
            if p0.audioObjects is not None:
                if len(p0.audioObjects) > 1:
                    ctx.count("item-nested-object-path")
                paths[(id(p0.audioContent), id(p0.audioObjects[-1]))] += 0
                paths[(id(p0.audioContent), id(p0.audioObjects[-1]), tuple(id(o) for o in p0.audioObjects))] += 0
            e = r["extra"]
            if e.object_gain != 1.0 or e.object_mute or e.object_positionOffset is not None:
                ctx.count("item-nondefault-gain/mute/offset")
            if e.object_start is not None:
                ctx.count("item-with-object-start")
            if e.pack_absoluteDistance is not None:
                ctx.count("item-with-absoluteDistance")
        leafs = Counter(k[:2] for k in paths if len(k) == 3)
        if any(v > 1 for v in leafs.values()):
            ctx.count("scene-with-shared-sub-object-reached-by-2+-paths")
        if any(c["avs"] for c in scene["contents"]) or any(p["avs"] for p in scene["programmes"]):
            ctx.count("scene-with-alternativeValueSet-refs")
        for u in b.adm.audioTrackUIDs:
            ctx.count("track-ref:" + ("v2-channelFormat" if u.audioChannelFormat is not None else "v1-trackFormat"))

    def _predicate(self, ctx, scene, vseeds, reals, blk_labels, bs):
        """Direct predicate on the real code: items == oracle (multiset), independent of declaration order."""
        base = None
        for k, (real, bl, b) in enumerate(zip(reals, blk_labels, bs)):
            inp = {"scene": scene, "redeclaration_seed": vseeds[k], "children_shuffled": k == len(vseeds) - 1 and k > 0}
            if real[0] != "ok":
                if scene["inject"] is None:
                    ctx.hit("selection failed on a valid document", inp, {"error": real[1]}, ["c06-unexpected-error"])
                continue
            try:
                got = Counter(G.canon_label(real[1], bl))
            except AssertionError as e:
                ctx.hit("rendering item is internally inconsistent", inp, {"error": str(e)}, ["c06-inconsistent-item"])
                continue
            if scene["inject"] is None:
                want = G.oracle(b, bl)
                if got != want:
                    ctx.hit("selected items differ from the items implied by the document structure", inp,
                            {"missing": [repr(x) for x in (want - got)][:3], "unexpected": [repr(x) for x in (got - want)][:3],
                             "n_expected": sum(want.values()), "n_got": sum(got.values())}, ["c06-oracle-mismatch"])
            if base is None:
                base = got
            elif got != base:
                ctx.hit("item multiset depends on declaration order", inp,
                        {"only_in_original_order": [repr(x) for x in (base - got)][:3],
                         "only_in_redeclared": [repr(x) for x in (got - base)][:3]}, ["c06-order-dependence"])
                ctx.count("order-dependence-hits")

    def _run(self, ctx, driver, scenes, with_model=True):
        lines, metas = [], []
        wlines, wmetas = [], []
        for scene in scenes:
            vseeds = [None] + [ctx.rng.getrandbits(32) for _ in range(3)]
            bs = variants(scene, vseeds)
            sers = [G.serialise(b) for b in bs]
            reals = [run_real(b) for b in bs]
            self._predicate(ctx, scene, vseeds, reals, [s[2] for s in sers], bs)
            if reals[0][0] == "ok":
                self._features(ctx, scene, bs[0], reals[0][1])
            else:
                ctx.count("real-error:" + reals[0][1].split(":")[0])
            for k, (b, s, real) in enumerate(zip(bs, sers, reals)):
                if with_model and k in (0, len(bs) - 1):
                    # validation predicates of the model (hypotheses of the C06 theorems) vs the real validation
                    wlines.append(" ; ".join(["W"] + s[0].split(" ; ")[1:]))
                    wmetas.append((scene, vseeds[k], real_wf(b, s[1]), real))
                # documents that validate_structure rejects go through the model too: an `R` request runs
                # Adm.selectValidated (C14 model of validate_structure on toDoc, then the selection); compared:
                # the stage and the function of the raise statement
                ctx.count("declaration-order:" + ("as-built" if k == 0 else "reordered" if k < 3 else "reordered+children"))
                canon = ("ok", G.canon_index(real[1], s[1])) if real[0] == "ok" else real
                lines.append(s[0])
                metas.append((scene, vseeds[k], canon))
        if not with_model:
            for scene, vs, canon in metas:
                ctx.case(("search", canon[1] if canon[0] == "err" else tuple(canon[1])), bool(canon[1]))
            return
        wouts = driver.run(wlines)
        for (scene, vs, (mt, ne, vst), real), line, out in zip(wmetas, wlines, wouts):
            inp = {"scene": scene, "redeclaration_seed": vs, "driver_line": line}
            want = "wf %d %s %d %s" % (mt, "?" if ne is None else str(ne), mt, "?" if vst is None else str(vst))
            got = out.split()
            if len(got) != 5 or got[0] != "wf":
                ctx.disagree("driver rejected a generated document (validation predicates)", inp, out, want)
            elif int(got[1]) != mt or (ne is not None and int(got[2]) != ne):
                ctx.disagree("_validate_pack_channel_multitree / AllocationPack channels vs Earverif.Adm.multitreeOK / "
                             "wrappedNonempty", inp, out, want)
            elif int(got[3]) != mt or (vst is not None and int(got[4]) != vst):
                # the C14 model of validation run on the C06 document (toDoc): hypothesis of select_eq_decl_validated
                ctx.disagree("_validate_pack_channel_multitree / validate_structure vs the C14 model "
                             "Validate.validateMultitree / validateStructure on Earverif.Adm.toDoc", inp, out, want)
            else:
                ctx.validated()
                ctx.count("validation-predicates:multitree=%d nonempty=%s" % (mt, "?" if ne is None else ne))
                ctx.count("validate_structure(toDoc):%s" % ("?" if vst is None else "accepts" if vst else "rejects"))
                if mt == 0:
                    # (whether select_rendering_items rejects such a document is C14's property, not C06's)
                    ctx.count("non-multitree-document:" + ("rejected" if real[0] == "err" else "accepted"))
                    ctx.case(("wf", out, real[1] if real[0] == "err" else "ok"), True,
                             sample={"driver_line": line[:400], "real": real[1] if real[0] == "err" else "ok"})
        outs = driver.run(lines)
        for (scene, vs, canon), line, out in zip(metas, lines, outs):
            inp = {"scene": scene, "redeclaration_seed": vs, "driver_line": line}
            nontriv = canon[0] == "ok" and len(canon[1]) > 0
            ctx.case(canon[1] if canon[0] == "err" else tuple(canon[1]), nontriv,
                     sample={"driver_line": line[:600], "items": canon[1][:3] if canon[0] == "ok" else canon[1]}
                     if nontriv else None)
            if out == "bad-op":
                ctx.disagree("driver rejected a generated document", inp, out, canon)
            elif out == "err unsupported":
                ctx.count("model-unsupported(skipped)")
            elif out.startswith("err "):
                if canon[0] == "err" and same_error(out[4:], canon[1]):
                    ctx.validated()
                    ctx.count("agree-error:" + out[4:])
                else:
                    ctx.disagree("select_rendering_items vs Earverif.Adm.selectRenderingItems (error)", inp, out, canon)
            else:
                model_items = [x for x in out[3:].split(" ; ") if x]
                if canon[0] != "ok":
                    ctx.disagree("select_rendering_items raised, model returned items", inp, out[:300], canon)
                elif model_items == canon[1]:
                    ctx.validated()
                    ctx.count("agree-in-order")
                elif sorted(model_items) == sorted(canon[1]):
                    ctx.disagree("select_rendering_items vs model: same items, different order", inp,
                                 model_items[:4], canon[1][:4])
                else:
                    d = [(a, c) for a, c in zip(model_items, canon[1]) if a != c][:2]
                    ctx.disagree("select_rendering_items vs Earverif.Adm.selectRenderingItems (items)", inp,
                                 {"n": len(model_items), "first_diff": d}, {"n": len(canon[1])})

    def _scenes(self, ctx, n):
        out = []
        for i in range(n):
            inj = None
            r = ctx.rng.random()
            if r < 0.03:
                inj = "multi-selected"
            elif r < 0.05:
                inj = "non-complementary"
            elif r < 0.07:
                inj = "absdist-conflict"
            elif r < 0.09:
                inj = "extra-silent"
            elif r < 0.15:
                inj = "alloc-stress"
            elif r < 0.17:
                inj = "diamond"
            elif r < 0.18:
                inj = "pack-loop"
            elif r < 0.19:
                inj = "empty-pack"
            elif r < 0.21:
                inj = "object-loop"
            elif r < 0.23:
                inj = "avs-dup"
            elif r < 0.25:
                inj = "hoa-attr"
            sc = G.gen_scene(ctx.rng, inject=inj)
            if inj:
                ctx.count("scene-with-injected-error:" + inj)
            out.append(sc)
        return out

    # ---------------------------------------------------------------------------------
    def _fails(self, scene, vseeds):
        """does the direct predicate fail on this scene? (used by the shrinker only)"""
        from .common import Ctx
        tmp = Ctx(self.pid, "quick", 0)
        try:
            bs = variants(scene, vseeds)
            sers = [G.serialise(b) for b in bs]
            reals = [run_real(b) for b in bs]
            self._predicate(tmp, scene, vseeds, reals, [s[2] for s in sers], bs)
        except Exception:
            return None
        return tmp.hits[0] if tmp.hits else None

    def _shrink(self, ctx):
        """Greedy minimisation of the first failing scene (drops trailing objects / contents / programmes,
        clears optional data); the minimised document is reported first."""
        import copy
        if not ctx.hits or "scene" not in ctx.hits[0]["input"]:
            return
        first = ctx.hits[0]
        scene = copy.deepcopy(first["input"]["scene"])
        vseeds = [None, first["input"].get("redeclaration_seed") or 1]
        if self._fails(scene, vseeds) is None:
            vseeds = [None, 1, 2, 3]
            if self._fails(scene, vseeds) is None:
                return

        def drop_object(sc):
            n = len(sc["objects"]) - 1
            if n < 0:
                return False
            sc["objects"].pop()
            for o in sc["objects"]:
                o["subs"] = [x for x in o["subs"] if x != n]
                o["comps"] = [x for x in o["comps"] if x != n]
            sc["groups"] = [[x for x in g if x != n] for g in sc["groups"] if g[0] != n]
            sc["groups"] = [g for g in sc["groups"] if len(g) > 1]
            for i, o in enumerate(sc["objects"]):
                if not any(g[0] == i for g in sc["groups"]):
                    o["comps"] = []
            sc["selected"] = [x for x in sc["selected"] if x != n and any(x in g for g in sc["groups"])]
            for c in sc["contents"]:
                c["objects"] = [x for x in c["objects"] if x != n]
            for r in sc["contents"] + sc["programmes"]:
                r["avs"] = [x for x in r["avs"] if x[0] != n]
            return True

        def drop_content(sc):
            m = len(sc["contents"]) - 1
            if m < 0:
                return False
            sc["contents"].pop()
            for p in sc["programmes"]:
                p["contents"] = [x for x in p["contents"] if x != m]
            return True

        def drop_programme(sc):
            k = len(sc["programmes"]) - 1
            if k < 1 or sc["given"] == k:
                return False
            sc["programmes"].pop()
            return True

        def clear_avs(sc):
            if not any(o["avs"] for o in sc["objects"]):
                return False
            for o in sc["objects"]:
                o["avs"] = []
            for r in sc["contents"] + sc["programmes"]:
                r["avs"] = []
            return True

        def plain_objects(sc):
            ch = False
            for o in sc["objects"]:
                for k, v in (("start", None), ("duration", None), ("gain", 1.0), ("mute", False), ("posOff", None),
                             ("importance", None)):
                    if o[k] != v:
                        o[k], ch = v, True
            return ch

        def one_use(sc):
            ch = False
            for o in sc["objects"]:
                if len(o["uses"]) > 1:
                    o["uses"], ch = o["uses"][:1], True
            return ch

        budget = 150
        progress = True
        best = None
        while progress and budget > 0:
            progress = False
            for step in (drop_object, drop_content, drop_programme, clear_avs, one_use, plain_objects):
                cand = copy.deepcopy(scene)
                if not step(cand):
                    continue
                budget -= 1
                h = self._fails(cand, vseeds)
                if h is not None:
                    scene, best, progress = cand, h, True
        if best is not None:
            best = dict(best)
            best["what"] += " (minimised)"
            ctx.hits.insert(0, best)

    def correspond(self, ctx):
        driver = Driver("c06driver", "Earverif.Driver.C06")
        n = 350 if ctx.quick else 4000
        scenes = self._scenes(ctx, n)
        for i in range(0, len(scenes), 500):
            self._run(ctx, driver, scenes[i:i + 500])

    def search(self, ctx, deep):
        # the predicate already ran on every correspondence case; deep: a further stream on the real code alone,
        # directed at programme-rich and sharing-rich scenes
        if not deep:
            self._shrink(ctx)
            return
        n = 1500 if ctx.quick else 3000
        scenes = [G.gen_scene(ctx.rng, mode=ctx.rng.choice(["programme", "programme", "noprog", "chna"]))
                  for _ in range(n)]
        self._run(ctx, None, scenes, with_model=False)
        self._shrink(ctx)


SPEC = C06()

REGISTRY = dict(
    text="PARTIAL: Lean theorems over a transliterated model of select_rendering_items (Earverif.Adm.*; allocation = "
    "the C07 allocator model, Matrix packs included), now linked to the C14 model of validate_structure. "
    "(0) Headline on validated documents: select_eq_decl_validated - if validate_structure (C14 model "
    "Validate.validateStructure on the document graph toDoc adm of the same document) accepts, then building the "
    "AllocationPacks never fails (wrappedPacks_ok_of_validate, from C14's matrixPackOk_of_struct/decode_encode_input) and "
    "select_rendering_items either returns exactly the declarative items [item | state in specStates, allocated pack in "
    "THE valid allocation of the state, item in declItems], or fails with the error of the complementary-object "
    "selection, or with the error of one state: 'Conflicting format references' exactly when that state has no valid "
    "allocation, 'Ambiguous' exactly when it has two inequivalent ones (C07 accept_iff_unique), anything else only "
    "when its unique valid allocation has a pack without usable output (OutputOK) or without the per-item parameter "
    "merges (PackItemsOK) (itemsOfState_error_cases). select_ok_iff: validation+selection return items iff validation "
    "passes and the complementary selection is consistent (selectComplementary_ok_iff) and for every state of the "
    "comprehension the allocation problem has exactly one valid allocation up to permutation, every allocated pack "
    "satisfies OutputOK and the per-item merges exist (PackItemsOK: itemsOfPack_ok_iff, singleItem_ok_iff, "
    "hoaItem_ok_iff, getPackFormatPath_ok_iff, getPathParam_ok_iff, hoaMetaOf_ok_iff, getSingleParam_ok_iff); "
    "select_ok_iff_of_multitree / itemsOfState_ok_iff are the same without the C14 link. multitreeOK_of_validate: "
    "validate_structure => multitreeOK (the C06 predicate's node list is a sublist of the node list of C14's dfs, "
    "mtVisit_sublist + C14 mtDfs_ok); wrappedNonempty is NOT implied (example exEmptyPackDoc: validated, channel-less "
    "pack, selection works). "
    "HONESTY of (0): the PackItemsOK half of StateAllocOK in select_ok_iff is literally 'the model's "
    "getPackFormatPath / getPathParam / hoaMetaOf / getSingleParam return .ok' - an unfolding of the model (each with "
    "its own _ok_iff characterisation), NOT derived from validation; the third error disjunct of "
    "select_eq_decl_validated leaves the error value e free (names the situation, says nothing about which error); "
    "the 'declarative' side re-uses model functions: specStates = the model's fuel-cut objectPathsFrom after the "
    "model's selectProgramme / selectComplementary, extraOf / getImportance sit inside declSingle / declHoa, "
    "thePackPath is the head of the model's packPathsFrom (fuel = number of packs, sufficiency under multitreeOK not "
    "proved). What IS now derived: acyclic_of_validate - Acyclic (the hypothesis of mem_objectPathsFrom_iff / "
    "mem_specStates_iff that makes the fuel of objectPathsFrom sufficient) follows from C14's object-loop validator "
    "objLoopDfs through toDoc (a dfs that returned from every object saw only duplicate-free chains, pigeonhole, "
    "longest-chain rank; refsInRange stays a hypothesis), and select_eq_decl_chain: on a validated document a state "
    "is in specStates iff it is (chosen programme, one of its contents, a chain of sub-object references from one of "
    "that content's objects) - or a chain from a root object when there is no programme - that avoids ignored "
    "objects; no fuel, no model function in it (the ORDER of the enumeration remains the model's). "
    "(1) select_eq_decl: on a document that passes the multitree "
    "check, whenever selection returns, items = [item | state in specStates (programme contents / root objects / "
    "object paths avoiding ignored complementary objects; select_eq_spec, select_once_per_path, specStates_nodup, "
    "mem_specStates_iff, select_excludes_ignored, mem_ignored_iff), allocated pack in THE allocation of the state, "
    "item in declItems] where the allocation is characterised declaratively - C07 Valid for the state's problem "
    "(allocProblem_fields) and unique up to permutation among allocations that use no channel-less pack "
    "(itemsOfState_spec; itemsOfState_spec_wf: among all valid ones under C07's WF) - and every item field is an "
    "explicit function of it: track = DirectTrackSpec(trackIndex-1) / SilentTrackSpec of the channel's slot, or for a "
    "matrix pack C20's packSpec of the channel tree (outputOf_ok_iff, matrixSpec_eq_packSpec; its audio is the matrix "
    "sum: matrixTrack_meaning / matrix_item_spec_meaning via C20 matrix_pack_spec_meaning); pack path = the unique "
    "path to the channel = the AllocationChannel's pack_formats (getPackFormatPath_ok_iff, regular_item_path, "
    "itemsOfPack_ok_facts); block formats, frequency, absoluteDistance (getPathParam_ok_iff), object start/duration/"
    "gain/mute/offset with alternativeValueSet override (extraOf_* lemmas, getAvs_some/eq_none_iff/unique), screen, "
    "importances = minima with None as +inf (minImp_spec); HOA: one item per pack, tracks in channel order, merged "
    "parameters all channels agree on (hoaItem_ok_iff, hoaMetaOf_ok_iff, getSingleParam_ok_iff, hoaNorm/Nfc/Sref_ok_iff). "
    "(2) C07's well-formedness of the allocation problems is derived, not assumed: allocWF0_of_multitree (from "
    "multitreeOK = success condition of _validate_pack_channel_multitree, slots_cf_nodup; pack/track identities "
    "distinct by construction), allocWF_of_multitree (+ wrappedNonempty, which validate_structure does NOT establish; "
    "channel-less packs are never allocated: selectPackMapping_dropEmpty). (3) Declaration-order independence: "
    "select_perm_partial (programme->content, content->object, object->sub-object lists), select_perm_objects(_rename) "
    "(re-numbering audioObjects), select_perm_own_refs (an object's own pack / track reference lists, silent tracks "
    "included: success preserved, items equal up to Perm), select_perm_formats(_rename) (re-numbering packs / "
    "channels / trackUIDs / stream+track formats, CHNA-only mode included: selection succeeds on the re-numbered "
    "document iff it does on the original, and then the items are equal up to Perm and renaming; through C07 "
    "accept_iff_unique, valid allocations corresponding there and back: ProbIso.valid/symm/roundtrip/accepted, "
    "fmtRenamed_stateIso, fmtRenamed_itemsOfState_iff; the multitree check is invariant: FmtRenamed.multitreeOK), "
    "select_programme_lowest_id / "
    "select_programme_order_independent, select_renumber_contents(_rename) / select_renumber_programmes(_rename) "
    "(re-numbering audioContents / audioProgrammes with distinct ids: the same result - items in the same order with "
    "the index renamed, or the same error); chna_only_all_tracks, no_programme_all_roots. "
    "select_perm_comps: re-ordering an audioObject's complementary-object reference list gives the SAME result "
    "(equal items in the same order, or the same error; _select_complementary_objects looks at a group only through "
    "membership tests and a count). "
    "PARTIAL: (a) each kind of re-declaration has its own theorem (select_perm_partial is named _partial because it "
    "covers the content-part child lists only); they are one-directional (success of the original => success of "
    "the re-declared document with permuted items) except select_perm_formats and select_perm_comps, and they cannot "
    "be chained into one theorem for an arbitrary simultaneous re-declaration: that refsInRange / multitreeOK / "
    "NoDupRefs of the permuted document hold again is not proved. NOT covered by any theorem (correspondence + "
    "search only): re-ordering the sub-pack reference list of an audioPackFormat, the channel-reference list of a "
    "non-HOA audioPackFormat, the alternativeValueSet lists (getAvs takes the LAST match), a Matrix block's "
    "coefficient list and a pack's encodePackFormats; (b) the error branch does not classify the non-allocation errors "
    "further (that OutputOK / PackItemsOK hold on validated documents - i.e. that such errors cannot happen - is C14's "
    "no-internal-error property, proved there for its own model and not transported here). "
    "The model is tied to the code "
    "on every run: generated scenes (incl. Matrix packs, ambiguous/conflicting allocations, channel-less packs) are "
    "built as real ADM documents, serialised by index to the Lean driver, and canonical items (incl. nested track "
    "specs; block formats and extra data read through metadata_source.get_next_block() after selection returned) "
    "compared in order for the document and 3 re-declarations; multitreeOK / wrappedNonempty are compared with "
    "_validate_pack_channel_multitree / the real AllocationPacks, and the C14 model's validateMultitree / "
    "validateStructure evaluated on toDoc of the same serialised document with the real "
    "_validate_pack_channel_multitree / validate_structure (also on injected diamonds, pack loops, channel-less packs, "
    "audioObject loops, duplicated alternativeValueSet references, an HOA channel with another normalization); "
    "every R request of the driver runs Adm.selectValidated (Model/SelectValidated.lean: the left-hand side of "
    "select_ok_iff = C14 model of validate_structure on toDoc, then the selection), also for documents that "
    "validation rejects: compared with the real select_rendering_items are then the stage and the function "
    "containing the raise statement (AdmKind.site vs the innermost traceback frame; counts agree-error:validate:* in "
    "the evidence); Matrix block attribute faults are not injected here (C14's injector covers them); "
    "the direct predicate compares the real items with "
    "an independent comprehension oracle and across re-declarations as multisets.",
    note="Trusted: Lean kernel; hand transliteration of select_items.py/utils.py/hoa.py/matrix.py + C07 allocator model "
    "+ C14 model of validate.py (Model/Validate.lean, tied to the code by the C14 check) + the translation toDoc "
    "between the two document models (Model/SelectItems.lean: invents nothing validation could reject - "
    "cartesian/equation/gainVar flags false, v2 allowed, every track UID has a track index; compared with the real "
    "validate_structure on every generated document) "
    "+ correspondence harness (index serialisation, canonicalisation, labels). Quantifier limits: references in "
    "range, distinct fixed-width programme ids. Imports "
    "Props/C07 (uniqueness), Props/C20 (matrix_pack_spec_meaning), Proofs/C14Empty (selectPackMapping_dropEmpty), "
    "Proofs/C14, Proofs/C14Matrix (mtDfs_ok, validateStructure_ok, matrixPackOk_of_struct) through Proofs/C06Doc.",
    technique="Lean 4 proof (list comprehension equalities, Nodup/Perm/Sublist, renaming equivariance with inverse "
    "transfer, C07 uniqueness, iff-"
    "characterisations of the helper functions, simulation between the C06 and C14 document models) about a "
    "transliterated model + differential correspondence with the "
    "real select_rendering_items / validate_structure + oracle search",
    design_ref="DESIGN.md section 4, C06",
)
