/-
Helper lemmas for the speakers-file part of C04 (`Model/FileRenderLayout.lean`).
-/
import Earverif.Model.FileRenderLayout
import Mathlib.Tactic.Linarith
import Mathlib.Tactic.Ring
import Mathlib.Algebra.Order.Ring.Rat
import Mathlib.Algebra.Order.Floor.Ring

namespace Earverif.FileRenderLayout
open Earverif.FileRender

/-! ### `mapE` -/

theorem mapE_ok_length {α β : Type} (f : α → R β) : ∀ (xs : List α) (ys : List β),
    mapE f xs = .ok ys → ys.length = xs.length := by
  intro xs
  induction xs with
  | nil => intro ys h; simp [mapE] at h; subst h; rfl
  | cons x xs ih =>
    intro ys h
    simp only [mapE] at h
    split at h
    · cases h
    · split at h
      · cases h
      · rename_i y _ ys' hys
        cases h
        simp [ih ys' hys]

theorem mapE_ok_get {α β : Type} (f : α → R β) : ∀ (xs : List α) (ys : List β),
    mapE f xs = .ok ys → ∀ i (h : i < xs.length) (h' : i < ys.length), f xs[i] = .ok ys[i] := by
  intro xs
  induction xs with
  | nil => intro ys _ i h; simp at h
  | cons x xs ih =>
    intro ys h i hi hi'
    simp only [mapE] at h
    split at h
    · cases h
    · rename_i y hy
      split at h
      · cases h
      · rename_i ys' hys
        cases h
        cases i with
        | zero => simpa using hy
        | succ i => simpa using ih ys' hys i (by simpa using hi) (by simpa using hi')

theorem mapE_ok_mem {α β : Type} (f : α → R β) : ∀ (xs : List α) (ys : List β),
    mapE f xs = .ok ys → ∀ x ∈ xs, ∃ y ∈ ys, f x = .ok y := by
  intro xs
  induction xs with
  | nil => intro ys _ x hx; simp at hx
  | cons x xs ih =>
    intro ys h x' hx'
    simp only [mapE] at h
    split at h
    · cases h
    · rename_i y hy
      split at h
      · cases h
      · rename_i ys' hys
        cases h
        rcases List.mem_cons.mp hx' with rfl | hm
        · exact ⟨y, by simp, hy⟩
        · obtain ⟨y', hy', e⟩ := ih ys' hys x' hm
          exact ⟨y', by simp [hy'], e⟩

/-- `mapE` fails exactly when some element fails (the first failing one decides the error). -/
theorem mapE_error_iff {α β : Type} (f : α → R β) : ∀ (xs : List α),
    (∃ e, mapE f xs = .error e) ↔ ∃ x ∈ xs, ∃ e, f x = .error e := by
  intro xs
  induction xs with
  | nil => simp [mapE]
  | cons x xs ih =>
    simp only [mapE, List.mem_cons, exists_eq_or_imp]
    cases hfx : f x with
    | error e => simp
    | ok y =>
      cases hm : mapE f xs with
      | error e =>
        have := ih.mp ⟨e, hm⟩
        simp [this]
      | ok ys =>
        have h1 : ¬ ∃ x ∈ xs, ∃ e, f x = .error e := by
          intro hx; obtain ⟨e, he⟩ := ih.mpr hx; rw [hm] at he; cases he
        simp [h1]

/-! ### `with_speakers` -/

/-- What a successful `with_speakers` consists of. -/
theorem withSpeakers_ok {chans : List Channel} {sp : List RSpeaker} {chans' : List Channel} {U : List (List Rat)}
    (h : withSpeakers chans sp = .ok (chans', U)) :
    ∃ cs cols, mapE (fun s => chanInt s.channel) sp = .ok cs ∧ cs ≠ [] ∧ 0 ≤ maxInt cs + 1 ∧
      mapE (column (maxInt cs + 1).toNat sp) chans = .ok cols ∧
      chans' = cols.map (·.2) ∧
      U = (List.range (maxInt cs + 1).toNat).map fun o => cols.map fun c => entryOf o c.1 := by
  unfold withSpeakers at h
  split at h
  · cases h
  · rename_i cs hcs
    split at h
    · cases h
    · rename_i hne
      simp only at h
      split at h
      · cases h
      · rename_i hout
        split at h
        · cases h
        · rename_i cols hcols
          cases h
          refine ⟨cs, cols, hcs, ?_, by omega, hcols, rfl, rfl⟩
          intro e; subst e; simp at hne

theorem maxInt_mem : ∀ (cs : List Int), cs ≠ [] → maxInt cs ∈ cs ∧ ∀ c ∈ cs, c ≤ maxInt cs := by
  intro cs
  induction cs with
  | nil => intro h; exact absurd rfl h
  | cons x xs ih =>
    intro _
    cases xs with
    | nil => simp [maxInt]
    | cons y ys =>
      have ih' := ih (by simp)
      simp only [maxInt]
      constructor
      · rcases max_choice x (maxInt (y :: ys)) with e | e
        · rw [e]; simp
        · rw [e]; exact List.mem_cons_of_mem _ ih'.1
      · intro c hc
        rcases List.mem_cons.mp hc with rfl | hc
        · exact le_max_left _ _
        · exact le_trans (ih'.2 c hc) (le_max_right _ _)

theorem pyIndex_lt {out : Nat} {c : Int} {row : Nat} (h : pyIndex out c = .ok row) : row < out := by
  unfold pyIndex at h
  split at h
  · cases h; omega
  · split at h
    · cases h; omega
    · cases h

theorem chanInt_ok {y : Y} {c : Int} (h : chanInt y = .ok c) : y = .int c := by
  cases y <;> simp [chanInt] at h
  subst h; rfl

/-- One iteration of the loop of `with_speakers`. -/
theorem column_ok {out : Nat} {sp : List RSpeaker} {ch : Channel} {r : Option (Nat × Rat) × Channel}
    (h : column out sp ch = .ok r) :
    (findRSpeaker sp ch.name = none ∧ r = (none, ch)) ∨
    ∃ s c row g, findRSpeaker sp ch.name = some s ∧ s.channel = .int c ∧ pyIndex out c = .ok row ∧
      gainValue s.gain = .ok g ∧
      r = (some (row, g), match s.pos with
        | some p => { ch with pos := p }
        | none => ch) := by
  unfold column at h
  split at h
  · rename_i hf; cases h; exact Or.inl ⟨hf, rfl⟩
  · rename_i s hf
    split at h
    · cases h
    · rename_i c hc
      split at h
      · cases h
      · rename_i row hrow
        split at h
        · cases h
        · rename_i g hg
          cases h
          exact Or.inr ⟨s, c, row, g, hf, chanInt_ok hc, hrow, hg, rfl⟩

theorem nonzeroIdx_length : ∀ (v : List Rat), (nonzeroIdx v).length = nnz v := by
  intro v
  unfold nonzeroIdx nnz
  induction v with
  | nil => simp
  | cons x xs ih =>
    rw [List.length_cons, List.range_succ_eq_map, List.filter_cons, List.filter_map, List.countP_cons]
    have e : ((fun j => (x :: xs).getD j 0 != 0) ∘ Nat.succ) = fun j => xs.getD j 0 != 0 := by
      funext j; simp
    rw [e]
    simp only [List.getD_eq_getElem?_getD] at ih
    by_cases hx : x = 0
    · simp [hx, ih]
    · simp [hx, ih]

theorem colOf_eq_entries (U : List (List Rat)) (i : Nat) :
    colOf U i = (List.range U.length).map fun o => entry U o i := by
  apply List.ext_getElem
  · simp [colOf]
  · intro o h1 h2
    have ho : o < U.length := by simpa [colOf] using h1
    simp [colOf, entry, List.getD, ho]

theorem countP_single (g : Rat) (row : Nat) : ∀ n : Nat,
    (List.range n).countP (fun o => (if o = row then g else 0) != 0) = if row < n ∧ g ≠ 0 then 1 else 0 := by
  intro n
  induction n with
  | zero => simp
  | succ n ih =>
    rw [List.range_succ, List.countP_append, ih]
    by_cases hg : g = 0
    · simp [hg]
    · by_cases h1 : row < n
      · have : ¬ n = row := by omega
        have h2 : row < n + 1 := by omega
        simp [h1, h2, hg, this]
      · by_cases h3 : n = row
        · subst h3; simp [hg]
        · have h2 : ¬ row < n + 1 := by omega
          simp [h1, h2, h3]

theorem names_bridge (name : String) : ∀ (ys : List Y),
    (ys.filterMap (fun | .str n => some n | _ => none)).contains name = ys.any (Y.isStr name) := by
  intro ys
  induction ys with
  | nil => simp
  | cons y ys ih =>
    cases y with
    | str n =>
      simp only [List.filterMap_cons, List.contains_cons, List.any_cons, Y.isStr, ih]
      by_cases hn : n = name
      · subst hn; simp
      · have : ¬ name = n := fun e => hn e.symm
        have e1 : (name == n) = false := by simpa using this
        have e2 : (n == name) = false := by simpa using hn
        rw [e1, e2]
    | _ => simp only [List.filterMap_cons, List.any_cons, Y.isStr, ih, Bool.false_or]

theorem toSpeaker_spec {s : RSpeaker} {s' : Speaker} (h : toSpeaker s = some s') :
    ∃ c g, s.channel = .int c ∧ 0 ≤ c ∧ gainValue s.gain = .ok g ∧ s'.channel = c.toNat ∧ s'.gain = g ∧
      ∀ name, s'.names.contains name = s.names.any (Y.isStr name) := by
  unfold toSpeaker at h
  split at h
  · rename_i c g hc hg
    split at h
    · rename_i h0
      cases h
      refine ⟨c, g, hc, h0, hg, rfl, rfl, ?_⟩
      intro name
      exact names_bridge name s.names
    · cases h
  · cases h

theorem find_bridge (name : String) : ∀ (sp : List RSpeaker) (sp' : List Speaker), toSpeakers sp = some sp' →
    (findRSpeaker sp name = none ∧ findSpeaker sp' name = none) ∨
    ∃ s s', findRSpeaker sp name = some s ∧ findSpeaker sp' name = some s' ∧ toSpeaker s = some s' := by
  intro sp
  induction sp with
  | nil => intro sp' h; simp [toSpeakers] at h; subst h; left; simp [findRSpeaker, findSpeaker]
  | cons s rest ih =>
    intro sp' h
    simp only [toSpeakers] at h
    split at h
    · rename_i s' rest' hs hr
      cases h
      obtain ⟨c, g, _, _, _, _, _, hn⟩ := toSpeaker_spec hs
      by_cases hm : s.names.any (Y.isStr name) = true
      · right
        refine ⟨s, s', ?_, ?_, hs⟩
        · simp [findRSpeaker, hm]
        · simp only [findSpeaker, List.find?_cons, hn name, hm]
      · have hm' : s.names.any (Y.isStr name) = false := by simpa using hm
        rcases ih rest' hr with ⟨a, b⟩ | ⟨t, t', a, b, c⟩
        · left
          constructor
          · simp only [findRSpeaker, List.find?_cons, hm'] at a ⊢; exact a
          · simp only [findSpeaker, List.find?_cons, hn name, hm'] at b ⊢; exact b
        · right
          refine ⟨t, t', ?_, ?_, c⟩
          · simp only [findRSpeaker, List.find?_cons, hm'] at a ⊢; exact a
          · simp only [findSpeaker, List.find?_cons, hn name, hm'] at b ⊢; exact b
    · cases h

theorem chans_bridge : ∀ (sp : List RSpeaker) (sp' : List Speaker) (cs : List Int), toSpeakers sp = some sp' →
    mapE (fun s => chanInt s.channel) sp = .ok cs → cs = sp'.map (fun s => Int.ofNat s.channel) := by
  intro sp
  induction sp with
  | nil => intro sp' cs h1 h2; simp [toSpeakers] at h1; simp [mapE] at h2; subst h1; subst h2; rfl
  | cons s rest ih =>
    intro sp' cs h1 h2
    simp only [toSpeakers] at h1
    split at h1
    · rename_i s' rest' hs hr
      cases h1
      obtain ⟨c, g, hc, h0, _, hch, _, _⟩ := toSpeaker_spec hs
      simp only [mapE, hc, chanInt] at h2
      split at h2
      · cases h2
      · rename_i cs' hcs'
        cases h2
        rw [ih rest' cs' hr hcs']
        simp [hch, Int.toNat_of_nonneg h0]
    · cases h1

theorem foldl_max_eq (ns : List Nat) : ∀ a : Nat, ns.foldl max a = max a (ns.foldl max 0) := by
  induction ns with
  | nil => intro a; simp
  | cons n ns ih =>
    intro a
    simp only [List.foldl_cons]
    rw [ih (max a n), ih (max 0 n)]
    simp [max_assoc]

theorem foldl_max_cons (n : Nat) (ns : List Nat) : (n :: ns).foldl max 0 = max n (ns.foldl max 0) := by
  simp only [List.foldl_cons]
  rw [foldl_max_eq ns (max 0 n)]
  simp

theorem maxInt_cast : ∀ (ns : List Nat), ns ≠ [] →
    maxInt (List.map Int.ofNat ns) = Int.ofNat (ns.foldl max 0) := by
  intro ns
  induction ns with
  | nil => intro h; exact absurd rfl h
  | cons n ns ih =>
    intro _
    cases ns with
    | nil => simp [maxInt]
    | cons m ms =>
      have ih' := ih (by simp)
      rw [foldl_max_cons n (m :: ms)]
      simp only [List.map_cons, maxInt] at ih' ⊢
      rw [ih']
      simp only [Int.ofNat_eq_natCast]
      push_cast
      rfl

/-- Every successful `parse_yaml_screen` of a non-null value yields a screen. -/
theorem parseScreen_some {v : Y} {r : Option Screen} (h : parseScreen v = .ok r) (hv : v ≠ .null) :
    ∃ s, r = some s := by
  unfold parseScreen at h
  split at h
  · exact absurd rfl hv
  · repeat' (split at h)
    all_goals first | (cases h; exact ⟨_, rfl⟩) | cases h
  · cases h

theorem eye_row (n o : Nat) (_ho : o < n) :
    ((List.range n).map fun i => if i = o then (1 : Rat) else 0) = (List.replicate n (0 : Rat)).set o 1 := by
  apply List.ext_getElem
  · simp
  · intro i h1 h2
    have hi : i < n := by simpa using h1
    simp only [List.getElem_map, List.getElem_range, List.getElem_set, List.getElem_replicate]
    by_cases h : o = i
    · subst h; simp
    · have : ¬ i = o := fun e => h e.symm
      simp [h, this]

theorem turns_spec (d : Rat) : d < 360 * (turns d : Rat) := by
  unfold turns
  have h1 := Rat.lt_floor_add_one (d / 360)
  have h2 : ((d / 360).floor : Rat) ≤ (((d / 360).floor.toNat : Nat) : Rat) := by
    have : (d / 360).floor ≤ ((d / 360).floor.toNat : Int) := Int.self_le_toNat _
    exact_mod_cast this
  push_cast
  have h3 : d / 360 < ((d / 360).floor.toNat : Rat) + 1 := by push_cast at h1; linarith
  have : d = d / 360 * 360 := by ring
  linarith

theorem loopUp_spec (s : Rat) : ∀ (f : Nat) (x : Rat), s - x < 360 * (f : Rat) →
    s ≤ loopUp s f x ∧ (s ≤ x → loopUp s f x = x) ∧ (x < s → loopUp s f x < s + 360) ∧
    ∃ k : Nat, loopUp s f x = x + 360 * (k : Rat) := by
  intro f
  induction f with
  | zero =>
    intro x h
    have : s < x := by simp at h; linarith
    exact ⟨by simp [loopUp]; linarith, fun _ => rfl, fun h' => by linarith, 0, by simp [loopUp]⟩
  | succ f ih =>
    intro x h
    simp only [loopUp]
    by_cases hx : x < s
    · rw [if_pos hx]
      obtain ⟨a, b, c, k, d⟩ := ih (x + 360) (by push_cast at h; linarith)
      refine ⟨a, fun h' => by linarith, fun _ => ?_, k + 1, by rw [d]; push_cast; ring⟩
      by_cases h2 : s ≤ x + 360
      · rw [b h2]; linarith
      · exact c (by linarith)
    · rw [if_neg hx]
      exact ⟨by linarith, fun _ => rfl, fun h' => absurd h' hx, 0, by simp⟩

theorem loopDown_strict_spec (s : Rat) : ∀ (f : Nat) (x : Rat), x - s < 360 * (f : Rat) →
    loopDown true s f x - 360 ≤ s ∧ (x - 360 ≤ s → loopDown true s f x = x) ∧ (s ≤ x → s ≤ loopDown true s f x) ∧
    ∃ k : Nat, loopDown true s f x = x - 360 * (k : Rat) := by
  intro f
  induction f with
  | zero =>
    intro x h
    have : x < s := by simp at h; linarith
    exact ⟨by simp [loopDown]; linarith, fun _ => rfl, fun h' => by simpa [loopDown] using h', 0, by simp [loopDown]⟩
  | succ f ih =>
    intro x h
    simp only [loopDown, if_true]
    by_cases hx : s < x - 360
    · rw [if_pos hx]
      obtain ⟨a, b, c, k, d⟩ := ih (x - 360) (by push_cast at h; linarith)
      exact ⟨a, fun h' => by linarith, fun _ => c (by linarith), k + 1, by rw [d]; push_cast; ring⟩
    · rw [if_neg hx]
      exact ⟨by linarith, fun _ => rfl, fun h' => h', 0, by simp⟩

theorem loopDown_weak_spec (s : Rat) : ∀ (f : Nat) (x : Rat), x - s < 360 * (f : Rat) →
    loopDown false s f x - 360 < s ∧ (x - 360 < s → loopDown false s f x = x) ∧ (s ≤ x → s ≤ loopDown false s f x) ∧
    ∃ k : Nat, loopDown false s f x = x - 360 * (k : Rat) := by
  intro f
  induction f with
  | zero =>
    intro x h
    have : x < s := by simp at h; linarith
    exact ⟨by simp [loopDown]; linarith, fun _ => rfl, fun h' => by simpa [loopDown] using h', 0, by simp [loopDown]⟩
  | succ f ih =>
    intro x h
    simp only [loopDown, Bool.false_eq_true, if_false]
    by_cases hx : s ≤ x - 360
    · rw [if_pos hx]
      obtain ⟨a, b, c, k, d⟩ := ih (x - 360) (by push_cast at h; linarith)
      exact ⟨a, fun h' => by linarith, fun _ => c hx, k + 1, by rw [d]; push_cast; ring⟩
    · rw [if_neg hx]
      exact ⟨by linarith, fun _ => rfl, fun h' => h', 0, by simp⟩

/-- The angle `x` brought into `[start, start + 360)` by whole turns. -/
theorem normX_spec (s x : Rat) : s ≤ normX s x ∧ normX s x < s + 360 ∧ ∃ k : Int, normX s x = x + 360 * (k : Rat) := by
  unfold normX
  obtain ⟨a1, b1, c1, k1, d1⟩ := loopDown_weak_spec s (turns (x - s)) x (turns_spec _)
  generalize loopDown false s (turns (x - s)) x = x1 at *
  obtain ⟨a2, b2, c2, k2, d2⟩ := loopUp_spec s (turns (s - x1)) x1 (turns_spec _)
  refine ⟨a2, ?_, (k2 : Int) - (k1 : Int), by rw [d2, d1]; push_cast; ring⟩
  by_cases h : s ≤ x1
  · rw [b2 h]; linarith
  · exact c2 (by linarith)

/-- The end of the range brought into `[start, start + 360]` by whole turns; unchanged when already there. -/
theorem normEnd_spec (s e : Rat) : s ≤ normEnd s e ∧ normEnd s e ≤ s + 360 ∧
    (∃ k : Int, normEnd s e = e + 360 * (k : Rat)) ∧ (s ≤ e → e ≤ s + 360 → normEnd s e = e) := by
  unfold normEnd
  obtain ⟨a1, b1, c1, k1, d1⟩ := loopDown_strict_spec s (turns (e - s)) e (turns_spec _)
  generalize loopDown true s (turns (e - s)) e = e1 at *
  obtain ⟨a2, b2, c2, k2, d2⟩ := loopUp_spec s (turns (s - e1)) e1 (turns_spec _)
  refine ⟨a2, ?_, ⟨(k2 : Int) - (k1 : Int), by rw [d2, d1]; push_cast; ring⟩, ?_⟩
  · by_cases h : s ≤ e1
    · rw [b2 h]; linarith
    · have := c2 (by linarith); linarith
  · intro h1 h2
    have : e1 = e := b1 (by linarith)
    subst this
    exact b2 h1

end Earverif.FileRenderLayout
