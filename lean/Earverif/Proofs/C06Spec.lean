/-
C06: semantic lemmas for the helper functions of the selection model (`Model/SelectItems.lean`) — what
`get_path_param`, `get_single_param`, `min(.., key=None->inf)`, the `hoa.py` getters,
`_get_alternativeValueSet`, `channel_format_for_track_uid`, `wrap_matrix_pack`, `_get_pack_format_path` and
`output_channel_allocation` return, stated without reference to how they compute it.  Used by
`itemsOfState_spec` in `Props/C06.lean`.  Core Lean only.
-/
import Earverif.Proofs.C06Matrix

namespace Earverif.Adm
open Earverif.TrackSpec (MChan packSpec)

/-! ### `get_path_param` -/

/-- the first value that is set. -/
def firstSome {β : Type} (l : List (Option β)) : Option β := (l.filterMap id).head?

theorem mem_filterMap_id {β : Type} {l : List (Option β)} {x : β} : x ∈ l.filterMap id ↔ some x ∈ l := by
  simp [List.mem_filterMap]

/-- **getPathParam_ok_iff**: `get_path_param` returns `v` exactly when every value that is set along the path
equals `v` and `v` is set somewhere (or nothing is set and `v = None`); it raises when two set values differ. -/
theorem getPathParam_ok_iff {β : Type} [DecidableEq β] (vals : List (Option β)) (v : Option β) :
    getPathParam vals = .ok v ↔ (∀ x, some x ∈ vals → v = some x) ∧ (∀ x, v = some x → some x ∈ vals) := by
  unfold getPathParam
  cases hfm : vals.filterMap id with
  | nil =>
    have hno : ∀ x, some x ∉ vals := by
      intro x hx
      have := mem_filterMap_id.2 hx
      rw [hfm] at this; cases this
    simp only [Except.ok.injEq]
    constructor
    · intro h; subst h
      exact ⟨fun x hx => absurd hx (hno x), fun x hx => by cases hx⟩
    · rintro ⟨_, h2⟩
      cases v with
      | none => rfl
      | some x => exact absurd (h2 x rfl) (hno x)
  | cons x rest =>
    have hmem : ∀ y, some y ∈ vals ↔ y = x ∨ y ∈ rest := by
      intro y
      rw [← mem_filterMap_id, hfm, List.mem_cons]
    simp only
    split
    · rename_i hany
      simp only [List.any_eq_true, bne_iff_ne, ne_eq] at hany
      obtain ⟨y, hy, hne⟩ := hany
      simp only [reduceCtorEq, false_iff, not_and]
      intro h1 _
      have e1 := h1 x ((hmem x).2 (Or.inl rfl))
      have e2 := h1 y ((hmem y).2 (Or.inr hy))
      rw [e1] at e2
      exact hne (Option.some.inj e2).symm
    · rename_i hany
      simp only [List.any_eq_true, bne_iff_ne, ne_eq, not_exists, not_and, Decidable.not_not] at hany
      simp only [Except.ok.injEq]
      constructor
      · intro h; subst h
        refine ⟨fun y hy => ?_, fun y hy => ?_⟩
        · rcases (hmem y).1 hy with rfl | hr
          · rfl
          · rw [hany y hr]
        · cases hy; exact (hmem x).2 (Or.inl rfl)
      · rintro ⟨h1, _⟩
        exact (h1 x ((hmem x).2 (Or.inl rfl))).symm

theorem getPathParam_eq_firstSome {β : Type} [DecidableEq β] {vals : List (Option β)} {v : Option β}
    (h : getPathParam vals = .ok v) : v = firstSome vals := by
  unfold getPathParam at h
  unfold firstSome
  cases hfm : vals.filterMap id with
  | nil => simp only [hfm] at h; cases h; rfl
  | cons x rest =>
    simp only [hfm] at h
    split at h
    · cases h
    · cases h; rfl

/-! ### `get_single_param` -/

theorem checkPairs_and_head {α β : Type} [DecidableEq β] (f : α → Except Err β) (v : β) :
    ∀ (t : List α) (a : α), (checkPairs f (a :: t) = .ok () ∧ f a = .ok v) ↔ ∀ x ∈ a :: t, f x = .ok v
  | [], a => by simp [checkPairs]
  | b :: rest, a => by
    have ih := checkPairs_and_head f v rest b
    simp only [checkPairs]
    constructor
    · rintro ⟨hc, ha⟩
      rw [ha] at hc
      simp only at hc
      cases hb : f b with
      | error e => simp [hb] at hc
      | ok y =>
        simp only [hb] at hc
        split at hc
        · cases hc
        · rename_i hxy
          have : v = y := by simpa using hxy
          subst this
          intro x hx
          rcases List.mem_cons.1 hx with rfl | hx
          · exact ha
          · exact ih.1 ⟨hc, hb⟩ x hx
    · intro hall
      have ha := hall a (List.mem_cons_self ..)
      have hb := hall b (List.mem_cons_of_mem _ (List.mem_cons_self ..))
      have hrest := ih.2 fun x hx => hall x (List.mem_cons_of_mem _ hx)
      simp [ha, hb, hrest.1]

/-- **getSingleParam_ok_iff**: `get_single_param` returns `v` exactly when there is at least one channel and
the getter returns `v` for every channel; differing values raise ("must share the same ..."). -/
theorem getSingleParam_ok_iff {α β : Type} [DecidableEq β] (l : List α) (f : α → Except Err β) (v : β) :
    getSingleParam l f = .ok v ↔ l ≠ [] ∧ ∀ x ∈ l, f x = .ok v := by
  unfold getSingleParam
  cases l with
  | nil => simp [checkPairs]
  | cons a t =>
    have := checkPairs_and_head f v t a
    simp only [ne_eq, reduceCtorEq, not_false_eq_true, true_and]
    rw [← this]
    cases hc : checkPairs f (a :: t) with
    | error e => simp
    | ok u => cases u; simp

/-! ### `min(values, key=importance_sort_key)` -/

theorem impLe_trans {a b c : Option Int} (h1 : impLt b a = false) (h2 : impLt c b = false) : impLt c a = false := by
  cases a <;> cases b <;> cases c <;> simp [impLt] at h1 h2 ⊢ <;> omega

theorem impLe_of_lt {a b : Option Int} (h : impLt a b = true) : impLt b a = false := by
  cases a <;> cases b <;> simp [impLt] at h ⊢ <;> omega

theorem impLe_refl (a : Option Int) : impLt a a = false := by cases a <;> simp [impLt]

theorem minImp_cons (x : Option Int) (xs : List (Option Int)) :
    minImp (x :: xs) = xs.foldl (fun best y => if impLt y best then y else best) x := rfl

theorem minImp_foldl (ys : List (Option Int)) : ∀ (best : Option Int),
    let r := ys.foldl (fun best y => if impLt y best then y else best) best
    (r = best ∨ r ∈ ys) ∧ impLt best r = false ∧ ∀ y ∈ ys, impLt y r = false := by
  induction ys with
  | nil => intro best; exact ⟨Or.inl rfl, impLe_refl best, fun _ h => by cases h⟩
  | cons y ys ih =>
    intro best
    simp only [List.foldl_cons]
    obtain ⟨h1, h2, h3⟩ := ih (if impLt y best then y else best)
    generalize ys.foldl (fun best y => if impLt y best then y else best) (if impLt y best then y else best) = r at h1 h2 h3
    by_cases hlt : impLt y best = true
    · simp only [hlt, if_true] at h1 h2
      refine ⟨?_, impLe_trans h2 (impLe_of_lt hlt), ?_⟩
      · rcases h1 with h1 | h1
        · right; rw [h1]; exact List.mem_cons_self ..
        · right; exact List.mem_cons_of_mem _ h1
      · intro z hz
        rcases List.mem_cons.1 hz with rfl | hz
        · exact h2
        · exact h3 z hz
    · have hge : impLt y best = false := by simpa using hlt
      simp only [hge, Bool.false_eq_true, if_false] at h1 h2
      refine ⟨?_, h2, ?_⟩
      · rcases h1 with h1 | h1
        · left; exact h1
        · right; exact List.mem_cons_of_mem _ h1
      · intro z hz
        rcases List.mem_cons.1 hz with rfl | hz
        · exact impLe_trans h2 hge
        · exact h3 z hz

/-- **minImp_spec** (1): the result is a numeric importance exactly when it occurs in the list and no
importance in the list is lower. -/
theorem minImp_eq_some_iff (l : List (Option Int)) (m : Int) :
    minImp l = some m ↔ some m ∈ l ∧ ∀ k, some k ∈ l → m ≤ k := by
  cases l with
  | nil => simp [minImp]
  | cons x xs =>
    rw [minImp_cons]
    obtain ⟨h1, h2, h3⟩ := minImp_foldl xs x
    generalize xs.foldl (fun best y => if impLt y best then y else best) x = r at h1 h2 h3
    have hall : ∀ y ∈ x :: xs, impLt y r = false := by
      intro y hy
      rcases List.mem_cons.1 hy with rfl | hy
      · exact h2
      · exact h3 y hy
    have hmem : r ∈ x :: xs := by
      rcases h1 with rfl | h1
      · exact List.mem_cons_self ..
      · exact List.mem_cons_of_mem _ h1
    constructor
    · intro hr; subst hr
      refine ⟨hmem, fun k hk => ?_⟩
      have := hall _ hk
      simpa [impLt] using this
    · rintro ⟨hm, hle⟩
      have hm' := hall _ hm
      cases r with
      | none => simp [impLt] at hm'
      | some k =>
        have := hle k hmem
        simp only [impLt, decide_eq_false_iff_not, Int.not_lt] at hm'
        have : k = m := by omega
        rw [this]

/-- **minImp_spec** (2): the result is `None` exactly when no importance is set anywhere in the list
(`None` counts as +∞, so any number wins over it). -/
theorem minImp_eq_none_iff (l : List (Option Int)) : minImp l = none ↔ ∀ y ∈ l, y = none := by
  constructor
  · intro h y hy
    cases y with
    | none => rfl
    | some k =>
      exfalso
      cases l with
      | nil => cases hy
      | cons x xs =>
        rw [minImp_cons] at h
        obtain ⟨_, h2, h3⟩ := minImp_foldl xs x
        rw [h] at h2 h3
        have : impLt (some k) none = false := by
          rcases List.mem_cons.1 hy with hx | hy
          · rw [hx]; exact h2
          · exact h3 _ hy
        simp [impLt] at this
  · intro h
    cases hm : minImp l with
    | none => rfl
    | some m =>
      have := ((minImp_eq_some_iff l m).1 hm).1
      cases h _ this

/-- **minImp_spec**: `minImp` is the minimum of the list with `None` treated as +∞. -/
theorem minImp_spec (l : List (Option Int)) :
    (∀ m, minImp l = some m ↔ some m ∈ l ∧ ∀ k, some k ∈ l → m ≤ k) ∧
    (minImp l = none ↔ ∀ y ∈ l, y = none) :=
  ⟨minImp_eq_some_iff l, minImp_eq_none_iff l⟩

/-! ### `_get_pack_format_path` -/

/-- the audioPackFormat path from `p` to the pack that lists channel `ch`: the first such path (in a
document that passes the multitree check there is at most one). -/
def thePackPath (f : Formats) (p ch : Nat) : List Nat :=
  ((packPathsFrom f p).filter fun path => (f.pack (path.getLastD 0)).channels.contains ch).headD []

/-- **getPackFormatPath_ok_iff**: `_get_pack_format_path` returns `pp` exactly when `pp` is the one and only
pack path from `p` whose last pack lists the channel; no such path or several raise (`[found_path] = ...`). -/
theorem getPackFormatPath_ok_iff (f : Formats) (p ch : Nat) (pp : List Nat) :
    getPackFormatPath f p ch = .ok pp ↔
      (packPathsFrom f p).filter (fun path => (f.pack (path.getLastD 0)).channels.contains ch) = [pp] := by
  unfold getPackFormatPath
  split
  · rename_i q hq
    rw [hq]
    simp only [Except.ok.injEq, List.cons.injEq, and_true]
  · rename_i hne
    simp only [reduceCtorEq, false_iff]
    intro h
    exact hne pp h

theorem getPackFormatPath_eq {f : Formats} {p ch : Nat} {pp : List Nat} (h : getPackFormatPath f p ch = .ok pp) :
    pp = thePackPath f p ch ∧ pp ∈ packPathsFrom f p ∧ ch ∈ (f.pack (pp.getLastD 0)).channels ∧
      ∀ q ∈ packPathsFrom f p, ch ∈ (f.pack (q.getLastD 0)).channels → q = pp := by
  have hf := (getPackFormatPath_ok_iff f p ch pp).1 h
  have hmem : pp ∈ (packPathsFrom f p).filter (fun path => (f.pack (path.getLastD 0)).channels.contains ch) := by
    rw [hf]; exact List.mem_singleton.2 rfl
  rw [List.mem_filter] at hmem
  refine ⟨by unfold thePackPath; rw [hf]; rfl, hmem.1, by simpa using hmem.2, fun q hq hc => ?_⟩
  have : q ∈ (packPathsFrom f p).filter (fun path => (f.pack (path.getLastD 0)).channels.contains ch) :=
    List.mem_filter.2 ⟨hq, by simpa using hc⟩
  rw [hf] at this
  exact List.mem_singleton.1 this

/-- for a channel of a regular `AllocationPack` the path found by `_get_pack_format_path` is the
`pack_formats` of that `AllocationChannel`. -/
theorem getPackFormatPath_of_slot {f : Formats} {p : Nat} {s : List Nat × Nat} (hs : s ∈ slots f p) {pp : List Nat}
    (h : getPackFormatPath f p s.2 = .ok pp) : pp = s.1 := by
  simp only [slots, List.mem_flatMap, List.mem_map] at hs
  obtain ⟨path, hpath, c, hc, rfl⟩ := hs
  exact ((getPackFormatPath_eq h).2.2.2 path hpath hc).symm

/-! ### `_PackAllocator.get_track_spec`, `output_channel_allocation` -/

/-- the track spec of an allocation entry: the track's CHNA track index (0-based) or silence. -/
def slotTrack (f : Formats) (uids : List Nat) : PackAlloc.Slot → TSpec
  | some (some t) => .direct (((f.uid (uids.getD t.id 0)).trackIndex : Int) - 1)
  | _ => .silent

/-- an allocation entry as the solutions of `allocate_packs` contain them: not `_EMPTY`, and a real track is
one of the selected audioTrackUIDs. -/
def SlotOK (uids : List Nat) : PackAlloc.Slot → Prop
  | none => False
  | some none => True
  | some (some t) => t.id < uids.length

theorem slotSpec_ok_iff (f : Formats) (uids : List Nat) (s : PackAlloc.Slot) (sp : TSpec) :
    slotSpec f uids s = .ok sp ↔ SlotOK uids s ∧ sp = slotTrack f uids s := by
  cases s with
  | none => simp [slotSpec, SlotOK]
  | some x =>
    cases x with
    | none => simp [slotSpec, SlotOK, slotTrack, eq_comm]
    | some t =>
      simp only [slotSpec, SlotOK, slotTrack]
      by_cases ht : t.id < uids.length
      · simp [List.getD_eq_getElem?_getD, ht, eq_comm]
      · simp [ht]

/-- the channel allocation of a regular pack (and the input allocation of a matrix pack). -/
def inputAlloc (f : Formats) (uids : List Nat) (al : PackAlloc.Allocated) : List (Nat × TSpec) :=
  al.allocation.map fun cs => (cs.1.cf, slotTrack f uids cs.2)

theorem mapE_slotEntry_ok_iff (f : Formats) (uids : List Nat) :
    ∀ (l : List (PackAlloc.Channel × PackAlloc.Slot)) (r : List (Nat × TSpec)),
      mapE (slotEntry f uids) l = .ok r ↔
        (∀ cs ∈ l, SlotOK uids cs.2) ∧ r = l.map fun cs => (cs.1.cf, slotTrack f uids cs.2)
  | [], r => by simp [mapE, eq_comm]
  | cs :: l, r => by
    have ih := mapE_slotEntry_ok_iff f uids l
    simp only [mapE, slotEntry, List.mem_cons, forall_eq_or_imp, List.map_cons]
    cases hs : slotSpec f uids cs.2 with
    | error e =>
      have : ¬ SlotOK uids cs.2 := fun hok => by
        have := (slotSpec_ok_iff f uids cs.2 _).2 ⟨hok, rfl⟩
        rw [hs] at this; cases this
      simp [this]
    | ok sp =>
      obtain ⟨hok, rfl⟩ := (slotSpec_ok_iff f uids cs.2 sp).1 hs
      simp only
      cases hl : mapE (slotEntry f uids) l with
      | error e =>
        simp only [reduceCtorEq, false_iff, not_and]
        intro ⟨_, hall⟩ hr
        have := (ih _).2 ⟨hall, rfl⟩
        rw [hl] at this; cases this
      | ok r' =>
        obtain ⟨hall, rfl⟩ := (ih r').1 hl
        simp only [Except.ok.injEq]
        constructor
        · intro h; exact ⟨⟨hok, hall⟩, h.symm⟩
        · intro h; exact h.2.symm

/-- the track spec of a matrix channel, declaratively: C20's `packSpec` of the channel tree. -/
def matrixTrack (f : Formats) (inputs : List (Nat × TSpec)) (mc : Nat) : TSpec :=
  match toMChan f inputs (f.channels.length + 1) mc with
  | some m => packSpec m
  | none => .silent

/-- the channel of the output pack that a matrix channel feeds. -/
def matrixOut (f : Formats) (mc : Nat) : Nat := ((f.chan mc).matrix.outputChannel).getD 0

theorem matrixEntry_ok_iff (f : Formats) (inputs : List (Nat × TSpec)) (mc : Nat) (r : Nat × TSpec) :
    matrixEntry f inputs mc = .ok r ↔
      ((f.chan mc).matrix.outputChannel ≠ none ∧ (toMChan f inputs (f.channels.length + 1) mc).isSome) ∧
        r = (matrixOut f mc, matrixTrack f inputs mc) := by
  unfold matrixEntry matrixOut matrixTrack
  cases hoc : (f.chan mc).matrix.outputChannel with
  | none => simp
  | some oc =>
    simp only [ne_eq, reduceCtorEq, not_false_eq_true, true_and, Option.getD_some]
    cases hm : matrixSpec f inputs (f.channels.length + 1) mc with
    | error e =>
      have : toMChan f inputs (f.channels.length + 1) mc = none := by
        cases ht : toMChan f inputs (f.channels.length + 1) mc with
        | none => rfl
        | some m =>
          have := (matrixSpec_ok_iff f inputs _ mc _).2 ⟨m, ht, rfl⟩
          rw [hm] at this; cases this
      simp [this]
    | ok s =>
      obtain ⟨m, htm, rfl⟩ := matrixSpec_eq_packSpec hm
      simp [htm, eq_comm]

theorem mapE_ok_iff_of_pointwise {α β : Type} [Inhabited β] {f : α → Except Err β} {P : α → Prop} {g : α → β}
    (hfg : ∀ x y, f x = .ok y ↔ P x ∧ y = g x) (l : List α) (r : List β) :
    mapE f l = .ok r ↔ (∀ x ∈ l, P x) ∧ r = l.map g := by
  rw [mapE_ok_iff]
  constructor
  · rintro ⟨hall, rfl⟩
    refine ⟨fun x hx => ?_, List.map_congr_left fun x hx => ?_⟩
    · obtain ⟨y, hy⟩ := hall x hx
      exact ((hfg x y).1 hy).1
    · obtain ⟨y, hy⟩ := hall x hx
      simp [okVal, hy, ((hfg x y).1 hy).2]
  · rintro ⟨hall, rfl⟩
    refine ⟨fun x hx => ⟨g x, (hfg x _).2 ⟨hall x hx, rfl⟩⟩, List.map_congr_left fun x hx => ?_⟩
    simp [okVal, (hfg x (g x)).2 ⟨hall x hx, rfl⟩]

/-- the output pack and channel allocation of an allocated pack, declaratively: a regular pack is
rendered as itself, each channel from the track allocated to it; a matrix pack renders its
`outputPackFormat`, the channel `outputChannelFormat` of every matrix channel from the matrix sum
`packSpec (toMChan ..)` over the input allocation. -/
def declOutput (f : Formats) (uids : List Nat) (al : PackAlloc.Allocated) : AllocPack :=
  if (f.pack al.pack.root).type ≠ 2 then ⟨al.pack.root, inputAlloc f uids al⟩
  else
    ⟨((f.pack al.pack.root).outputPack).getD 0,
     (f.pack al.pack.root).channels.map fun mc => (matrixOut f mc, matrixTrack f (inputAlloc f uids al) mc)⟩

/-- when `output_pack` / `output_channel_allocation` return (they raise nothing but "cannot happen"
errors): no `_EMPTY` entry, real tracks among the selected ones, and for a matrix pack an
`outputPackFormat`, an `outputChannelFormat` on every channel and a channel tree that bottoms out in the
input allocation. -/
def OutputOK (f : Formats) (uids : List Nat) (al : PackAlloc.Allocated) : Prop :=
  (∀ cs ∈ al.allocation, SlotOK uids cs.2) ∧
  ((f.pack al.pack.root).type = 2 →
    (f.pack al.pack.root).outputPack ≠ none ∧
    ∀ mc ∈ (f.pack al.pack.root).channels, (f.chan mc).matrix.outputChannel ≠ none ∧
      (toMChan f (inputAlloc f uids al) (f.channels.length + 1) mc).isSome)

/-- **outputOf_ok_iff**: `outputOf` (the model of `output_pack` + `output_channel_allocation`) returns
exactly the declarative `declOutput`, and fails only outside `OutputOK`. -/
theorem outputOf_ok_iff (f : Formats) (uids : List Nat) (al : PackAlloc.Allocated) (ap : AllocPack) :
    outputOf f uids al = .ok ap ↔ OutputOK f uids al ∧ ap = declOutput f uids al := by
  unfold outputOf OutputOK declOutput
  dsimp only
  cases hin : mapE (slotEntry f uids) al.allocation with
  | error e =>
    simp only [reduceCtorEq, false_iff, not_and]
    intro ⟨hall, _⟩
    have := (mapE_slotEntry_ok_iff f uids al.allocation _).2 ⟨hall, rfl⟩
    rw [hin] at this; cases this
  | ok inputs =>
    obtain ⟨hall, rfl⟩ := (mapE_slotEntry_ok_iff f uids al.allocation inputs).1 hin
    dsimp only
    by_cases hty : (f.pack al.pack.root).type ≠ 2
    · rw [if_pos hty, if_pos hty]
      simp only [Except.ok.injEq, inputAlloc]
      constructor
      · intro h; exact ⟨⟨hall, fun h2 => absurd h2 hty⟩, h.symm⟩
      · intro h; exact h.2.symm
    · have hty2 : (f.pack al.pack.root).type = 2 := by omega
      rw [if_neg hty, if_neg hty]
      simp only [hty2, forall_const]
      cases hout : (f.pack al.pack.root).outputPack with
      | none => simp
      | some out =>
        simp only [ne_eq, reduceCtorEq, not_false_eq_true, true_and, Option.getD_some]
        have hpt := mapE_ok_iff_of_pointwise (matrixEntry_ok_iff f (inputAlloc f uids al))
          (f.pack al.pack.root).channels
        simp only [inputAlloc] at hpt
        cases hm : mapE (matrixEntry f (al.allocation.map fun cs => (cs.1.cf, slotTrack f uids cs.2)))
            (f.pack al.pack.root).channels with
        | error e =>
          simp only [reduceCtorEq, false_iff, not_and]
          intro ⟨_, hmc⟩
          have := (hpt _).2 ⟨hmc, rfl⟩
          rw [hm] at this; cases this
        | ok al' =>
          obtain ⟨hmc, rfl⟩ := (hpt al').1 hm
          simp only [Except.ok.injEq, inputAlloc]
          constructor
          · intro h; exact ⟨⟨hall, hmc⟩, h.symm⟩
          · intro h; exact h.2.symm

/-! ### `_get_extra_data`, `hoa.py` getters, `_get_RenderingItems_*` -/

/-- the absoluteDistance values along a pack path. -/
def absDistAlong (f : Formats) (pp : List Nat) : List (Option Rat) := pp.map fun q => (f.pack q).absDist

/-- **getExtraData_ok_iff**: `_get_extra_data` returns exactly `extraOf` with the one absoluteDistance that
`get_single_param` finds for all channels. -/
theorem getExtraData_ok_iff (a : Adm) (st : State) (ppc : List (List Nat × Nat)) (ch : Option Nat) (e : Extra) :
    getExtraData a st ppc ch = .ok e ↔
      ∃ ad, getSingleParam ppc (fun pc => getPathParam (absDistAlong a.fmt pc.1)) = .ok ad ∧
        e = extraOf a st ch ad := by
  unfold getExtraData absDistAlong
  cases getSingleParam ppc (fun pc => getPathParam (pc.1.map fun p => (a.fmt.pack p).absDist)) with
  | error err => simp
  | ok ad => simp [eq_comm]

/-- the values of one HOA parameter along a pack path and on the channel's block format
(`hoa._get_pack_param`). -/
def hoaAlong {β : Type} (f : Formats) (ps : Pack → Option β) (bs : HoaBlock → Option β) (pc : List Nat × Nat) :
    List (Option β) :=
  pc.1.map (fun p => ps (f.pack p)) ++ [bs (f.chan pc.2).hoa]

theorem hoaPackParam_eq {β : Type} [DecidableEq β] (f : Formats) (ps : Pack → Option β) (bs : HoaBlock → Option β)
    (pc : List Nat × Nat) : hoaPackParam f ps bs pc = getPathParam (hoaAlong f ps bs pc) := rfl

/-- `hoa.get_normalization`: the normalization set on a pack of the path or on the block (all that are set
agree, else it raises), "SN3D" (label 0) if none is set. -/
theorem hoaNorm_ok_iff (f : Formats) (pc : List Nat × Nat) (n : Nat) :
    hoaNorm f pc = .ok n ↔
      ∃ v, getPathParam (hoaAlong f (·.normalization) (·.normalization) pc) = .ok v ∧ n = v.getD 0 := by
  unfold hoaNorm
  rw [hoaPackParam_eq]
  cases getPathParam (hoaAlong f (·.normalization) (·.normalization) pc) with
  | error e => simp
  | ok v => simp [eq_comm]

/-- `hoa.get_nfcRefDist`: as above, with 0.0 meaning "not set". -/
theorem hoaNfc_ok_iff (f : Formats) (pc : List Nat × Nat) (n : Option Rat) :
    hoaNfc f pc = .ok n ↔
      ∃ v, getPathParam (hoaAlong f (·.nfcRefDist) (·.nfcRefDist) pc) = .ok v ∧
        n = if v = some 0 then none else v := by
  unfold hoaNfc
  rw [hoaPackParam_eq]
  cases getPathParam (hoaAlong f (·.nfcRefDist) (·.nfcRefDist) pc) with
  | error e => simp
  | ok v => simp [eq_comm]

/-- `hoa.get_screenRef`: as above, default `False`. -/
theorem hoaSref_ok_iff (f : Formats) (pc : List Nat × Nat) (b : Bool) :
    hoaSref f pc = .ok b ↔
      ∃ v, getPathParam (hoaAlong f (·.screenRef) (·.screenRef) pc) = .ok v ∧ b = v.getD false := by
  unfold hoaSref
  rw [hoaPackParam_eq]
  cases getPathParam (hoaAlong f (·.screenRef) (·.screenRef) pc) with
  | error e => simp
  | ok v => simp [eq_comm]

/-- **hoaMetaOf_ok_iff**: the merged `HOATypeMetadata` exists exactly when the pack has a channel and all
channels agree on rtime, duration, normalization, nfcRefDist and screenRef (each found along the channel's
own pack path or block format); orders, degrees, gains and importances are listed per channel, in channel
order. -/
theorem hoaMetaOf_ok_iff (f : Formats) (ppc : List (List Nat × Nat)) (hm : HoaMeta) :
    hoaMetaOf f ppc = .ok hm ↔
      ppc ≠ [] ∧
      (∀ pc ∈ ppc, (f.chan pc.2).hoa.rtime = hm.rtime ∧ (f.chan pc.2).hoa.duration = hm.duration ∧
        hoaNorm f pc = .ok hm.normalization ∧ hoaNfc f pc = .ok hm.nfcRefDist ∧
        hoaSref f pc = .ok hm.screenRef) ∧
      hm.orders = ppc.map (fun pc => (f.chan pc.2).hoa.order) ∧
      hm.degrees = ppc.map (fun pc => (f.chan pc.2).hoa.degree) ∧
      hm.gains = ppc.map (fun pc => (f.chan pc.2).hoa.gain) ∧
      hm.importances = ppc.map (fun pc => (f.chan pc.2).hoa.importance) := by
  constructor
  · intro h
    unfold hoaMetaOf at h
    dsimp only at h
    split at h
    · cases h
    · rename_i rt h1
      split at h
      · cases h
      · rename_i du h2
        split at h
        · cases h
        · rename_i no h3
          split at h
          · cases h
          · rename_i nf h4
            split at h
            · cases h
            · rename_i sr h5
              cases h
              obtain ⟨hne, g1⟩ := (getSingleParam_ok_iff _ _ _).1 h1
              obtain ⟨_, g2⟩ := (getSingleParam_ok_iff _ _ _).1 h2
              obtain ⟨_, g3⟩ := (getSingleParam_ok_iff _ _ _).1 h3
              obtain ⟨_, g4⟩ := (getSingleParam_ok_iff _ _ _).1 h4
              obtain ⟨_, g5⟩ := (getSingleParam_ok_iff _ _ _).1 h5
              refine ⟨hne, fun pc hpc => ⟨?_, ?_, g3 pc hpc, g4 pc hpc, g5 pc hpc⟩, rfl, rfl, rfl, rfl⟩
              · exact Except.ok.inj (g1 pc hpc)
              · exact Except.ok.inj (g2 pc hpc)
  · rintro ⟨hne, hall, ho, hd, hg, hi⟩
    have g1 := (getSingleParam_ok_iff ppc (fun pc => (.ok (f.chan pc.2).hoa.rtime : Except Err (Option Rat))) hm.rtime).2
      ⟨hne, fun pc hpc => by rw [(hall pc hpc).1]⟩
    have g2 := (getSingleParam_ok_iff ppc (fun pc => (.ok (f.chan pc.2).hoa.duration : Except Err (Option Rat))) hm.duration).2
      ⟨hne, fun pc hpc => by rw [(hall pc hpc).2.1]⟩
    have g3 := (getSingleParam_ok_iff ppc (hoaNorm f) hm.normalization).2 ⟨hne, fun pc hpc => (hall pc hpc).2.2.1⟩
    have g4 := (getSingleParam_ok_iff ppc (hoaNfc f) hm.nfcRefDist).2 ⟨hne, fun pc hpc => (hall pc hpc).2.2.2.1⟩
    have g5 := (getSingleParam_ok_iff ppc (hoaSref f) hm.screenRef).2 ⟨hne, fun pc hpc => (hall pc hpc).2.2.2.2⟩
    unfold hoaMetaOf
    dsimp only
    rw [g1]; dsimp only
    rw [g2]; dsimp only
    rw [g3]; dsimp only
    rw [g4]; dsimp only
    rw [g5]; dsimp only
    rw [← ho, ← hd, ← hg, ← hi]

/-- `(audioPackFormat_path, audioChannelFormat)` of every channel of an allocated output pack. -/
def packPathsChannels (f : Formats) (ap : AllocPack) : List (List Nat × Nat) :=
  ap.alloc.map fun ct => (thePackPath f ap.pack ct.1, ct.1)

theorem hoaPathOf_ok_iff (f : Formats) (p : Nat) (ct : Nat × TSpec) (r : List Nat × Nat) :
    hoaPathOf f p ct = .ok r ↔ (∃ pp, getPackFormatPath f p ct.1 = .ok pp) ∧ r = (thePackPath f p ct.1, ct.1) := by
  unfold hoaPathOf
  cases h : getPackFormatPath f p ct.1 with
  | error e => simp
  | ok pp =>
    have := (getPackFormatPath_eq h).1
    subst this
    simp [eq_comm]

/-- **hoaItem_ok_iff**: `_get_RenderingItems_HOA` yields one item for the pack: the tracks and channels in
allocation order, each channel's own pack path, the merged `HOATypeMetadata` and the extra data for all
channels together (no channel frequency). -/
theorem hoaItem_ok_iff (a : Adm) (st : State) (ap : AllocPack) (it : Item) :
    hoaItem a st ap = .ok it ↔
      (∀ ct ∈ ap.alloc, ∃ pp, getPackFormatPath a.fmt ap.pack ct.1 = .ok pp) ∧
      ∃ hm ex, hoaMetaOf a.fmt (packPathsChannels a.fmt ap) = .ok hm ∧
        getExtraData a st (packPathsChannels a.fmt ap) none = .ok ex ∧
        it = { kind := 4, tracks := ap.alloc.map (·.2), channels := (packPathsChannels a.fmt ap).map (·.2),
               programme := st.programme, content := st.content, objPath := st.objPath,
               packPaths := (packPathsChannels a.fmt ap).map (·.1), extra := ex,
               importances := (packPathsChannels a.fmt ap).map fun pc => getImportance a st pc.1,
               blocks := [], hoa := some hm } := by
  unfold hoaItem
  have hpt := mapE_ok_iff_of_pointwise (hoaPathOf_ok_iff a.fmt ap.pack) ap.alloc
  cases hm : mapE (hoaPathOf a.fmt ap.pack) ap.alloc with
  | error e =>
    simp only [reduceCtorEq, false_iff, not_and]
    intro hall
    have := (hpt _).2 ⟨hall, rfl⟩
    rw [hm] at this; cases this
  | ok ppc =>
    obtain ⟨hall, rfl⟩ := (hpt ppc).1 hm
    simp only [packPathsChannels]
    cases hmeta : hoaMetaOf a.fmt (ap.alloc.map fun ct => (thePackPath a.fmt ap.pack ct.1, ct.1)) with
    | error e => simp
    | ok m =>
      cases hex : getExtraData a st (ap.alloc.map fun ct => (thePackPath a.fmt ap.pack ct.1, ct.1)) none with
      | error e => simp
      | ok ex =>
        simp only [Except.ok.injEq]
        constructor
        · intro h; exact ⟨hall, m, ex, rfl, rfl, h.symm⟩
        · rintro ⟨_, m', ex', hm', hex', rfl⟩
          cases hm'; cases hex'; rfl

/-! ### the items of an allocated output pack, declaratively -/

/-- the Objects / DirectSpeakers item of channel `ct.1` of output pack `p`, fed by track spec `ct.2`. -/
def declSingle (a : Adm) (st : State) (p : Nat) (ct : Nat × TSpec) : Item :=
  let pp := thePackPath a.fmt p ct.1
  { kind := (a.fmt.pack p).type, tracks := [ct.2], channels := [ct.1],
    programme := st.programme, content := st.content, objPath := st.objPath,
    packPaths := [pp], extra := extraOf a st (some ct.1) (firstSome (absDistAlong a.fmt pp)),
    importances := [getImportance a st pp], blocks := (a.fmt.chan ct.1).blocks, hoa := none }

/-- the merged HOA parameters of an output pack: every single-valued parameter read at the first channel
(`hoaMetaOf_ok_iff`: all channels agree). -/
def declHoaMeta (f : Formats) (ppc : List (List Nat × Nat)) : HoaMeta :=
  let pc0 := ppc.headD ([], 0)
  let nfc := firstSome (hoaAlong f (·.nfcRefDist) (·.nfcRefDist) pc0)
  { rtime := (f.chan pc0.2).hoa.rtime, duration := (f.chan pc0.2).hoa.duration,
    orders := ppc.map fun pc => (f.chan pc.2).hoa.order,
    degrees := ppc.map fun pc => (f.chan pc.2).hoa.degree,
    gains := ppc.map fun pc => (f.chan pc.2).hoa.gain,
    importances := ppc.map fun pc => (f.chan pc.2).hoa.importance,
    normalization := (firstSome (hoaAlong f (·.normalization) (·.normalization) pc0)).getD 0,
    nfcRefDist := if nfc = some 0 then none else nfc,
    screenRef := (firstSome (hoaAlong f (·.screenRef) (·.screenRef) pc0)).getD false }

/-- the one HOA item of an output pack. -/
def declHoa (a : Adm) (st : State) (ap : AllocPack) : Item :=
  let ppc := packPathsChannels a.fmt ap
  { kind := 4, tracks := ap.alloc.map (·.2), channels := ppc.map (·.2),
    programme := st.programme, content := st.content, objPath := st.objPath,
    packPaths := ppc.map (·.1),
    extra := extraOf a st none (firstSome (absDistAlong a.fmt (ppc.headD ([], 0)).1)),
    importances := ppc.map fun pc => getImportance a st pc.1,
    blocks := [], hoa := some (declHoaMeta a.fmt ppc) }

/-- one item per channel (Objects, DirectSpeakers), one item per pack (HOA). -/
def declItems (a : Adm) (st : State) (ap : AllocPack) : List Item :=
  if (a.fmt.pack ap.pack).type = 4 then [declHoa a st ap] else ap.alloc.map (declSingle a st ap.pack)

theorem singleItem_eq_decl {a : Adm} {st : State} {p : Nat} {ct : Nat × TSpec} {it : Item}
    (h : singleItem a st (a.fmt.pack p).type p ct = .ok it) :
    it = declSingle a st p ct ∧
      (∃ pp, getPackFormatPath a.fmt p ct.1 = .ok pp) ∧
      ∃ ad, getPathParam (absDistAlong a.fmt (thePackPath a.fmt p ct.1)) = .ok ad := by
  unfold singleItem at h
  cases hpp : getPackFormatPath a.fmt p ct.1 with
  | error e => simp [hpp] at h
  | ok pp =>
    have hpe := (getPackFormatPath_eq hpp).1
    subst hpe
    simp only [hpp] at h
    cases hex : getExtraData a st [(thePackPath a.fmt p ct.1, ct.1)] (some ct.1) with
    | error e => simp [hex] at h
    | ok ex =>
      simp only [hex, Except.ok.injEq] at h
      obtain ⟨ad, had, rfl⟩ := (getExtraData_ok_iff _ _ _ _ _).1 hex
      have had' := ((getSingleParam_ok_iff _ _ _).1 had).2 _ (List.mem_singleton.2 rfl)
      have := getPathParam_eq_firstSome had'
      subst this
      exact ⟨h.symm, ⟨_, rfl⟩, _, had'⟩

theorem hoaMeta_eq_decl {f : Formats} {ppc : List (List Nat × Nat)} {hm : HoaMeta}
    (h : hoaMetaOf f ppc = .ok hm) : hm = declHoaMeta f ppc := by
  obtain ⟨hne, hall, ho, hd, hg, hi⟩ := (hoaMetaOf_ok_iff f ppc hm).1 h
  cases ppc with
  | nil => exact absurd rfl hne
  | cons pc0 rest =>
    obtain ⟨h1, h2, h3, h4, h5⟩ := hall pc0 (List.mem_cons_self ..)
    obtain ⟨v3, e3, hn⟩ := (hoaNorm_ok_iff f pc0 _).1 h3
    obtain ⟨v4, e4, hf⟩ := (hoaNfc_ok_iff f pc0 _).1 h4
    obtain ⟨v5, e5, hs⟩ := (hoaSref_ok_iff f pc0 _).1 h5
    have := getPathParam_eq_firstSome e3
    subst this
    have := getPathParam_eq_firstSome e4
    subst this
    have := getPathParam_eq_firstSome e5
    subst this
    cases hm
    simp only [declHoaMeta, List.headD_cons] at *
    simp only [HoaMeta.mk.injEq]
    exact ⟨h1.symm, h2.symm, ho, hd, hg, hi, hn, hf, hs⟩

theorem hoaItem_eq_decl {a : Adm} {st : State} {ap : AllocPack} {it : Item} (h : hoaItem a st ap = .ok it) :
    it = declHoa a st ap := by
  obtain ⟨_, hm, ex, hmeta, hex, rfl⟩ := (hoaItem_ok_iff a st ap it).1 h
  obtain ⟨ad, had, rfl⟩ := (getExtraData_ok_iff _ _ _ _ _).1 hex
  obtain ⟨hne, hall⟩ := (getSingleParam_ok_iff _ _ _).1 had
  have hmd := hoaMeta_eq_decl hmeta
  subst hmd
  unfold declHoa
  cases hp : packPathsChannels a.fmt ap with
  | nil => exact absurd hp hne
  | cons pc0 rest =>
    rw [hp] at hall
    have := getPathParam_eq_firstSome (hall pc0 (List.mem_cons_self ..))
    subst this
    rfl

/-- **itemsOfPack_eq_decl**: the items `_get_rendering_items` yields for an allocated output pack are the
declarative ones. -/
theorem itemsOfPack_eq_decl {a : Adm} {st : State} {ap : AllocPack} {its : List Item}
    (h : itemsOfPack a st ap = .ok its) :
    its = declItems a st ap ∧ ((a.fmt.pack ap.pack).type = 1 ∨ (a.fmt.pack ap.pack).type = 3 ∨
      (a.fmt.pack ap.pack).type = 4) := by
  unfold itemsOfPack at h
  dsimp only at h
  unfold declItems
  split at h
  · rename_i hty
    have hne4 : (a.fmt.pack ap.pack).type ≠ 4 := by rcases hty with h3 | h1 <;> omega
    rw [if_neg hne4]
    refine ⟨?_, hty.elim (fun h3 => Or.inr (Or.inl h3)) Or.inl⟩
    obtain ⟨hall, rfl⟩ := (mapE_ok_iff _ _ _).1 h
    refine List.map_congr_left fun ct hct => ?_
    obtain ⟨it, hit⟩ := hall ct hct
    simp only [okVal, hit]
    exact (singleItem_eq_decl hit).1
  · split at h
    · rename_i hty
      rw [if_pos hty]
      cases hh : hoaItem a st ap with
      | error e => simp [hh] at h
      | ok it =>
        simp only [hh, Except.ok.injEq] at h
        subst h
        exact ⟨by rw [hoaItem_eq_decl hh], Or.inr (Or.inr hty)⟩
    · cases h

/-! ### `_get_alternativeValueSet`, `channel_format_for_track_uid` -/

/-- the alternativeValueSet references that apply to a state: the programme's, then the content's. -/
def avsRefs (a : Adm) (st : State) : List Nat :=
  (match st.programme with | some q => (a.prog q).avs | none => []) ++
  (match st.content with | some c => (a.cont c).avs | none => [])

/-- the selected alternativeValueSet belongs to the leaf object and is referenced from the item's own
programme or content. -/
theorem getAvs_some {a : Adm} {st : State} {v : Avs} (h : getAvs a st = some v) :
    ∃ o, st.leaf a = some o ∧ v ∈ o.avs ∧ v.label ∈ avsRefs a st := by
  unfold getAvs at h
  cases hl : st.leaf a with
  | none => simp [hl] at h
  | some o =>
    simp only [hl] at h
    have hmem := List.mem_of_getLast? h
    simp only [List.mem_filterMap] at hmem
    obtain ⟨l, hlm, hf⟩ := hmem
    have hv := List.find?_some hf
    have hvm := List.mem_of_find?_eq_some hf
    simp only [beq_iff_eq] at hv
    exact ⟨o, rfl, hvm, by rw [hv]; exact hlm⟩

/-- no alternativeValueSet applies exactly when there is no leaf object (CHNA-only mode) or none of the
references of the item's programme/content names an alternativeValueSet of the leaf object. -/
theorem getAvs_eq_none_iff (a : Adm) (st : State) :
    getAvs a st = none ↔ st.leaf a = none ∨
      ∃ o, st.leaf a = some o ∧ ∀ l ∈ avsRefs a st, ∀ v ∈ o.avs, v.label ≠ l := by
  unfold getAvs
  cases hl : st.leaf a with
  | none => simp
  | some o =>
    simp only [reduceCtorEq, false_or, Option.some.injEq, exists_eq_left']
    rw [List.getLast?_eq_none_iff, List.filterMap_eq_nil_iff]
    constructor
    · intro h l hlm v hv hlab
      have := h l hlm
      rw [List.find?_eq_none] at this
      exact this v hv (by simpa using hlab)
    · intro h l hlm
      rw [List.find?_eq_none]
      intro v hv
      simpa using h l hlm v hv

/-- when exactly one of the applying references names an alternativeValueSet of the leaf object (which
`_validate_avs_references` guarantees), that alternativeValueSet is the one selected. -/
theorem getAvs_unique {a : Adm} {st : State} {o : Obj} (hl : st.leaf a = some o) {v : Avs}
    (h : (avsRefs a st).filterMap (fun l => o.avs.find? (·.label == l)) = [v]) : getAvs a st = some v := by
  have e : getAvs a st = ((avsRefs a st).filterMap (fun l => o.avs.find? (·.label == l))).getLast? := by
    unfold getAvs avsRefs
    simp only [hl]
    cases st.programme <;> cases st.content <;> rfl
  rw [e, h]
  rfl

/-- `channel_format_for_track_uid`: the referenced channel format itself (BS.2076-2 style) or the one
reached through audioTrackFormat → audioStreamFormat; in a document with all references in range it is a
channel format of the document. -/
theorem getD_mem_of_lt {α : Type} {l : List α} {i : Nat} (h : i < l.length) (d : α) : l.getD i d ∈ l := by
  simp [List.getD_eq_getElem?_getD, List.getElem?_eq_getElem h]

theorem trackChannel_lt {a : Adm} (hwf : a.refsInRange = true) {u : Nat} (hu : u < a.fmt.trackUIDs.length) :
    trackChannel a.fmt u < a.fmt.channels.length := by
  unfold Adm.refsInRange at hwf
  simp only [Bool.and_eq_true, List.all_eq_true, decide_eq_true_eq] at hwf
  obtain ⟨⟨⟨_, hsf⟩, htf⟩, huid⟩ := hwf
  have hmem : a.fmt.uid u ∈ a.fmt.trackUIDs := getD_mem_of_lt hu _
  have ht := (huid _ hmem).2
  unfold trackChannel
  cases href : (a.fmt.uid u).ref with
  | channel c =>
    rw [href] at ht
    simpa using ht
  | trackFormat t =>
    rw [href] at ht
    simp only [decide_eq_true_eq] at ht
    have hs : a.fmt.trackFormats.getD t 0 < a.fmt.streamFormats.length := htf _ (getD_mem_of_lt ht 0)
    exact hsf _ (getD_mem_of_lt hs 0)

theorem trackChannel_channel {f : Formats} {u c : Nat} (h : (f.uid u).ref = .channel c) : trackChannel f u = c := by
  simp [trackChannel, h]

theorem trackChannel_trackFormat {f : Formats} {u t : Nat} (h : (f.uid u).ref = .trackFormat t) :
    trackChannel f u = f.streamFormats.getD (f.trackFormats.getD t 0) 0 := by
  simp [trackChannel, h]

end Earverif.Adm
