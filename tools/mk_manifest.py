import json, os, sys
sys.path.insert(0, os.path.join(os.path.dirname(__file__), ".."))
from harness.registry import ALL, CLAIMED, NOT_YET, entry

fixes = ["0d37815", "028deee", "bf02e2f", "1d5dfa7", "0d9f6b4", "298d03b", "03146b0", "592dfc9", "76cae51", "61d37f4", "1404dee", "bc4a3f0"]
m = {
    "version": 1,
    "setup_cmd": "/venv/bin/python -m harness.setup",
    "hooks": {
        "guard": "EAR_VERIF",
        "enable": "none needed: every observation point is reachable in-process through the public API; EAR_VERIF is reserved and currently guards nothing in /repo",
        "baseline_off_cmd": "/venv/bin/python tools/baseline.py",
        "source_commits": fixes,
        "add_only": True,
    },
    "engines": [
        {"name": "earverif-lean", "path": "lean/", "serves_properties": sorted(CLAIMED),
         "kind_free_text": "Lean 4 library: core-only executable models (Earverif/Model), property theorems (Earverif/Props), native line-protocol drivers (Earverif/Driver)"},
        {"name": "harness", "path": "harness/", "serves_properties": sorted(CLAIMED),
         "kind_free_text": "Python correspondence + failing-input search against the real code in /repo (in-process, /venv/bin/python)"},
    ],
    "checks": [],
    "not_applicable": [],
    "notes": "source_commits lists the unguarded 'fix:' commits in /repo (genuine defects repaired, see known_findings.json); there are no hook commits. "
             "Exit codes: 0 held, 1 VIOLATION, 2 infrastructure failure.",
}
for pid in ALL:
    if pid in CLAIMED:
        c = entry(pid)
        m["checks"].append({
            "property_id": pid,
            "quick_cmd": "./check %s quick" % pid,
            "thorough_cmd": "./check %s thorough" % pid,
            "evidence_file": "evidence/%s.json" % pid,
            "replay_cmd_template": "./check %s --replay {path}" % pid,
            "engine": "earverif-lean",
            "level_claimed": {"category": "proof", "text": c["text"], "design_ref": c["design_ref"] + " (the plan); current state: DESIGN.md section 9.1 row " + pid + ", findings 9.3-9.5"},
            "level_note": c["note"],
            "technique": c["technique"],
        })
    else:
        m["not_applicable"].append({"property_id": pid, "reason": NOT_YET})
json.dump(m, open(os.path.join(os.path.dirname(__file__), "..", "MANIFEST.json"), "w"), indent=1)
print("claimed:", sorted(CLAIMED))
