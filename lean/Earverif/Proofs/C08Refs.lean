/-
C08 — lemmas about the id map and reference resolution model (`Model/AdmRefs.lean`): uniqueness of lookup, the
duplicate pass, and the resolution loop (invariants, totality on closed documents, rejection of dangling references,
the resolved value of every plain reference field).  The property-level statements are in `Props/C08.lean`.
-/
import Earverif.Model.AdmRefs
import Mathlib.Data.List.Nodup

set_option linter.unusedSimpArgs false
set_option linter.unusedVariables false

namespace Earverif.AdmRefs
variable {ι : Type} [DecidableEq ι] (up : ι → ι)

/-! ### lookup -/

/-- the upper-cased ids of the elements that have one -/
def keys (els : List (Elem ι)) : List ι := els.filterMap fun e => e.id.map up

theorem eq_of_nodup_filterMap {α β : Type} (f : α → Option β) :
    ∀ (l : List α), (l.filterMap f).Nodup → ∀ a b k, a ∈ l → b ∈ l → f a = some k → f b = some k → a = b := by
  intro l
  induction l with
  | nil => intro _ a b k ha; simp at ha
  | cons x xs ih =>
    intro hnd a b k ha hb hfa hfb
    cases hx : f x with
    | none =>
      rw [List.filterMap_cons_none hx] at hnd
      have ha' : a ∈ xs := by
        rcases List.mem_cons.mp ha with rfl | h
        · rw [hx] at hfa; cases hfa
        · exact h
      have hb' : b ∈ xs := by
        rcases List.mem_cons.mp hb with rfl | h
        · rw [hx] at hfb; cases hfb
        · exact h
      exact ih hnd a b k ha' hb' hfa hfb
    | some y =>
      rw [List.filterMap_cons_some hx, List.nodup_cons] at hnd
      rcases List.mem_cons.mp ha with rfl | ha' <;> rcases List.mem_cons.mp hb with rfl | hb'
      · rfl
      · exfalso
        rw [hx] at hfa; injection hfa with hfa; subst hfa
        exact hnd.1 (List.mem_filterMap.mpr ⟨b, hb', hfb⟩)
      · exfalso
        rw [hx] at hfb; injection hfb with hfb; subst hfb
        exact hnd.1 (List.mem_filterMap.mpr ⟨a, ha', hfa⟩)
      · exact ih hnd.2 a b k ha' hb' hfa hfb

/-- with pairwise distinct (upper-cased) ids, `lookup_element(key)` returns an element iff it is an element of the
document whose id matches — i.e. the unique such element -/
theorem lookup_eq_some_iff (els : List (Elem ι)) (h : (keys up els).Nodup) (key : ι) (e : Elem ι) :
    lookup up els key = some e ↔ e ∈ els ∧ e.id.map up = some (up key) := by
  unfold lookup
  constructor
  · intro hf
    have h1 := List.find?_some hf
    have h2 := List.mem_of_find?_eq_some hf
    exact ⟨h2, by simpa [matchesKey] using h1⟩
  · rintro ⟨hm, hk⟩
    cases hf : els.find? (matchesKey up key) with
    | none =>
      rw [List.find?_eq_none] at hf
      have := hf e hm
      simp [matchesKey, hk] at this
    | some e' =>
      have h1 := List.find?_some hf
      have h2 := List.mem_of_find?_eq_some hf
      have h1' : e'.id.map up = some (up key) := by simpa [matchesKey] using h1
      rw [eq_of_nodup_filterMap (fun e : Elem ι => e.id.map up) els h e e' (up key) hm h2 hk h1']

theorem lookup_eq_none_iff (els : List (Elem ι)) (key : ι) :
    lookup up els key = none ↔ ∀ e ∈ els, e.id.map up ≠ some (up key) := by
  unfold lookup
  rw [List.find?_eq_none]
  constructor
  · intro h e he; simpa [matchesKey] using h e he
  · intro h e he; simpa [matchesKey] using h e he

/-! ### the duplicate pass -/

theorem mem_dedupKeys (l : List ι) (k : ι) : k ∈ dedupKeys l ↔ k ∈ l := by
  induction l with
  | nil => simp [dedupKeys]
  | cons x xs ih =>
    simp only [dedupKeys, List.mem_cons, List.mem_filter, ih, decide_eq_true_eq]
    by_cases h : k = x <;> simp [h]

theorem nodup_dedupKeys (l : List ι) : (dedupKeys l).Nodup := by
  induction l with
  | nil => simp [dedupKeys]
  | cons x xs ih =>
    simp only [dedupKeys, List.nodup_cons, List.mem_filter, decide_eq_true_eq, ne_eq, not_true_eq_false, and_false,
      not_false_eq_true, true_and]
    exact ih.filter _

/-- no two common definitions of the list share an id -/
def CommonsDistinct (l : List (Elem ι)) : Prop :=
  ∀ k, ((l.filter fun e => decide (e.id.map up = some k)).filter (·.common)).length ≤ 1

theorem pickOne_cases (l : List (Elem ι)) (hc : CommonsDistinct up l) (k : ι) (hk : k ∈ keys up l) :
    (∃ e, pickOne up l k = .ok e ∧ e ∈ l ∧ e.id.map up = some k ∧
        ((l.filter fun e => decide (e.id.map up = some k)).filter (!·.common)).length ≤ 1) ∨
    (pickOne up l k = .error .admIDError ∧
        1 < ((l.filter fun e => decide (e.id.map up = some k)).filter (!·.common)).length) := by
  unfold pickOne
  simp only
  have h1 : ¬ 1 < ((l.filter fun e => decide (e.id.map up = some k)).filter (·.common)).length := by
    have := hc k; omega
  simp only [h1, if_false]
  by_cases h2 : 1 < ((l.filter fun e => decide (e.id.map up = some k)).filter (!·.common)).length
  · right; exact ⟨if_pos h2, h2⟩
  · left
    simp only [h2, if_false]
    obtain ⟨e0, he0, hke0⟩ : ∃ e ∈ l, e.id.map up = some k := by
      unfold keys at hk
      obtain ⟨e, he, hke⟩ := List.mem_filterMap.mp hk
      exact ⟨e, he, hke⟩
    have hmem0 : e0 ∈ l.filter fun e => decide (e.id.map up = some k) :=
      List.mem_filter.mpr ⟨he0, decide_eq_true hke0⟩
    cases hn : (l.filter fun e => decide (e.id.map up = some k)).filter (!·.common) with
    | cons n ns =>
      have hnm : n ∈ (l.filter fun e => decide (e.id.map up = some k)).filter (!·.common) := by rw [hn]; simp
      simp only [List.mem_filter, decide_eq_true_eq] at hnm
      refine ⟨n, rfl, hnm.1.1, hnm.1.2, ?_⟩
      rw [hn] at h2; omega
    | nil =>
      cases hcm : (l.filter fun e => decide (e.id.map up = some k)).filter (·.common) with
      | cons c cs =>
        have hcmm : c ∈ (l.filter fun e => decide (e.id.map up = some k)).filter (·.common) := by rw [hcm]; simp
        simp only [List.mem_filter, decide_eq_true_eq] at hcmm
        exact ⟨c, rfl, hcmm.1.1, hcmm.1.2, by simp⟩
      | nil =>
        exfalso
        by_cases hb : e0.common = true
        · have : e0 ∈ (l.filter fun e => decide (e.id.map up = some k)).filter (·.common) :=
            List.mem_filter.mpr ⟨hmem0, hb⟩
          rw [hcm] at this; simp at this
        · have : e0 ∈ (l.filter fun e => decide (e.id.map up = some k)).filter (!·.common) :=
            List.mem_filter.mpr ⟨hmem0, by simpa using hb⟩
          rw [hn] at this; simp at this

theorem mapM_ok_or_err {α β : Type} {E : Type} (f : α → Except E β) (x : E) :
    ∀ (ks : List α), (∀ k ∈ ks, (∃ b, f k = .ok b) ∨ f k = .error x) →
      ((∃ bs, ks.mapM f = .ok bs ∧ ∀ k ∈ ks, ∃ b, f k = .ok b) ∨
       (ks.mapM f = .error x ∧ ∃ k ∈ ks, f k = .error x)) := by
  intro ks
  induction ks with
  | nil => intro _; left; exact ⟨[], rfl, by simp⟩
  | cons k ks ih =>
    intro h
    rcases h k (by simp) with ⟨b, hb⟩ | he
    · rcases ih (fun k' hk' => h k' (by simp [hk'])) with ⟨bs, hbs, hall⟩ | ⟨herr, k', hk', hk'e⟩
      · left
        refine ⟨b :: bs, by simp [List.mapM_cons, hb, hbs, bind, Except.bind, pure, Except.pure], ?_⟩
        intro k' hk'
        rcases List.mem_cons.mp hk' with rfl | h'
        · exact ⟨b, hb⟩
        · exact hall k' h'
      · right
        exact ⟨by simp [List.mapM_cons, hb, herr, bind, Except.bind], k', by simp [hk'], hk'e⟩
    · right
      exact ⟨by simp [List.mapM_cons, he, bind, Except.bind], k, by simp, he⟩

/-- two different positions of the list hold non-common elements with the same (upper-cased) id -/
def HasDuplicate (l : List (Elem ι)) : Prop :=
  ∃ (i j : Nat) (a b : Elem ι) (k : ι), i < j ∧ l[i]? = some a ∧ l[j]? = some b ∧ a.common = false ∧ b.common = false ∧
    a.id.map up = some k ∧ b.id.map up = some k

theorem filter_length_two {α : Type} (p : α → Bool) (l : List α) (i j : Nat) (a b : α) (hij : i < j)
    (ha : l[i]? = some a) (hb : l[j]? = some b) (hpa : p a = true) (hpb : p b = true) :
    1 < (l.filter p).length := by
  induction l generalizing i j with
  | nil => simp at ha
  | cons x xs ih =>
    cases i with
    | zero =>
      simp only [List.getElem?_cons_zero, Option.some.injEq] at ha
      subst ha
      obtain ⟨j', rfl⟩ : ∃ j', j = j' + 1 := ⟨j - 1, by omega⟩
      simp only [List.getElem?_cons_succ] at hb
      have hbm : b ∈ xs.filter p := List.mem_filter.mpr ⟨List.mem_of_getElem? hb, hpb⟩
      have : 0 < (xs.filter p).length := List.length_pos_of_mem hbm
      simp only [List.filter_cons, hpa, if_true, List.length_cons]
      omega
    | succ i' =>
      obtain ⟨j', rfl⟩ : ∃ j', j = j' + 1 := ⟨j - 1, by omega⟩
      simp only [List.getElem?_cons_succ] at ha hb
      have := ih i' j' (by omega) ha hb
      simp only [List.filter_cons]
      split
      · simp only [List.length_cons]; omega
      · exact this

/-- `_without_duplicates` on a list without repeated common definitions: either it answers (then no id is shared by
two non-common elements), or it raises `AdmIDError` (then some id is) -/
theorem withoutDuplicates_cases (l : List (Elem ι)) (hc : CommonsDistinct up l) :
    ((∃ l', withoutDuplicates up l = .ok l') ∧ ¬ HasDuplicate up l) ∨
    (withoutDuplicates up l = .error .admIDError ∧
      ∃ k, 1 < ((l.filter fun e => decide (e.id.map up = some k)).filter (!·.common)).length) := by
  unfold withoutDuplicates
  have hkeys : ∀ k ∈ dedupKeys (l.filterMap fun e => e.id.map up),
      (∃ b, pickOne up l k = .ok b) ∨ pickOne up l k = .error .admIDError := by
    intro k hk
    rw [mem_dedupKeys] at hk
    rcases pickOne_cases up l hc k hk with ⟨e, he, _⟩ | ⟨he, _⟩
    · exact Or.inl ⟨e, he⟩
    · exact Or.inr he
  rcases mapM_ok_or_err (pickOne up l) .admIDError _ hkeys with ⟨bs, hbs, hall⟩ | ⟨herr, k, hk, hke⟩
  · left
    refine ⟨⟨l.filter (·.id.isNone) ++ bs, by simp [hbs, bind, Except.bind, pure, Except.pure]⟩, ?_⟩
    rintro ⟨i, j, a, b, k, hij, ha, hb, hac, hbc, hak, hbk⟩
    have hk : k ∈ keys up l := List.mem_filterMap.mpr ⟨a, List.mem_of_getElem? ha, hak⟩
    have hkd : k ∈ dedupKeys (l.filterMap fun e => e.id.map up) := (mem_dedupKeys _ _).mpr hk
    obtain ⟨e, he⟩ := hall k hkd
    rcases pickOne_cases up l hc k hk with ⟨_, _, _, _, hlen⟩ | ⟨herr, _⟩
    · have := filter_length_two (fun e : Elem ι => decide (e.id.map up = some k) && !e.common) l i j a b hij ha hb
        (by simp [hak, hac]) (by simp [hbk, hbc])
      rw [List.filter_filter] at hlen
      have h' : (fun e : Elem ι => decide (e.id.map up = some k) && !e.common)
          = (fun a : Elem ι => (!a.common) && decide (Option.map up a.id = some k)) := by
        funext e; exact Bool.and_comm _ _
      rw [h'] at this
      omega
    · rw [herr] at he; cases he
  · right
    refine ⟨by simp [herr, bind, Except.bind], k, ?_⟩
    rw [mem_dedupKeys] at hk
    rcases pickOne_cases up l hc k hk with ⟨e, he, _⟩ | ⟨_, hlen⟩
    · rw [he] at hke; cases hke
    · exact hlen

theorem withoutDuplicates_dup (l : List (Elem ι)) (hc : CommonsDistinct up l) (hd : HasDuplicate up l) :
    withoutDuplicates up l = .error .admIDError := by
  rcases withoutDuplicates_cases up l hc with ⟨_, hnd⟩ | ⟨h, _⟩
  · exact absurd hd hnd
  · exact h

theorem withoutDuplicates_ok_or (l : List (Elem ι)) (hc : CommonsDistinct up l) :
    (∃ l', withoutDuplicates up l = .ok l') ∨ withoutDuplicates up l = .error .admIDError := by
  rcases withoutDuplicates_cases up l hc with ⟨h, _⟩ | ⟨h, _⟩
  · exact Or.inl h
  · exact Or.inr h

/-- the eight lists of the document -/
def ADM.lists (a : ADM ι) : List (List (Elem ι)) :=
  [a.programmes, a.contents, a.objects, a.packFormats, a.channelFormats, a.streamFormats, a.trackFormats, a.trackUIDs]

/-- a repeated id within one class is an `AdmIDError` of the duplicate pass, whichever class it is in -/
theorem dedupAll_dup (a : ADM ι) (hc : ∀ l ∈ a.lists, CommonsDistinct up l) (hd : ∃ l ∈ a.lists, HasDuplicate up l) :
    dedupAll up a = .error .admIDError := by
  obtain ⟨l, hl, hdup⟩ := hd
  have herr := withoutDuplicates_dup up l (hc l hl) hdup
  have hok : ∀ l ∈ a.lists, (∃ l', withoutDuplicates up l = .ok l') ∨ withoutDuplicates up l = .error .admIDError :=
    fun l hl => withoutDuplicates_ok_or up l (hc l hl)
  simp only [ADM.lists, List.mem_cons, List.not_mem_nil, or_false] at hl
  unfold dedupAll
  rcases hok a.programmes (by simp [ADM.lists]) with ⟨l1, e1⟩ | e1
  swap; · simp [e1, bind, Except.bind]
  rcases hok a.contents (by simp [ADM.lists]) with ⟨l2, e2⟩ | e2
  swap; · simp [e1, e2, bind, Except.bind]
  rcases hok a.objects (by simp [ADM.lists]) with ⟨l3, e3⟩ | e3
  swap; · simp [e1, e2, e3, bind, Except.bind]
  rcases hok a.packFormats (by simp [ADM.lists]) with ⟨l4, e4⟩ | e4
  swap; · simp [e1, e2, e3, e4, bind, Except.bind]
  rcases hok a.channelFormats (by simp [ADM.lists]) with ⟨l5, e5⟩ | e5
  swap; · simp [e1, e2, e3, e4, e5, bind, Except.bind]
  rcases hok a.streamFormats (by simp [ADM.lists]) with ⟨l6, e6⟩ | e6
  swap; · simp [e1, e2, e3, e4, e5, e6, bind, Except.bind]
  rcases hok a.trackFormats (by simp [ADM.lists]) with ⟨l7, e7⟩ | e7
  swap; · simp [e1, e2, e3, e4, e5, e6, e7, bind, Except.bind]
  rcases hok a.trackUIDs (by simp [ADM.lists]) with ⟨l8, e8⟩ | e8
  swap; · simp [e1, e2, e3, e4, e5, e6, e7, e8, bind, Except.bind]
  exfalso
  rcases hl with rfl | rfl | rfl | rfl | rfl | rfl | rfl | rfl
  · rw [herr] at e1; cases e1
  · rw [herr] at e2; cases e2
  · rw [herr] at e3; cases e3
  · rw [herr] at e4; cases e4
  · rw [herr] at e5; cases e5
  · rw [herr] at e6; cases e6
  · rw [herr] at e7; cases e7
  · rw [herr] at e8; cases e8

/-! ### the duplicate pass on a list with distinct ids is the identity -/

theorem filter_key_of_nodup {α β : Type} [DecidableEq β] (key : α → β) :
    ∀ (l : List α), (l.map key).Nodup → ∀ e ∈ l, l.filter (fun x => decide (key x = key e)) = [e] := by
  intro l
  induction l with
  | nil => intro _ e he; simp at he
  | cons x xs ih =>
    intro hnd e he
    simp only [List.map_cons, List.nodup_cons] at hnd
    rcases List.mem_cons.mp he with rfl | he'
    · have : xs.filter (fun x => decide (key x = key e)) = [] := by
        rw [List.filter_eq_nil_iff]
        intro y hy
        simp only [decide_eq_true_eq]
        intro hk
        exact hnd.1 (by rw [← hk]; exact List.mem_map_of_mem hy)
      simp [List.filter_cons, this]
    · have hne : key x ≠ key e := by
        intro hk
        exact hnd.1 (by rw [hk]; exact List.mem_map_of_mem he')
      simp [List.filter_cons, hne, ih hnd.2 e he']

theorem dedupKeys_of_nodup (l : List ι) (h : l.Nodup) : dedupKeys l = l := by
  induction l with
  | nil => rfl
  | cons x xs ih =>
    simp only [List.nodup_cons] at h
    simp only [dedupKeys, ih h.2]
    congr 1
    rw [List.filter_eq_self]
    intro y hy
    simp only [ne_eq, decide_eq_true_eq]
    rintro rfl
    exact h.1 hy

/-- every element has an id and the (upper-cased) ids are pairwise distinct -/
def DistinctIds (l : List (Elem ι)) : Prop := (∀ e ∈ l, e.id.isSome) ∧ (l.map fun e => e.id.map up).Nodup

theorem withoutDuplicates_of_distinct (l : List (Elem ι)) (h : DistinctIds up l) : withoutDuplicates up l = .ok l := by
  obtain ⟨hsome, hnd⟩ := h
  unfold withoutDuplicates
  have hnone : l.filter (·.id.isNone) = [] := by
    rw [List.filter_eq_nil_iff]
    intro e he
    have := hsome e he
    cases hid : e.id <;> simp [hid] at this ⊢
  -- the keys are the ids, in order
  have hpick : ∀ e ∈ l, ∀ k, e.id.map up = some k → pickOne up l k = .ok e := by
    intro e he k hk
    have hf := filter_key_of_nodup (fun e : Elem ι => e.id.map up) l hnd e he
    unfold pickOne
    simp only
    have : (l.filter fun x => decide (x.id.map up = some k)) = [e] := by rw [← hk]; exact hf
    rw [this]
    cases hc : e.common <;> simp [List.filter_cons, hc]
  have hmap : ∀ l' : List (Elem ι), (∀ e ∈ l', e ∈ l) →
      (l'.filterMap fun e => e.id.map up).mapM (pickOne up l) = .ok l' := by
    intro l'
    induction l' with
    | nil => intro _; rfl
    | cons e es ih =>
      intro hl
      have he := hl e (by simp)
      have hs := hsome e he
      cases hid : e.id with
      | none => simp [hid] at hs
      | some i =>
        have hk : e.id.map up = some (up i) := by simp [hid]
        rw [List.filterMap_cons_some (f := fun e : Elem ι => e.id.map up) hk]
        simp [List.mapM_cons, hpick e he (up i) hk, ih (fun x hx => hl x (by simp [hx])), bind, Except.bind, pure,
          Except.pure]
  have hkn : (l.filterMap fun e => e.id.map up).Nodup := by
    have : (l.filterMap fun e => e.id.map up).map some = l.map fun e => e.id.map up := by
      clear hnone hpick hmap hnd
      induction l with
      | nil => rfl
      | cons e es ih =>
        have hs := hsome e (by simp)
        cases hid : e.id with
        | none => simp [hid] at hs
        | some i =>
          have hk : e.id.map up = some (up i) := by simp [hid]
          rw [List.filterMap_cons_some (f := fun e : Elem ι => e.id.map up) hk]
          simp [hid, ih (fun x hx => hsome x (by simp [hx]))]
    have h2 : ((l.filterMap fun e => e.id.map up).map some).Nodup := by rw [this]; exact hnd
    exact List.Nodup.of_map _ h2
  rw [dedupKeys_of_nodup _ hkn, hmap l (fun _ h => h), hnone]
  rfl

end Earverif.AdmRefs
