/- Line protocol for the C20 track-spec model (samples and gains over `Rat`).
   in : `<mode>|<fs> <nch>|<specs>|<frames>|<partition>`
        mode      `T` (TrackProcessor, one spec), `P` (`_track_spec_processor` without simplification) or `U` (MultiTrackProcessor, specs separated by `;`, maybe none)
        spec      prefix form: `D <i>` | `S` | `M <n> <spec>*n` | `G <rat> <spec>` | `X <rat|-> <rat|-> <spec>`
                  (`X gain delay_ms input`; `-` = None); rat = `num/den` or an integer
        frames    frames separated by `,`, each `nch` integers/rationals separated by blanks (may be empty)
        partition block lengths (sum = number of frames); `len@fs2` = this block is processed with sample rate fs2
                  (modes T, P only)
        `K|<mchan>`: see `parseMChan`; answers the spec text of `packSpec`.
        `Z|<fs> <ms>`: answers `<delaySamplesF fs ms> <delaySamples fs ms>` (binary64 / exact conversion).
        `N|<fs> <nch>|<spec>|<frames>`: the strict literal meaning `meaningStrict` on the whole input:
        the samples, or `undefined`.
        The processors are run with the binary64 conversion (`stepG delaySamplesF`), as the code does.
   out: every block followed by `;`. T: a block is its samples `num/den` separated by blanks.
        U: a block is its frames separated by `,`, a frame is its samples separated by blanks.
        If a call raises: the blocks produced before it, then `!<PythonException>:<kind>`.
        `bad-op` for a malformed line. -/
import Earverif.Model.TrackSpec
import Earverif.Driver.Util
open Earverif.TrackSpec Earverif.Driver

def parseRat? (s : String) : Option Rat :=
  match s.splitOn "/" with
  | [a] => do some ((← a.toInt?) : Rat)
  | [a, b] => do
    let n ← a.toInt?
    let d ← b.toNat?
    if d = 0 then none else some (mkRat n d)
  | _ => none

def parseOptRat? (s : String) : Option (Option Rat) :=
  if s = "-" then some none else (parseRat? s).map some

/-- recursive descent with fuel; returns the spec and the unread tokens -/
def parseSpec : Nat → List String → Option (Spec Rat × List String)
  | 0, _ => none
  | fuel + 1, ws =>
    match ws with
    | "S" :: rest => some (.silent, rest)
    | "D" :: i :: rest => do some (.direct (← i.toInt?), rest)
    | "G" :: g :: rest => do
      let g ← parseRat? g
      let (t, rest) ← parseSpec fuel rest
      some (.gain t g, rest)
    | "X" :: g :: d :: rest => do
      let g ← parseOptRat? g
      let d ← parseOptRat? d
      let (t, rest) ← parseSpec fuel rest
      some (.matrix t g d, rest)
    | "M" :: n :: rest => do
      let n ← n.toNat?
      let rec kids (fuel : Nat) (n : Nat) (ws : List String) : Option (List (Spec Rat) × List String) :=
        match n with
        | 0 => some ([], ws)
        | n + 1 => do
          let (t, ws) ← parseSpec fuel ws
          let (ts, ws) ← kids fuel n ws
          some (t :: ts, ws)
      let (ts, rest) ← kids fuel n rest
      some (.mix ts, rest)
    | _ => none

def parseWhole (s : String) : Option (Spec Rat) :=
  let ws := words s
  match parseSpec (ws.length + 1) ws with
  | some (t, []) => some t
  | _ => none

/-- matrix channel: `I <spec>` (a channel of the input allocation with its track spec) or
`C <rat gain> <n> (<rat|-> <rat|-> <mchan>)*n` (block format gain, then per coefficient: gain, delay, input channel) -/
def parseMChan : Nat → List String → Option (MChan Rat × List String)
  | 0, _ => none
  | fuel + 1, ws =>
    match ws with
    | "I" :: rest => do
      let (t, rest) ← parseSpec (rest.length + 1) rest
      some (.input t, rest)
    | "C" :: g :: n :: rest => do
      let g ← parseRat? g
      let n ← n.toNat?
      let rec coeffs (fuel : Nat) (n : Nat) (ws : List String) :
          Option (List (MChan Rat × Option Rat × Option Rat) × List String) :=
        match n, ws with
        | 0, ws => some ([], ws)
        | n + 1, cg :: cd :: ws => do
          let cg ← parseOptRat? cg
          let cd ← parseOptRat? cd
          let (c, ws) ← parseMChan fuel ws
          let (cs, ws) ← coeffs fuel n ws
          some ((c, cg, cd) :: cs, ws)
        | _, _ => none
      let (cs, rest) ← coeffs fuel n rest
      some (.matrixCh cs g, rest)
    | _ => none

def showOptRat : Option Rat → String
  | none => "-"
  | some r => s!"{r.num}/{r.den}"

mutual
def showSpec : Spec Rat → String
  | .direct i => s!"D {i}"
  | .silent => "S"
  | .mix ts => s!"M {ts.length}" ++ showSpecs ts
  | .gain t g => s!"G {g.num}/{g.den} " ++ showSpec t
  | .matrix t g d => s!"X {showOptRat g} {showOptRat d} " ++ showSpec t
def showSpecs : List (Spec Rat) → String
  | [] => ""
  | t :: ts => " " ++ showSpec t ++ showSpecs ts
end

def parseFrames (nch : Nat) (s : String) : Option (List (List Rat)) :=
  if (words s).isEmpty then some [] else
  (s.splitOn ",").mapM fun f => do
    let fr ← (words f).mapM parseRat?
    if fr.length = nch then some fr else none

/-- `len` or `len@fs` -/
def parsePart (fs : Int) (s : String) : Option (Int × Nat) :=
  match s.splitOn "@" with
  | [a] => do some (fs, ← a.toNat?)
  | [a, b] => do some (← b.toInt?, ← a.toNat?)
  | _ => none

def cut : List (Int × Nat) → List (List Rat) → List (Int × List (List Rat))
  | [], _ => []
  | (fs, n) :: ps, x => (fs, x.take n) :: cut ps (x.drop n)

def showRat (r : Rat) : String := s!"{r.num}/{r.den}"
def showRow (l : List Rat) : String := " ".intercalate (l.map showRat)

def showErr : Err → String
  | .index => "!IndexError:index"
  | .negDelay => "!AssertionError:negDelay"
  | .sampleRate => "!AssertionError:sampleRate"
  | .notSimplified => "!AssertionError:notSimplified"
  | .emptyStack => "!ValueError:emptyStack"

/-- The model's result on the longest prefix of calls that does not raise, then the error of the next call.
Only glue: every evaluation is `f` (= the model's run function) on a prefix of the calls. -/
def traceWith {β γ : Type} (f : List β → Except Err (List γ)) (calls : List β) (shw : γ → String) : String :=
  match f calls with
  | .ok outs => String.join (outs.map fun o => shw o ++ ";")
  | .error _ =>
    let rec go (k : Nat) (fuel : Nat) : String :=
      match fuel with
      | 0 => "bad-op"
      | fuel + 1 =>
        match f (calls.take (k + 1)) with
        | .ok _ => go (k + 1) fuel
        | .error e =>
          match f (calls.take k) with
          | .ok outs => String.join (outs.map fun o => shw o ++ ";") ++ showErr e
          | .error _ => "bad-op"
    go 0 (calls.length + 1)

def answer (line : String) : String :=
  match line.splitOn "|" with
  | ["Z", a] =>
    match words a with
    | [fs, ms] =>
      match fs.toInt?, parseRat? ms with
      | some fs, some ms => s!"{delaySamplesF fs ms} {delaySamples fs ms}"
      | _, _ => "bad-op"
    | _ => "bad-op"
  | ["N", hd, spec, frames] =>
    match parseInts? (words hd) with
    | some [fs, nchI] =>
      if nchI < 0 then "bad-op" else
      match parseFrames nchI.toNat frames, parseWhole spec with
      | some x, some s =>
        match meaningStrict fs nchI.toNat s x with
        | some v => showRow v ++ ";"
        | none => "undefined"
      | _, _ => "bad-op"
    | _ => "bad-op"
  | ["K", mch] =>
    -- the spec `output_channel_allocation` builds for a matrix channel, in the spec syntax above
    let ws := words mch
    match parseMChan (ws.length + 1) ws with
    | some (c, []) => showSpec (packSpec c)
    | _ => "bad-op"
  | [mode, hd, specs, frames, parts] =>
    match parseInts? (words hd) with
    | some [fs, nchI] =>
      if nchI < 0 then "bad-op" else
      let nch := nchI.toNat
      match parseFrames nch frames, (words parts).mapM (parsePart fs) with
      | some x, some ps =>
        if (ps.map (·.2)).sum ≠ x.length then "bad-op" else
        let calls := cut ps x
        if mode = "T" ∨ mode = "P" then
          match parseWhole specs with
          | some s =>
            -- T: TrackProcessor(spec) = build (simplify spec); P: _track_spec_processor(spec) = build spec
            match (if mode = "T" then trackProcessor s else build s) with
            | .error e => showErr e
            | .ok p => traceWith (runRG delaySamplesF nch p) calls showRow
          | none => "bad-op"
        else if mode = "U" then
          if ps.any (fun p => p.1 ≠ fs) then "bad-op" else
          let ss := if (words specs).isEmpty then some [] else (specs.splitOn ";").mapM parseWhole
          match ss with
          | some ss =>
            -- construction errors surface before any call
            match buildMulti ss with
            | .error e => showErr e
            | .ok _ =>
              traceWith (fun c => runMultiSpecF fs nch ss c) (calls.map (·.2))
                (fun blk => ",".intercalate (blk.map showRow))
          | none => "bad-op"
        else "bad-op"
      | _, _ => "bad-op"
    | _ => "bad-op"
  | _ => "bad-op"

def main : IO Unit := lineLoop answer
