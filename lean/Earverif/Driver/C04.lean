/- Line protocol for the C04 file-render glue model.
   in : `<chan names> | none or <ch> <name,name> <num/den> ; ... | <gain num/den> | <fail 0/1> | <M> | <blocks>`
        blocks: `#`-separated blocks, `;`-separated frames, space-separated samples `num/den`; an empty block is `-`
   out: `n=<nChannels> failed=<0/1> over=<0/1> | <frame codes ...> ; ...`  or `bad-op` -/
import Earverif.Model.FileRender
import Earverif.Driver.Util
open Earverif.FileRender Earverif.Driver

def parseRat? (s : String) : Option Rat :=
  match s.splitOn "/" with
  | [n] => do some ((← n.toInt?) : Rat)
  | [n, d] => do
    let n ← n.toInt?
    let d ← d.toNat?
    if d = 0 then none else some (mkRat n d)
  | _ => none

def parseSpeaker? (s : String) : Option Speaker :=
  match words s with
  | [c, names, g] => do some ⟨← c.toNat?, names.splitOn ",", ← parseRat? g⟩
  | _ => none

def parseSpeakers? (s : String) : Option (Option (List Speaker)) :=
  if words s == ["none"] then some none
  else do
    let sp ← ((s.splitOn ";").filter (fun t => words t ≠ [])).mapM parseSpeaker?
    if sp.isEmpty then none else some (some sp)

def parseFrame? (s : String) : Option (List Rat) := (words s).mapM parseRat?

def parseBlock? (s : String) : Option (List (List Rat)) :=
  if words s == ["-"] then some []
  else ((s.splitOn ";").filter (fun t => words t ≠ [])).mapM parseFrame?

def answer (line : String) : String :=
  match line.splitOn "|" with
  | [chans, sp, gain, fail, m, blocks] =>
    match parseSpeakers? sp, parseRat? (String.join (words gain)), (words fail), (String.join (words m)).toInt?,
          (blocks.splitOn "#").mapM parseBlock? with
    | some speakers, some g, [f], some M, some bs =>
      if f ≠ "0" && f ≠ "1" then "bad-op" else
      let r := run (words chans) speakers g (f == "1") M bs
      let frames := r.frames.map fun fr => String.intercalate " " (fr.map toString)
      s!"n={r.nChannels} failed={if r.failed then 1 else 0} over={if hasOverloaded r.peak then 1 else 0} | " ++
        String.intercalate " ; " frames
    | _, _, _, _, _ => "bad-op"
  | _ => "bad-op"

def main : IO Unit := lineLoop answer
