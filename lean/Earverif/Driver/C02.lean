/- Line protocol for the C02/C03 renderer model (sections separated by `;`, tokens by spaces;
   rationals `a/b` or `a`; `-` = None).

   run|spec ; cfg <sr> <B> <nout> <nin> ; taps <L> <L*nout rats, row major> ; parts <len...> ;
     x <T*nin ints, frame major> ;
     O <track> ; b <ostart> <odur> <rtime> <dur> <jump 0|1> <ilen> <2*nout rats: direct, diffuse> ; ...
     D <track> ; b ... <nout rats> ; ...
     H <ntracks> <track...> ; b ... <ntracks*nout rats: column per input track> ; ...
     `run`  -> the model (`Renderer.renderTrace`): `<number of blocks> # ` then blocks separated by `|` (last = tail), frames by `,`;
               ` ! <error>` appended if a call raised (blocks before it are kept)
     `spec` -> `RenderSpec.out` as one block
   runts|spects ; cfg … ; taps … ; parts … ; x … ;   (the renderer with track processors, `Model/RendererTS.lean`)
     O <spec> ; b … ; …       D <spec> ; b … ; …       H <n> <spec>*n ; b … ; …
     spec (prefix form, as in the C20 driver): `D <i>` | `S` | `M <n> <spec>*n` | `G <rat> <spec>` | `X <rat|-> <rat|-> <spec>`
       (`X gain delay_ms input`)
     `runts`  -> `RendererTS.renderTraceTS` (same output format; a track-processor exception is ` ! track-<kind>`)
     `spects` -> `RendererTS.outTS` as one block
   fir ; cfg <B> <nch> ; taps <L> <L*nch rats> ; x <rats, frame major, multiple of B frames>
          -> successive `Fir.step` outputs (one block)
   vbs ; cfg <B> <nch> ; taps ... ; parts <len...> ; x <rats> -> `Vbs.run` over the partition
   runos | runtsos ; (as run / runts) -> `renderTraceOS` / `renderTraceTSOS`: the renderer with the partitioned
          overlap-save convolver of `Model/OverlapSave.lean` inside `ObjectRenderer` (block_size 0 / empty filter:
          ` ! os-<error>` as the constructor raises) and with the numpy exceptions: ` ! np-trackIndex` (IndexError:
          a track outside the `nin` input channels), ` ! np-emptyStack` (ValueError: `H 0`), ` ! np-dotShape`
          (ValueError: an `H` block whose matrix does not have `ntracks` columns)
   os ; cfg <B> <nch> ; taps <L> <L*nch rats> ; parts <len...> ; x <rats>
          -> `OS.new` then `OS.filterBlock` on each part in turn (a part need not have B rows: ` ! os-shape`);
             `<k> # b1 | b2 ...` and ` ! os-<error>` when a call raised
   vbsos ; cfg <B> <nch> ; taps ... ; parts <len...> ; x <rats>
          -> `VariableBlockSizeAdapter` (`Vbs.run`) around `OS.filterBlock`; ` ! os-<error>` if the constructor raises
   circ ; cfg <N> <nch> ; a <La> <La*nch rats> ; b <rats, frame major> -> `circConv N a b` (one block)
   `bad-op` for a malformed line. -/
import Earverif.Model.RenderSpec
import Earverif.Model.RendererTS
import Earverif.Model.OverlapSave
import Earverif.Driver.Util
open Earverif.Stream Earverif.Timeline Earverif.Renderer Earverif.Driver
open Earverif.RendererTS
open Earverif.TrackSpec (Spec)

def parseRat? (s : String) : Option Rat :=
  match s.splitOn "/" with
  | [a] => (fun (n : Int) => (n : Rat)) <$> a.toInt?
  | [a, b] => do
    let n ← a.toInt?
    let d ← b.toNat?
    if d = 0 then none else some (mkRat n d)
  | _ => none

def parseOptRat? (s : String) : Option (Option Rat) :=
  if s = "-" then some none else some <$> parseRat? s

def showRat (q : Rat) : String :=
  if q.den = 1 then toString q.num else s!"{q.num}/{q.den}"

def toVec? (n : Nat) (l : List Rat) : Option (Frame n) :=
  if h : l.toArray.size = n then some ⟨⟨l.toArray, h⟩⟩ else none

/-- Split a list into consecutive chunks of `n` (must divide). -/
def chunks? {α : Type} (n : Nat) (l : List α) : Option (List (List α)) :=
  if n = 0 then (if l.isEmpty then some [] else none)
  else
    let rec go (fuel : Nat) (l : List α) : Option (List (List α)) :=
      match fuel with
      | 0 => if l.isEmpty then some [] else none
      | fuel + 1 =>
        if l.isEmpty then some []
        else if l.length < n then none
        else (l.take n :: ·) <$> go fuel (l.drop n)
    go l.length l

def vecs? (n : Nat) (l : List Rat) : Option (List (Frame n)) := do
  (← chunks? n l).mapM (toVec? n)

def showFrames {n : Nat} (fs : List (Frame n)) : String :=
  String.intercalate "," (fs.map fun v => String.intercalate " " (v.v.toList.map showRat))

def showErr : Err → String
  | .endsAfterObject => "endsAfterObject"
  | .rtimeDurationMix => "rtimeDurationMix"
  | .overlapping => "overlapping"
  | .interpTooLong => "interpTooLong"
  | .assertInf => "assertInf"
  | .underrun => "underrun"
  | .align .pastNotAtZero => "align-past"
  | .align .badRange => "align-range"
  | .align .noRound => "align-noround"

/-- Split a flat list by a partition (list of lengths); must cover exactly. -/
def splitBy? {α : Type} : List Nat → List α → Option (List (List α))
  | [], l => if l.isEmpty then some [] else none
  | k :: ks, l => if l.length < k then none else (l.take k :: ·) <$> splitBy? ks (l.drop k)

structure RawBlock where
  os : Option Rat
  od : Option Rat
  rt : Option Rat
  du : Option Rat
  jump : Bool
  il : Option Rat
  g : List Rat

def parseBlock? (ws : List String) : Option RawBlock :=
  match ws with
  | "b" :: a :: b :: c :: d :: j :: e :: rest => do
    let jump ← if j = "1" then some true else if j = "0" then some false else none
    some ⟨← parseOptRat? a, ← parseOptRat? b, ← parseOptRat? c, ← parseOptRat? d, jump, ← parseOptRat? e,
          ← rest.mapM parseRat?⟩
  | _ => none

def RawBlock.meta {G : Type} (r : RawBlock) (g : G) : MetaBlock G := ⟨r.os, r.od, r.rt, r.du, r.jump, r.il, g⟩

inductive RawItem where
  | obj (track : Nat) (bs : List RawBlock)
  | ds (track : Nat) (bs : List RawBlock)
  | hoa (tracks : List Nat) (bs : List RawBlock)

/-- Group `O/D/H` headers with the `b` sections that follow them (sections processed in order;
a `b` section is attached to the most recent header). -/
def parseItems? (secs : List (List String)) : Option (List RawItem) := do
  let step (acc : List RawItem) (ws : List String) : Option (List RawItem) :=
    match ws with
    | ["O", t] => (fun t => RawItem.obj t [] :: acc) <$> t.toNat?
    | ["D", t] => (fun t => RawItem.ds t [] :: acc) <$> t.toNat?
    | "H" :: nt :: ts => do
      let n ← nt.toNat?
      let tr ← ts.mapM String.toNat?
      if tr.length = n then some (RawItem.hoa tr [] :: acc) else none
    | "b" :: _ => do
      let blk ← parseBlock? ws
      match acc with
      | .obj t bs :: r => some (.obj t (bs ++ [blk]) :: r)
      | .ds t bs :: r => some (.ds t (bs ++ [blk]) :: r)
      | .hoa t bs :: r => some (.hoa t (bs ++ [blk]) :: r)
      | [] => none
    | _ => none
  let acc ← secs.foldlM step []
  some acc.reverse

def buildItems? (n : Nat) (items : List RawItem) :
    Option (List (ObjItem (Frame n)) × List (DsItem (Frame n)) × List (HoaItem (Frame n))) :=
  items.foldrM (init := ([], [], [])) fun it (os, ds, hs) =>
    match it with
    | .obj t bs => do
      let blocks ← bs.mapM fun r => do
        if r.g.length ≠ 2 * n then none
        some (r.meta ((← toVec? n (r.g.take n)), (← toVec? n (r.g.drop n))))
      some (⟨t, blocks⟩ :: os, ds, hs)
    | .ds t bs => do
      let blocks ← bs.mapM fun r => do some (r.meta (← toVec? n r.g))
      some (os, ⟨t, blocks⟩ :: ds, hs)
    | .hoa tr bs => do
      let blocks ← bs.mapM fun r => do
        -- a decode matrix with a column count other than the number of tracks is accepted here: the models with
        -- the numpy exceptions (`runos`) raise `np-dotShape` when it is applied, the totalised one (`run`) zips
        let cols ← vecs? n r.g
        some (r.meta cols)
      some (os, ds, ⟨tr, blocks⟩ :: hs)

/-- the numpy exceptions of the `…OS` renderer models: `np-trackIndex` (IndexError), `np-emptyStack` / `np-dotShape`
(ValueError) -/
def showChk {ε : Type} (sh : ε → String) : ChkErr ε → String
  | .base e => sh e
  | .trackIndex => "np-trackIndex"
  | .emptyStack => "np-emptyStack"
  | .dotShape => "np-dotShape"

def showTraceG {n : Nat} {ε : Type} (sh : ε → String) (r : List (List (Frame n)) × Option ε) : String :=
  s!"{r.1.length} # " ++ String.intercalate " | " (r.1.map showFrames) ++
    (match r.2 with | some e => " ! " ++ sh e | none => "")

def showTrace {n : Nat} (r : List (List (Frame n)) × Option Err) : String := showTraceG showErr r

def answerRender (mode : String) (secs : List (List String)) : Option String :=
  match secs with
  | ["cfg", sr, b, nout, nin] :: ("taps" :: l :: taps) :: ("parts" :: parts) :: ("x" :: xs) :: items => do
    let sr ← sr.toNat?
    let B ← b.toNat?
    let n ← nout.toNat?
    let nin ← nin.toNat?
    let L ← l.toNat?
    let taps ← vecs? n (← taps.mapM parseRat?)
    if taps.length ≠ L then none
    let parts ← parts.mapM String.toNat?
    let xi ← xs.mapM String.toInt?
    let frames ← chunks? nin (xi.map fun (i : Int) => (i : Rat))
    let frames := if nin = 0 then List.replicate parts.sum [] else frames
    let blocks ← splitBy? parts frames
    let (objs, dss, hoas) ← buildItems? n (← parseItems? items)
    let cfg : Cfg (Frame n) := ⟨sr, B, taps, nin⟩
    if mode = "run" then
      some (showTrace (renderTrace cfg (RState.init cfg objs dss hoas) blocks))
    else if mode = "runos" then
      -- ObjectRenderer.__init__: OverlapSaveConvolver(...) / VariableBlockSizeAdapter(...) raise
      if B = 0 then some (showTrace (n := n) ([], none) ++ " ! os-blockSizeZero")
      else if taps.isEmpty then some (showTrace (n := n) ([], none) ++ " ! os-emptyFilter")
      else some (showTraceG (showChk showErr) (renderTraceOS cfg (RStateOS.init cfg objs dss hoas) blocks))
    else
      some (showFrames (Earverif.RenderSpec.out cfg objs dss hoas frames))
  | _ => none


/-! ### items with track specs -/

/-- recursive descent with fuel; returns the spec and the unread tokens (same syntax as the C20 driver) -/
def parseSpec : Nat → List String → Option (Spec Rat × List String)
  | 0, _ => none
  | fuel + 1, ws =>
    match ws with
    | "S" :: rest => some (.silent, rest)
    | "D" :: i :: rest => do some (.direct (← i.toInt?), rest)
    | "G" :: g :: rest => do
      let g ← parseRat? g
      let (t, rest) ← parseSpec fuel rest
      some (.gain t g, rest)
    | "X" :: g :: d :: rest => do
      let g ← parseOptRat? g
      let d ← parseOptRat? d
      let (t, rest) ← parseSpec fuel rest
      some (.matrix t g d, rest)
    | "M" :: n :: rest => do
      let n ← n.toNat?
      let rec kids (fuel : Nat) (n : Nat) (ws : List String) : Option (List (Spec Rat) × List String) :=
        match n with
        | 0 => some ([], ws)
        | n + 1 => do
          let (t, ws) ← parseSpec fuel ws
          let (ts, ws) ← kids fuel n ws
          some (t :: ts, ws)
      let (ts, rest) ← kids fuel n rest
      some (.mix ts, rest)
    | _ => none

/-- `n` specs one after the other, nothing left over -/
def parseSpecsExact (n : Nat) (ws : List String) : Option (List (Spec Rat)) :=
  let rec go (n : Nat) (ws : List String) : Option (List (Spec Rat)) :=
    match n with
    | 0 => if ws.isEmpty then some [] else none
    | n + 1 => do
      let (t, ws) ← parseSpec (ws.length + 1) ws
      (t :: ·) <$> go n ws
  go n ws

inductive RawItemTS where
  | obj (s : Spec Rat) (bs : List RawBlock)
  | ds (s : Spec Rat) (bs : List RawBlock)
  | hoa (ss : List (Spec Rat)) (bs : List RawBlock)

def parseItemsTS? (secs : List (List String)) : Option (List RawItemTS) := do
  let step (acc : List RawItemTS) (ws : List String) : Option (List RawItemTS) :=
    match ws with
    | "O" :: sp => do
      match ← parseSpecsExact 1 sp with
      | [t] => some (RawItemTS.obj t [] :: acc)
      | _ => none
    | "D" :: sp => do
      match ← parseSpecsExact 1 sp with
      | [t] => some (RawItemTS.ds t [] :: acc)
      | _ => none
    | "H" :: nt :: sp => do
      let n ← nt.toNat?
      some (RawItemTS.hoa (← parseSpecsExact n sp) [] :: acc)
    | "b" :: _ => do
      let blk ← parseBlock? ws
      match acc with
      | .obj t bs :: r => some (.obj t (bs ++ [blk]) :: r)
      | .ds t bs :: r => some (.ds t (bs ++ [blk]) :: r)
      | .hoa t bs :: r => some (.hoa t (bs ++ [blk]) :: r)
      | [] => none
    | _ => none
  let acc ← secs.foldlM step []
  some acc.reverse

def buildItemsTS? (n : Nat) (items : List RawItemTS) :
    Option (List (ObjItemTS (Frame n)) × List (DsItemTS (Frame n)) × List (HoaItemTS (Frame n))) :=
  items.foldrM (init := ([], [], [])) fun it (os, ds, hs) =>
    match it with
    | .obj t bs => do
      let blocks ← bs.mapM fun r => do
        if r.g.length ≠ 2 * n then none
        some (r.meta ((← toVec? n (r.g.take n)), (← toVec? n (r.g.drop n))))
      some (⟨t, blocks⟩ :: os, ds, hs)
    | .ds t bs => do
      let blocks ← bs.mapM fun r => do some (r.meta (← toVec? n r.g))
      some (os, ⟨t, blocks⟩ :: ds, hs)
    | .hoa ss bs => do
      let blocks ← bs.mapM fun r => do
        let cols ← vecs? n r.g
        some (r.meta cols)
      some (os, ds, ⟨ss, blocks⟩ :: hs)

def showTrackErr : Earverif.TrackSpec.Err → String
  | .index => "track-index"
  | .negDelay => "track-negDelay"
  | .sampleRate => "track-sampleRate"
  | .notSimplified => "track-notSimplified"
  | .emptyStack => "track-emptyStack"

def showErrTS : ErrTS → String
  | .track e => showTrackErr e
  | .render e => showErr e

def showTraceTS {n : Nat} (r : List (List (Frame n)) × Option ErrTS) : String :=
  s!"{r.1.length} # " ++ String.intercalate " | " (r.1.map showFrames) ++
    (match r.2 with | some e => " ! " ++ showErrTS e | none => "")

def answerRenderTS (mode : String) (secs : List (List String)) : Option String :=
  match secs with
  | ["cfg", sr, b, nout, nin] :: ("taps" :: l :: taps) :: ("parts" :: parts) :: ("x" :: xs) :: items => do
    let sr ← sr.toNat?
    let B ← b.toNat?
    let n ← nout.toNat?
    let nin ← nin.toNat?
    let L ← l.toNat?
    let taps ← vecs? n (← taps.mapM parseRat?)
    if taps.length ≠ L then none
    let parts ← parts.mapM String.toNat?
    let xi ← xs.mapM String.toInt?
    let frames ← chunks? nin (xi.map fun (i : Int) => (i : Rat))
    let frames := if nin = 0 then List.replicate parts.sum [] else frames
    let blocks ← splitBy? parts frames
    let (objs, dss, hoas) ← buildItemsTS? n (← parseItemsTS? items)
    let cfg : Cfg (Frame n) := ⟨sr, B, taps, nin⟩
    if mode = "runts" then
      match RStateTS.init cfg objs dss hoas with
      | .error e => some (showTraceTS (n := n) ([], some (.track e)))
      | .ok st0 => some (showTraceTS (renderTraceTS cfg st0 blocks))
    else if mode = "runtsos" then
      if B = 0 then some (showTraceTS (n := n) ([], none) ++ " ! os-blockSizeZero")
      else if taps.isEmpty then some (showTraceTS (n := n) ([], none) ++ " ! os-emptyFilter")
      else
        match RStateTSOS.init cfg objs dss hoas with
        | .error e => some (showTraceTS (n := n) ([], some (.track e)))
        | .ok st0 => some (showTraceG (showChk showErrTS) (renderTraceTSOS cfg st0 blocks))
    else
      some (showFrames (outTS cfg objs dss hoas frames))
  | _ => none

def answerFir (secs : List (List String)) : Option String :=
  match secs with
  | [["cfg", b, nch], "taps" :: _ :: taps, "x" :: xs] => do
    let B ← b.toNat?
    let n ← nch.toNat?
    let taps ← vecs? n (← taps.mapM parseRat?)
    let frames ← vecs? n (← xs.mapM parseRat?)
    let blocks ← chunks? B frames
    let r := blocks.foldl (init := (Fir.init taps, ([] : List (Frame n)))) fun (h, acc) blk =>
      let (h', o) := Fir.step taps h blk
      (h', acc ++ o)
    some ("1 # " ++ showFrames r.2)
  | _ => none

def answerVbs (secs : List (List String)) : Option String :=
  match secs with
  | [["cfg", b, nch], "taps" :: _ :: taps, "parts" :: parts, "x" :: xs] => do
    let B ← b.toNat?
    let n ← nch.toNat?
    if B = 0 then none
    let taps ← vecs? n (← taps.mapM parseRat?)
    let frames ← vecs? n (← xs.mapM parseRat?)
    let parts ← parts.mapM String.toNat?
    let blocks ← splitBy? parts frames
    let st := Vbs.init (Fir.step taps) B (0 : Frame n) (Fir.init taps)
    let (os, _) := Vbs.run (Fir.step taps) B 0 st blocks
    some (s!"{os.length} # " ++ String.intercalate " | " (os.map showFrames))
  | _ => none

def showOSErr : OSErr → String
  | .blockSizeZero => "os-blockSizeZero"
  | .emptyFilter => "os-emptyFilter"
  | .shape => "os-shape"

/-- successive `filter_block` calls, keeping the outputs produced before an exception -/
def osTrace {n : Nat} : OS (Frame n) → List (List (Frame n)) → List (List (Frame n)) × Option OSErr
  | _, [] => ([], none)
  | s, b :: bs =>
    match s.filterBlock b with
    | .error e => ([], some e)
    | .ok (s', o) => let (os, e) := osTrace s' bs; (o :: os, e)

def showOSTrace {n : Nat} (r : List (List (Frame n)) × Option OSErr) : String :=
  s!"{r.1.length} # " ++ String.intercalate " | " (r.1.map showFrames) ++
    (match r.2 with | some e => " ! " ++ showOSErr e | none => "")

def answerOS (secs : List (List String)) : Option String :=
  match secs with
  | [["cfg", b, nch], "taps" :: _ :: taps, "parts" :: parts, "x" :: xs] => do
    let B ← b.toNat?
    let n ← nch.toNat?
    let taps ← vecs? n (← taps.mapM parseRat?)
    let frames ← vecs? n (← xs.mapM parseRat?)
    let parts ← parts.mapM String.toNat?
    let blocks ← splitBy? parts frames
    match OS.new B taps with
    | .error e => some (showOSTrace (n := n) ([], some e))
    | .ok s => some (showOSTrace (osTrace s blocks))
  | _ => none

def answerVbsOS (secs : List (List String)) : Option String :=
  match secs with
  | [["cfg", b, nch], "taps" :: _ :: taps, "parts" :: parts, "x" :: xs] => do
    let B ← b.toNat?
    let n ← nch.toNat?
    let taps ← vecs? n (← taps.mapM parseRat?)
    let frames ← vecs? n (← xs.mapM parseRat?)
    let parts ← parts.mapM String.toNat?
    let blocks ← splitBy? parts frames
    match OS.new B taps with
    | .error e => some (showOSTrace (n := n) ([], some e))
    | .ok s =>
      -- VariableBlockSizeAdapter.__init__: process_func(zeros) raises for an empty filter
      match s.filterBlock (List.replicate B (0 : Frame n)) with
      | .error e => some (showOSTrace (n := n) ([], some e))
      | .ok _ =>
        let st := Vbs.init OS.step B (0 : Frame n) s
        let (os, _) := Vbs.run OS.step B 0 st blocks
        some (s!"{os.length} # " ++ String.intercalate " | " (os.map showFrames))
  | _ => none

def answerCirc (secs : List (List String)) : Option String :=
  match secs with
  | [["cfg", nn, nch], "a" :: _ :: as, "b" :: bs] => do
    let N ← nn.toNat?
    let n ← nch.toNat?
    let a ← vecs? n (← as.mapM parseRat?)
    let b ← vecs? n (← bs.mapM parseRat?)
    if b.length ≠ N then none
    some ("1 # " ++ showFrames (circConv N a b))
  | _ => none

def answer (line : String) : String :=
  let secs := (line.splitOn ";").map words
  let r := match secs with
    | ["run"] :: rest => answerRender "run" rest
    | ["spec"] :: rest => answerRender "spec" rest
    | ["runts"] :: rest => answerRenderTS "runts" rest
    | ["spects"] :: rest => answerRenderTS "spects" rest
    | ["runos"] :: rest => answerRender "runos" rest
    | ["runtsos"] :: rest => answerRenderTS "runtsos" rest
    | ["os"] :: rest => answerOS rest
    | ["vbsos"] :: rest => answerVbsOS rest
    | ["circ"] :: rest => answerCirc rest
    | ["fir"] :: rest => answerFir rest
    | ["vbs"] :: rest => answerVbs rest
    | _ => none
  r.getD "bad-op"

def main : IO Unit := lineLoop answer
