/-
Time-bounded gain processing (C02/C03), transliterated from `ear/core/renderer_common.py`
(`ceil`, `ProcessingBlock`, `FixedGains`, `InterpGains`, `BlockProcessingChannel`,
`InterpretTimingMetadata`), `ear/core/objectbased/renderer.py` (`InterpretObjectMetadata`),
`ear/core/direct_speakers/renderer.py` (`InterpretDirectSpeakersMetadata`) and
`ear/core/scenebased/renderer.py` (`FixedMatrix`, `InterpretHOAMetadata`).

Times are exact rationals (`Fraction`) or `inf` (`np.inf`, for a block without end).  The gains of a
metadata block (the result of `calc_gains(block)` / `design_decoder(block)`) are *inputs*.
Exceptions are `Except Err`.  Core Lean only.
-/
import Earverif.Model.Stream
namespace Earverif.Timeline
open Earverif.Stream

/-- A `Fraction`/`int` or `inf`. -/
inductive Ext (α : Type) where
  | fin (a : α)
  | inf
  deriving DecidableEq, Repr

/-- `a < b` for `a` finite, `b` possibly `inf`. -/
def Ext.gtFin {α : Type} [LT α] [DecidableLT α] (b : Ext α) (a : α) : Bool :=
  match b with | .fin x => decide (a < x) | .inf => true

/-- `b < a` for `a` finite, `b` possibly `inf`. -/
def Ext.ltFin {α : Type} [LT α] [DecidableLT α] (b : Ext α) (a : α) : Bool :=
  match b with | .fin x => decide (x < a) | .inf => false

/-- `a > b` on extended values (`inf > inf` is false). -/
def Ext.gt {α : Type} [LT α] [DecidableLT α] : Ext α → Ext α → Bool
  | .fin x, .fin y => decide (y < x)
  | .fin _, .inf => false
  | .inf, .fin _ => true
  | .inf, .inf => false

def Ext.addFin (a : Rat) : Ext Rat → Ext Rat
  | .fin x => .fin (a + x)
  | .inf => .inf

/-- `b - a` with `a` finite. -/
def Ext.subFin (b : Ext Rat) (a : Rat) : Ext Rat :=
  match b with | .fin x => .fin (x - a) | .inf => .inf

/-- `t * sample_rate` (`sample_rate > 0`). -/
def Ext.mulNat (b : Ext Rat) (sr : Nat) : Ext Rat :=
  match b with | .fin x => .fin (x * sr) | .inf => .inf

/-- `math.trunc` of a `Fraction` (rounds toward zero). -/
def trunc (x : Rat) : Int := if 0 ≤ x then x.floor else -((-x).floor)

/-- `renderer_common.ceil`: `y = trunc(x); if y < x: y += 1`. -/
def ceil (x : Rat) : Int :=
  let y := trunc x
  if (y : Rat) < x then y + 1 else y

/-- `ceil` passes `inf` through. -/
def ceilE : Ext Rat → Ext Int
  | .fin q => .fin (ceil q)
  | .inf => .inf

/-! ### `ProcessingBlock` -/

/-- `ProcessingBlock` with a payload `K` (gains / ramp / matrix). -/
structure PBlock (K : Type) where
  start_sample : Rat
  end_sample : Ext Rat
  first_sample : Int
  last_sample : Ext Int
  k : K
  deriving Repr

/-- attrs defaults: `first_sample = ceil(start_sample)`, `last_sample = ceil(end_sample)`. -/
def PBlock.new {K : Type} (s : Rat) (e : Ext Rat) (k : K) : PBlock K := ⟨s, e, ceil s, ceilE e, k⟩

/-- `ProcessingBlock.overlap`: `((state lo, state hi), (samples lo, samples hi))`. -/
def PBlock.overlap {K : Type} (b : PBlock K) (start_sample : Int) (num_samples : Nat) :
    (Int × Int) × (Int × Int) :=
  let end_sample := start_sample + num_samples
  let overlap_start_sample := max start_sample b.first_sample
  let overlap_end_sample := match b.last_sample with
    | .fin l => min end_sample l
    | .inf => end_sample
  if overlap_start_sample ≤ overlap_end_sample then
    ((overlap_start_sample - b.first_sample, overlap_end_sample - b.first_sample),
     (overlap_start_sample - start_sample, overlap_end_sample - start_sample))
  else ((0, 0), (0, 0))

/-- `output[ovl_samples] += F(input[ovl_samples], state[ovl_state])`: `upd k x o` is the new value
of an output row `o` for input sample `x` and state index `k`. -/
def applyOverlap {ι V : Type} (upd : Nat → ι → V → V) (ovl : (Int × Int) × (Int × Int))
    (inp : List ι) (out : List V) : List V :=
  out.mapIdx fun j o =>
    if ovl.2.1 ≤ (j : Int) ∧ (j : Int) < ovl.2.2 then
      match inp[j]? with
      | some x => upd (ovl.1.1 + ((j : Int) - ovl.2.1)).toNat x o
      | none => o
    else o

/-- Payload of `FixedGains` / `InterpGains` (one input channel to a row of gains). -/
inductive GainKern (V : Type) where
  | fixed (gains : V)
  | interp (gains_start : Option V) (gains_end : V) (interp_p : List Rat)
  deriving Repr

/-- `InterpGains._interp_p`: `start + arange(n) * ((end - start) / n)`. -/
def interpP (start_sample end_sample : Rat) (first_sample last_sample : Int) : List Rat :=
  let n := last_sample - first_sample
  if n = 0 then []
  else
    let start : Rat := (first_sample - start_sample) / (end_sample - start_sample)
    let end_ : Rat := (last_sample - start_sample) / (end_sample - start_sample)
    (List.range n.toNat).map fun (i : Nat) => start + (i : Rat) * ((end_ - start) / (n : Rat))

def mkFixed {V : Type} (s : Rat) (e : Ext Rat) (g : V) : PBlock (GainKern V) :=
  PBlock.new s e (.fixed g)

def mkInterp {V : Type} (s e : Rat) (gs : Option V) (ge : V) : PBlock (GainKern V) :=
  PBlock.new s (.fin e) (.interp gs ge (interpP s e (ceil s) (ceil e)))

/-- `FixedGains.process` / `InterpGains.process` per overlapping sample. -/
def GainKern.upd {V : Type} [RMod V] : GainKern V → Nat → Rat → V → V
  | .fixed g, _, x, o => o + RMod.smul x g
  | .interp gs ge p, k, x, o =>
    let pk := p.getD k 0
    let o := match gs with
      | some g0 => o + RMod.smul (x * (1 - pk)) g0
      | none => o
    o + RMod.smul (x * pk) ge

/-- `np.dot(input_row, matrix.T)` with `cols[j]` = column `j` of the matrix (scattered to the
output channels selected by `output_channels`). -/
def dot {V : Type} [RMod V] (xs : List Rat) (cols : List V) : V :=
  (List.zipWith RMod.smul xs cols).foldl (· + ·) 0

/-- `FixedMatrix.process` per overlapping sample. -/
def matUpd {V : Type} [RMod V] (cols : List V) (_k : Nat) (xs : List Rat) (o : V) : V :=
  o + dot xs cols

/-- `block.process(start_sample, input_samples, output_samples)`. -/
def PBlock.process {K ι V : Type} (upd : K → Nat → ι → V → V) (b : PBlock K) (start_sample : Int)
    (inp : List ι) (out : List V) : List V :=
  applyOverlap (upd b.k) (b.overlap start_sample inp.length) inp out

/-! ### Metadata blocks and interpreters -/

/-- The timing-relevant part of a `TypeMetadata` plus the captured result of the gain calculator. -/
structure MetaBlock (G : Type) where
  object_start : Option Rat
  object_duration : Option Rat
  rtime : Option Rat
  duration : Option Rat
  jump : Bool               -- jumpPosition.flag
  interpLen : Option Rat    -- jumpPosition.interpolationLength
  gains : G
  deriving Repr

inductive Err where
  | endsAfterObject     -- "block ... ends after object"
  | rtimeDurationMix    -- "rtime and duration must be used together."
  | overlapping         -- "overlapping blocks ... detected"
  | interpTooLong       -- "specified interpolation length is longer than block"
  | assertInf           -- assert not math.isinf(target_sample)
  | underrun            -- "metadata underrun"
  | align (e : AlignErr)
  deriving Repr, DecidableEq

/-- `InterpretTimingMetadata.block_start_end`; `lbe` is `self.__last_block_end`.  Returns
`(block_start, block_end)`; the new `__last_block_end` is `block_end`. -/
def blockStartEnd {G : Type} (lbe : Option (Ext Rat)) (m : MetaBlock G) : Except Err (Rat × Ext Rat) :=
  let object_start : Rat := m.object_start.getD 0
  let object_end : Ext Rat := match m.object_duration with
    | some d => .fin (object_start + d)
    | none => .inf
  let r : Except Err (Rat × Ext Rat) :=
    match m.rtime, m.duration with
    | some rtime, some duration =>
      -- block_start = object_start + rtime; block_end = block_start + duration
      if object_end.ltFin (object_start + rtime + duration) then .error Err.endsAfterObject
      else .ok (object_start + rtime, Ext.fin (object_start + rtime + duration))
    | none, none => .ok (object_start, object_end)
    | _, _ => .error Err.rtimeDurationMix
  match r with
  | .error e => .error e
  | .ok (block_start, block_end) =>
    match lbe with
    | some l => if l.gtFin block_start then .error Err.overlapping else .ok (block_start, block_end)
    | none => .ok (block_start, block_end)

/-- State of an interpreter: `__last_block_end` of the base class; `last_block_end` and
`last_block_gains` of `InterpretObjectMetadata` (unused by the other two). -/
structure IState (G : Type) where
  tlast : Option (Ext Rat) := none
  last_block_end : Option (Ext Rat) := none
  last_block_gains : Option G := none

/-- `InterpretObjectMetadata.interp_length`. -/
def interpLength {G : Type} (m : MetaBlock G) (duration : Ext Rat) : Ext Rat :=
  if m.jump then
    match m.interpLen with
    | some l => .fin l
    | none => .fin 0
  else duration

/-- `InterpretObjectMetadata.__call__` run to exhaustion: new state and the yielded blocks. -/
def interpObject {V : Type} (sr : Nat) (st : IState V) (m : MetaBlock V) :
    Except Err (IState V × List (PBlock (GainKern V))) :=
  match blockStartEnd st.tlast m with
  | .error e => .error e
  | .ok (start_time, end_time) =>
    let interp_time := interpLength m (end_time.subFin start_time)
    let target_time := Ext.addFin start_time interp_time
    if target_time.gt end_time then .error Err.interpTooLong
    else
      -- if self.last_block_end is not None and start_time == self.last_block_end
      let ti : Ext Rat × Option V :=
        if st.last_block_end = some (.fin start_time) then (target_time, st.last_block_gains)
        else (Ext.fin start_time, none)
      let interp_to := m.gains
      let start_sample : Rat := start_time * sr
      let end_sample := end_time.mulNat sr
      let target_sample := ti.1.mulNat sr
      let y1 : Except Err (List (PBlock (GainKern V))) :=
        if Ext.fin start_sample ≠ target_sample then
          match target_sample with
          | .inf => .error Err.assertInf
          | .fin t => .ok [mkInterp start_sample t ti.2 interp_to]
        else .ok []
      let y2 : Except Err (List (PBlock (GainKern V))) :=
        if target_sample ≠ end_sample then
          match target_sample with
          | .inf => .error Err.assertInf
          | .fin t => .ok [mkFixed t end_sample interp_to]
        else .ok []
      match y1 with
      | .error e => .error e
      | .ok a =>
        match y2 with
        | .error e => .error e
        | .ok b =>
          .ok ({ tlast := some end_time, last_block_end := some end_time, last_block_gains := some interp_to },
               a ++ b)

/-- `InterpretDirectSpeakersMetadata.__call__` / `InterpretHOAMetadata.__call__` (payload `G` =
gain row resp. decode matrix): one block `[sr*start, sr*end)`. -/
def interpFixed {G : Type} (sr : Nat) (st : IState G) (m : MetaBlock G) :
    Except Err (IState G × List (PBlock G)) :=
  match blockStartEnd st.tlast m with
  | .error e => .error e
  | .ok (start_time, end_time) =>
    let start_sample : Rat := sr * start_time
    let end_sample := end_time.mulNat sr
    .ok ({ st with tlast := some end_time }, [PBlock.new start_sample end_sample m.gains])

/-! ### `BlockProcessingChannel` -/

/-- `metadata_source` (a `MetadataSourceIter`: the blocks not yet pulled), the interpreter's state
and `processing_queue`. -/
structure Bpc (M S K : Type) where
  source : List M
  istate : S
  queue : List (PBlock K)

/-- `_refil_processing_queue` (recursion on the remaining source). -/
def refill {M S K : Type} (interp : S → M → Except Err (S × List (PBlock K)))
    (start_sample : Option Int) : List M → S → List (PBlock K) → Except Err (Bpc M S K)
  | [], st, q => pure ⟨[], st, q⟩
  | m :: rest, st, q =>
    if q ≠ [] then pure ⟨m :: rest, st, q⟩
    else do
      let (st', new) ← interp st m
      match start_sample with
      | some ss => if new.any (fun b => b.first_sample < ss) then throw Err.underrun
      | none => pure ()
      refill interp start_sample rest st' (q ++ new)

/-- The `while len(self.processing_queue)` loop of `BlockProcessingChannel.process`, with fuel. -/
def bpcLoop {M S K ι V : Type} (interp : S → M → Except Err (S × List (PBlock K)))
    (upd : K → Nat → ι → V → V) (start_sample : Int) (inp : List ι) :
    Nat → Bpc M S K → List V → Except Err (Bpc M S K × List V)
  | 0, b, out => pure (b, out)
  | fuel + 1, b, out =>
    match b.queue with
    | [] => pure (b, out)
    | pb :: q =>
      let end_sample : Int := start_sample + inp.length
      let out := pb.process upd start_sample inp out
      if pb.last_sample.ltFin end_sample then do
        -- processing ends before end of sample block: next processing block
        let b' ← refill interp none b.source b.istate q
        bpcLoop interp upd start_sample inp fuel b' out
      else if pb.last_sample = .fin end_sample then
        pure ({ b with queue := q }, out)
      else pure (b, out)

/-- Enough fuel for the loop when an interpreter yields at most two blocks per metadata block. -/
def Bpc.fuel {M S K : Type} (b : Bpc M S K) : Nat := b.queue.length + 2 * b.source.length + 1

/-- `BlockProcessingChannel.process`. -/
def Bpc.process {M S K ι V : Type} (interp : S → M → Except Err (S × List (PBlock K)))
    (upd : K → Nat → ι → V → V) (start_sample : Int) (inp : List ι) (out : List V)
    (b : Bpc M S K) : Except Err (Bpc M S K × List V) := do
  let b ← refill interp (some start_sample) b.source b.istate b.queue
  bpcLoop interp upd start_sample inp b.fuel b out

end Earverif.Timeline
