/-
C14 — item selection fails only with ADM errors, and rejects what it cannot resolve.

Theorems about the model `Earverif.Validate.selectItems` (a transliteration of
`select_rendering_items` with the pack allocator abstracted to an oracle, see Model/Validate.lean);
the model is tied to /repo by harness/c14.py on every run.

`select_no_internal_partial` is PARTIAL:
* outside the model: Matrix-typed packs/channels (the model answers `unmodelled`), alternativeValueSet
  references from programmes/contents, message formatting, attrs type validators, `RecursionError`
  (graph walks use fuel = number of elements; the loop validations run first);
* hypothesis `MultitreeSound` — "`_validate_pack_channel_multitree` accepting the document implies that
  every channel is on exactly one pack path" — is not proved here; the driver evaluates it on every
  correspondence case (`mt=1`).
The former hypotheses `hoaNonempty` and `supportedTypes` are gone: since commits 03146b0 and 76cae51 the
code raises `AdmError` for a HOA pack without channels and for a pack type it cannot render, so these are
ordinary ADM outcomes of the model (`hoa_empty_pack_is_adm`, `unsupported_type_is_adm`).
-/
import Earverif.Proofs.C14
namespace Earverif.Validate
open Earverif.AdmV

/-- the graph-theoretic fact `_get_pack_format_path`'s `[found_path] = ...` relies on -/
def MultitreeSound (d : Doc) : Prop := validateMultitree d = .ok () → uniquePaths d = true

/-- After `validate_structure` succeeded every later unpacking / dereference / assert is safe: item
selection never ends in a non-ADM exception. -/
theorem select_no_internal_partial (d : Doc) (prog : Option Nat) (sel : List Nat) (oracle : Oracle)
    (hw : d.wellScoped = true)
    (hprog : ∀ p, prog = some p → p < d.programmes.length)
    (horacle : OracleScoped d oracle) (hmt : MultitreeSound d) :
    ∀ k, selectItems d prog sel oracle ≠ .error (.internal k) := by
  intro k hk
  unfold selectItems at hk
  split at hk
  · cases hk
  · split at hk
    · rename_i e he; injection hk with hk; subst hk
      exact validateStructure_noInt d k he
    · rename_i hv
      have hs := validateStructure_ok hv
      split at hk
      · rename_i e he; injection hk with hk; subst hk
        exact selectComplementary_noInt d sel k he
      · split at hk
        · rename_i e he; injection hk with hk; subst hk
          exact selectStates_noInt hprog k he
        · exact sumE_noInt (fun i st _ => processState_noInt hw hs horacle (hmt hs.multitree) i st) 0 k hk

/-- `validate_structure` alone raises only ADM errors, on every document graph (no hypothesis at all;
`_partial` only because the Matrix branch and `_validate_avs_references` are outside the model). -/
theorem validate_no_internal_partial (d : Doc) :
    ∀ k, validateStructure d ≠ .error (.internal k) := validateStructure_noInt d

/-- No allocation (0 solutions): `select_pack_mapping` never yields items, and what it raises is not a
non-ADM exception — the diagnostics in `raise_error` are total on the validated tracks. -/
theorem conflicting_is_error (d : Doc) (oracle : Oracle) (i : Nat) (st : State)
    (hw : d.wellScoped = true) (hs : validateStructure d = .ok ()) (ho : oracle i = some []) :
    (∀ m, processState d oracle i st ≠ .ok m) ∧ ∀ k, processState d oracle i st ≠ .error (.internal k) := by
  refine ⟨processState_conflicting_never_items ho, ?_⟩
  have hso := validateStructure_ok hs
  have hlt := selectedOf_tracks_lt hw st
  have hok := processState_tracksOk hw hso st
  intro k hk
  unfold processState at hk
  rcases hsel : selectedOf d st with ⟨packs, tracks, n⟩
  rw [hsel] at hk hlt hok
  simp only [ho] at hk hlt hok
  have hrefs : ∀ t ∈ tracks, TrackRefsOk d t := fun t ht => trackRefsOk_of_valid hw hso (hlt t ht)
  split at hk
  · rename_i e he; injection hk with hk; subst hk
    exact forE_noInt (fun t ht => validateSelectedTrack_noInt (hrefs t ht)) k he
  · rename_i hv
    split at hk
    · rename_i e he; injection hk with hk; subst hk
      exact mapE_noInt (fun t ht => channelForTrack_noInt (hrefs t ht)) k he
    · exact raiseError_noInt (hok hv) k hk

/-- Ambiguous allocation (≥ 2 solutions): never resolved to items, never a non-ADM exception. -/
theorem ambiguous_is_error (d : Doc) (oracle : Oracle) (i : Nat) (st : State)
    (s1 s2 : List Nat) (rest : List (List Nat))
    (hw : d.wellScoped = true) (hs : validateStructure d = .ok ()) (ho : oracle i = some (s1 :: s2 :: rest)) :
    (∀ m, processState d oracle i st ≠ .ok m) ∧ ∀ k, processState d oracle i st ≠ .error (.internal k) := by
  refine ⟨processState_ambiguous_never_items ho, ?_⟩
  have hso := validateStructure_ok hs
  have hlt := selectedOf_tracks_lt hw st
  have hok := processState_tracksOk hw hso st
  intro k hk
  unfold processState at hk
  rcases hsel : selectedOf d st with ⟨packs, tracks, n⟩
  rw [hsel] at hk hlt hok
  simp only [ho] at hk hlt hok
  have hrefs : ∀ t ∈ tracks, TrackRefsOk d t := fun t ht => trackRefsOk_of_valid hw hso (hlt t ht)
  split at hk
  · rename_i e he; injection hk with hk; subst hk
    exact forE_noInt (fun t ht => validateSelectedTrack_noInt (hrefs t ht)) k he
  · rename_i hv
    split at hk
    · rename_i e he; injection hk with hk; subst hk
      exact mapE_noInt (fun t ht => channelForTrack_noInt (hrefs t ht)) k he
    · exact raiseError_noInt (hok hv) k hk

/-- whenever the raise-error path is reached the result is the ADM error asked for, provided the
diagnostics terminate normally (which `diagnostics_total` shows) -/
theorem raiseError_adm (d : Doc) (packs : Option (List Nat)) (tracks : List Nat) (n : Nat) (a : AdmKind)
    (h : ∀ t ∈ tracks, TrackOk d t) :
    raiseError d packs tracks n a = .error (.adm a) ∨
      ∃ a', possibleReferenceErrors d packs tracks n = .error (.adm a') ∨
        possibleReferenceErrors d packs tracks n = .error .unmodelled ∨
        possibleReferenceErrors d packs tracks n = .error .noOracle := by
  unfold raiseError
  cases hp : possibleReferenceErrors d packs tracks n with
  | ok l => left; rfl
  | error e =>
    right
    cases e with
    | adm a' => exact ⟨a', Or.inl rfl⟩
    | internal k => exact absurd hp (possibleReferenceErrors_noInt h k)
    | unmodelled => exact ⟨a, Or.inr (Or.inl rfl)⟩
    | noOracle => exact ⟨a, Or.inr (Or.inr rfl)⟩

/-- `possible_reference_errors` yields no non-ADM exception for either referencing style, on tracks that
passed `validate_selected_audioTrackUID` in a validated document (`TrackOk`; for a v1-style track the
trackFormat → streamFormat → channelFormat chain is complete, for a v2-style track the direct
channelFormat reference is present). This is the obligation the tree before commit 0d9f6b4 fails. -/
theorem diagnostics_total (d : Doc) (packs : Option (List Nat)) (tracks : List Nat) (n : Nat)
    (h : ∀ t ∈ tracks, TrackOk d t) :
    ∀ k, possibleReferenceErrors d packs tracks n ≠ .error (.internal k) :=
  possibleReferenceErrors_noInt h

/-! ### Non-vacuity and counter-examples (kernel evaluation) -/

deriving instance DecidableEq for Except

def objBlock : Block := {}
def hoaBlock (o g : Int) : Block := { order := some o, degree := some g }

/-- valid BS.2076-1 style document: programme → content → object → pack/track; track → trackFormat → stream → channel -/
def docV1 : Doc := {
  v2Allowed := false
  programmes := [{ contents := [0] }], contents := [{ objects := [0] }]
  objects := [{ packs := [0], tracks := [some 0] }]
  packs := [{ type := .objects, channels := [0] }]
  channels := [{ type := .objects, blocks := [objBlock] }]
  streams := [{ channel := some 0 }], trackFormats := [{ stream := some 0 }]
  trackUIDs := [{ trackIndex := some 1, pack := some 0, trackFormat := some 0 }] }

/-- valid BS.2076-2 style document: track → channel directly -/
def docV2 : Doc := {
  v2Allowed := true
  programmes := [{ contents := [0] }], contents := [{ objects := [0] }]
  objects := [{ packs := [0], tracks := [some 0] }]
  packs := [{ type := .objects, channels := [0] }]
  channels := [{ type := .objects, blocks := [objBlock] }]
  trackUIDs := [{ trackIndex := some 1, pack := some 0, channel := some 0 }] }

def oracleOne : Oracle := fun _ => some [[0]]
def oracleNone : Oracle := fun _ => some []
def oracleTwo : Oracle := fun _ => some [[0], [0]]

example : docV1.wellScoped = true ∧ uniquePaths docV1 = true := by decide
example : selectItems docV1 none [] oracleOne = .ok 1 := by decide
example : selectItems docV2 none [] oracleOne = .ok 1 := by decide
example : selectItems docV1 (some 0) [] oracleOne = .ok 1 := by decide
-- conflicting / ambiguous references, both styles: the ADM error, via total diagnostics
example : selectItems docV1 none [] oracleNone = .error (.adm .conflicting) := by decide
example : selectItems docV2 none [] oracleNone = .error (.adm .conflicting) := by decide
example : selectItems docV1 none [] oracleTwo = .error (.adm .ambiguous) := by decide
example : selectItems docV2 none [] oracleTwo = .error (.adm .ambiguous) := by decide
-- one faulty document per modelled fault class
example : selectItems { docV1 with trackFormats := [{ stream := none }] } none [] oracleOne = .error (.adm .tfnostream) := by decide
example : selectItems { docV1 with streams := [{}] } none [] oracleOne = .error (.adm .streamnone) := by decide
example : selectItems { docV1 with streams := [{ channel := some 0, pack := some 0 }] } none [] oracleOne = .error (.adm .streamboth) := by decide
example : selectItems { docV1 with streams := [{ pack := some 0 }] } none [] oracleOne = .error (.adm .streamnochannel) := by decide
example : selectItems { docV1 with objects := [{ packs := [0], tracks := [some 0], objects := [0] }] } none [] oracleOne = .error (.adm .objloop) := by decide
example : selectItems { docV1 with objects := [{ objects := [1], params := true }, { packs := [0], tracks := [some 0] }] } none [] oracleOne = .error (.adm .leafparam) := by decide
example : selectItems { docV1 with channels := [{ type := .directSpeakers, blocks := [objBlock] }] } none [] oracleOne = .error (.adm .packchtype) := by decide
example : selectItems { docV1 with packs := [{ type := .objects, channels := [0], packs := [1] }, { type := .directSpeakers }] } none [] oracleOne = .error (.adm .subpacktype) := by decide
example : selectItems { docV1 with packs := [{ type := .objects, channels := [0], packs := [0] }] } none [] oracleOne = .error (.adm .packloop) := by decide
example : selectItems { docV1 with packs := [{ type := .objects, channels := [0, 0] }] } none [] oracleOne = .error (.adm .diamond) := by decide
example : selectItems { docV1 with channels := [{ type := .objects, freq := true, blocks := [objBlock] }] } none [] oracleOne = .error (.adm .objfreq) := by decide
example : selectItems { docV1 with channels := [{ type := .objects, blocks := [{ cartMismatch := true }] }] } none [] oracleOne = .error (.adm .cartesian) := by decide
example : selectItems { docV1 with packs := [{ type := .objects, channels := [0], input := some 0 }] } none [] oracleOne = .error (.adm .nmxinput) := by decide
example : selectItems { docV1 with trackUIDs := [{ trackIndex := some 1, pack := some 0, trackFormat := some 0, channel := some 0 }] } none [] oracleOne = .error (.adm .v2ref) := by decide
example : selectItems { docV2 with trackUIDs := [{ trackIndex := some 1, pack := some 0 }] } none [] oracleOne = .error (.adm .tracknone) := by decide
example : selectItems { docV2 with trackUIDs := [{ trackIndex := some 1, pack := some 0, channel := some 0, trackFormat := some 0 }], trackFormats := [{ stream := some 0 }], streams := [{ channel := some 0 }] } none [] oracleOne = .error (.adm .trackboth) := by decide
example : selectItems { docV2 with trackUIDs := [{ pack := some 0, channel := some 0 }] } none [] oracleOne = .error (.adm .noindex) := by decide
example : selectItems { docV2 with trackUIDs := [{ trackIndex := some 1, channel := some 0 }] } none [] oracleOne = .error (.adm .nopack) := by decide
example : selectItems docV2 none [0] oracleOne = .error (.adm .compnotgroup) := by decide

/-- first-order-less HOA document: one HOA pack with one channel -/
def docHoa : Doc := {
  v2Allowed := true
  programmes := [{ contents := [0] }], contents := [{ objects := [0] }]
  objects := [{ packs := [0], tracks := [some 0] }]
  packs := [{ type := .hoa, channels := [0] }]
  channels := [{ type := .hoa, blocks := [hoaBlock 0 0] }]
  trackUIDs := [{ trackIndex := some 1, pack := some 0, channel := some 0 }] }

example : selectItems docHoa none [] oracleOne = .ok 1 := by decide
example : selectItems { docHoa with channels := [{ type := .hoa, blocks := [] }] } none [] oracleOne = .error (.adm .hoablocks) := by decide
example : selectItems { docHoa with channels := [{ type := .hoa, blocks := [{ degree := some 0 }] }] } none [] oracleOne = .error (.adm .hoaorder) := by decide

/-- former finding F1 (fixed in 03146b0): a HOA pack that references no channel is rejected with an ADM error
(before the fix `get_single_param` indexed `pack_paths_channels[0]`: IndexError) -/
theorem hoa_empty_pack_is_adm :
    selectItems { docHoa with packs := [{ type := .hoa, channels := [] }] } none [] oracleOne
      = .error (.adm .hoaempty) := by decide

/-- former finding F4 (fixed in 76cae51): a consistent Binaural document is rejected with an ADM error
(before the fix `_get_rendering_items` raised NotImplementedError) -/
theorem unsupported_type_is_adm :
    selectItems { docV2 with packs := [{ type := .binaural, channels := [0] }],
                             channels := [{ type := .binaural, blocks := [objBlock] }] } none [] oracleOne
      = .error (.adm .unsupportedtype) := by decide

end Earverif.Validate
