/-
C20 — when does the binary64 evaluation of `int(math.ceil((sample_rate * delay) / 1000.0 - 0.5))`
(`delaySamplesF`) give the nearest sample of the exact value (`delaySamples`)?  Whenever
`x = sample_rate·delay/1000` keeps a relative distance of `2^-50` from every half-integer
(`delaySamplesF_eq_of_margin`).  Uses the `rn53` lemmas of `Proofs/C16Ieee.lean` (Mathlib).
This module imports `Props/C20.lean` and is the module the harness audits (`props_module`), so that
`Props/C20.lean` itself (imported by `Props/C02.lean`, `Props/C06.lean`) stays free of Mathlib.
-/
import Earverif.Proofs.C16Ieee
import Earverif.Props.C20

namespace Earverif.TrackSpec
open Earverif.Ieee

/-- relative error of binary64 rounding: at most `2^-53` -/
theorem rn53_rel (x : ℚ) (hx : 0 < x) : |rn53 x - x| ≤ x * (2 : ℚ) ^ (-53 : ℤ) := by
  obtain ⟨s1, s2⟩ := ilog2_spec x hx
  rw [rn53_pos x _ s1 s2]
  have h := rnAt_err (ilog2 x) x
  have e : (2 : ℚ) ^ (ilog2 x - 52) / 2 = (2 : ℚ) ^ (ilog2 x) * (2 : ℚ) ^ (-53 : ℤ) := by
    rw [← zpow_add₀ (by norm_num : (2 : ℚ) ≠ 0)]
    have : ilog2 x - 52 = (ilog2 x + -53) + 1 := by ring
    rw [this, zpow_add_one₀ (by norm_num : (2 : ℚ) ≠ 0)]; ring
  rw [e] at h
  exact le_trans h (mul_le_mul_of_nonneg_right s1 (two_zpow_pos _).le)

theorem ilog2_le_52' (y : ℚ) (h0 : 0 < y) (hy : y < (2 : ℚ) ^ (53 : ℤ)) : ilog2 y ≤ 52 := by
  obtain ⟨s1, -⟩ := ilog2_spec y h0
  have : (2 : ℚ) ^ ilog2 y < (2 : ℚ) ^ (53 : ℤ) := lt_of_le_of_lt s1 hy
  have := (zpow_lt_zpow_iff_right₀ (by norm_num : (1 : ℚ) < 2)).mp this
  omega

/-- an integer is a grid point of every binade `e ≤ 52` -/
theorem int_grid' (n e : ℤ) (he : e ≤ 52) :
    ((n * (2 : ℤ) ^ (52 - e).toNat : ℤ) : ℚ) * (2 : ℚ) ^ (e - 52) = n := by
  push_cast
  rw [← zpow_natCast, Int.toNat_of_nonneg (by omega), mul_assoc, ← zpow_add₀ (by norm_num)]
  have : 52 - e + (e - 52) = 0 := by ring
  rw [this, zpow_zero, mul_one]

/-- `rn53` does not cross an integer below `2^53` -/
theorem rn53_le_int' (y : ℚ) (n : ℤ) (h0 : 0 < y) (hy : y ≤ n) (hn : (n : ℚ) < (2 : ℚ) ^ (53 : ℤ)) :
    rn53 y ≤ n := by
  obtain ⟨s1, s2⟩ := ilog2_spec y h0
  have he := ilog2_le_52' y h0 (lt_of_le_of_lt hy hn)
  rw [rn53_pos y _ s1 s2]
  generalize ilog2 y = e at *
  have := rnAt_le e y (n * (2 : ℤ) ^ (52 - e).toNat) (by rw [int_grid' n e he]; exact hy)
  rwa [int_grid' n e he] at this

theorem rn53_ge_int' (y : ℚ) (n : ℤ) (h0 : 0 < y) (hy : (n : ℚ) ≤ y) (hn : y < (2 : ℚ) ^ (53 : ℤ)) :
    (n : ℚ) ≤ rn53 y := by
  obtain ⟨s1, s2⟩ := ilog2_spec y h0
  have he := ilog2_le_52' y h0 hn
  rw [rn53_pos y _ s1 s2]
  generalize ilog2 y = e at *
  have := rnAt_ge e y (n * (2 : ℤ) ^ (52 - e).toNat) (by rw [int_grid' n e he]; exact hy)
  rwa [int_grid' n e he] at this

/-- a positive integer below `2^53` is a binary64 number -/
theorem rn53_int (n : ℤ) (h0 : 0 < n) (hn : (n : ℚ) < (2 : ℚ) ^ (53 : ℤ)) : rn53 (n : ℚ) = n := by
  have hp : (0 : ℚ) < n := by exact_mod_cast h0
  exact le_antisymm (rn53_le_int' _ n hp le_rfl hn) (rn53_ge_int' _ n hp le_rfl hn)

theorem ceil_eq_of (t : ℚ) (k : ℤ) (h1 : (k : ℚ) - 1 < t) (h2 : t ≤ k) : t.ceil = k := by
  have a : t.ceil ≤ k := Rat.ceil_le_iff.mpr h2
  have b : k - 1 < t.ceil := Rat.lt_ceil_iff.mpr (by push_cast; exact h1)
  omega

/-- **delaySamplesF_eq_of_margin.**  For a sample rate `0 < fs < 2^53`, a delay `ms > 0` with
`x = fs·ms/1000 < 2^52` samples: if `x` keeps a distance of more than `x·2^-50` from every
half-integer `m + 1/2`, the code's binary64 evaluation gives exactly the nearest sample
`ceil(x - 1/2)`.  (Within that distance it need not: `float_delay_counterexample`.) -/
theorem delaySamplesF_eq_of_margin (fs : ℤ) (ms : ℚ) (hfs : 0 < fs) (hfs' : (fs : ℚ) < (2 : ℚ) ^ (53 : ℤ))
    (hms : 0 < ms) (hx52 : (fs : ℚ) * ms / 1000 < (2 : ℚ) ^ (52 : ℤ))
    (hm : ∀ m : ℤ, (fs : ℚ) * ms / 1000 * (2 : ℚ) ^ (-50 : ℤ) < |(fs : ℚ) * ms / 1000 - ((m : ℚ) + 1 / 2)|) :
    delaySamplesF fs ms = delaySamples fs ms := by
  have hfsq : (0 : ℚ) < fs := by exact_mod_cast hfs
  unfold delaySamplesF delaySamples
  rw [rn53_int fs hfs hfs']
  -- numeric facts about u = 2^-53
  have hu0 : (0 : ℚ) < (2 : ℚ) ^ (-53 : ℤ) := two_zpow_pos _
  have hu1 : (2 : ℚ) ^ (-53 : ℤ) < 1 / 8 := by
    rw [show (-53 : ℤ) = -(53 : ℕ) by norm_num, zpow_neg, zpow_natCast]; norm_num
  have h50 : (2 : ℚ) ^ (-50 : ℤ) = 8 * (2 : ℚ) ^ (-53 : ℤ) := by
    rw [show (-50 : ℤ) = -(50 : ℕ) by norm_num, show (-53 : ℤ) = -(53 : ℕ) by norm_num, zpow_neg, zpow_neg,
      zpow_natCast, zpow_natCast]; norm_num
  have h53 : (2 : ℚ) ^ (53 : ℤ) = 2 * (2 : ℚ) ^ (52 : ℤ) := by
    rw [show (53 : ℤ) = 52 + 1 by norm_num, zpow_add_one₀ (by norm_num : (2 : ℚ) ≠ 0)]; ring
  have h52 : (1 : ℚ) ≤ (2 : ℚ) ^ (52 : ℤ) := by
    rw [show (52 : ℤ) = (52 : ℕ) by norm_num, zpow_natCast]; norm_num
  rw [h50] at hm
  have ha0 : 0 < (fs : ℚ) * ms := mul_pos hfsq hms
  have hp := rn53_rel _ ha0
  have hrel : ∀ y : ℚ, 0 < y → |rn53 y - y| ≤ y * (2 : ℚ) ^ (-53 : ℤ) := rn53_rel
  generalize (2 : ℚ) ^ (-53 : ℤ) = u at *
  generalize (2 : ℚ) ^ (52 : ℤ) = B at *
  generalize (fs : ℚ) * ms = a at *
  clear hfsq hms hfs' h50
  have hax : a = 1000 * (a / 1000) := by ring
  have hx0 : 0 < a / 1000 := by positivity
  generalize a / 1000 = x at *
  have hxu0 : 0 < x * u := mul_pos hx0 hu0
  have hau : a * u = 1000 * (x * u) := by rw [hax]; ring
  rw [hau, abs_le] at hp
  generalize rn53 a = p at *
  have hp0 : 0 < p := by
    have : x * u < x := mul_lt_of_lt_one_right hx0 (by linarith)
    linarith [hp.1]
  -- second rounding
  have hb0 : 0 < p / 1000 := by positivity
  have hq := hrel (p / 1000) hb0
  rw [abs_le] at hq
  have hbu : p / 1000 * u ≤ x * u + x * u * u := by
    have : p / 1000 ≤ x + x * u := by linarith [hp.2]
    calc p / 1000 * u ≤ (x + x * u) * u := mul_le_mul_of_nonneg_right this hu0.le
      _ = x * u + x * u * u := by ring
  have hxuu : x * u * u < x * u / 8 := by
    have := mul_lt_mul_of_pos_left hu1 hxu0; linarith
  have hxu8' : x * u < x / 8 := by
    have := mul_lt_mul_of_pos_left hu1 hx0; linarith
  generalize rn53 (p / 1000) = q at *
  have hqx1 : q - x ≤ 3 * (x * u) := by linarith [hq.2, hp.2]
  have hqx2 : x - q ≤ 3 * (x * u) := by linarith [hq.1, hp.1]
  have hq0 : 0 < q := by linarith
  clear hq hp hbu hb0 hp0 hau hax ha0
  -- the nearest sample
  have hk1 : x - 1 / 2 ≤ ((x - 1 / 2).ceil : ℚ) := Rat.le_ceil
  have hk2 : ((x - 1 / 2).ceil : ℚ) < x - 1 / 2 + 1 := Rat.ceil_lt
  generalize (x - 1 / 2).ceil = k at *
  have hm1 := hm (k - 1)
  have hm2 := hm k
  have e1 : x - (((k - 1 : ℤ) : ℚ) + 1 / 2) = x - ((k : ℚ) - 1 / 2) := by push_cast; ring
  rw [e1, abs_of_pos (by linarith)] at hm1
  have hm2' : x * (8 * u) < (k : ℚ) + 1 / 2 - x := by
    rcases lt_or_eq_of_le (show x ≤ (k : ℚ) + 1 / 2 by linarith) with h | h
    · rw [abs_of_neg (by linarith)] at hm2; linarith
    · rw [h, sub_self, abs_zero] at hm2
      have : 0 < ((k : ℚ) + 1 / 2) * (8 * u) := by rw [← h]; positivity
      linarith
  have hxu8 : x * (8 * u) = 8 * (x * u) := by ring
  rw [hxu8] at hm1 hm2'
  clear hm hm2 e1 hxu8
  -- the value fed to ceil
  have ht1 : (k : ℚ) - 1 + 5 * (x * u) < q - 1 / 2 := by linarith
  have ht2 : q - 1 / 2 < (k : ℚ) - 5 * (x * u) := by linarith
  have hk0 : 0 ≤ k := by
    have : (-1 : ℚ) < k := by linarith
    have : (-1 : ℤ) < k := by exact_mod_cast this
    omega
  apply ceil_eq_of _ k
  · -- k - 1 < rn53 (q - 1/2)
    rcases lt_or_ge 0 k with hkpos | hkz
    · -- k ≥ 1: the argument is positive
      have hk1' : (1 : ℚ) ≤ k := by exact_mod_cast hkpos
      have ht0 : 0 < q - 1 / 2 := by linarith
      have hz := hrel (q - 1 / 2) ht0
      rw [abs_le] at hz
      have hxhalf : 1 / 2 ≤ x := by linarith
      have hku : (q - 1 / 2) * u ≤ 2 * (x * u) := by
        have h1 : (q - 1 / 2) * u ≤ (k : ℚ) * u := mul_le_mul_of_nonneg_right (by linarith) hu0.le
        have h2 : (k : ℚ) * u ≤ (x + 1 / 2) * u := mul_le_mul_of_nonneg_right (by linarith) hu0.le
        have h3 : 1 / 2 * u ≤ x * u := mul_le_mul_of_nonneg_right hxhalf hu0.le
        have h4 : (x + 1 / 2) * u = x * u + 1 / 2 * u := by ring
        linarith
      linarith [hz.1]
    · -- k = 0: the argument is in (-1/2, 0)
      have hk : k = 0 := by omega
      subst hk
      push_cast at ht2 ⊢
      have hs0 : 0 < -(q - 1 / 2) := by linarith
      have hz := hrel (-(q - 1 / 2)) hs0
      rw [abs_le] at hz
      have e : rn53 (q - 1 / 2) = -rn53 (-(q - 1 / 2)) := by rw [rn53_neg, neg_neg]
      rw [e]
      have hs1 : -(q - 1 / 2) < 1 / 2 := by linarith
      have : -(q - 1 / 2) * u < 1 / 2 * (1 / 8) := mul_lt_mul'' hs1 hu1 hs0.le hu0.le
      linarith [hz.2]
  · -- rn53 (q - 1/2) ≤ k
    rcases lt_or_ge 0 k with hkpos | hkz
    · have hk1' : (1 : ℚ) ≤ k := by exact_mod_cast hkpos
      have ht0 : 0 < q - 1 / 2 := by linarith
      apply rn53_le_int' _ k ht0 (by linarith)
      rw [h53]; linarith
    · have hk : k = 0 := by omega
      subst hk
      push_cast at ht2 ⊢
      have hs0 : 0 < -(q - 1 / 2) := by linarith
      have hz := hrel (-(q - 1 / 2)) hs0
      rw [abs_le] at hz
      have e : rn53 (q - 1 / 2) = -rn53 (-(q - 1 / 2)) := by rw [rn53_neg, neg_neg]
      rw [e]
      have : -(q - 1 / 2) * u < -(q - 1 / 2) := mul_lt_of_lt_one_right hs0 (by linarith)
      linarith [hz.1]

/-- the margin theorem of `Proofs/C20FloatMargin.lean`, as a statement about specs: a coefficient
node whose delay keeps a relative distance `2^-50` from every half sample is float-exact -/
theorem floatExact_of_margin {α : Type} (fs : Int) (t : Spec α) (g : Option α) (ms : Rat)
    (ht : t.floatExact fs = true) (hfs : 0 < fs) (hfs' : (fs : Rat) < (2 : Rat) ^ (53 : Int)) (hms : 0 < ms)
    (hx52 : (fs : Rat) * ms / 1000 < (2 : Rat) ^ (52 : Int))
    (hm : ∀ m : Int, (fs : Rat) * ms / 1000 * (2 : Rat) ^ (-50 : Int) <
      |(fs : Rat) * ms / 1000 - ((m : Rat) + 1 / 2)|) :
    (Spec.matrix t g (some ms)).floatExact fs = true := by
  simp only [Spec.floatExact, ht, Bool.true_and, decide_eq_true_eq]
  exact delaySamplesF_eq_of_margin fs ms hfs hfs' hms hx52 hm

/-- non-vacuity of the margin: 1/32 ms at 48 kHz is 1.5 samples … an exact tie, so the margin
hypothesis fails there (distance 0) although the float evaluation is exact; 1/64 ms (0.75 samples)
meets it -/
example : ∀ m : Int, (48000 : Rat) * (1 / 64) / 1000 * (2 : Rat) ^ (-50 : Int) <
    |(48000 : Rat) * (1 / 64) / 1000 - ((m : Rat) + 1 / 2)| := by
  intro m
  have e : (48000 : Rat) * (1 / 64) / 1000 = 3 / 4 := by norm_num
  rw [e]
  have h50 : (2 : Rat) ^ (-50 : Int) < 1 / 8 := by
    rw [show (-50 : Int) = -(50 : Nat) by norm_num, zpow_neg, zpow_natCast]; norm_num
  have hc : (3 / 4 : Rat) * (2 : Rat) ^ (-50 : Int) < 1 / 8 := by nlinarith
  rcases le_or_gt m 0 with h | h
  · have : (m : Rat) ≤ 0 := by exact_mod_cast h
    rw [abs_of_pos (by linarith)]; linarith
  · have : (1 : Rat) ≤ m := by exact_mod_cast h
    rw [abs_of_neg (by linarith)]; linarith


end Earverif.TrackSpec
