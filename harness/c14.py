"""C14 — item selection fails only with ADM errors, and rejects what it cannot resolve.

Fault injector over valid generated documents (harness/c14_docs.py) -> real `select_rendering_items` vs the
Lean model (Earverif.Validate.selectItems through c14driver) + direct predicates on the real code alone."""
import itertools

from .common import Spec, Driver, GEN, write_if_changed
from . import c14_docs as D

TYPE_CODE = {"DirectSpeakers": 1, "Matrix": 2, "Objects": 3, "HOA": 4, "Binaural": 5}
NORM = {"SN3D": 0, "N3D": 1, "FuMa": 2}


# --------------------------------------------------------------------------------------
# document -> driver line


class Outside(Exception):
    """document uses something the Lean model does not cover"""


def _lst(xs):
    return ",".join(str(x) for x in xs) if xs else "-"


def _opt(x):
    return "-" if x is None else str(x)


def encode(doc):
    adm = doc.adm
    idx = {k: {id(e): i for i, e in enumerate(getattr(adm, D.LISTS[k]))} for k in D.KINDS}

    def ref(kind, obj):
        if obj is None:
            return None
        try:
            return idx[kind][id(obj)]
        except KeyError:
            raise Outside("reference to an element that is not in the document")

    def refs(kind, objs):
        return [ref(kind, o) for o in objs]

    # alternativeValueSet elements -> tokens (identity); an AVS must be the child of at most one audioObject
    tok, owner = {}, {}

    def avs_tokens(lst):
        return [tok.setdefault(id(a), len(tok)) for a in lst]

    for oi, o in enumerate(adm.audioObjects):
        for a in o.alternativeValueSets:
            if owner.setdefault(id(a), oi) != oi:
                raise Outside("avs-shared-between-objects")
    head = "%d %s %s" % (1 if (adm.version is None or D._imports()[0].version.version_at_least(adm.version, 2)) else 0,
                         _opt(doc.prog), _lst(doc.sel))
    ps = ["%s %s" % (_lst(refs("ac", p.audioContents)), _lst(avs_tokens(p.alternativeValueSets)))
          for p in adm.audioProgrammes]
    cs = ["%s %s" % (_lst(refs("ao", c.audioObjects)), _lst(avs_tokens(c.alternativeValueSets)))
          for c in adm.audioContents]
    os_ = []
    for o in adm.audioObjects:
        params = "%d%d%d%d%d" % (o.start is not None, o.duration is not None, o.gain != 1.0, bool(o.mute),
                                 o.positionOffset is not None)
        tracks = ",".join("s" if t is None else str(ref("atu", t)) for t in o.audioTrackUIDs) or "-"
        os_.append("%s %s %s %s %s %s" % (_lst(refs("ao", o.audioObjects)), _lst(refs("apf", o.audioPackFormats)), tracks,
                                          _lst(refs("ao", o.audioComplementaryObjects)), params,
                                          _lst(avs_tokens(o.alternativeValueSets))))
    # parameter values -> tokens (equal values = equal tokens, as Python's `!=` sees them); the tokens the model
    # gives a meaning to: normalization 0 = "SN3D", screenRef 0 = False (the getters' defaults), nfcRefDist 0 = 0.0
    norm_tok = dict(NORM)
    nfc_tok, time_tok, dist_tok = {0.0: 0}, {}, {}

    def tokn(table, v):
        return None if v is None else table.setdefault(v, len(table))

    pks = []
    for p in adm.audioPackFormats:
        scr = None if p.screenRef is None else int(p.screenRef)
        pks.append("%d %s %s %s %s %s %s %s %s %s" % (
            TYPE_CODE[p.type.name], _lst(refs("acf", p.audioChannelFormats)), _lst(refs("apf", p.audioPackFormats)),
            _lst(refs("apf", p.encodePackFormats)), _opt(ref("apf", p.inputPackFormat)),
            _opt(ref("apf", p.outputPackFormat)), _opt(tokn(norm_tok, p.normalization)), _opt(scr),
            _opt(tokn(nfc_tok, p.nfcRefDist)), _opt(tokn(dist_tok, p.absoluteDistance))))
    chs = []
    E = D._imports()[0]
    for c in adm.audioChannelFormats:
        bl = []
        for b in c.audioBlockFormats:
            cart = eq = 0
            order = degree = norm = scr = out = nfc = None
            coeffs = "-"
            if c.type.name == "Objects":
                cart = int(bool(b.cartesian) != isinstance(b.position, E.ObjectCartesianPosition))
            elif c.type.name == "HOA":
                eq = int(b.equation is not None)
                order, degree = b.order, b.degree
                norm = tokn(norm_tok, b.normalization)
                scr = None if b.screenRef is None else int(b.screenRef)
                nfc = tokn(nfc_tok, b.nfcRefDist)
            elif c.type.name == "Matrix":
                out = ref("acf", b.outputChannelFormat)
                cos = []
                for co in b.matrix:
                    bad = (co.gainVar is not None or co.delayVar is not None or co.phaseVar is not None
                           or co.phase is not None)
                    neg = co.delay is not None and co.delay < 0
                    cos.append("%s.%d.%d" % (_opt(ref("acf", co.inputChannelFormat)), int(bad), int(neg)))
                coeffs = ",".join(cos) or "-"
            bl.append("%d:%d:%s:%s:%s:%s:%s:%s:%s:%s:%s" % (
                cart, eq, _opt(order), _opt(degree), _opt(norm), _opt(scr), _opt(out), coeffs,
                _opt(tokn(time_tok, b.rtime)), _opt(tokn(time_tok, b.duration)), _opt(nfc)))
        freq = int(c.frequency.lowPass is not None or c.frequency.highPass is not None)
        chs.append("%d %d %s" % (TYPE_CODE[c.type.name], freq, "/".join(bl) or "-"))
    ss = ["%s %s" % (_opt(ref("acf", s.audioChannelFormat)), _opt(ref("apf", s.audioPackFormat)))
          for s in adm.audioStreamFormats]
    tfs = [_opt(ref("asf", t.audioStreamFormat)) for t in adm.audioTrackFormats]
    atus = ["%s %s %s %s" % (_opt(t.trackIndex), _opt(ref("apf", t.audioPackFormat)),
                             _opt(ref("atf", t.audioTrackFormat)), _opt(ref("acf", t.audioChannelFormat)))
            for t in adm.audioTrackUIDs]
    return " | ".join([head] + [" ; ".join(x) for x in (ps, cs, os_, pks, chs, ss, tfs, atus)])


# --------------------------------------------------------------------------------------


def real_class(r):
    """items:<n> | adm:<kind>@<function>:<ordinal of the raise statement> | internal:<exception>:<function>"""
    if r["cls"] == "items":
        return "items:%d" % r["n"]
    if r["cls"] == "adm":
        return "adm:%s@%s" % (r["kind"], r["site"])
    return "internal:%s:%s" % (r["exc"], r["fn"])


# --------------------------------------------------------------------------------------
# structured diagnostics: what the model says the message reads vs what the real message contains

import re as _re

_ID = _re.compile(r"\b(?:APR|ACO|AO|AP|AC|AS|ATU|AT|AB|AVS)_[0-9A-Za-z_]+")
_REASONS = [
    ("manyPacks", _re.compile(r"^reference to more than one audioPackFormat$")),
    ("tracksNoPacks", _re.compile(r"^references to audioTrackUIDs but not to audioPackFormats$")),
    ("packsNoTracks", _re.compile(r"^references to audioPackFormats but not to audioTrackUIDs$")),
    ("trackPackNotInObject", _re.compile(r"is not referenced from audioObject$")),
    ("packLacksChannel", _re.compile(r"does not reference audioChannelFormat .* which is referenced by audioTrackUID")),
]


def expected_ids(doc, reads):
    """the `.id` strings the model's diagnostic reads, in order (ids that are `None` print as 'None': dropped);
    returns None if a token cannot be resolved (would be a harness/model mismatch)"""
    adm = doc.adm
    tokens = {}
    for o in adm.audioProgrammes + adm.audioContents + adm.audioObjects:
        for a in o.alternativeValueSets:
            tokens.setdefault(id(a), (len(tokens), a))
    # same numbering as `encode`: programmes, contents, then objects
    by_tok = {t: a for t, a in tokens.values()}
    out = []
    for tok in reads:
        if tok in ("-", "chna") or tok.startswith(("tn.", "n:", "pn:", "r:")):
            continue
        kind, _, arg = tok.partition(":")
        try:
            if kind == "ab":
                c, _, b = arg.partition(".")
                v = adm.audioChannelFormats[int(c)].audioBlockFormats[int(b)].id
            elif kind == "avs":
                v = by_tok[int(arg)].id
            else:
                v = getattr(adm, D.LISTS[kind])[int(arg)].id
        except (KeyError, IndexError, ValueError):
            return None
        if v is not None:
            out.append(v)
    return out


def diag_agrees(doc, reads, r):
    """(ok, what) : element ids in the real message == ids the model's diagnostic reads; reason kinds of an
    AdmFormatRefError == the model's reasons; parameter name == the model's"""
    reads = [t for t in reads.split(",") if t]
    exp = expected_ids(doc, reads)
    if exp is None:
        return False, "unresolvable read in %r" % (reads,)
    got = _ID.findall(r["full"])
    if exp != got:
        return False, "ids read %r, ids in the message %r" % (exp, got)
    model_reasons = [t[2:] for t in reads if t.startswith("r:")]
    real_reasons = []
    for reason in r["reasons"]:
        for name, pat in _REASONS:
            if pat.search(reason):
                real_reasons.append(name)
                break
        else:
            real_reasons.append("other:" + reason[:40])
    if model_reasons != real_reasons:
        return False, "reasons %r vs %r" % (model_reasons, real_reasons)
    return True, ""


# --------------------------------------------------------------------------------------
# independent reference count (search predicate "inconsistent / ambiguous references are rejected")


def brute_force_counts(doc):
    """For a document without Matrix packs: for every allocation problem item selection has to solve (one per
    audioObject with tracks/packs reachable or not, or the CHNA-only problem), the number of distinct allocations
    meeting the requirements listed in the `allocate_packs` docstring, capped at 2.  Written from that
    specification, independent of pack_allocation.py and of _PackAllocator."""
    adm = doc.adm
    if any(p.type.name == "Matrix" for p in adm.audioPackFormats):
        return None

    def paths(p, seen=()):
        if any(p is q for q in seen):
            raise Outside("loop")
        yield (p,)
        for s in p.audioPackFormats:
            for rest in paths(s, seen + (p,)):
                yield (p,) + rest

    patterns = []
    for p in adm.audioPackFormats:
        chans = [(c, path) for path in paths(p) for c in path[-1].audioChannelFormats]
        patterns.append((p, chans))

    def track_channel(t):
        if t.audioTrackFormat is not None:
            return t.audioTrackFormat.audioStreamFormat.audioChannelFormat
        return t.audioChannelFormat

    def count(pack_refs, tracks, n_silent):
        total = len(tracks) + n_silent
        usable = [i for i, (p, ch) in enumerate(patterns) if ch]
        sols = set()

        def compatible(t, slot):
            c, path = slot
            return track_channel(t) is c and any(t.audioPackFormat is q for q in path)

        def assign(chosen):
            slots = [(pi, k) for n, pi in enumerate(chosen) for k in range(len(patterns[pi][1]))]
            slot_owner = [n for n, pi in enumerate(chosen) for k in range(len(patterns[pi][1]))]

            def rec(ti, used):
                if len(sols) >= 2:
                    return
                if ti == len(tracks):
                    packs = [[] for _ in chosen]
                    for si, (pi, k) in enumerate(slots):
                        packs[slot_owner[si]].append(used.get(si, "S"))
                    sols.add(tuple(sorted((chosen[n], tuple(a)) for n, a in enumerate(packs))))
                    return
                for si, (pi, k) in enumerate(slots):
                    if si not in used and compatible(tracks[ti], patterns[pi][1][k]):
                        used[si] = ti
                        rec(ti + 1, used)
                        del used[si]

            rec(0, {})

        def choose(start, chosen, nch):
            if len(sols) >= 2:
                return
            if nch == total:
                if pack_refs is not None:
                    a = sorted(id(patterns[i][0]) for i in chosen)
                    if a != sorted(id(p) for p in pack_refs):
                        return
                assign(chosen)
                return
            for i in usable:
                if i >= start and nch + len(patterns[i][1]) <= total:
                    choose(i, chosen + [i], nch + len(patterns[i][1]))

        if pack_refs is not None:
            for p in pack_refs:
                if not any(p is q and ch for q, ch in patterns):
                    return 0  # a referenced pack without channels can never be allocated
        choose(0, [], 0)
        return len(sols)

    out = []
    if adm.audioProgrammes or adm.audioObjects:
        for o in adm.audioObjects:
            real = [t for t in o.audioTrackUIDs if t is not None]
            out.append(("object", o.id, count(o.audioPackFormats, real, len(o.audioTrackUIDs) - len(real))))
    else:
        out.append(("chna", None, count(None, list(adm.audioTrackUIDs), 0)))
    return out


# --------------------------------------------------------------------------------------


class C14(Spec):
    pid = "C14"
    lean_targets = ("Earverif.Props.C14", "c14driver")
    props_module = "Earverif.Props.C14"
    theorems = tuple("Earverif.Validate." + t for t in (
        "select_no_internal_partial", "select_outcome_partial", "validate_no_internal_partial",
        "allocator_init_no_internal",
        # diagnostics are built without raising
        "multitree_diagnostics_total", "mtDfs_inv", "loopMsg_noInt", "diamondMsg_noInt", "path_param_message_total",
        "diagnostics_total", "raiseError_adm", "extraData_noInt", "importanceOf_noInt", "hoaItemParams_noInt",
        "hoaParams_noInt",
        # unique resolution, channel-less packs included
        "resolved_iff_unique_valid", "conflicting_is_error", "ambiguous_is_error", "empty_pack_outcome",
        "empty_pack_outcome_regular", "effProblem_valid_iff", "allocProblem_wf", "allocProblem_wf_dropEmpty",
        "processState_decided", "processState_noInt", "packChannels_nodup", "empty_pack_rejected_though_spec_valid",
        "multitree_sound", "multitreeSound_holds", "mtDfs_ok",
        "validateMatrixTypes_noInt", "validateEncodeRef_noInt", "validateMatrixPack_ok", "patterns_noInt", "patterns_ok",
        "matrixTrackSpec_noInt", "renderingItems_noInt",
        "validateAvsReferences_noInt", "avs_refs_unique", "avsSelected_noInt", "avs_assert_total",
        "hoa_reachable_one_block", "hoaParams_ok_nonempty", "selectComplementary_noInt",
        "hoa_empty_pack_is_adm", "unsupported_type_is_adm", "coefficient_without_input_is_adm",
        "encode_without_refs_is_adm", "shared_avs_defeats_validation",
        # the raise-site table against Gen/C14_Sites.lean (regenerated from the sources by extract)
        "sites_nodup_count", "sites_gen_nodup", "sites_match")) + (
        "Earverif.PackAlloc.allocImpl_filter", "Earverif.PackAlloc.allocatePacks_dropEmpty",
        "Earverif.PackAlloc.selectPackMapping_dropEmpty")
    trusted_base = (
        "model Earverif/Model/AdmV.lean + Validate.lean: hand transliteration of ADM.validate (AudioBlockFormat, "
        "MatrixCoefficient, stream and trackFormat element validators), validate.validate_structure (every _validate_* "
        "function incl. the Matrix branch of _validate_matrix_types and _validate_avs_references), matrix.type_of / "
        "input_pack_format, validate_selected_audioTrackUID, possible_reference_errors and helpers, utils.get_path_param / "
        "get_single_param, the getters of hoa.py, and of select_items (_PackAllocator.get_wrapped_packs / "
        "wrap_matrix_pack, _select_complementary_objects, _select_programme_content_objects, select_pack_mapping, "
        "raise_error, Regular/MatrixAllocationPack output_pack / output_channel_allocation, _get_rendering_items incl. "
        "_get_pack_format_path, the HOA get_single_param / get_per_channel_param calls, _get_extra_data, "
        "_get_importance and _get_alternativeValueSet); references are list indices, identity comparison is index "
        "(token) equality, parameter values are value tokens; every raise statement is one AdmKind whose Msg lists the "
        "values its message reads (checked against the ids in the real message on every case)",
        "the pack allocator inside the model is C07's Lean model Earverif.PackAlloc (allocate_packs and the decision "
        "of select_pack_mapping; its own correspondence and theorems alloc_sound / alloc_complete / alloc_nodup / "
        "accept_iff_unique are property C07); this model builds the allocation problem from the document "
        "(allocProblem: one AllocationPack per entry of _PackAllocator.packs with identity = position, "
        "AllocationChannel pack_formats = pack path / [matrix pack] / [encode pack], one AllocationTrackUID per "
        "selected track, the object's pack references or None for CHNA-only, the number of silent tracks); the "
        "outcome comparison with the real code no longer replays the real allocator's solutions",
        "graph walks in the model use fuel = number of elements (+1/+2); equality with Python's unbounded recursion "
        "on documents that passed the loop validations is not proved (checked by the correspondence)",
        "audioProgramme ids increase with list position (generate_ids), so min(key=id) is the first programme",
        "the raise statements of validate.py, select_items.py, utils.py, hoa.py, matrix.py, pack_allocation.py, "
        "main_elements.py and block_formats.py are found by ast (harness/c14_docs.code_sites) and written to "
        "Gen/C14_Sites.lean on every run; theorem sites_match (decide +kernel) checks that they are exactly the sites "
        "of the model's hand-kept AdmKind.all / AdmKind.site (the same comparison is still made in Python on the "
        "driver's `sites` line); three raise statements there are outside item selection (listed with reasons in "
        "c14_docs.SITES_NOT_MODELLED and in the generated file); trusted: the ast walk itself and the ordinal "
        "numbering of the raise statements inside a function",
        "the pack allocator inside the model is a pure three-valued Outcome: it cannot produce an internal error by "
        "construction (the real allocator's tracks[0] / possible[0] are syntactically guarded); fuel exhaustion of "
        "the graph walks returns .ok, sufficiency of the fuel is not proved",
    )
    assumptions = (
        "documents are closed object graphs: every referenced element is registered in the ADM (wellScoped) and an "
        "alternativeValueSet element is the child of one audioObject (avsOwned; sharing one AlternativeValueSet "
        "instance between two audioObjects is only possible through the Python API and does defeat the validation: "
        "theorem shared_avs_defeats_validation); references point at elements of the right class and attribute "
        "values have the types the attrs validators demand (cross-class references making attrs raise TypeError, "
        "wrong Python types and element ids that are None -- min(audioProgrammes, key=id) compares ids -- are outside "
        "the quantifier)",
        "audio_programme argument is None or a programme of the document; selected_complementary_objects are "
        "objects of the document",
    )
    rule = (
        "case = (generated valid document recipe, fault list, call arguments); recipes: 21 document kinds (incl. nested "
        "HOA packs with parameters at several levels and audioPackFormats without channels) x {BS.2076-1 trackFormat "
        "refs (version None / 1), BS.2076-2 channelFormat refs} x variants; no fault, every single structural fault at "
        "every site (retarget to every other element of the kind / remove / add / duplicate / drop / insert (loops) / "
        "silence a reference, typeDefinition change, track index missing or duplicated, object parameters, channel "
        "content, block rtime/duration (one, both, different values), HOA normalization / screenRef / nfcRefDist (0.0 "
        "and two other values) in blocks and packs, pack absoluteDistance, matrix coefficient phase / negative delay, "
        "stream referencing a pack, call arguments), then seeded random double faults (second fault drawn from the "
        "sites of the once-faulted document); non-trivial = at least one fault; distinct by (recipe, faults); "
        "compared: items:<count> / adm:<kind>@<function>:<ordinal of the raise statement> + the structured "
        "diagnostic (element ids the message reads, reasons of AdmFormatRefError) / exception type"
    )

    ORDER_SENSITIVE = ("nestedpack", "chna_nested", "matrix_direct", "matrix_decode", "matrix_encdec", "matrix_pre",
                       "nested", "comp", "hoa_nested")

    # ---- tables regenerated from /repo ----

    def extract(self, ctx):
        """the `raise` statements of the item-selection modules (found with `ast`: c14_docs.code_sites) ->
        lean/Earverif/Gen/C14_Sites.lean; Props/C14 `sites_match` (decide +kernel) re-checks on every run that the
        model's hand-kept table `AdmKind.all.map AdmKind.site` has exactly these sites"""
        code = D.code_sites()
        sites = sorted(q for q in code if q not in D.SITES_NOT_MODELLED)
        out = ["/- GENERATED by harness/c14.py (c14_docs.code_sites: ast over the sources in /repo) - do not edit. -/",
               "namespace Earverif.Gen.C14", "",
               "/-! `(qualified function name, ordinal of the raise statement in it)` for every `raise` statement of",
               "%s" % ", ".join(D.SITE_FILES),
               "except the ones listed in `excluded` (harness/c14_docs.SITES_NOT_MODELLED). -/", ""]
        chunks = [sites[i:i + 16] for i in range(0, len(sites), 16)]
        for n, ch in enumerate(chunks):
            out.append("def sites_%d : List (String × Nat) := [%s]" % (
                n, ", ".join('("%s", %d)' % q for q in ch)))
        out.append("")
        out.append("/-- every modelled raise site of the sources, sorted -/")
        out.append("def sites : List (String × Nat) := %s" % (" ++ ".join("sites_%d" % n for n in range(len(chunks))) or "[]"))
        out.append("")
        out.append("/-- the exception class each of them raises (same order) -/")
        for n, ch in enumerate(chunks):
            out.append("def classes_%d : List String := [%s]" % (n, ", ".join('"%s"' % code[q] for q in ch)))
        out.append("def classes : List String := %s" % (" ++ ".join("classes_%d" % n for n in range(len(chunks))) or "[]"))
        out.append("")
        out.append("/-- raise statements in those files that item selection cannot reach / that are not failures:")
        for q in sorted(D.SITES_NOT_MODELLED):
            out.append("  %s:%d (%s) -- %s" % (q[0], q[1], code.get(q, "gone"), D.SITES_NOT_MODELLED[q]))
        out.append("-/")
        out.append("def excluded : List (String × Nat) := [%s]" % ", ".join(
            '("%s", %d)' % q for q in sorted(D.SITES_NOT_MODELLED) if q in code))
        out.append("")
        out.append("end Earverif.Gen.C14")
        write_if_changed(GEN + "/C14_Sites.lean", "\n".join(out) + "\n")
        ctx.count("raise-sites:generated", len(sites))

    # ---- case stream ----

    def recipes(self, ctx):
        nvar = {"objects": 4, "comp": 3, "twoprog": 3, "chna": 6, "avs": 4, "hoa_nested": 4, "emptypack": 4,
                "mixed": 4 if ctx.quick else 12}
        out = []
        for kind in D.DOC_KINDS:
            for style in (1, 2):
                for var in range(nvar.get(kind, 2)):
                    out.append((kind, style, var))
        return out

    def stream(self, ctx):
        """yield (recipe, faults) : no fault, every single fault at every site, sampled double faults"""
        recs = self.recipes(ctx)
        for rec in recs:
            yield rec, []
            base = D.build(rec)
            for f in D.fault_sites(base):
                yield rec, [f]
            # declaration order is not significant in ADM but is what order-dependent validation bugs hinge on:
            # documents with nested / matrix packs also run with the pack list reversed (sub-pack before parent,
            # encode pack after decode pack, ...), again with every single fault at every site
            if rec[0] in self.ORDER_SENSITIVE and (not ctx.quick or rec[2] == 0):
                o = ("order", "apf", -1)
                yield rec, [o]
                for f in D.fault_sites(D.build_faulty(rec, [o])):
                    yield rec, [o, f]
        ndouble = 5000 if ctx.quick else 60000
        n = 0
        while n < ndouble:
            rec = ctx.rng.choice(recs)
            pre = []
            doc = D.build(rec)
            if ctx.rng.random() < 0.3:  # a random declaration-order variant first
                kind = ctx.rng.choice(D.ORDER_KINDS)
                if len(getattr(doc.adm, D.LISTS[kind])) > 1:
                    pre = [("order", kind, ctx.rng.choice([-1, ctx.rng.randrange(1000)]))]
                    D.apply_fault(doc, pre[0])
            f1 = ctx.rng.choice(D.fault_sites(doc))
            if not D.apply_fault(doc, f1):
                continue
            f2 = ctx.rng.choice(D.fault_sites(doc))
            n += 1
            yield rec, pre + [f1, f2]

    # ---- direct predicates on the real code ----

    def _shrink(self, rec, faults, tag):
        """remove faults one at a time while the same failure (exception type + function) is still produced"""
        faults = list(faults)
        changed = True
        while changed and len(faults) > 1:
            changed = False
            for i in range(len(faults)):
                sub = faults[:i] + faults[i + 1:]
                d = D.build_faulty(rec, sub)
                if d is not None:
                    r = D.run_real(d)
                    if r["cls"] == "internal" and "internal:%s:%s" % (r["exc"], r["fn"]) == tag:
                        faults, changed = sub, True
                        break
        return faults

    def _predicate(self, ctx, rec, faults, doc, r):
        """(1) nothing but AdmError escapes; (2) items are only returned when the references resolve uniquely."""
        if r["cls"] == "internal":
            tag = "internal:%s:%s" % (r["exc"], r["fn"])
            ctx.count("hit:" + tag)
            self._nhits[tag] = self._nhits.get(tag, 0) + 1
            if self._nhits[tag] <= 3:
                small = self._shrink(rec, faults, tag)
                ctx.hit("exception other than AdmError escapes select_rendering_items",
                        {"doc": list(rec), "faults": small},
                        {"exception": r["exc"], "message": r["msg"], "frames": r["frames"],
                         "fault": [D.fault_kind(f) + "@" + D.site_kind(f) for f in small]},
                        [tag])
            return
        if r["cls"] == "items":
            try:
                counts = brute_force_counts(doc)
            except Exception:  # the reference count only understands structurally valid documents
                counts = None
                ctx.count("refcount:not-applicable")
            if counts is not None:
                ctx.count("refcount:checked")
                bad = [c for c in counts if c[2] != 1 and self._selected(doc, c)]
                if bad:
                    tag = "resolved:%s" % ("ambiguous" if bad[0][2] >= 2 else "conflicting")
                    ctx.count("hit:" + tag)
                    self._nhits[tag] = self._nhits.get(tag, 0) + 1
                    if self._nhits[tag] <= 3:
                        ctx.hit("rendering items returned although the format references do not resolve uniquely",
                                {"doc": list(rec), "faults": faults},
                                {"problem": [(c[0], c[1], c[2]) for c in bad], "items": r["n"]}, [tag])

    def _selected(self, doc, c):
        """is the allocation problem `c` one that item selection actually had to solve for this call?"""
        if c[0] == "chna":
            return True
        return c[1] in self._selected_ids(doc)

    def _selected_ids(self, doc):
        """ids of the audioObjects reached from the selected programme (or the roots), minus ignored
        complementary objects: recomputed here from the document, independent of the code under test"""
        adm = doc.adm
        prog, sel = doc.call_args()
        if adm.audioProgrammes:
            p = prog if prog is not None else min(adm.audioProgrammes, key=lambda x: x.id)
            roots = [o for c in p.audioContents for o in c.audioObjects]
        else:
            sub = {id(s) for o in adm.audioObjects for s in o.audioObjects}
            roots = [o for o in adm.audioObjects if id(o) not in sub]
        ignored = set()
        for root in adm.audioObjects:
            if root.audioComplementaryObjects:
                group = [root] + list(root.audioComplementaryObjects)
                chosen = [o for o in group if any(o is s for s in sel)] or [root]
                ignored |= {id(o) for o in group if not any(o is s for s in chosen)}
        out = set()

        def walk(o, path):
            path = path + [o]
            if not any(id(q) in ignored for q in path):
                out.add(o.id)
            for s in o.audioObjects:
                walk(s, path)

        for r_ in roots:
            walk(r_, [])
        return out

    # ---- correspondence ----

    def correspond(self, ctx):
        self._nhits = {}
        self._seeds = []  # (recipe, faults) on which model and code disagree: seeds of the guided search
        driver = Driver("c14driver", "Earverif.Driver.C14")
        lines, metas = [], []
        reached = {}
        for rec, faults in self.stream(ctx):
            doc = D.build_faulty(rec, faults)
            if doc is None:
                ctx.count("fault-not-applicable")
                continue
            r = D.run_real(doc)
            cls = real_class(r)
            nf = sum(1 for f in faults if f[0] != "order")
            ctx.count("faults:%d" % nf)
            if len(faults) != nf:
                ctx.count("declaration-order-variant")
            ctx.count("style:v%d" % rec[1])
            ctx.count("doc:" + rec[0])
            for f in faults:
                ctx.count("fault:" + D.fault_kind(f))
                ctx.count("fault-site:" + D.site_kind(f))
            ctx.count("outcome:" + (cls if r["cls"] != "items" else "items"))
            if r["cls"] == "adm":
                ctx.count("exception:" + r["exc"])
                ctx.count("site:" + r["site"])
                reached[r["site"]] = reached.get(r["site"], 0) + 1
            self._predicate(ctx, rec, faults, doc, r)
            try:
                line = encode(doc)
            except Outside as e:
                ctx.count("outside-model:" + str(e))
                ctx.case((rec, faults, "search-only"), nf > 0)
                continue
            lines.append(line)
            metas.append((rec, faults, cls, r, doc))
        outs = driver.run(["sites"] + lines)
        self._site_table(ctx, outs[0], reached)
        outs = outs[1:]
        for (rec, faults, cls, r, doc), line, out in zip(metas, lines, outs):
            res, _, mt = out.partition(" mt=")
            res, _, reads = res.partition(" ")
            sample = None
            if faults and r["cls"] != "items":
                sample = {"doc": rec, "faults": faults, "real": cls, "model": res}
            ctx.case((rec, faults), bool(faults), sample=sample)
            if out == "bad-op":
                ctx.disagree("driver rejected the document line", {"doc": rec, "faults": faults, "line": line}, out, cls)
                continue
            if mt != "1":
                ctx.disagree("multitree validation accepted a document without the unique-path property "
                             "(assumption MultitreeSound of select_no_internal_partial)",
                             {"doc": rec, "faults": faults}, out, cls)
                continue
            model = res
            if model.startswith("internal:"):
                # the model names the Python operation, the real run names exception type and function
                kind = model.split(":")[1]
                exp = {"index": "IndexError", "unpack": "ValueError", "attrNone": "AttributeError",
                       "assert": "AssertionError", "typeError": "TypeError",
                       "notImplemented": "NotImplementedError", "valueError": "ValueError"}[kind]
                ok = r["cls"] == "internal" and r["exc"] == exp
            else:
                # items:<n>, or kind of the raise site AND the raise site itself (function, ordinal of the statement)
                ok = model == cls
            if ok and r["cls"] == "adm":
                # the structured diagnostic: ids the model says the message reads == ids in the real message, reasons
                # of an AdmFormatRefError == the model's reasons
                ok2, what = diag_agrees(doc, reads, r)
                ctx.count("diagnostic:" + ("agrees" if ok2 else "differs"))
                if not ok2:
                    self._seeds.append((rec, list(faults), model, cls))
                    ctx.disagree("structured diagnostic of %s: %s" % (model, what), {"doc": rec, "faults": faults},
                                 reads, r["msg"])
                    continue
            if ok:
                ctx.validated()
            else:
                self._seeds.append((rec, list(faults), model, cls))
                ctx.disagree("select_rendering_items vs Earverif.Validate.selectItems",
                             {"doc": rec, "faults": faults}, model, cls)

    def _site_table(self, ctx, table_line, reached):
        """the model's raise-site table (AdmKind.site) against the `raise` statements found in the sources with `ast`
        (an ADM-error raise statement the model does not know, or a modelled one that is gone, breaks the tie), and
        the coverage of the sites by the generated stream"""
        model = {}
        for ent in table_line.split(";"):
            k, _, site = ent.partition("=")
            model.setdefault(site, []).append(k)
        code = {"%s:%d" % q: name for q, name in D.code_sites().items() if q not in D.SITES_NOT_MODELLED}
        ctx.count("raise-sites:in-code", len(code))
        ctx.count("raise-sites:in-model", len(model))
        if set(code) != set(model) or any(not n.startswith("Adm") for n in code.values()):
            ctx.disagree("raise sites of the item-selection modules vs the model's table (Earverif.Validate.AdmKind.site)",
                         {"only-in-code": sorted(set(code) - set(model)), "only-in-model": sorted(set(model) - set(code)),
                          "not-an-ADM-error": sorted(k for k, n in code.items() if not n.startswith("Adm"))},
                         sorted(model), sorted(code))
        else:
            ctx.validated()
        never = sorted(set(model) - set(reached))
        ctx.count("raise-sites:reached", len(set(model) & set(reached)))
        for site in never:
            ctx.count("site-never-reached:" + site)
        self._never_reached = never

    def _guided(self, ctx):
        """Disagreement-guided failing-input search (DESIGN 1.3): documents on which the model and the code
        disagree are where the code departs from what was proved; take them -- and their declaration-order
        variants -- as seeds and inject every single additional fault at every site on top, evaluating the direct
        predicates on the real code."""
        seeds, seen = [], set()
        # fewest faults first, then one seed per (document kind, fault kinds, model outcome, real outcome)
        for rec, faults, model, cls in sorted(self._seeds, key=lambda s: (len(s[1]), s[0])):
            key = (rec[0], tuple(D.fault_kind(f) + "@" + D.site_kind(f) for f in faults), model, cls)
            if key in seen:
                continue
            seen.add(key)
            seeds.append((rec, faults))
        budget = 15000 if ctx.quick else 120000
        per_seed = max(1, budget // max(1, min(len(seeds), 40)))
        n = 0
        for rec, faults in seeds[:40 if ctx.quick else 400]:
            base = D.build_faulty(rec, faults)
            if base is None:
                continue
            variants = [[]] + [[o] for o in D.order_variants(base, ctx.rng)]
            m = 0
            for var in variants:
                doc = D.build_faulty(rec, faults + var)
                if doc is None:
                    continue
                for f in D.fault_sites(doc):
                    fs = faults + var + [f]
                    d2 = D.build_faulty(rec, fs)
                    if d2 is None:
                        continue
                    r = D.run_real(d2)
                    n += 1
                    m += 1
                    ctx.case(("guided", rec, fs), True)
                    ctx.count("search:guided")
                    self._predicate(ctx, rec, fs, d2, r)
                    if m >= per_seed:
                        break
                if m >= per_seed:
                    break
            if n >= budget:
                break
        ctx.count("search:guided-seeds", min(len(seeds), 40 if ctx.quick else 400))

    def search(self, ctx, deep):
        # the predicates already ran on every correspondence case (they do not need the driver); when the
        # correspondence could not run (driver broken) or something else broke, run them on the stream alone
        if getattr(self, "_nhits", None) is None:
            self._nhits = {}
            for rec, faults in self.stream(ctx):
                doc = D.build_faulty(rec, faults)
                if doc is None:
                    continue
                r = D.run_real(doc)
                ctx.case(("search", rec, faults), bool(faults))
                self._predicate(ctx, rec, faults, doc, r)
        if getattr(self, "_seeds", None):
            self._guided(ctx)
        if not deep:
            return
        # triple faults (beyond the property's quantifier for the model, still inside "any document")
        n = 0
        recs = self.recipes(ctx)
        budget = 4000 if ctx.quick else 30000
        while n < budget:
            rec = ctx.rng.choice(recs)
            fs, doc = [], D.build(rec)
            for _ in range(3):
                sites = D.fault_sites(doc)
                f = ctx.rng.choice(sites)
                if not D.apply_fault(doc, f):
                    break
                fs.append(f)
            n += 1
            doc = D.build_faulty(rec, fs)
            if doc is None:
                continue
            r = D.run_real(doc)
            ctx.case(("triple", rec, fs), True)
            ctx.count("search:triple")
            self._predicate(ctx, rec, fs, doc, r)


SPEC = C14()

# Families of escaping non-ADM exceptions that existed on earlier trees (all recorded as `fixed` in
# known_findings.json: 0d9f6b4, 03146b0, 592dfc9, 76cae51).  The predicate tags every escape as
# internal:<exception>:<function>, so each of these is reported again as an ordinary VIOLATION if it returns.
FORMER_FAMILIES = (
    "internal:AttributeError:possible_audioTrackUID_errors",
    "internal:IndexError:get_single_param",
    "internal:AssertionError:type_of",
    "internal:ValueError:validate",
    "internal:NotImplementedError:_get_rendering_items",
)

REGISTRY = dict(
    text="PARTIAL: Lean theorem Earverif.Validate.select_no_internal_partial proves, for every well-scoped document "
    "graph (Matrix packs, alternativeValueSets and all parameter values included) and every programme/complementary "
    "selection, that the model of select_rendering_items never ends in a non-ADM exception, by a chain of 'after "
    "_validate_X succeeded, step Y is total' lemmas -- and since round 7 this covers the failure paths' own "
    "operations: every raise statement is one constructor (63 kinds on 62 raise sites: sites_nodup_count; the raise "
    "statements found in the sources by ast are regenerated into Gen/C14_Sites.lean on every run and sites_match, "
    "decide +kernel, proves they are exactly the model's sites; three raise statements are excluded with reasons in "
    "c14_docs.SITES_NOT_MODELLED) carrying a structured diagnostic Msg with every .id / .type.name / len() its message reads, and every "
    "read that can fail while a message is built is a step of the model: input_channel.id, acf.id / apf.id / "
    "audioPackFormat.encodePackFormats in the reasons of possible_reference_errors (diagnostics_total), "
    "loop_exception's .index() and diamond_exception's two max() (multitree_diagnostics_total, mtDfs_inv: both paths "
    "start at the DFS root), get_path_param's path[0] / path[-1] (path_param_message_total), raise_error's "
    "audioObject.id. Also inside now: block rtime/duration (element validator, _validate_matrix_channel, HOA "
    "get_single_param), nfcRefDist incl. 0.0 -> None, absoluteDistance in _get_extra_data, the per-channel getters "
    "and _get_importance's min() (extraData_noInt, importanceOf_noInt, hoaItemParams_noInt). validate_structure alone "
    "(validate_no_internal_partial) needs no hypothesis. resolved_iff_unique_valid states the property's second "
    "sentence about the document via C07's accept_iff_unique, now WITHOUT the 'no allocation pack without channels' "
    "hypothesis: the allocator never allocates such a pack (PackAlloc.allocImpl_filter / allocatePacks_dropEmpty, "
    "proved about C07's model), so it decides the problem with those packs removed, whose well-formedness follows "
    "from validation alone (allocProblem_wf_dropEmpty); for a state whose tracks passed validation: no valid "
    "assignment => Conflicting, two inequivalent ones => Ambiguous, exactly one <=> the allocator accepts it and the "
    "outcome is its rendering, items returned => exactly one valid assignment (valid = meets the allocate_packs "
    "docstring and uses no channel-less pack: effProblem_valid_iff). empty_pack_outcome(_regular): an audioObject "
    "that references an audioPackFormat all of whose allocation packs are empty gets exactly the Conflicting ADM "
    "error. _partial because attrs validators (cross-class references, None ids), recursion depth and str() of "
    "the exception are outside the model, because the allocator inside the model is a pure 3-valued Outcome (no "
    "internal error by construction, not by proof: the real tracks[0] / possible[0] sites are syntactically "
    "guarded), and because fuel exhaustion of the graph walks returns .ok with sufficiency of the fuel unproved. The model is tied to the code on every run by a fault injector (every "
    "single fault at every site, declaration-order variants, sampled double faults on 21 kinds of generated "
    "documents in both referencing styles, all inside the model) comparing items count / raise-site kind AND raise "
    "site (function, ordinal of the raise statement, from the traceback) / the structured diagnostic (ids in the "
    "real message = ids the model reads, AdmFormatRefError reasons) / exception type; raise-site coverage is in the "
    "evidence (site:<function>:<n>, site-never-reached:...; all 62 sites are reached); the direct predicates (only "
    "AdmError escapes; items only when an independent brute-force count of the allocations is exactly 1) run on the "
    "same stream, on a disagreement-guided stream when the correspondence breaks, and in the thorough tier on triple "
    "faults.",
    note="Five families of escaping non-ADM exceptions found by this check were repaired in /repo (0d9f6b4, 03146b0, "
    "592dfc9, 76cae51); each is reported again under its tag internal:<exception>:<function> if it returns. "
    "Outside the quantifier: cross-class references (attrs TypeError), element ids that are None with more than one "
    "audioProgramme (TypeError in min(key=id)) and an AlternativeValueSet instance shared by two audioObjects "
    "(AssertionError in _get_alternativeValueSet; not producible from XML). Trusted: Lean kernel, the hand "
    "transliteration + correspondence (incl. C07's allocator model, imported).",
    technique="Lean 4 proof (validation-order lemma chain over an Except-valued transliteration with structured "
    "diagnostics, C07's allocator theorems for the uniqueness statement) + fault-injection differential "
    "correspondence (outcome, raise site, diagnostic) + direct predicate search on the real code",
    design_ref="DESIGN.md section 4, C14",
)
