/-
`select_rendering_items` as the real function runs it: `validate_structure(adm)` first — the C14 model
`Validate.validateStructure` on the document graph `toDoc a` of the same document — then the selection proper
(`Adm.selectRenderingItems`).  This is the left-hand side of `select_ok_iff` (Props/C06.lean) and what the C06 driver
executes for an `R` request, so the composition of the two models is tied to the code (error stage and raise site of a
rejected document included), not only each model by its own check.  Core Lean only.
-/
import Earverif.Model.SelectItems
import Earverif.Model.Validate

namespace Earverif.Adm

/-- `select_rendering_items` as the real function runs it: `validate_structure(adm)` first (the C14 model
`Validate.validateStructure`, on the document graph `toDoc a` of the same document), then the selection proper. -/
def selectValidated (a : Adm) (given : Option Nat) (sel : List Nat) : Except (Validate.Err ⊕ Err) (List Item) :=
  match Validate.validateStructure (toDoc a) with
  | .error e => .error (.inl e)
  | .ok () =>
    match selectRenderingItems a given sel with
    | .error e => .error (.inr e)
    | .ok items => .ok items

end Earverif.Adm
