/- C19: totality of the point / extent / block conversions on the table model, the excluded points of the round
   trips (poles, zero distance), and the extent formulas (`_whd2xyz`, `_xyz2whd`, `local_coordinate_system`,
   `extent_polar_to_cart`, `extent_cart_to_polar`): ranges and zero extent.  Used by Props/C19.lean. -/
import Earverif.Proofs.C19Round

namespace Earverif.Conv
open Real

/-! ### totality of the point conversions (table model, any fuel ≥ 1) -/

/-- `point_cart_to_polar` never hits the sector `assert`: every Cartesian point converts. -/
theorem pointCartToPolar_total (m : Nat) (x y z : ℝ) :
    ∃ r, pointCartToPolar (RP (m + 1)) x y z = some r := by
  rw [pointCartToPolar_eq]
  split_ifs
  · exact ⟨_, rfl⟩
  · exact ⟨_, rfl⟩
  · obtain ⟨s, hs⟩ := find_cart_total m x y
    rw [hs]; exact ⟨_, rfl⟩

/-- `point_polar_to_cart` never hits the sector `assert` for azimuths in the ADM range (any elevation, any
distance). -/
theorem pointPolarToCart_total (m : Nat) (az el d : ℝ) (h1 : -180 ≤ az) (h2 : az ≤ 180) :
    ∃ r, pointPolarToCart (RP (m + 1)) az el d = some r := by
  obtain ⟨s, hs⟩ := find_polar_total m az h1 h2
  rw [pointPolarToCart_eq, hs]; exact ⟨_, rfl⟩

theorem extentCartToPolar_total (m : Nat) (x y z xs ys zs : ℝ) :
    ∃ r, extentCartToPolar (RP (m + 1)) x y z xs ys zs = some r := by
  obtain ⟨⟨⟨az, el, d⟩, i⟩, h⟩ := pointCartToPolar_total m x y z
  unfold extentCartToPolar
  rw [h]; exact ⟨_, rfl⟩

theorem extentPolarToCart_total (m : Nat) (az el d w h dp : ℝ) (h1 : -180 ≤ az) (h2 : az ≤ 180) :
    ∃ r, extentPolarToCart (RP (m + 1)) az el d w h dp = some r := by
  obtain ⟨⟨p, i⟩, hp⟩ := pointPolarToCart_total m az el d h1 h2
  unfold extentPolarToCart
  rw [hp]; exact ⟨_, rfl⟩

/-! ### the excluded points of the round trips -/

theorem k0 : (k 0 : ℝ) = 0 := by simp [k, Scalar.ofRat]
theorem k1 : (k 1 : ℝ) = 1 := by simp [k, Scalar.ofRat]
theorem k90 : (k 90 : ℝ) = 90 := by simp [k, Scalar.ofRat]

/-- Elevation `±90` (the poles): `el_tilde = 90`, so `r_xy = d·tan 0 = 0` and `z = ±d`. -/
theorem elToCart_pole (n : Nat) (el d : ℝ) (hel : |el| = 90) :
    elToCart (RP n) el d = (d * Conv.sign el, 0) := by
  rw [elToCart_real, (RP_consts n).1, (RP_consts n).2.1, hel, if_pos (by norm_num)]
  norm_num

/-- Distance `0`: the origin, whatever the elevation. -/
theorem elToCart_zero (n : Nat) (el : ℝ) : elToCart (RP n) el 0 = (0, 0) := by
  rw [elToCart_real]
  split_ifs <;> simp

/-- The image of a polar position whose horizontal radius `r_xy` is `0` lies on the vertical axis. -/
theorem polarToCart_axis (m : Nat) (az el d z : ℝ) (h1 : -180 ≤ az) (h2 : az ≤ 180)
    (he : elToCart (RP (m + 1)) el d = (z, 0)) :
    ∃ i, pointPolarToCart (RP (m + 1)) az el d = some ((0, 0, z), i) := by
  obtain ⟨s, hs⟩ := find_polar_total m az h1 h2
  refine ⟨s.idx, ?_⟩
  rw [pointPolarToCart_eq, hs]
  simp only [Option.map_some, polarToCartIn, he, zero_mul]

/-! ### extent: `_whd2xyz`, `_xyz2whd` over ℝ -/

theorem pmax_real (a b : ℝ) : pmax a b = max a b := by
  unfold pmax
  split_ifs with h
  · exact (max_eq_right h.le).symm
  · exact (max_eq_left (not_lt.mp h)).symm

theorem pmax3_real (a b c : ℝ) : pmax3 a b c = max (max a b) c := by
  simp [pmax3, pmax_real]

theorem whd2xyz_real (w h d : ℝ) :
    whd2xyz w h d =
      (if w < 180 then sin (w / 2 * (π / 180)) else 1,
       max (max ((1 - cos (w / 2 * (π / 180))) / 2) ((1 - cos (h / 2 * (π / 180))) / 2)) d,
       if h < 180 then sin (h / 2 * (π / 180)) else 1) := by
  simp [whd2xyz, pmax3_real, radians_real, k, Scalar.ofRat, Scalar.sin, Scalar.cos]

theorem pmin_real (a b : ℝ) : pmin a b = min a b := by
  unfold pmin
  split_ifs with h
  · exact (min_eq_right h.le).symm
  · exact (min_eq_left (not_lt.mp h)).symm

/-- `_xyz2whd` over ℝ before the clip `min(·, 1)` (the body of the function on the clipped sizes) -/
noncomputable def xyz2whdBody (sx sy sz : ℝ) : ℝ × ℝ × ℝ :=
  let w := 2 * (arcsin sx * (180 / π)) + sx * max (2 * (arccos (1 - 2 * sy) * (180 / π)) - 2 * (arcsin sx * (180 / π))) 0
  let h := 2 * (arcsin sz * (180 / π)) + sz * max (2 * (arccos (1 - 2 * sy) * (180 / π)) - 2 * (arcsin sz * (180 / π))) 0
  (w, h, max 0 (sy - (whd2xyz w h 0).2.1))

theorem xyz2whd_real (sx sy sz : ℝ) :
    xyz2whd sx sy sz = xyz2whdBody (min sx 1) (min sy 1) (min sz 1) := by
  simp [xyz2whd, xyz2whdBody, pmax_real, pmin_real, degrees_real, k, Scalar.ofRat, Scalar.asin, Scalar.acos]

/-- the clip is the identity on sizes that are at most 1 -/
theorem xyz2whd_real_of_le (sx sy sz : ℝ) (hx : sx ≤ 1) (hy : sy ≤ 1) (hz : sz ≤ 1) :
    xyz2whd sx sy sz = xyz2whdBody sx sy sz := by
  rw [xyz2whd_real, min_eq_left hx, min_eq_left hy, min_eq_left hz]

/-- `sin` of half an extent angle below 180 degrees lies in `[0, 1]`. -/
theorem half_sin_mem {w : ℝ} (h0 : 0 ≤ w) (_h1 : w ≤ 360) :
    0 ≤ (if w < 180 then sin (w / 2 * (π / 180)) else 1) ∧ (if w < 180 then sin (w / 2 * (π / 180)) else 1) ≤ 1 := by
  split_ifs with h
  · refine ⟨sin_nonneg_of_nonneg_of_le_pi (by positivity) ?_, sin_le_one _⟩
    have : w / 2 * (π / 180) ≤ 180 * (π / 180) := mul_le_mul_of_nonneg_right (by linarith) (by positivity)
    calc w / 2 * (π / 180) ≤ 180 * (π / 180) := this
      _ = π := by ring
  · exact ⟨zero_le_one, le_refl _⟩

theorem half_cos_mem (w : ℝ) : 0 ≤ (1 - cos (w / 2 * (π / 180))) / 2 ∧ (1 - cos (w / 2 * (π / 180))) / 2 ≤ 1 := by
  have h1 := cos_le_one (w / 2 * (π / 180))
  have h2 := neg_one_le_cos (w / 2 * (π / 180))
  constructor <;> linarith

/-- **`_whd2xyz` range**: polar extents in the ADM ranges (width, height in `[0, 360]`, depth in `[0, 1]`) give
Cartesian sizes in `[0, 1]`. -/
theorem whd2xyz_range (w h d : ℝ) (hw0 : 0 ≤ w) (hw1 : w ≤ 360) (hh0 : 0 ≤ h) (hh1 : h ≤ 360) (hd0 : 0 ≤ d)
    (hd1 : d ≤ 1) :
    (0 ≤ (whd2xyz w h d).1 ∧ (whd2xyz w h d).1 ≤ 1) ∧ (0 ≤ (whd2xyz w h d).2.1 ∧ (whd2xyz w h d).2.1 ≤ 1) ∧
    (0 ≤ (whd2xyz w h d).2.2 ∧ (whd2xyz w h d).2.2 ≤ 1) := by
  rw [whd2xyz_real]
  refine ⟨half_sin_mem hw0 hw1, ⟨?_, ?_⟩, half_sin_mem hh0 hh1⟩
  · exact le_trans hd0 (le_max_right _ _)
  · exact max_le (max_le (half_cos_mem w).2 (half_cos_mem h).2) hd1

/-- the `y` size of `_whd2xyz` is never negative when the depth is not -/
theorem whd2xyz_y_nonneg (w h d : ℝ) (hd0 : 0 ≤ d) : 0 ≤ (whd2xyz w h d).2.1 := by
  rw [whd2xyz_real]; exact le_trans hd0 (le_max_right _ _)

/-- one of the two angle formulas of `_xyz2whd`: `a + s·max(b − a, 0)` with `0 ≤ a ≤ 180`, `0 ≤ b ≤ 360`, `s ∈ [0,1]` -/
theorem blend_range {a b s : ℝ} (ha0 : 0 ≤ a) (ha1 : a ≤ 180) (_hb0 : 0 ≤ b) (hb1 : b ≤ 360) (hs0 : 0 ≤ s) (hs1 : s ≤ 1) :
    0 ≤ a + s * max (b - a) 0 ∧ a + s * max (b - a) 0 ≤ 360 := by
  have hm0 : 0 ≤ max (b - a) 0 := le_max_right _ _
  constructor
  · have := mul_nonneg hs0 hm0; linarith
  · have hm : max (b - a) 0 ≤ 360 - a := max_le (by linarith) (by linarith)
    have : s * max (b - a) 0 ≤ 1 * (360 - a) := mul_le_mul hs1 hm hm0 (by norm_num)
    linarith

theorem asin_deg_range {s : ℝ} (hs0 : 0 ≤ s) : 0 ≤ 2 * (arcsin s * (180 / π)) ∧ 2 * (arcsin s * (180 / π)) ≤ 180 := by
  have h0 : 0 ≤ arcsin s := arcsin_nonneg.mpr hs0
  have h1 : arcsin s ≤ π / 2 := arcsin_le_pi_div_two s
  have hp : 0 < 180 / π := by positivity
  constructor
  · positivity
  · have : arcsin s * (180 / π) ≤ π / 2 * (180 / π) := mul_le_mul_of_nonneg_right h1 hp.le
    have e : π / 2 * (180 / π) = 90 := by field_simp; ring
    linarith

theorem acos_deg_range (t : ℝ) : 0 ≤ 2 * (arccos t * (180 / π)) ∧ 2 * (arccos t * (180 / π)) ≤ 360 := by
  have h0 : 0 ≤ arccos t := arccos_nonneg t
  have h1 : arccos t ≤ π := arccos_le_pi t
  have hp : 0 < 180 / π := by positivity
  constructor
  · positivity
  · have : arccos t * (180 / π) ≤ π * (180 / π) := mul_le_mul_of_nonneg_right h1 hp.le
    have e : π * (180 / π) = 180 := by field_simp
    linarith

theorem xyz2whdBody_range (sx sy sz : ℝ) (hx0 : 0 ≤ sx) (hx1 : sx ≤ 1) (hy1 : sy ≤ 1) (hz0 : 0 ≤ sz)
    (hz1 : sz ≤ 1) :
    (0 ≤ (xyz2whdBody sx sy sz).1 ∧ (xyz2whdBody sx sy sz).1 ≤ 360) ∧
    (0 ≤ (xyz2whdBody sx sy sz).2.1 ∧ (xyz2whdBody sx sy sz).2.1 ≤ 360) ∧
    (0 ≤ (xyz2whdBody sx sy sz).2.2 ∧ (xyz2whdBody sx sy sz).2.2 ≤ 1) := by
  unfold xyz2whdBody
  simp only
  refine ⟨blend_range (asin_deg_range hx0).1 (asin_deg_range hx0).2 (acos_deg_range _).1 (acos_deg_range _).2 hx0 hx1,
    blend_range (asin_deg_range hz0).1 (asin_deg_range hz0).2 (acos_deg_range _).1 (acos_deg_range _).2 hz0 hz1,
    le_max_left _ _, ?_⟩
  have := whd2xyz_y_nonneg
    (2 * (arcsin sx * (180 / π)) + sx * max (2 * (arccos (1 - 2 * sy) * (180 / π)) - 2 * (arcsin sx * (180 / π))) 0)
    (2 * (arcsin sz * (180 / π)) + sz * max (2 * (arccos (1 - 2 * sy) * (180 / π)) - 2 * (arcsin sz * (180 / π))) 0)
    0 le_rfl
  exact max_le (by norm_num) (by linarith)

/-- **`_xyz2whd` range, with the clip** (code since bc4a3f0): ANY non-negative sizes - also sizes above 1, which the
clip `min(·, 1)` brings back - give width and height in `[0, 360]` and depth in `[0, 1]`.  Over ℝ; the binary64
evaluation is tied by the correspondence and searched. -/
theorem xyz2whd_range_clipped (sx sy sz : ℝ) (hx0 : 0 ≤ sx) (hz0 : 0 ≤ sz) :
    (0 ≤ (xyz2whd sx sy sz).1 ∧ (xyz2whd sx sy sz).1 ≤ 360) ∧
    (0 ≤ (xyz2whd sx sy sz).2.1 ∧ (xyz2whd sx sy sz).2.1 ≤ 360) ∧
    (0 ≤ (xyz2whd sx sy sz).2.2 ∧ (xyz2whd sx sy sz).2.2 ≤ 1) := by
  rw [xyz2whd_real]
  exact xyz2whdBody_range _ _ _ (le_min hx0 zero_le_one) (min_le_right _ _) (min_le_right _ _)
    (le_min hz0 zero_le_one) (min_le_right _ _)

/-- **`_xyz2whd` range**: Cartesian sizes in `[0, 1]` give width and height in `[0, 360]` and depth in `[0, 1]`
(the ADM ranges of polar extents). -/
theorem xyz2whd_range (sx sy sz : ℝ) (hx0 : 0 ≤ sx) (_hx1 : sx ≤ 1) (_hy0 : 0 ≤ sy) (_hy1 : sy ≤ 1) (hz0 : 0 ≤ sz)
    (_hz1 : sz ≤ 1) :
    (0 ≤ (xyz2whd sx sy sz).1 ∧ (xyz2whd sx sy sz).1 ≤ 360) ∧
    (0 ≤ (xyz2whd sx sy sz).2.1 ∧ (xyz2whd sx sy sz).2.1 ≤ 360) ∧
    (0 ≤ (xyz2whd sx sy sz).2.2 ∧ (xyz2whd sx sy sz).2.2 ≤ 1) :=
  xyz2whd_range_clipped sx sy sz hx0 hz0

example : (0 ≤ (xyz2whd (3 / 2 : ℝ) 2 1).1 ∧ (xyz2whd (3 / 2 : ℝ) 2 1).1 ≤ 360) :=
  (xyz2whd_range_clipped (3 / 2) 2 1 (by norm_num) (by norm_num)).1

/-- **zero extent, polar → Cartesian sizes** -/
theorem whd2xyz_zero : whd2xyz (0 : ℝ) 0 0 = (0, 0, 0) := by
  rw [whd2xyz_real]; norm_num

/-- **zero extent, Cartesian sizes → polar** -/
theorem xyz2whd_zero : xyz2whd (0 : ℝ) 0 0 = (0, 0, 0) := by
  rw [xyz2whd_real_of_le _ _ _ zero_le_one zero_le_one zero_le_one]
  unfold xyz2whdBody
  simp only [arcsin_zero, zero_mul, mul_zero, sub_zero, arccos_one, add_zero, max_self]
  rw [whd2xyz_zero]; simp

theorem norm3_real (a b c : ℝ) : norm3 a b c = √(a * a + b * b + c * c) := rfl

/-- **zero extent is kept by `extent_polar_to_cart`**: whatever the position, a point source stays a point source. -/
theorem extentPolarToCart_zero (P : Params ℝ) (az el d : ℝ) (r : (ℝ × ℝ × ℝ) × (ℝ × ℝ × ℝ))
    (h : extentPolarToCart P az el d 0 0 0 = some r) : r.2 = (0, 0, 0) := by
  unfold extentPolarToCart at h
  cases hp : pointPolarToCart P az el d with
  | none => rw [hp] at h; simp at h
  | some q =>
    rw [hp] at h
    obtain ⟨p, i⟩ := q
    simp only [whd2xyz_zero, Option.some.injEq] at h
    subst h
    simp [norm3_real]

/-- **zero extent is kept by `extent_cart_to_polar`**. -/
theorem extentCartToPolar_zero (P : Params ℝ) (x y z : ℝ) (r : (ℝ × ℝ × ℝ) × (ℝ × ℝ × ℝ))
    (h : extentCartToPolar P x y z 0 0 0 = some r) : r.2 = (0, 0, 0) := by
  unfold extentCartToPolar at h
  cases hp : pointCartToPolar P x y z with
  | none => rw [hp] at h; simp at h
  | some q =>
    rw [hp] at h
    obtain ⟨⟨az, el, dist⟩, i⟩ := q
    simp only [Option.some.injEq] at h
    subst h
    simp [norm3_real, xyz2whd_zero]

/-! ### `local_coordinate_system` is orthonormal; ranges of the converted extents -/

theorem cart_real (az el d : ℝ) :
    cart az el d = (sin (-az * (π / 180)) * cos (el * (π / 180)) * d, cos (-az * (π / 180)) * cos (el * (π / 180)) * d,
      sin (el * (π / 180)) * d) := by
  simp [cart, radians_real, Scalar.sin, Scalar.cos]

/-- `local_coordinate_system(az, el)` with `A`, `E` the angles in radians: rows `(cos A, sin A, 0)`,
`(−sin A cos E, cos A cos E, sin E)`, `(sin A sin E, −cos A sin E, cos E)`. -/
theorem lcs_real (az el : ℝ) :
    localCoordinateSystem az el =
      ((cos (az * (π / 180)), sin (az * (π / 180)), 0),
       (-sin (az * (π / 180)) * cos (el * (π / 180)), cos (az * (π / 180)) * cos (el * (π / 180)), sin (el * (π / 180))),
       (sin (az * (π / 180)) * sin (el * (π / 180)), -cos (az * (π / 180)) * sin (el * (π / 180)), cos (el * (π / 180)))) := by
  have e1 : -(az - 90) * (π / 180) = π / 2 - az * (π / 180) := by ring
  have e2 : (el + 90) * (π / 180) = el * (π / 180) + π / 2 := by ring
  have e3 : -az * (π / 180) = -(az * (π / 180)) := by ring
  simp only [localCoordinateSystem, cart_real, k0, k1, k90, e1, e2, e3, zero_mul, sin_zero, cos_zero, mul_one,
    sin_pi_div_two_sub, cos_pi_div_two_sub, sin_add_pi_div_two, cos_add_pi_div_two, sin_neg, cos_neg, neg_mul, mul_neg,
    neg_neg]

/-- the Euclidean norm of a unit vector whose components are scaled by factors in `[0, 1]` lies in `[0, 1]` -/
theorem norm3_scaled_mem {a b c f g h : ℝ} (hu : a * a + b * b + c * c = 1) (hf0 : 0 ≤ f) (hf1 : f ≤ 1)
    (hg0 : 0 ≤ g) (hg1 : g ≤ 1) (hh0 : 0 ≤ h) (hh1 : h ≤ 1) :
    0 ≤ norm3 (a * f) (b * g) (c * h) ∧ norm3 (a * f) (b * g) (c * h) ≤ 1 := by
  rw [norm3_real]
  refine ⟨sqrt_nonneg _, ?_⟩
  rw [show (1 : ℝ) = √1 by simp]
  apply sqrt_le_sqrt
  have h1 : a * f * (a * f) ≤ a * a := by nlinarith [mul_self_nonneg a, mul_nonneg hf0 hf0, mul_le_one₀ hf1 hf0 hf1]
  have h2 : b * g * (b * g) ≤ b * b := by nlinarith [mul_self_nonneg b, mul_nonneg hg0 hg0, mul_le_one₀ hg1 hg0 hg1]
  have h3 : c * h * (c * h) ≤ c * c := by nlinarith [mul_self_nonneg c, mul_nonneg hh0 hh0, mul_le_one₀ hh1 hh0 hh1]
  linarith

/-- **`extent_polar_to_cart` range**: polar extents in the ADM ranges give Cartesian sizes in `[0, 1]`, at every
position. -/
theorem extentPolarToCart_range (P : Params ℝ) (az el d w h dp : ℝ) (hw0 : 0 ≤ w) (hw1 : w ≤ 360) (hh0 : 0 ≤ h)
    (hh1 : h ≤ 360) (hd0 : 0 ≤ dp) (hd1 : dp ≤ 1) (r : (ℝ × ℝ × ℝ) × (ℝ × ℝ × ℝ))
    (hr : extentPolarToCart P az el d w h dp = some r) :
    (0 ≤ r.2.1 ∧ r.2.1 ≤ 1) ∧ (0 ≤ r.2.2.1 ∧ r.2.2.1 ≤ 1) ∧ (0 ≤ r.2.2.2 ∧ r.2.2.2 ≤ 1) := by
  unfold extentPolarToCart at hr
  cases hp : pointPolarToCart P az el d with
  | none => rw [hp] at hr; simp at hr
  | some q =>
    rw [hp] at hr
    obtain ⟨p, i⟩ := q
    obtain ⟨⟨x0, x1⟩, ⟨y0, y1⟩, ⟨z0, z1⟩⟩ := whd2xyz_range w h dp hw0 hw1 hh0 hh1 hd0 hd1
    simp only [lcs_real, Option.some.injEq] at hr
    subst hr
    set A := az * (π / 180)
    set E := el * (π / 180)
    have sA := sin_sq_add_cos_sq A
    have sE := sin_sq_add_cos_sq E
    refine ⟨norm3_scaled_mem ?_ x0 x1 y0 y1 z0 z1, norm3_scaled_mem ?_ x0 x1 y0 y1 z0 z1,
      norm3_scaled_mem ?_ x0 x1 y0 y1 z0 z1⟩
    · nlinarith [sA, sE]
    · nlinarith [sA, sE]
    · nlinarith [sA, sE]

/-- **`extent_cart_to_polar` range**: Cartesian sizes in `[0, 1]` give width and height in `[0, 360]` and depth in
`[0, 1]`, at every position. -/
theorem extentCartToPolar_range (P : Params ℝ) (x y z xs ys zs : ℝ) (hx0 : 0 ≤ xs) (hx1 : xs ≤ 1) (hy0 : 0 ≤ ys)
    (hy1 : ys ≤ 1) (hz0 : 0 ≤ zs) (hz1 : zs ≤ 1) (r : (ℝ × ℝ × ℝ) × (ℝ × ℝ × ℝ))
    (hr : extentCartToPolar P x y z xs ys zs = some r) :
    (0 ≤ r.2.1 ∧ r.2.1 ≤ 360) ∧ (0 ≤ r.2.2.1 ∧ r.2.2.1 ≤ 360) ∧ (0 ≤ r.2.2.2 ∧ r.2.2.2 ≤ 1) := by
  unfold extentCartToPolar at hr
  cases hp : pointCartToPolar P x y z with
  | none => rw [hp] at hr; simp at hr
  | some q =>
    rw [hp] at hr
    obtain ⟨⟨az, el, dist⟩, i⟩ := q
    simp only [lcs_real, Option.some.injEq] at hr
    subst hr
    set A := az * (π / 180)
    set E := el * (π / 180)
    have sA := sin_sq_add_cos_sq A
    have sE := sin_sq_add_cos_sq E
    have n0 := norm3_scaled_mem (a := cos A) (b := sin A) (c := 0) (by nlinarith [sA]) hx0 hx1 hy0 hy1 hz0 hz1
    have n1 := norm3_scaled_mem (a := -sin A * cos E) (b := cos A * cos E) (c := sin E) (by nlinarith [sA, sE])
      hx0 hx1 hy0 hy1 hz0 hz1
    have n2 := norm3_scaled_mem (a := sin A * sin E) (b := -cos A * sin E) (c := cos E) (by nlinarith [sA, sE])
      hx0 hx1 hy0 hy1 hz0 hz1
    exact xyz2whd_range _ _ _ n0.1 n0.2 n1.1 n1.2 n2.1 n2.2

end Earverif.Conv
