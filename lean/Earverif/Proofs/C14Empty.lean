/- C14, the allocator and allocation packs without channels: `_allocate_packs_impl` (C07's model, imported, not
   modified) never allocates such a pack, so removing them from `packs` changes nothing. -/
import Earverif.Props.C07
namespace Earverif.PackAlloc

/-- an allocation pack that has at least one channel -/
def hasChannels (p : Pack) : Bool := !p.channels.isEmpty

/-- the same problem without the allocation packs that have no channels -/
def dropEmpty (prob : Problem) : Problem := { prob with packs := prob.packs.filter hasChannels }

theorem tryAllocate_empty (t : TrackRef) {p : Pack} (h : hasChannels p = false) :
    tryAllocate t (emptyAllocation p) = none := by
  have : p.channels = [] := by simpa [hasChannels] using h
  simp [tryAllocate, emptyAllocation, this, tryAllocateSlots]

/-- replace the `remaining_packs` component by its channel-carrying part -/
def dropRp (x : Sol × List Pack × Option (List Nat)) : Sol × List Pack × Option (List Nat) :=
  (x.1, x.2.1.filter hasChannels, x.2.2)

def newCand (track : TrackRef) (partialSol : Sol) (x : Pack × List Pack × Option (List Nat)) :
    Option (Sol × List Pack × Option (List Nat)) :=
  (tryAllocate track (emptyAllocation x.1)).map fun a => (partialSol ++ [a], x.2.1, x.2.2)

theorem newCandidates_eq (track : TrackRef) (packs : List Pack) (refs : Option (List Nat)) (partialSol : Sol) :
    newCandidates track packs refs partialSol = (candidateNewPacks track refs packs).filterMap (newCand track partialSol) := by
  unfold newCandidates
  congr 1

theorem aux_filter (track : TrackRef) (refs : Option (List Nat)) (partialSol : Sol) (all : List Pack) :
    ∀ l : List Pack,
      (candidateNewPacksAux track refs (all.filter hasChannels) (l.filter hasChannels)).filterMap (newCand track partialSol) =
      ((candidateNewPacksAux track refs all l).filterMap (newCand track partialSol)).map dropRp := by
  intro l
  induction l with
  | nil => simp [candidateNewPacksAux]
  | cons p rest ih =>
    by_cases hp : hasChannels p = true
    · have hf : (p :: rest).filter hasChannels = p :: rest.filter hasChannels := by simp [hp]
      rw [hf]
      unfold candidateNewPacksAux
      cases refs with
      | none =>
        simp only [List.filterMap_cons]
        rw [ih]
        cases hta : tryAllocate track (emptyAllocation p) with
        | none => simp [newCand, hta]
        | some a => simp [newCand, hta, dropRp]; split <;> simp [hp]
      | some r =>
        simp only
        cases hidx : indexById p.root r with
        | none => simp only; exact ih
        | some i =>
          simp only [List.filterMap_cons]
          rw [ih]
          cases hta : tryAllocate track (emptyAllocation p) with
          | none => simp [newCand, hta]
          | some a => simp [newCand, hta, dropRp]; split <;> simp [hp]
    · have hp' : hasChannels p = false := by simpa using hp
      have hf : (p :: rest).filter hasChannels = rest.filter hasChannels := by simp [hp']
      rw [hf, ih]
      have hdrop : ∀ rp rr, newCand track partialSol (p, rp, rr) = none := by
        intro rp rr; simp [newCand, tryAllocate_empty track hp']
      conv => rhs; unfold candidateNewPacksAux
      cases refs with
      | none => simp [hdrop]
      | some r =>
        simp only
        cases hidx : indexById p.root r with
        | none => rfl
        | some i => simp [hdrop]

theorem newCandidates_filter (track : TrackRef) (packs : List Pack) (refs : Option (List Nat)) (partialSol : Sol) :
    newCandidates track (packs.filter hasChannels) refs partialSol =
      (newCandidates track packs refs partialSol).map dropRp := by
  rw [newCandidates_eq, newCandidates_eq]
  unfold candidateNewPacks
  split
  · simp
  · exact aux_filter track refs partialSol packs packs

theorem candidatePartialSolutions_filter (track : TrackRef) (packs : List Pack) (refs : Option (List Nat))
    (partialSol : Sol) :
    candidatePartialSolutions track (packs.filter hasChannels) refs partialSol =
      (candidatePartialSolutions track packs refs partialSol).map dropRp := by
  unfold candidatePartialSolutions
  rw [newCandidates_filter]
  have hex : ((existingCandidates track [] partialSol).map fun np => (np, packs.filter hasChannels, refs)) =
      ((existingCandidates track [] partialSol).map fun np => (np, packs, refs)).map dropRp := by
    simp [dropRp, Function.comp_def]
  simp only
  rw [hex]
  split
  · cases h : (existingCandidates track [] partialSol).map fun np => (np, packs, refs) with
    | nil => simp
    | cons e t => simp
  · simp

theorem filter_filter_comm {α : Type} (p q : α → Bool) (l : List α) :
    (l.filter p).filter q = (l.filter q).filter p := by
  simp only [List.filter_filter]
  congr 1
  funext a
  exact Bool.and_comm _ _

/-- `_allocate_packs_impl` never allocates a pack without channels (`try_allocate` on its empty allocation returns
`None`), so such packs can be removed from `packs` without changing what is yielded -/
theorem allocImpl_filter : ∀ (fuel : Nat) (packs : List Pack) (tracks : List TrackRef) (refs : Option (List Nat))
    (partialSol : Sol),
    allocImpl fuel packs tracks refs partialSol = allocImpl fuel (packs.filter hasChannels) tracks refs partialSol := by
  intro fuel
  induction fuel with
  | zero => intro packs tracks refs partialSol; rfl
  | succ fuel ih =>
    intro packs tracks refs partialSol
    cases tracks with
    | nil => simp [allocImpl]
    | cons track rest =>
      simp only [allocImpl]
      split
      · rfl
      · rw [filter_filter_comm, candidatePartialSolutions_filter, List.flatMap_map]
        refine flatMap_congr' ?_
        intro x _
        obtain ⟨np, rp, rr⟩ := x
        simp only [dropRp, allocObviousWith]
        cases obviousPacks rest np with
        | none => rfl
        | some y => simp only; exact ih _ _ _ _

theorem allocatePacks_dropEmpty (prob : Problem) : allocatePacks (dropEmpty prob) = allocatePacks prob := by
  unfold allocatePacks
  have : tracksIncSilent (dropEmpty prob) = tracksIncSilent prob := rfl
  rw [this]
  exact (allocImpl_filter _ _ _ _ _).symm

theorem selectPackMapping_dropEmpty (prob : Problem) :
    selectPackMapping (dropEmpty prob) = selectPackMapping prob := by
  unfold selectPackMapping
  rw [allocatePacks_dropEmpty]

end Earverif.PackAlloc
