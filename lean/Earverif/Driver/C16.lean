/- Line protocol for the C16 PCM model (`Model/Ieee.lean`, `Model/Pcm.lean`).
   Doubles travel as their 64-bit pattern in hex (16 digits), so every comparison
   with numpy is bit-for-bit.  Byte strings travel as hex (2 digits per byte, `-` = empty).

   D <b> c1 c2 ...      -> `<bits of decode b c>:<encode b (decode b c)>` per code
   E <b> h1 h2 ...      -> `encode b x` per double given by its bit pattern (`±inf` allowed)
   R <b> <lo> <n>       -> three checksums over the codes lo, lo+1, .., lo+n-1:
                           Σ bits_i, Σ (i+1)·bits_i, Σ (i+1)·(re-encoded code_i mod 2^32), all mod 2^64
   P <b> c1 c2 ...      -> bytes of the codes as `encode_pcm_samples` lays them out
   U <b> <hexbytes>     -> the integer codes `decode_pcm_samples` sees | `none` (exception)
   B <b> <hexbytes>     -> encodeBytes b (decodeBytes b bytes) | `none`
   I <ch> <n> v1 .. v(n*ch) -> interleave of the n×ch array given row by row
   X <ch> v1 v2 ...     -> deinterleave: rows separated by `|` (`-` = no rows) | `none`
   A <ha> <hb>          -> `<bits of rn53 (a / b)> <bits of rn53 (a * b)>` for two doubles (rounding model alone)
   V h1 h2 ...          -> per 64-bit pattern: `<num>/<den>:<toBits of that value>` (the exact value `ofBits` assigns to the
                           pattern and the pattern `toBits` prints for it; `nan` for a NaN pattern)
   W <b> h1 h2 ...      -> per double: bits of `decode b (encode b x)` (what a written sample reads back as)
   anything else        -> `bad-op` -/
import Earverif.Model.Pcm
import Earverif.Driver.Util
open Earverif.Ieee Earverif.Pcm Earverif.Driver

def hexDigit? (c : Char) : Option Nat :=
  if '0' ≤ c ∧ c ≤ '9' then some (c.toNat - '0'.toNat)
  else if 'a' ≤ c ∧ c ≤ 'f' then some (c.toNat - 'a'.toNat + 10)
  else none

def hexNat? (s : String) : Option Nat :=
  if s.isEmpty then none
  else s.toList.foldlM (fun acc c => do some (acc * 16 + (← hexDigit? c))) 0

def hexBytes? (s : String) : Option (List Nat) :=
  if s = "-" then some [] else
  let rec go : List Char → Option (List Nat)
    | [] => some []
    | a :: b :: rest => do
      let x ← hexDigit? a
      let y ← hexDigit? b
      let r ← go rest
      some ((x * 16 + y) :: r)
    | _ => none
  go s.toList

def hexChar (n : Nat) : Char := if n < 10 then Char.ofNat (48 + n) else Char.ofNat (87 + n)

def hexOf (digits : Nat) (n : Nat) : String :=
  String.ofList ((List.range digits).reverse.map fun i => hexChar (n / 16 ^ i % 16))

def showBytes (bs : List Nat) : String :=
  if bs.isEmpty then "-" else String.join (bs.map (hexOf 2))

def showBits (x : Rat) : String :=
  match toBits x with
  | some w => hexOf 16 w
  | none => "not-a-double"

def okDepth (b : Int) : Option Nat := if b = 16 ∨ b = 24 ∨ b = 32 then some b.toNat else none

def showInts (xs : List Int) : String := String.intercalate " " (xs.map toString)

def checksums (b : Nat) (lo : Int) (n : Nat) : String :=
  let m := 2 ^ 64
  let rec go (i : Nat) (fuel : Nat) (s1 s2 s3 : Nat) : Nat × Nat × Nat :=
    match fuel with
    | 0 => (s1, s2, s3)
    | fuel + 1 =>
      let c := lo + i
      let x := decode b c
      let w := (toBits x).getD 0
      let r := (encode b x % 2 ^ 32).toNat
      go (i + 1) fuel ((s1 + w) % m) ((s2 + (i + 1) * w) % m) ((s3 + (i + 1) * r) % m)
  let (s1, s2, s3) := go 0 n 0 0 0
  s!"{s1} {s2} {s3}"

def answer (line : String) : String :=
  match words line with
  | "D" :: b :: cs =>
    match b.toInt? >>= okDepth, parseInts? cs with
    | some b, some cs =>
      String.intercalate " " (cs.map fun c => let x := decode b c; s!"{showBits x}:{encode b x}")
    | _, _ => "bad-op"
  | "E" :: b :: hs =>
    match b.toInt? >>= okDepth, hs.mapM (fun h => hexNat? h >>= ofBits) with
    | some b, some xs => showInts (xs.map (encode b))
    | _, _ => "bad-op"
  | ["R", b, lo, n] =>
    match b.toInt? >>= okDepth, lo.toInt?, n.toNat? with
    | some b, some lo, some n => checksums b lo n
    | _, _, _ => "bad-op"
  | "P" :: b :: cs =>
    match b.toInt? >>= okDepth, parseInts? cs with
    | some b, some cs => match pack b cs with
      | some bs => showBytes bs
      | none => "none"
    | _, _ => "bad-op"
  | ["U", b, h] =>
    match b.toInt? >>= okDepth, hexBytes? h with
    | some b, some bs => match unpack b bs with
      | some cs => if cs.isEmpty then "-" else showInts cs
      | none => "none"
    | _, _ => "bad-op"
  | ["B", b, h] =>
    match b.toInt? >>= okDepth, hexBytes? h with
    | some b, some bs => match (decodeBytes b bs).bind (encodeBytes b) with
      | some out => showBytes out
      | none => "none"
    | _, _ => "bad-op"
  | "I" :: ch :: n :: vs =>
    match ch.toNat?, n.toNat?, parseInts? vs with
    | some ch, some n, some vs =>
      if vs.length ≠ n * ch ∨ ch = 0 then "bad-op" else
      let rows := (List.range n).map fun f => (vs.drop (f * ch)).take ch
      let out := interleave ch rows
      if out.isEmpty then "-" else showInts out
    | _, _, _ => "bad-op"
  | "X" :: ch :: vs =>
    match ch.toNat?, parseInts? vs with
    | some ch, some vs => match deinterleave ch vs with
      | some rows => if rows.isEmpty then "-" else String.intercalate " | " (rows.map showInts)
      | none => "none"
    | _, _ => "bad-op"
  | "V" :: hs =>
    match hs.mapM hexNat? with
    | some ws => String.intercalate " " (ws.map fun w =>
        match ofBits w with
        | some x => s!"{x.num}/{x.den}:{showBits x}"
        | none => "nan")
    | none => "bad-op"
  | "W" :: b :: hs =>
    match b.toInt? >>= okDepth, hs.mapM (fun h => hexNat? h >>= ofBits) with
    | some b, some xs => String.intercalate " " (xs.map fun x => showBits (decode b (encode b x)))
    | _, _ => "bad-op"
  | ["A", ha, hb] =>
    match hexNat? ha >>= ofBits, hexNat? hb >>= ofBits with
    | some a, some b => if b = 0 then "bad-op" else s!"{showBits (rn53 (a / b))} {showBits (rn53 (a * b))}"
    | _, _ => "bad-op"
  | _ => "bad-op"

def main : IO Unit := lineLoop answer
