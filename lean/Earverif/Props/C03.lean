/-
C03 — rendered audio equals the metadata-defined time-varying gains, zero latency.

Property theorems about the models in `Model/{Stream,Timeline,Renderer,RenderSpec}.lean`; long helper
lemmas are in `Proofs/C03{Bpc,Ceil,Gain}.lean`.
-/
import Earverif.Proofs.C03Gain
import Earverif.Proofs.C02Render
import Earverif.Proofs.C02RenderTS
import Earverif.Proofs.C02OverlapSave
import Earverif.Proofs.C02Trace
import Earverif.Proofs.C03Linear
import Earverif.Proofs.C03LinearTS
namespace Earverif.Timeline
open Earverif.Stream Earverif.RenderSpec

section
variable {V : Type} [RMod V] [LawfulRMod V]

omit [RMod V] [LawfulRMod V] in
theorem runSpec_lengths {K ι : Type} (upd : K → Nat → ι → V → V) (all : List (PBlock K)) :
    ∀ (ios : List (List ι × List V)) (S0 : Int),
      (runSpec upd all S0 ios).map List.length = ios.map (·.2.length) := by
  intro ios
  induction ios with
  | nil => intro _; rfl
  | cons io ios ih =>
    intro S0
    obtain ⟨inp, out⟩ := io
    simp only [runSpec, List.map_cons, mapRows_length, ih]

/-- A timeline in the property's quantifier: the interpreter accepts all of it (no overlapping /
out-of-order blocks, rtime and duration paired, block inside the object, interpolationLength not
longer than the block); durations and interpolation lengths are not negative; the first block does
not start before time zero (otherwise the real code raises "metadata underrun"). -/
structure ObjAccepted (sr : Nat) (blocks : List (MetaBlock V)) : Prop where
  interp_ok : ∃ all, interpAll (interpObject sr) {} blocks = .ok all
  nonneg : ∀ m ∈ blocks, NonNegBlock m
  start_nonneg : ∀ m ms, blocks = m :: ms → 0 ≤ (blockTimes m).1

/-- **`bpc_eq_gainAt`** — `BlockProcessingChannel` with `InterpretObjectMetadata`, fed the item's
sample stream in ANY partition (`ios` = the successive `(input block, rows to add into)` pairs,
empty blocks allowed), for an accepted timeline: no exception is raised (in particular no
"metadata underrun"), and the concatenated result adds `x[s] · gainAt(s)` to row `s` — a function
of the concatenated stream only.  `gainAt` is the sample-by-sample specification of
`Model/RenderSpec.lean` (constant / linear ramp / silence). -/
theorem bpc_eq_gainAt (sr : Nat) (blocks : List (MetaBlock V)) (hacc : ObjAccepted sr blocks)
    (ios : List (List Rat × List V)) (hlen : ∀ io ∈ ios, io.2.length = io.1.length) :
    ∃ b' outs, Bpc.run (interpObject sr) GainKern.upd ⟨blocks, {}, []⟩ 0 ios = .ok (b', outs) ∧
      outs.map List.length = ios.map (·.2.length) ∧
      outs.flatten =
        mapRows (fun j x o => o + RMod.smul x (gainAt sr (objTimeline none blocks) j).row)
          (ios.map (·.1)).flatten (ios.map (·.2)).flatten := by
  obtain ⟨all, hall⟩ := hacc.interp_ok
  have hst : StOK ({} : IState V) := ⟨rfl, Or.inl rfl⟩
  obtain ⟨h1, h2, _⟩ := obj_all_spec blocks {} all hall hst hacc.nonneg
  have hch : ChainLB 0 all := by
    apply h2
    intro m ms hm
    have := hacc.start_nonneg m ms hm
    have h0 : (0 : Rat) ≤ (blockTimes m).1 * sr := mul_nonneg this (by positivity)
    have := ceil_mono h0
    have hc0 : ceil 0 = 0 := by
      apply Int.le_antisymm
      · exact (ceil_le_iff 0 0).mpr (by norm_num)
      · have := (lt_ceil_iff 0 (-1)).mpr (by norm_num); omega
    omega
  obtain ⟨b', hrun, _⟩ := bpc_run_spec (interpObject sr) interpObject_yield_le_two GainKern.upd hch ios
    ⟨blocks, {}, []⟩ 0 (bpcInv_init _ _ _ hall hch)
  refine ⟨b', _, hrun, ?_, ?_⟩
  · exact runSpec_lengths _ _ _ _
  · rw [runSpec_flatten _ _ _ _ hlen]
    apply mapRows_congr
    intro j x o _
    rw [h1]
    simp only [statePrev, Int.zero_add]

/-- **`C03_gain_timeline`** (per item; = `bpc_eq_gainAt` read at one row): for any partition, row `s` of the
concatenated result is the old row plus `x[s] · gainAt(s)` — the sample `x[s]` itself, i.e. zero latency on
the gain path (`C03_direct_zero_latency` at the level of one channel). -/
theorem C03_gain_timeline (sr : Nat) (blocks : List (MetaBlock V)) (hacc : ObjAccepted sr blocks)
    (ios : List (List Rat × List V)) (hlen : ∀ io ∈ ios, io.2.length = io.1.length) (s : Nat) (x : Rat) (o : V)
    (hx : (ios.map (·.1)).flatten[s]? = some x) (ho : (ios.map (·.2)).flatten[s]? = some o) :
    ∃ b' outs, Bpc.run (interpObject sr) GainKern.upd ⟨blocks, {}, []⟩ 0 ios = .ok (b', outs) ∧
      outs.flatten[s]? = some (o + RMod.smul x (gainAt sr (objTimeline none blocks) s).row) := by
  obtain ⟨b', outs, h1, _, h3⟩ := bpc_eq_gainAt sr blocks hacc ios hlen
  refine ⟨b', outs, h1, ?_⟩
  rw [h3]
  simp only [mapRows, List.getElem?_mapIdx, ho, hx, Option.map_some]

omit [RMod V] [LawfulRMod V] in
/-- Silence is specified exactly where no block of the timeline covers the sample. -/
theorem gainAt_silent_iff {G : Type} (sr : Nat) (tl : List (SpecBlock G)) (s : Int) :
    (∃ g, gainAt sr tl s = g ∧ (match g with | .silent => True | _ => False)) ↔
      ∀ b ∈ tl, b.covers sr s = false := by
  induction tl with
  | nil => simp [gainAt]
  | cons b tl ih =>
    rw [gainAt_cons]
    by_cases hc : b.covers sr s = true
    · rw [if_pos hc]
      constructor
      · rintro ⟨g, hg, hm⟩
        unfold gainAt at hg
        simp only [List.find?, hc] at hg
        split at hg <;> (try split at hg) <;> subst hg <;> simp at hm
      · intro h; have := h b List.mem_cons_self; rw [hc] at this; cases this
    · rw [if_neg hc]
      simp only [Bool.not_eq_true] at hc
      rw [ih]
      simp [hc]

/-- **`C03_silence_outside_blocks`**: where no block covers sample `s`, the channel leaves row `s` unchanged. -/
theorem C03_silence_outside_blocks (sr : Nat) (tl : List (SpecBlock V)) (s : Int) (x : Rat) (o : V)
    (h : ∀ b ∈ tl, b.covers sr s = false) : o + RMod.smul x (gainAt sr tl s).row = o := by
  obtain ⟨g, hg, hm⟩ := (gainAt_silent_iff sr tl s).mpr h
  rw [hg]
  cases g with
  | silent => exact silent_row x o
  | const _ => cases hm
  | ramp _ _ _ => cases hm

omit [LawfulRMod V] in
/-- **`C03_sum_of_items_linear`** (two channels sharing the output rows, as in `ObjectRenderer.render`): the
second channel adds to what the first produced; row `s` ends up as `o + x_a·g_a + x_b·g_b`.  (Component-level identity;
the clause "exact sum over items, linear in the input audio" for whole sessions is `C03_render_formula(_os)` — every
term is a `sumV` over the items — together with `C03_linear_in_input` below.) -/
theorem C03_sum_of_items_linear (ga gb : Nat → V) (xa xb : List Rat) (os : List V) (s : Nat) (a b : Rat) (o : V)
    (ha : xa[s]? = some a) (hb : xb[s]? = some b) (ho : os[s]? = some o) :
    (mapRows (fun j x o => o + RMod.smul x (gb j)) xb (mapRows (fun j x o => o + RMod.smul x (ga j)) xa os))[s]? =
      some (o + RMod.smul a (ga s) + RMod.smul b (gb s)) := by
  simp only [mapRows, List.getElem?_mapIdx, ho, ha, hb, Option.map_some]

end

/-! ### The composed renderer (uses `Earverif.Renderer.render_refines_spec`, `Proofs/C02Render.lean`) -/

section Composed
open Earverif.Renderer
variable {V : Type} [RMod V] [LawfulRMod V]

omit [RMod V] [LawfulRMod V] in
/-- The acceptance predicate used by the composed theorems is the one of `bpc_eq_gainAt`. -/
theorem objAccepted_iff (sr : Nat) (blocks : List (MetaBlock (V × V))) :
    ObjAccepted sr blocks ↔ ObjAccepted' sr blocks :=
  ⟨fun h => ⟨h.interp_ok, h.nonneg, h.start_nonneg⟩, fun h => ⟨h.interp_ok, h.nonneg, h.start_nonneg⟩⟩

/-- DirectSpeakers part of the specified output at sample `s`. -/
def dsPart (c : Cfg V) (dss : List (DsItem V)) (x : List (List Rat)) (s : Nat) : V :=
  sumV (dss.map fun it => RMod.smul (xAt x it.track s) (gainAt c.sr (fixedTimeline it.blocks) s).row)

/-- HOA part of the specified output at sample `s`. -/
def hoaPart (c : Cfg V) (hoas : List (HoaItem V)) (x : List (List Rat)) (s : Nat) : V :=
  sumV (hoas.map fun it => (gainAt c.sr (fixedTimeline it.blocks) s).mat (it.tracks.map fun tr => xAt x tr s))

/-- **`C03_render_formula`** — every output sample of the real pipeline's model, for any blocking:
`out[s] = direct(s) + Σ_k f[k]·diffuse(s + (N−1)//2 − k) + ds(s) + hoa(s)`, each term the exact sum over items of
input sample × `gainAt`. -/
theorem C03_render_formula (c : Cfg V) (objs : List (ObjItem V)) (dss : List (DsItem V)) (hoas : List (HoaItem V))
    (hok : SessionOK c objs dss hoas) (parts : List (List (List Rat))) :
    ∃ out, renderAll c objs dss hoas parts = .ok out ∧ out.length = parts.flatten.length ∧
      ∀ s, s < parts.flatten.length → out[s]? =
        some ((((objAt c.sr objs parts.flatten s).1 + specDiffuse c objs parts.flatten s) +
          dsPart c dss parts.flatten s) + hoaPart c hoas parts.flatten s) := by
  refine ⟨_, render_refines_spec c objs dss hoas hok parts, by simp [RenderSpec.out], ?_⟩
  intro s hs
  simp only [RenderSpec.out, List.getElem?_map, List.getElem?_range hs, Option.map_some]
  rfl

/-- **`C03_render_formula_os`** — `C03_render_formula` for the renderer with the partitioned overlap-save FFT convolver
inside `ObjectRenderer` (`renderAllOS`, `Model/OverlapSave.lean`; via `render_refines_spec_os`), for a non-empty
decorrelation filter: in particular the diffuse term of every output sample is `specDiffuse`, the decorrelation FIR
with its group delay compensated (`C03_diffuse_group_delay`), although the code computes it block-wise by circular
convolutions of length `2·block_size` behind a `block_size` adapter delay. -/
theorem C03_render_formula_os (c : Cfg V) (objs : List (ObjItem V)) (dss : List (DsItem V)) (hoas : List (HoaItem V))
    (hok : SessionWF c objs dss hoas) (parts : List (List (List Rat))) :
    ∃ out, renderAllOS c objs dss hoas parts = .ok out ∧ out.length = parts.flatten.length ∧
      ∀ s, s < parts.flatten.length → out[s]? =
        some ((((objAt c.sr objs parts.flatten s).1 + specDiffuse c objs parts.flatten s) +
          dsPart c dss parts.flatten s) + hoaPart c hoas parts.flatten s) := by
  refine ⟨_, render_refines_spec_os_ok c objs dss hoas hok.ok hok.taps_ne hok.index parts, by simp [RenderSpec.out], ?_⟩
  intro s hs
  simp only [RenderSpec.out, List.getElem?_map, List.getElem?_range hs, Option.map_some]
  rfl

/-! #### linear in the input audio -/

omit [RMod V] [LawfulRMod V] in
theorem inputOK_of_shape (c : Cfg V) (x y : List (List Rat)) (h : SameShape c.n_in x y) :
    InputOK c x ∧ InputOK c y ∧ InputOK c (addX x y) := by
  refine ⟨h.wx, h.wy, ?_⟩
  intro fr hfr
  obtain ⟨i, hi, rfl⟩ := List.getElem_of_mem hfr
  simp only [addX, List.length_zipWith] at hi
  simp only [addX, List.getElem_zipWith, List.length_zipWith]
  rw [h.wx _ (List.getElem_mem (by omega)), h.wy _ (List.getElem_mem (by omega)), Nat.min_self]

omit [RMod V] [LawfulRMod V] in
theorem inputOK_smulX (c : Cfg V) (a : Rat) (x : List (List Rat)) (h : InputOK c x) : InputOK c (smulX a x) := by
  intro fr hfr
  simp only [smulX, List.mem_map] at hfr
  obtain ⟨fr0, h0, rfl⟩ := hfr
  rw [List.length_map]; exact h fr0 h0

/-- The whole specified output is additive / homogeneous in the input (`outAt_add`, `outAt_smul` at every sample). -/
theorem out_add (c : Cfg V) (objs : List (ObjItem V)) (dss : List (DsItem V)) (hoas : List (HoaItem V))
    (x y : List (List Rat)) (h : SameShape c.n_in x y) :
    RenderSpec.out c objs dss hoas (addX x y) =
      List.zipWith (· + ·) (RenderSpec.out c objs dss hoas x) (RenderSpec.out c objs dss hoas y) := by
  have hl : (addX x y).length = x.length := by simp only [addX, List.length_zipWith]; have := h.len; omega
  simp only [RenderSpec.out, hl, ← h.len]
  rw [List.zipWith_map_left, List.zipWith_map_right, List.zipWith_self]
  apply List.map_congr_left
  intro s _
  exact outAt_add c objs dss hoas x y h s

theorem out_smul (c : Cfg V) (objs : List (ObjItem V)) (dss : List (DsItem V)) (hoas : List (HoaItem V))
    (a : Rat) (x : List (List Rat)) :
    RenderSpec.out c objs dss hoas (smulX a x) = (RenderSpec.out c objs dss hoas x).map (RMod.smul a) := by
  simp only [RenderSpec.out, smulX, List.length_map, List.map_map]
  apply List.map_congr_left
  intro s _
  exact outAt_smul c objs dss hoas a x s

/-- **`C03_linear_in_input`** — "the output is the exact sum over items, linear in the input audio", for the renderer
model with the overlap-save convolver and ANY blockings (items reading one input track each; items with track specs:
`C03_linear_in_input_ts`): with the same items, rendering the sum of two inputs of the
same shape (in any blocking) gives the frame-wise sum of the two renderings (each in any blocking), and rendering `a·x`
gives `a` times the rendering of `x`.  (From `outAt_add`/`outAt_smul` on the specification through
`render_refines_spec_os`.) -/
theorem C03_linear_in_input (c : Cfg V) (objs : List (ObjItem V)) (dss : List (DsItem V)) (hoas : List (HoaItem V))
    (hok : SessionWF c objs dss hoas) (px py pxy pa : List (List (List Rat))) (a : Rat)
    (hshape : SameShape c.n_in px.flatten py.flatten) (hsum : pxy.flatten = addX px.flatten py.flatten)
    (hscale : pa.flatten = smulX a px.flatten) :
    ∃ ox oy, renderAllOS c objs dss hoas px = .ok ox ∧ renderAllOS c objs dss hoas py = .ok oy ∧
      renderAllOS c objs dss hoas pxy = .ok (List.zipWith (· + ·) ox oy) ∧
      renderAllOS c objs dss hoas pa = .ok (ox.map (RMod.smul a)) := by
  have hr := render_refines_spec_os_ok c objs dss hoas hok.ok hok.taps_ne hok.index
  refine ⟨_, _, hr px, hr py, ?_, ?_⟩
  · rw [hr pxy, hsum, out_add c objs dss hoas _ _ hshape]
  · rw [hr pa, hscale, out_smul]

omit [LawfulRMod V] in
/-- **`C03_direct_zero_latency`** — the direct part of Objects, the DirectSpeakers part and the HOA part of output
sample `s` depend on the input only through input frame `s` (no latency, no look-ahead): two inputs that agree at
frame `s` give the same three terms. -/
theorem C03_direct_zero_latency (c : Cfg V) (objs : List (ObjItem V)) (dss : List (DsItem V)) (hoas : List (HoaItem V))
    (x y : List (List Rat)) (s : Nat) (h : x.getD s [] = y.getD s []) :
    (objAt c.sr objs x s).1 = (objAt c.sr objs y s).1 ∧ dsPart c dss x s = dsPart c dss y s ∧
      hoaPart c hoas x s = hoaPart c hoas y s := by
  have hx : ∀ tr, xAt x tr (s : Int) = xAt y tr (s : Int) := by
    intro tr; unfold xAt; rw [if_pos (by omega), if_pos (by omega), Int.toNat_natCast, h]
  refine ⟨?_, ?_, ?_⟩
  · unfold objAt; simp only [hx]
  · unfold dsPart; simp only [hx]
  · unfold hoaPart; simp only [hx]

omit [LawfulRMod V] in
/-- **`C03_diffuse_group_delay`** — the diffuse part of output sample `s` is the per-loudspeaker decorrelation filter
`f` (length `N`) applied to the diffuse gain stream with its group delay `(N − 1)//2` compensated:
`Σ_{k<N} f[k] · diffuse(s + (N−1)//2 − k)`, `diffuse(t)` = diffuse half of `Σ_items x[t]·gainAt(t)` (0 outside the
input). -/
theorem C03_diffuse_group_delay (c : Cfg V) (objs : List (ObjItem V)) (x : List (List Rat)) (s : Nat) :
    specDiffuse c objs x s =
      sumV ((List.range c.taps.length).map fun k =>
        RMod.pmul (c.taps.getD k 0) (objAt c.sr objs x ((s : Int) + ((c.taps.length - 1) / 2 : Nat) - k)).2) := rfl

end Composed

/-! ### Non-vacuity: a concrete accepted timeline (gap, jumpPosition with interpolationLength) -/

/-- Sample rate 10: `[0, 3/10)` gain 1; gap; `[1/2, 4/5)` gain 2; contiguous `[4/5, 13/10)` gain 3 with
jumpPosition and interpolationLength 1/4 (ramp 2→3 over samples 8..10, not aligned to samples). -/
def exBlocks : List (MetaBlock Rat) :=
  [ ⟨none, none, some 0, some (3/10), false, none, 1⟩,
    ⟨none, none, some (1/2), some (3/10), false, none, 2⟩,
    ⟨none, none, some (4/5), some (1/2), true, some (1/4), 3⟩ ]

theorem ok_of_toBool {ε α : Type} (e : Except ε α) (h : e.toBool = true) : ∃ a, e = .ok a := by
  cases e with
  | error _ => simp [Except.toBool] at h
  | ok a => exact ⟨a, rfl⟩

theorem exBlocks_accepted : ObjAccepted 10 exBlocks where
  interp_ok := ok_of_toBool _ (by decide +kernel)
  nonneg := by
    intro m hm
    simp only [exBlocks, List.mem_cons, List.not_mem_nil, or_false] at hm
    rcases hm with rfl | rfl | rfl <;>
      refine ⟨?_, ?_, ?_⟩ <;> intro d hd <;> cases hd <;> decide +kernel
  start_nonneg := by
    intro m ms h
    simp only [exBlocks] at h
    cases h
    decide +kernel

/-- The specified gains of the example at samples 0..13: constant, silence in the gap, ramp, constant, silence. -/
example : (List.range 14).map (fun s => (gainAt 10 (objTimeline none exBlocks) s).row) =
    [1, 1, 1, 0, 0, 2, 2, 2, 2, 12/5, 14/5, 3, 3, 0] := by decide +kernel

/-! ### Non-vacuity of the composed theorems: two items, three Objects blocks with a gap and a jumpPosition -/

open Earverif.Renderer in
/-- One output channel (`V = Rat`), sample rate 10, `block_size = 2`, a 3-tap decorrelator (group delay 1). -/
def exCfg : Cfg Rat := ⟨10, 2, [1/4, 1/2, 1/4], 1⟩

/-- The Objects item: the timeline of `exBlocks` with `(direct, diffuse)` gains. -/
def exObjBlocks : List (MetaBlock (Rat × Rat)) :=
  [ ⟨none, none, some 0, some (3/10), false, none, (1, 0)⟩,
    ⟨none, none, some (1/2), some (3/10), false, none, (2, 1)⟩,
    ⟨none, none, some (4/5), some (1/2), true, some (1/4), (3, 0)⟩ ]

open Earverif.Renderer in
def exObjs : List (ObjItem Rat) := [⟨0, exObjBlocks⟩]

open Earverif.Renderer in
/-- A DirectSpeakers item on the same track: one block without timing (whole programme), gain 1/2. -/
def exDss : List (DsItem Rat) := [⟨0, [⟨none, none, none, none, false, none, 1/2⟩]⟩]

open Earverif.Renderer in
theorem exSession_ok : SessionOK exCfg exObjs exDss [] where
  block_size_pos := by decide
  objs_ok := by
    intro it hit
    simp only [exObjs, List.mem_cons, List.not_mem_nil, or_false] at hit
    subst hit
    refine ⟨ok_of_toBool _ (by decide +kernel), ?_, ?_⟩
    · intro m hm
      simp only [exObjBlocks, List.mem_cons, List.not_mem_nil, or_false] at hm
      rcases hm with rfl | rfl | rfl <;>
        refine ⟨?_, ?_, ?_⟩ <;> intro d hd <;> cases hd <;> decide +kernel
    · intro m ms h
      simp only [exObjBlocks] at h
      cases h
      decide +kernel
  dss_ok := by
    intro it hit
    simp only [exDss, List.mem_cons, List.not_mem_nil, or_false] at hit
    subst hit
    refine ⟨ok_of_toBool _ (by decide +kernel), ?_, ?_⟩
    · intro m hm
      simp only [List.mem_cons, List.not_mem_nil, or_false] at hm
      subst hm
      refine ⟨?_, ?_, ?_⟩ <;> intro d hd <;> cases hd
    · intro m ms h
      cases h
      decide +kernel
  hoas_ok := by intro it hit; cases hit

open Earverif.Renderer in
/-- The model run on 14 input frames split as `[3, 0, 1, 10]` returns what the specification says (kernel-evaluated on
both sides), an instance of `render_refines_spec`. -/
example : renderAll exCfg exObjs exDss []
      [[[1], [2], [3]], [], [[4]], [[5], [6], [7], [8], [9], [10], [11], [12], [13], [14]]] =
    .ok (RenderSpec.out exCfg exObjs exDss []
      [[1], [2], [3], [4], [5], [6], [7], [8], [9], [10], [11], [12], [13], [14]]) :=
  render_refines_spec exCfg exObjs exDss [] exSession_ok _

open Earverif.Renderer in
/-- Non-vacuity of `SessionWF`: the example session is inside the stated quantifier (track 0 of a 1-channel input,
three taps). -/
theorem exSession_wf : SessionWF exCfg exObjs exDss [] where
  ok := exSession_ok
  index := ⟨by decide, by decide, (by intro it hit; cases hit), (by intro it hit; cases hit),
    (by intro it hit; cases hit)⟩
  taps_ne := by decide

open Earverif.Renderer in
/-- The same session through the model with the overlap-save convolver: an instance of `render_refines_spec_os_ok` /
`C03_render_formula_os`. -/
example : renderAllOS exCfg exObjs exDss []
      [[[1], [2], [3]], [], [[4]], [[5], [6], [7], [8], [9], [10], [11], [12], [13], [14]]] =
    .ok (RenderSpec.out exCfg exObjs exDss []
      [[1], [2], [3], [4], [5], [6], [7], [8], [9], [10], [11], [12], [13], [14]]) :=
  render_refines_spec_os_ok exCfg exObjs exDss [] exSession_wf.ok exSession_wf.taps_ne exSession_wf.index _

open Earverif.Renderer in
/-- The exception branches of `renderAllOS` (kernel-evaluated): a track outside the 1-channel input raises `IndexError`
on the first call; an HOA item without tracks raises the `np.stack` `ValueError`; a decode matrix with two columns for
an item with one track raises the `np.dot` `ValueError`. -/
example : renderAllOS exCfg [⟨1, exObjBlocks⟩] exDss [] [[[1], [2]]] = .error .trackIndex := by decide +kernel
open Earverif.Renderer in
example : renderAllOS exCfg exObjs exDss [⟨[], [⟨none, none, none, none, false, none, []⟩]⟩] [[[1], [2]]] =
    .error .emptyStack := by decide +kernel
open Earverif.Renderer in
example : renderAllOS exCfg exObjs exDss [⟨[0], [⟨none, none, none, none, false, none, [1, 2]⟩]⟩] [[[1], [2]]] =
    .error .dotShape := by decide +kernel

/-- An HOA item whose SECOND decode matrix (from sample 2 on) is mis-shaped, followed by an item with a track outside
the input. -/
def exBadHoas : List (Earverif.Renderer.HoaItem Rat) :=
  [⟨[0], [⟨none, none, some 0, some (1/5), false, none, [1]⟩, ⟨none, none, some (1/5), some 1, false, none, [1, 2]⟩]⟩,
   ⟨[1], [⟨none, none, none, none, false, none, [1]⟩]⟩]

open Earverif.Renderer in
/-- WHICH numpy exception such a session raises depends on the blocking (why `C02_block_independent_os_of_ok` compares
returned audio only): with a first call of one frame the second item's `IndexError` comes first; with a first call of
three frames the first item reaches its second matrix in that call and `np.dot` raises first.  A mis-shaped matrix that
is never reached (input and tail end before it becomes current) raises nothing. -/
example : renderAllOS exCfg [] [] exBadHoas [[[1]], [[2], [3]]] = .error .trackIndex ∧
    renderAllOS exCfg [] [] exBadHoas [[[1], [2], [3]]] = .error .dotShape := by decide +kernel
open Earverif.Renderer in
example : (renderAllOS exCfg [] []
    [⟨[0], [⟨none, none, some 0, some 1, false, none, [1]⟩, ⟨none, none, some 1, some 1, false, none, [1, 2]⟩]⟩]
    [[[1]], [[2], [3]]]).toBool = true := by decide +kernel

open Earverif.Renderer in
/-- Non-vacuity of `C03_linear_in_input`: two inputs of shape `(3, 1)`, their sum and a multiple. -/
example : SameShape exCfg.n_in [[1], [2], [3]] [[10], [0], [-5]] ∧
    addX [[1], [2], [3]] [[10], [0], [-5]] = [[11], [2], [-2]] ∧ smulX 3 [[1], [2], [3]] = [[3], [6], [9]] :=
  ⟨⟨rfl, by decide, by decide⟩, by decide +kernel, by decide +kernel⟩

end Earverif.Timeline

/-! ### With track processors (`Model/RendererTS.lean`) -/
namespace Earverif.RendererTS
open Earverif.Stream Earverif.Timeline Earverif.Renderer Earverif.RenderSpec
open Earverif.TrackSpec (Spec Proc)

section
variable {V : Type} [RMod V] [LawfulRMod V]

/-- **`C03_render_formula_ts`** — every output sample of the model of the real pipeline *including the track
processors*, for any blocking:
`out[s] = Σ_obj direct_gains(s)·y_obj(s) + Σ_k f[k]·(Σ_obj diffuse_gains·y_obj)(s + (N−1)//2 − k)
          + Σ_ds gains(s)·y_ds(s) + Σ_hoa M(s)·(y_hoa,1(s), …, y_hoa,m(s))`,
where `y_item = sAt c spec_item x` is the literal meaning (C20) of the item's track spec — inputs summed, scaled by the
gains, delayed by the coefficient delays — and the gains are `gainAt` of the item's timeline (C03). -/
theorem C03_render_formula_ts (c : Cfg V) (objs : List (ObjItemTS V)) (dss : List (DsItemTS V))
    (hoas : List (HoaItemTS V)) (hok : SessionOKTS c objs dss hoas) (parts : List (List (List Rat))) :
    ∃ out, renderAllTS c objs dss hoas parts = .ok out ∧ out.length = parts.flatten.length ∧
      ∀ s, s < parts.flatten.length → out[s]? =
        some ((((objAtTS c objs parts.flatten s).1 + diffuseAtTS c objs parts.flatten s) +
          dsAtTS c dss parts.flatten s) + hoaAtTS c hoas parts.flatten s) := by
  refine ⟨_, render_eq_outTS c objs dss hoas hok parts, by simp [outTS], ?_⟩
  intro s hs
  simp only [outTS, List.getElem?_map, List.getElem?_range hs, Option.map_some]
  rfl

/-- **`C03_render_formula_ts_os`** — `C03_render_formula_ts` for the renderer with track processors AND the partitioned
overlap-save convolver (`renderAllTSOS`), for a non-empty decorrelation filter. -/
theorem C03_render_formula_ts_os (c : Cfg V) (objs : List (ObjItemTS V)) (dss : List (DsItemTS V))
    (hoas : List (HoaItemTS V)) (hok : SessionWFTS c objs dss hoas) (parts : List (List (List Rat))) :
    ∃ out, renderAllTSOS c objs dss hoas parts = .ok out ∧ out.length = parts.flatten.length ∧
      ∀ s, s < parts.flatten.length → out[s]? =
        some ((((objAtTS c objs parts.flatten s).1 + diffuseAtTS c objs parts.flatten s) +
          dsAtTS c dss parts.flatten s) + hoaAtTS c hoas parts.flatten s) := by
  refine ⟨_, render_eq_outTS_os_ok c objs dss hoas hok.ok hok.taps_ne hok.hoa_gains parts, by simp [outTS], ?_⟩
  intro s hs
  simp only [outTS, List.getElem?_map, List.getElem?_range hs, Option.map_some]
  rfl

/-- **`C03_linear_in_input_ts`** — "the output is the exact sum over items, linear in the input audio" for items with
TRACK SPECS (direct, silent, mix, gain, matrix coefficient with gain and delay, nested), for the renderer model with the
track processors, the overlap-save convolver and ANY blockings: rendering the sum of two inputs of the same shape (in any
blocking) gives the frame-wise sum of the two renderings (each in any blocking), and rendering `a·x` gives `a` times the
rendering of `x`.  (From the linearity of C20's literal meaning — `TrackSpec.meaning_add` / `meaning_smul`, hence of
every item stream `sAt` and of the specification `outAtTS` — through `render_eq_outTS_os`.) -/
theorem C03_linear_in_input_ts (c : Cfg V) (objs : List (ObjItemTS V)) (dss : List (DsItemTS V))
    (hoas : List (HoaItemTS V)) (hok : SessionWFTS c objs dss hoas) (px py pxy pa : List (List (List Rat))) (a : Rat)
    (hshape : SameShape c.n_in px.flatten py.flatten) (hsum : pxy.flatten = addX px.flatten py.flatten)
    (hscale : pa.flatten = smulX a px.flatten) :
    ∃ ox oy, renderAllTSOS c objs dss hoas px = .ok ox ∧ renderAllTSOS c objs dss hoas py = .ok oy ∧
      renderAllTSOS c objs dss hoas pxy = .ok (List.zipWith (· + ·) ox oy) ∧
      renderAllTSOS c objs dss hoas pa = .ok (ox.map (RMod.smul a)) := by
  have hr := render_eq_outTS_os_ok c objs dss hoas hok.ok hok.taps_ne hok.hoa_gains
  refine ⟨_, _, hr px, hr py, ?_, ?_⟩
  · rw [hr pxy, hsum, outTS_add c objs dss hoas _ _ hshape]
  · rw [hr pa, hscale, outTS_smul]

end

/-- **`C03_item_audio_ts`** — inside the input (`t < T`) the audio an item's gains are applied to is sample `t` of
`meaning(spec)(x)`: the direct, DirectSpeakers and HOA terms of output sample `s` use `meaning(spec_item)(x)(s)`
(zero latency on top of what the spec itself says); only the decorrelator's look-ahead reads beyond `T`, where the
input continues as silence (`get_tail`) and delayed inputs keep sounding. -/
theorem C03_item_audio_ts {V : Type} (c : Cfg V) (spec : Spec Rat) (x : List (List Rat)) (t : Nat) (ht : t < x.length) :
    sAt c spec x (t : Int) = (TrackSpec.meaning c.sr c.n_in spec x).getD t 0 :=
  sAt_eq_meaning c spec x t ht

/-- **`C03_coefficient_delay_ts`** — a matrix coefficient delay of `ms` milliseconds delays the item's audio, and
with it the item's whole contribution to every term of `C03_render_formula_ts`, by exactly
`d = round(fs·ms/1000)` samples (`TrackSpec.delaySamples`; C20 `delay_rounding`): at every time `τ` up to the end of
the tail, `y_delayed(τ) = y_undelayed(τ − d)` (silence for `τ < d`). -/
theorem C03_coefficient_delay_ts {V : Type} (c : Cfg V) (t : Spec Rat) (g : Option Rat) (ms : Rat)
    (x : List (List Rat)) (τ : Int) (hτ : τ < (x.length + c.overall_delay : Nat)) :
    sAt c (.matrix t g (some ms)) x τ =
      sAt c (.matrix t g none) x (τ - ((TrackSpec.delaySamples c.sr ms).toNat : Int)) :=
  sAt_delay c t g ms x τ hτ

/-- **`C03_direct_spec_ts`** — with `DirectTrackSpec(i)` the item's audio is input track `i`: the formula with track
specs specialises to `C03_render_formula`. -/
theorem C03_direct_spec_ts {V : Type} (c : Cfg V) (i : Nat) (hi : i < c.n_in) (x : List (List Rat)) (t : Int) :
    sAt c (.direct (i : Int)) x t = xAt x i t :=
  sAt_direct c i hi x t

/-! #### Non-vacuity: a mix of two inputs one of which goes through a matrix coefficient with gain and a 2-sample
delay (Objects), a gain over a delayed input (DirectSpeakers), two specs one of them silent (HOA) -/

/-- One output channel, sample rate 10, `block_size = 2`, 3-tap decorrelator, two input channels. -/
def exCfgTS : Cfg Rat := ⟨10, 2, [1/4, 1/2, 1/4], 2⟩

/-- `MixTrackSpec([Direct(0), MatrixCoefficient(Direct(1), gain 1/2, delay 200 ms = 2 samples)])` on the timeline of
`exObjBlocks`. -/
def exObjsTS : List (ObjItemTS Rat) :=
  [⟨.mix [.direct 0, .matrix (.direct 1) (some (1/2)) (some 200)], Earverif.Timeline.exObjBlocks⟩]

/-- `GainTrackSpec(MatrixCoefficient(Direct(1), delay 100 ms = 1 sample), 2)`, one untimed block, gain 1/2. -/
def exDssTS : List (DsItemTS Rat) :=
  [⟨.gain (.matrix (.direct 1) none (some 100)) 2, [⟨none, none, none, none, false, none, 1/2⟩]⟩]

/-- `MultiTrackProcessor([Direct(0), Silent])`, one untimed block with decode columns 1 and 5. -/
def exHoasTS : List (HoaItemTS Rat) :=
  [⟨[.direct 0, .silent], [⟨none, none, none, none, false, none, [1, 5]⟩]⟩]

theorem exSessionTS_ok : SessionOKTS exCfgTS exObjsTS exDssTS exHoasTS where
  block_size_pos := by decide
  objs_ok := by
    intro it hit
    simp only [exObjsTS, List.mem_cons, List.not_mem_nil, or_false] at hit
    subst hit
    exact Earverif.Timeline.exSession_ok.objs_ok ⟨0, Earverif.Timeline.exObjBlocks⟩ (by simp [Earverif.Timeline.exObjs])
  dss_ok := by
    intro it hit
    simp only [exDssTS, List.mem_cons, List.not_mem_nil, or_false] at hit
    subst hit
    exact Earverif.Timeline.exSession_ok.dss_ok ⟨0, [⟨none, none, none, none, false, none, 1/2⟩]⟩
      (by simp [Earverif.Timeline.exDss])
  hoas_ok := by
    intro it hit
    simp only [exHoasTS, List.mem_cons, List.not_mem_nil, or_false] at hit
    subst hit
    refine ⟨Earverif.Timeline.ok_of_toBool _ (by decide +kernel), ?_, ?_⟩
    · intro m hm
      simp only [List.mem_cons, List.not_mem_nil, or_false] at hm
      subst hm
      refine ⟨?_, ?_, ?_⟩ <;> intro d hd <;> cases hd
    · intro m ms h
      cases h
      decide +kernel
  specs_ok := by
    refine ⟨by decide +kernel, by decide +kernel, ?_⟩
    intro it hit
    simp only [exHoasTS, List.mem_cons, List.not_mem_nil, or_false] at hit
    subst hit
    exact ⟨by simp, by decide +kernel⟩

def exX : List (List Rat) :=
  [[1, 10], [2, 20], [3, 30], [4, 40], [5, 50], [6, 60], [7, 70], [8, 80], [9, 90], [10, 100], [11, 110],
   [12, 120], [13, 130], [14, 140]]

/-- The delays round to 2 and 1 samples. -/
example : TrackSpec.delaySamples 10 200 = 2 ∧ TrackSpec.delaySamples 10 100 = 1 := by decide +kernel

/-- The Objects item's audio: `x0(t) + x1(t − 2)/2`; after the last input frame (`t = 14, 15`) the delayed input is
still sounding (65, 70), then silence. -/
example : (List.range 18).map (fun t => sAt exCfgTS (.mix [.direct 0, .matrix (.direct 1) (some (1/2)) (some 200)]) exX t) =
    [1, 2, 8, 14, 20, 26, 32, 38, 44, 50, 56, 62, 68, 74, 65, 70, 0, 0] := by decide +kernel

/-- The specified output of the example (kernel-evaluated). -/
example : outTS exCfgTS exObjsTS exDssTS exHoasTS exX =
    [2, 14, 31, 34, 103/2, 129, 163, 192, 216, 1244/5, 2809/10, 1554/5, 337, 144] := by decide +kernel

/-- The model (processors, gain timelines, delay, decorrelator adapter, aligner, tail) run on the 14 frames split as
`[3, 0, 1, 10]` returns what the specification says: an instance of `render_refines_spec_ts` / `render_eq_outTS`. -/
example : renderAllTS exCfgTS exObjsTS exDssTS exHoasTS [exX.take 3, [], (exX.drop 3).take 1, exX.drop 4] =
    .ok (outTS exCfgTS exObjsTS exDssTS exHoasTS exX) :=
  render_eq_outTS exCfgTS exObjsTS exDssTS exHoasTS exSessionTS_ok _

/-- Non-vacuity of `SessionWFTS`: the HOA item has two specs and decode matrices with two columns; three taps. -/
theorem exSessionTS_wf : SessionWFTS exCfgTS exObjsTS exDssTS exHoasTS where
  ok := exSessionTS_ok
  hoa_gains := by
    intro it hit b hb
    simp only [exHoasTS, List.mem_cons, List.not_mem_nil, or_false] at hit
    subst hit
    simp only [List.mem_cons, List.not_mem_nil, or_false] at hb
    subst hb
    rfl
  taps_ne := by decide

/-- The same through the model with the overlap-save convolver: an instance of `render_eq_outTS_os_ok`. -/
example : renderAllTSOS exCfgTS exObjsTS exDssTS exHoasTS [exX.take 3, [], (exX.drop 3).take 1, exX.drop 4] =
    .ok (outTS exCfgTS exObjsTS exDssTS exHoasTS exX) :=
  render_eq_outTS_os_ok exCfgTS exObjsTS exDssTS exHoasTS exSessionTS_wf.ok exSessionTS_wf.taps_ne
    exSessionTS_wf.hoa_gains _

/-- The `np.dot` exception with track processors: a decode matrix with one column for an HOA item with two track
specs. -/
example : renderAllTSOS exCfgTS exObjsTS exDssTS
    [⟨[.direct 0, .silent], [⟨none, none, none, none, false, none, [1]⟩]⟩] [exX.take 3, exX.drop 3] =
    .error .dotShape := by decide +kernel

/-- Non-vacuity of `C03_linear_in_input_ts`: two inputs of shape `(3, 2)`, their sum and a multiple. -/
example : SameShape exCfgTS.n_in [[1, 0], [2, 1], [3, 0]] [[10, 1], [0, 0], [-5, 2]] ∧
    addX [[1, 0], [2, 1], [3, 0]] [[10, 1], [0, 0], [-5, 2]] = [[11, 1], [2, 1], [-2, 2]] ∧
    smulX 3 [[1, 0], [2, 1], [3, 0]] = [[3, 0], [6, 3], [9, 0]] :=
  ⟨⟨rfl, by decide, by decide⟩, by decide +kernel, by decide +kernel⟩

end Earverif.RendererTS

