/-
Kernel ties (DESIGN.md section 1, "T — translator").

`Earverif/Gen/Kernels.lean` is regenerated on every run from the Python SOURCE of the functions below
(`harness/translate.py` reads the AST; the module is not imported).  Each theorem here states that the
regenerated definition equals the hand-written model definition that the property theorems are about.
If one of these functions is edited, the generated text changes; if it no longer says what the model
says, the equality below stops checking — whether or not a test input exposes the difference.

Conventions of the translation (see `harness/translate.py`): floats are exact rationals/reals (as in the
models); `//` is `Int.fdiv` (Python's floor division), which is the model's `/` for a divisor `≥ 0`
(stated as a hypothesis where it matters); `a > b` is written `b < a`; `is None` tests are decided by one
`match` at the top of the def; statements after an `if` are duplicated into both branches.

Only core Lean; every theorem is closed by `rfl`, `cases`, `split`, `simp`, `omega` or `grind`.  Where the
kernel is over `Int`/`Rat` the proof is `first | rfl | (unfold; grind)`: `rfl` checks the literal transliteration,
`grind` (case splits + linear/ring arithmetic) keeps the equality checking after a behaviour-preserving rewrite
such as commuted operands or reordered branches.  Kernels over the abstract `Scalar` class (no algebraic laws:
it is instantiated by `Float`) can only be re-proved up to the `if`-structure; a commuted product there breaks
the equality, which the framework reports as a broken tie (then searches for a failing input).
-/
import Earverif.Gen.Kernels
import Earverif.Model.GainCalc
import Earverif.Model.DirectSpeakers
import Earverif.Model.Bw64Cursor
import Earverif.Model.TrackSpec
import Earverif.Model.Timeline
import Earverif.Model.Pcm
import Earverif.Model.FileRender
import Earverif.Model.Bw64Reader
import Earverif.Model.Hoa
import Earverif.Model.Renderer
import Earverif.Model.PointSource
import Earverif.Model.Conversion
import Earverif.Model.Zone
import Earverif.Model.ChannelLock
import Earverif.Model.DirectSpeakersGeom
import Earverif.Model.DirectSpeakersConcrete
import Earverif.Model.TimingFix
import Earverif.Model.FileRenderLayout
import Earverif.Model.OverlapSave
import Earverif.Model.Stream

namespace Earverif.Kernels
open Earverif

/-! ### C10 — `renderer_common.is_lfe` -/

/-- `is_lfe(frequency)` (return value) is the model's `isLfeFreq`. -/
theorem is_lfe_eq_model (lowPass highPass : Option Rat) :
    Gen.is_lfe lowPass highPass = DS.isLfeFreq lowPass highPass := by
  cases lowPass <;> cases highPass <;> simp [Gen.is_lfe, DS.isLfeFreq]

/-! ### C01 — `get_object_gain`, `direct_diffuse_split`, the gains of `diverge`, `_single_balance_pan` -/

section
variable {α : Type} [GainCalc.Scalar α]

theorem get_object_gain_eq_model (mute : Bool) (objectGain : α) :
    Gen.get_object_gain mute objectGain = GainCalc.getObjectGain mute objectGain := by
  first | rfl | (cases mute <;> simp [Gen.get_object_gain, GainCalc.getObjectGain, GainCalc.zero, GainCalc.k])

theorem direct_diffuse_split_eq_model (gains : List α) (diffuse : α) :
    Gen.direct_diffuse_split gains diffuse = GainCalc.directDiffuseSplit gains diffuse := rfl

/-- The condition under which `diverge` computes `g_l, g_c, g_r` and the three formulas are the model's
(`none` = the early `return np.array([1.0]), ...`). -/
theorem diverge_gains_eq_model (value : Option α) :
    GainCalc.divergeGains value =
      match Gen.diverge_gains value with
      | none => [GainCalc.one]
      | some (g_l, g_c, g_r) => [g_l, g_c, g_r] := by
  cases value with
  | none => rfl
  | some v =>
    simp only [GainCalc.divergeGains, Gen.diverge_gains]
    split <;> simp_all [GainCalc.zero, GainCalc.one, GainCalc.k]

theorem single_balance_pan_eq_model (minimum maximum value : α) :
    Gen.single_balance_pan minimum maximum value = GainCalc.singleBalancePan minimum maximum value := by
  first
  | rfl
  | (simp only [Gen.single_balance_pan, GainCalc.singleBalancePan, GainCalc.one, GainCalc.zero, GainCalc.k]; grind)

end

/-! ### C18 — `Bw64Reader.seek`, `tell`, `__len__` -/

/-- New buffer position after `seek` (`none` = `ValueError`). -/
theorem seek_eq_model (k : Cursor.Cfg) (pos offset whence : Int) :
    Gen.seek k pos offset whence = Cursor.seek k pos offset whence := by
  simp only [Gen.seek, Cursor.seek]
  grind

/-- `tell` for a block alignment `≥ 0` (Python `//` floors; the model's `/` agrees for a divisor `≥ 0`). -/
theorem tell_eq_model (k : Cursor.Cfg) (pos : Int) (hA : 0 ≤ k.A) :
    Gen.tell k pos = Cursor.tell k pos := by
  simp only [Gen.tell, Cursor.tell]
  first | exact Int.fdiv_eq_ediv_of_nonneg _ hA | grind [Int.fdiv_eq_ediv_of_nonneg]

/-- `__len__`, for a block alignment `≥ 0`: the model's `Cfg.size` is the ds64 `dataSize` when there is a ds64 chunk and
the data chunk's size otherwise (the two sizes are separate parameters, so exchanging the branches breaks this). -/
theorem len_eq_model (k : Cursor.Cfg) (ds64 : Bool) (dsSize chunkSize : Int) (hA : 0 ≤ k.A) :
    Gen.len k ds64 dsSize chunkSize = Cursor.len { k with size := if ds64 then dsSize else chunkSize } := by
  cases ds64 <;> simp only [Gen.len, Cursor.len] <;>
    first | exact Int.fdiv_eq_ediv_of_nonneg _ hA | grind [Int.fdiv_eq_ediv_of_nonneg]

/-! ### C20 — the ms → samples formula of `MatrixCoefficientProcessor.init_delay` -/

theorem init_delay_samples_eq_model (sample_rate : Int) (delay : Rat) :
    Gen.init_delay_samples sample_rate delay = TrackSpec.delaySamples sample_rate delay := by
  first | rfl | (simp only [Gen.init_delay_samples, TrackSpec.delaySamples]; grind)

/-! ### C03 (and C02) — `ceil`, `ProcessingBlock.overlap`, `InterpGains._interp_p`, `interp_length` -/

theorem ceil_eq_model (x : Rat) : Gen.ceil x = Timeline.ceil x := by
  first | rfl | (simp only [Gen.ceil, Gen.pyTrunc, Timeline.ceil, Timeline.trunc]; grind)

/-- `overlap` of a block with a finite `last_sample`. -/
theorem overlap_eq_model {K : Type} (b : Timeline.PBlock K) (l : Int) (h : b.last_sample = .fin l)
    (start_sample : Int) (num_samples : Nat) :
    Gen.overlap b.first_sample l start_sample num_samples = b.overlap start_sample num_samples := by
  simp only [Gen.overlap, Timeline.PBlock.overlap, h]
  try grind

/-- `overlap` of a block without end (`last_sample = inf`): `min(end_sample, inf) = end_sample`, i.e. the
translated function applied to any `last_sample ≥ end_sample`. -/
theorem overlap_inf_eq_model {K : Type} (b : Timeline.PBlock K) (h : b.last_sample = .inf)
    (start_sample : Int) (num_samples : Nat) (l : Int) (hl : start_sample + num_samples ≤ l) :
    Gen.overlap b.first_sample l start_sample num_samples = b.overlap start_sample num_samples := by
  simp only [Gen.overlap, Timeline.PBlock.overlap, h]
  grind

theorem interp_p_eq_model (start_sample end_sample : Rat) (first_sample last_sample : Int) :
    Gen.interp_p start_sample end_sample first_sample last_sample =
      Timeline.interpP start_sample end_sample first_sample last_sample := by
  first
  | rfl
  | (simp only [Gen.interp_p, Timeline.interpP]
     split <;> first | rfl | (apply List.map_congr_left; intro i _; grind) | grind)

theorem interp_length_eq_model {G : Type} (m : Timeline.MetaBlock G) (duration : Timeline.Ext Rat) :
    Gen.interp_length m.jump m.interpLen duration = Timeline.interpLength m duration := by
  unfold Gen.interp_length Timeline.interpLength
  cases m.interpLen <;> cases m.jump <;> first | rfl | simp

/-! ### C16 — the exact scalar parts of `encode_pcm_samples` / `decode_pcm_samples` -/

/-- `((b : Int) - 1).toNat` is the model's truncated `b - 1`. -/
theorem scale_eq (b : Nat) :
    ((2 : Int) ^ ((Nat.cast b : Int) - (1 : Int)).toNat - (1 : Int)) = Pcm.scale b := by
  have : ((Nat.cast b : Int) - (1 : Int)).toNat = b - 1 := by omega
  simp only [Pcm.scale, this]

/-- `scaledSamples` = clip to [-1, 1], times `2**(bitdepth-1) - 1` (the argument of the model's `rn53`). -/
theorem pcm_encode_scaled_eq_model (samples : List Rat) (bitdepth : Nat) :
    Gen.pcm_encode_scaled samples bitdepth =
      samples.map (fun x => Pcm.clip x * (Pcm.scale bitdepth : Rat)) := by
  simp only [Gen.pcm_encode_scaled, scale_eq]
  apply List.map_congr_left
  intro x _
  simp only [Pcm.clip]
  grind

/-- the returned quotient `code / float(2**(bitdepth-1) - 1)` (the argument of the model's `rn53`). -/
theorem pcm_decode_scaled_eq_model (codes : List Int) (bitdepth : Nat) :
    Gen.pcm_decode_scaled codes bitdepth =
      codes.map (fun (c : Int) => (c : Rat) / (Pcm.scale bitdepth : Rat)) := by
  simp only [Gen.pcm_decode_scaled, scale_eq]
  try (apply List.map_congr_left; intro c _; grind)

/-- the encode tie stated against the model's `Pcm.encode` itself (not a restated formula): the model's codes are the
translated `scaledSamples`, rounded to binary64 and truncated (`astype(int)`). -/
theorem pcm_encode_model (samples : List Rat) (bitdepth : Nat) :
    samples.map (Pcm.encode bitdepth) =
      (Gen.pcm_encode_scaled samples bitdepth).map (fun y => Pcm.truncZ (Ieee.rn53 y)) := by
  rw [pcm_encode_scaled_eq_model, List.map_map]
  rfl

/-- the decode tie stated against the model's `Pcm.decode` itself: the translated quotient, rounded to binary64. -/
theorem pcm_decode_model (codes : List Int) (bitdepth : Nat) :
    codes.map (Pcm.decode bitdepth) = (Gen.pcm_decode_scaled codes bitdepth).map Ieee.rn53 := by
  rw [pcm_decode_scaled_eq_model, List.map_map]
  rfl

/-! ### C04 — `PeakMonitor.has_overloaded` -/

theorem has_overloaded_eq_model (peak : List Rat) :
    Gen.has_overloaded peak = FileRender.hasOverloaded peak := by
  first
  | rfl
  | (simp only [Gen.has_overloaded, FileRender.hasOverloaded]; congr 1; funext p; grind)


/-! ## Round 2

Where a model has no separate def for the translated piece (it is an expression inside a larger model function),
the theorem states the *unfolding* of that model function with the translated def in place of the expression, so the
tie is still to the model def the property theorems are about. -/

/-! ### C09 / C17 — chunk walk (`_read_chunks`), `close` tests, `_calc_riff_chunk_size`; C11 — ACN; C02 — latency
constants; C05 / C12 — stereo level law -/

theorem read_chunks_step_eq_model (f : Bw64.Bytes) (ds : Option Bw64.Ds64) (fuel pos : Nat) (t : Bw64.Table)
    (w : List Bw64.Warn) :
    Bw64.readChunks f ds (fuel + 1) pos t w =
      match Bw64.readChunkHeader f ds pos with
      | .eof => .ok (t, w)
      | .badId => .error .badId
      | .placeholder => .error .dataPlaceholder
      | .hdr id sz =>
        match Gen.read_chunks_step (pos + 8) sz f.length (decide (id = Bw64.idData)) with
        | none => .error .chunkEnd
        | some e =>
          Bw64.readChunks f ds fuel e ((id, sz, pos) :: t) (if e > f.length then w ++ [.dataPad] else w) := by
  rw [Bw64.readChunks]
  cases Bw64.readChunkHeader f ds pos with
  | eof => rfl
  | badId => rfl
  | placeholder => rfl
  | hdr id sz =>
    simp only [Gen.read_chunks_step, Nat.and_one_is_mod]
    grind

theorem close_pad_test_eq_model (s : Bw64.WState) :
    s.padData = if Gen.close_pad_test s.dataBytes then { s with buf := s.buf ++ [0] } else s := by
  simp only [Bw64.WState.padData, Gen.close_pad_test, Nat.and_one_is_mod]
  grind

theorem close_bw64_test_eq_model (s : Bw64.WState) :
    Bw64.finalizeW s =
      (let riffSize := s.buf.length - 8
       if Gen.close_bw64_test riffSize s.force then
         Bw64.patchAt (Bw64.patchAt s.buf 0 Bw64.idBW64) 12 (Bw64.ds64Chunk riffSize s.dataBytes)
       else
         Bw64.patchAt (Bw64.patchAt s.buf 4 (Bw64.le 4 riffSize)) (s.dataPos + 4) (Bw64.le 4 s.dataBytes)) := by
  simp only [Bw64.finalizeW, Gen.close_bw64_test]
  grind

theorem calc_riff_chunk_size_eq_model (s : Bw64.WState) (pos : Nat) :
    Bw64.finalizeW s =
      (let riffSize := (Gen.calc_riff_chunk_size pos s.buf.length).toNat
       if riffSize ≥ 2 ^ 32 || s.force then
         Bw64.patchAt (Bw64.patchAt s.buf 0 Bw64.idBW64) 12 (Bw64.ds64Chunk riffSize s.dataBytes)
       else
         Bw64.patchAt (Bw64.patchAt s.buf 4 (Bw64.le 4 riffSize)) (s.dataPos + 4) (Bw64.le 4 s.dataBytes)) := by
  have h : (Gen.calc_riff_chunk_size pos s.buf.length).toNat = s.buf.length - 8 := by
    simp only [Gen.calc_riff_chunk_size]; omega
  simp only [Bw64.finalizeW, h]

theorem to_acn_eq_model (n m : Int) : Gen.to_acn n m = Hoa.toAcn n m := by
  first | rfl | (simp only [Gen.to_acn, Hoa.toAcn]; grind)

theorem from_acn_eq_model (acn : Nat) : Gen.from_acn acn = Hoa.fromAcn acn := by
  simp only [Gen.from_acn, Hoa.fromAcn]
  grind

theorem decorrelator_delay_eq_model {V : Type} (c : Renderer.Cfg V) (h : 1 ≤ c.taps.length) :
    Gen.decorrelator_delay c.taps.length = (c.decorrelator_delay : Int) := by
  simp only [Gen.decorrelator_delay, Renderer.Cfg.decorrelator_delay]
  rw [Int.fdiv_eq_ediv_of_nonneg _ (by omega)]
  omega

theorem vbs_delay_eq_model {V : Type} (c : Renderer.Cfg V) :
    Gen.vbs_delay c.block_size c.decorrelator_delay = c.overall_delay := by
  first | rfl | (simp only [Gen.vbs_delay, Renderer.Cfg.overall_delay]; grind)

theorem stereo_level_eq_model {α : Type} [PointSource.Scalar α] (g0 g1 g2 g3 g4 : α) :
    PointSource.StereoPanDownmix.handle (some [g0, g1, g2, g3, g4]) =
      some ((PointSource.normalise (PointSource.matVec PointSource.stereoDownmix [g0, g1, g2, g3, g4])).map
        (· * Gen.stereo_level (PointSource.Scalar.max (PointSource.Scalar.max g0 g1) g2) (PointSource.Scalar.max g3 g4))) := rfl

/-! ### C19 — conversion helpers, `relative_angle`, `inside_angle_range` (over the Scalar class of Model/Conversion.lean);
C10 — `inside_angle_range` against Model/DirectSpeakersGeom.lean (its per-loop fuel) -/

section
variable {α : Type} [Conv.Scalar α]

theorem map_az_to_linear_eq_model (l r az : α) : Gen.map_az_to_linear l r az = Conv.mapAzToLinear l r az := rfl
theorem map_linear_to_az_eq_model (l r x : α) : Gen.map_linear_to_az l r x = Conv.mapLinearToAz l r x := rfl
theorem el_to_cart_eq_model (P : Conv.Params α) (el d : α) : Gen.el_to_cart P el d = Conv.elToCart P el d := rfl
theorem el_to_polar_eq_model (P : Conv.Params α) (z rxy : α) : Gen.el_to_polar P z rxy = Conv.elToPolar P z rxy := rfl

theorem relative_angle_loop1_eq (x : α) : ∀ n y, Gen.relative_angle_loop1 x n y = Conv.downGe x n y := by
  intro n; induction n with
  | zero => intro y; rfl
  | succ n ih => intro y; simp only [Gen.relative_angle_loop1, Conv.downGe, ih, Conv.k]; first | done | rfl | congr
theorem relative_angle_loop2_eq (x : α) : ∀ n y, Gen.relative_angle_loop2 x n y = Conv.upLt x n y := by
  intro n; induction n with
  | zero => intro y; rfl
  | succ n ih => intro y; simp only [Gen.relative_angle_loop2, Conv.upLt, ih, Conv.k]; first | done | rfl | congr
theorem relative_angle_eq_model (fuel : Nat) (x y : α) : Gen.relative_angle fuel x y = Conv.relativeAngle fuel x y := by
  simp only [Gen.relative_angle, Conv.relativeAngle, relative_angle_loop1_eq, relative_angle_loop2_eq]

theorem inside_angle_range_loops_eq (s : α) :
    (∀ n y, Gen.inside_angle_range_loop1 s n y = Conv.downGt s n y) ∧
    (∀ n y, Gen.inside_angle_range_loop2 s n y = Conv.upLt s n y) ∧
    (∀ n y, Gen.inside_angle_range_loop3 s n y = Conv.downGe s n y) ∧
    (∀ n y, Gen.inside_angle_range_loop4 s n y = Conv.upLt s n y) := by
  refine ⟨?_, ?_, ?_, ?_⟩ <;> intro n <;> induction n with
  | zero => intro y; rfl
  | succ n ih =>
    intro y
    simp only [Gen.inside_angle_range_loop1, Gen.inside_angle_range_loop2, Gen.inside_angle_range_loop3,
      Gen.inside_angle_range_loop4, Conv.downGt, Conv.downGe, Conv.upLt, ih, Conv.k]
    first | done | rfl | congr
theorem inside_angle_range_eq_model (fuel : Nat) (x s e tol : α) :
    Gen.inside_angle_range fuel x s e tol = Conv.insideAngleRange fuel x s e tol := by
  have h := inside_angle_range_loops_eq (α := α)
  simp only [Gen.inside_angle_range, Conv.insideAngleRange, (h _).1, (h _).2.1, (h _).2.2.1, (h _).2.2.2]
end

theorem inside_angle_range_ds_loops_eq (s : Rat) :
    (∀ n y, Gen.inside_angle_range_ds_loop1 s n y = DS.decWhile true s n y) ∧
    (∀ n y, Gen.inside_angle_range_ds_loop2 s n y = DS.incWhile s n y) ∧
    (∀ n y, Gen.inside_angle_range_ds_loop3 s n y = DS.decWhile false s n y) ∧
    (∀ n y, Gen.inside_angle_range_ds_loop4 s n y = DS.incWhile s n y) := by
  refine ⟨?_, ?_, ?_, ?_⟩ <;> intro n <;> induction n with
  | zero => intro y; rfl
  | succ n ih =>
    intro y
    simp [Gen.inside_angle_range_ds_loop1, Gen.inside_angle_range_ds_loop2, Gen.inside_angle_range_ds_loop3,
      Gen.inside_angle_range_ds_loop4, DS.decWhile, DS.incWhile, DS.decCond, ih]
theorem inside_angle_range_ds_eq_model (x s e tol : Rat) :
    Gen.inside_angle_range_ds x s e tol = DS.insideAngleRange x s e tol := by
  have h := inside_angle_range_ds_loops_eq
  simp only [Gen.inside_angle_range_ds, DS.insideAngleRange, DS.normAngle, (h _).1, (h _).2.1, (h _).2.2.1, (h _).2.2.2]
  first | done | rfl | congr

/-! ### C13 — `inside_angle_range` against Model/Zone.lean at its exact instance (`Rat`): the model answers `none`
when the fuel runs out; wherever it answers, the translated function (which returns the current value) agrees -/

/-- a fuel loop that returns the current value when the fuel runs out agrees with the model's `whileLoop`
wherever the latter terminates -/
theorem zone_loop_agree (c : Rat → Bool) (st : Rat → Rat) (g : Nat → Rat → Rat)
    (h0 : ∀ y, g 0 y = y) (hs : ∀ n y, g (n + 1) y = if c y then g n (st y) else y) :
    ∀ n y r, Zone.whileLoop c st n y = some r → g n y = r := by
  intro n
  induction n with
  | zero =>
    intro y r h
    simp only [Zone.whileLoop] at h
    split at h
    · cases h
    · rw [h0]; exact Option.some.inj h
  | succ n ih =>
    intro y r h
    simp only [Zone.whileLoop] at h
    rw [hs]
    split at h
    · rename_i hc; simp only [hc, if_true]; exact ih _ _ h
    · rename_i hc; simp only [hc]; exact Option.some.inj h

theorem inside_angle_range_rat_loops_zone (s : Rat) :
    (∀ n y r, Zone.whileLoop (fun e => Zone.Scalar.lt s (Zone.Scalar.sub e (Zone.Scalar.ofNat 360)))
        (fun e => Zone.Scalar.sub e (Zone.Scalar.ofNat 360)) n y = some r → Gen.inside_angle_range_rat_loop1 s n y = r) ∧
    (∀ n y r, Zone.whileLoop (fun e => Zone.Scalar.lt e s) (fun e => Zone.Scalar.add e (Zone.Scalar.ofNat 360)) n y = some r →
        Gen.inside_angle_range_rat_loop2 s n y = r) ∧
    (∀ n y r, Zone.whileLoop (fun e => Zone.Scalar.le s (Zone.Scalar.sub e (Zone.Scalar.ofNat 360)))
        (fun e => Zone.Scalar.sub e (Zone.Scalar.ofNat 360)) n y = some r → Gen.inside_angle_range_rat_loop3 s n y = r) ∧
    (∀ n y r, Zone.whileLoop (fun e => Zone.Scalar.lt e s) (fun e => Zone.Scalar.add e (Zone.Scalar.ofNat 360)) n y = some r →
        Gen.inside_angle_range_rat_loop4 s n y = r) := by
  have c360 : (Zone.Scalar.ofNat 360 : Rat) = 360 := rfl
  refine ⟨?_, ?_, ?_, ?_⟩ <;> apply zone_loop_agree <;> intros <;>
    simp [Gen.inside_angle_range_rat_loop1, Gen.inside_angle_range_rat_loop2, Gen.inside_angle_range_rat_loop3,
      Gen.inside_angle_range_rat_loop4, Zone.Scalar.lt, Zone.Scalar.le, Zone.Scalar.sub, Zone.Scalar.add, c360]

theorem inside_angle_range_zone_eq_model (fuel : Nat) (x s e tol : Rat) (b : Bool)
    (h : Zone.insideAngleRange fuel x s e tol = some b) : Gen.inside_angle_range_rat fuel x s e tol = b := by
  simp only [Zone.insideAngleRange, Option.bind_eq_some_iff] at h
  obtain ⟨e1, h1, e2, h2, x1, h3, x2, h4, hb⟩ := h
  have L := inside_angle_range_rat_loops_zone
  have a1 := (L s).1 _ _ _ h1
  have a2 := (L s).2.1 _ _ _ h2
  have a3 := (L (Zone.Scalar.sub s tol)).2.2.1 _ _ _ h3
  have a4 := (L (Zone.Scalar.sub s tol)).2.2.2 _ _ _ h4
  have hsub : Zone.Scalar.sub s tol = s - tol := rfl
  simp only [hsub] at a3 a4
  simp only [Gen.inside_angle_range_rat, a1, a2, a3, a4]
  have := Option.some.inj hb
  simpa [Zone.Scalar.le, Zone.Scalar.add] using this

/-! ### C15 — timing fixes; C01 — `extent_mod`, the alpha/beta fade; C13 — channel-lock and zone constants/tests -/

theorem has_interpolationLength_eq_model (b : TimingFix.Block) :
    Gen.has_interpolationLength b.isObjects b.jp b.il = TimingFix.hasIL b := by
  simp only [Gen.has_interpolationLength, TimingFix.hasIL]
  cases b.il <;> cases b.isObjects <;> cases b.jp <;> simp

theorem check_duration_eq_model (i : Nat) (a b : TimingFix.Block) (ra old rb db : Rat)
    (h1 : a.rtime = some ra) (h2 : a.duration = some old) (h3 : b.rtime = some rb) (h4 : b.duration = some db) :
    ((TimingFix.fixDuration i a b).1.duration, (TimingFix.fixDuration i a b).1.il) =
      (some (Gen.check_duration ra old rb a.isObjects a.jp a.il).1, (Gen.check_duration ra old rb a.isObjects a.jp a.il).2) := by
  cases a with
  | mk rt du io jp il =>
    cases b with
    | mk brt bdu _ _ _ =>
      simp only at h1 h2 h3 h4
      subst h1 h2 h3 h4
      cases il <;> cases io <;> cases jp <;>
        simp [TimingFix.fixDuration, Gen.check_duration, TimingFix.hasIL] <;> grind

theorem clamp_end_eq_model (i : Nat) (D r d : Rat) (b : TimingFix.Block) (h : b.duration = some d) :
    (match TimingFix.clampEnd i D r d b with
      | .error _ => none
      | .ok p => some (p.1.duration, p.1.il)) =
      (Gen.clamp_end D r d b.isObjects b.jp b.il).map (fun q => (some q.1, q.2)) := by
  cases b with
  | mk rt du io jp il =>
    simp only at h
    subst h
    cases il <;> cases io <;> cases jp <;>
      simp [TimingFix.clampEnd, Gen.clamp_end, TimingFix.hasIL] <;> grind

section
variable {α : Type} [GainCalc.Scalar α]
theorem extent_mod_eq_model (extent distance : α) : Gen.extent_mod extent distance = GainCalc.extentMod extent distance := rfl
theorem fade_gains_eq_model (s : α) : Gen.fade_gains s = GainCalc.fadeGains s := rfl
end

/-- `tol = 1e-5`: the binary64 value of the literal is the model's `eps5`. -/
theorem lock_tol_eq_model : Gen.lock_tol = (Zone.Scalar.eps5 : Rat) := by first | rfl | decide
/-- `epsilon = 1e-6`: the binary64 value of the literal is the model's `eps6`. -/
theorem zone_epsilon_eq_model : Gen.zone_epsilon = (Zone.Scalar.eps6 : Rat) := by first | rfl | decide

theorem lock_possible_test_eq_model (tol : Rat) (maxD : Option Rat) (cands : List (Lock.Cand Rat)) :
    Lock.lockSelect tol maxD cands =
      (let possible := cands.filter fun c => Gen.lock_possible_test c.d tol maxD
       match possible with
       | [] => .unchanged
       | c0 :: cs =>
         let minDist := Lock.minList c0.dw (cs.map Lock.Cand.dw)
         match possible.filter fun (c : Lock.Cand Rat) => Zone.Scalar.lt c.dw (Zone.Scalar.add minDist tol) with
         | [] => .error
         | a :: as => .locked (Lock.argminPrio a as).idx) := by
  have ft : ∀ l : List (Lock.Cand Rat), l.filter (fun _ => true) = l := by
    intro l; induction l <;> simp_all
  have e : ∀ (c : Lock.Cand Rat) (m : Rat),
      Gen.lock_possible_test c.d tol (some m) = Zone.Scalar.lt c.d (Zone.Scalar.add m tol) := by
    intro c m
    first | rfl | (simp only [Gen.lock_possible_test, Zone.Scalar.lt, Zone.Scalar.add]; grind)
  have e0 : ∀ (c : Lock.Cand Rat), Gen.lock_possible_test c.d tol none = true := by
    intro c; rfl
  unfold Lock.lockSelect
  cases maxD <;> simp only [e, e0, ft] <;> grind

theorem lock_closest_test_eq_model (tol : Rat) (maxD : Option Rat) (cands : List (Lock.Cand Rat)) :
    Lock.lockSelect tol maxD cands =
      (let possible : List (Lock.Cand Rat) := match maxD with
         | some m => cands.filter fun (c : Lock.Cand Rat) => Zone.Scalar.lt c.d (Zone.Scalar.add m tol)
         | none => cands
       match possible with
       | [] => .unchanged
       | c0 :: cs =>
         let minDist := Lock.minList c0.dw (cs.map Lock.Cand.dw)
         match possible.filter fun (c : Lock.Cand Rat) => Gen.lock_closest_test c.dw minDist tol with
         | [] => .error
         | a :: as => .locked (Lock.argminPrio a as).idx) := by
  have e : ∀ (c : Lock.Cand Rat) (m : Rat),
      Gen.lock_closest_test c.dw m tol = Zone.Scalar.lt c.dw (Zone.Scalar.add m tol) := by
    intro c m
    first | rfl | (simp only [Gen.lock_closest_test, Zone.Scalar.lt, Zone.Scalar.add]; grind)
  unfold Lock.lockSelect
  simp only [e]
  grind

theorem zone_cart_test_eq_model (fuel : Nat) (minX maxX minY maxY minZ maxZ : Rat) (s : Zone.Spk Rat) :
    Zone.zoneMatch fuel (.cart minX maxX minY maxY minZ maxZ) s =
      some (Gen.zone_cart_test s.x s.y s.z Zone.Scalar.eps6 minX maxX minY maxY minZ maxZ) := by
  simp [Zone.zoneMatch, Gen.zone_cart_test, Zone.Scalar.lt, Zone.Scalar.sub, Zone.Scalar.add, and_assoc, Bool.and_assoc]
    <;> grind

theorem zone_polar_test_eq_model (fuel : Nat) (minAz maxAz minEl maxEl : Rat) (s : Zone.Spk Rat) :
    Zone.zoneMatch fuel (.polar minAz maxAz minEl maxEl) s =
      (Zone.insideAngleRange fuel s.az minAz maxAz Zone.Scalar.eps6).bind fun inside =>
        some (Gen.zone_polar_test s.el Zone.Scalar.eps6 minEl maxEl inside) := by
  have c90 : (Zone.Scalar.ofNat 90 : Rat) = 90 := rfl
  simp only [Zone.zoneMatch]
  congr 1
  funext inside
  simp [Gen.zone_polar_test, Zone.Scalar.lt, Zone.Scalar.sub, Zone.Scalar.add, Zone.Scalar.abs, c90] <;> grind

/-! ## Round 4 — bw64 reader cursor/format/offset kernels; the sites repaired by /repo 61d37f4 (C17) and 1404dee (C10) -/

/-! ### C18 — the frame-count clamp of `Bw64Reader.read` and the byte count it requests -/

theorem read_clamp_eq_model (k : Cursor.Cfg) (pos n : Int) :
    Cursor.read k pos n =
      (let got := Cursor.bufRead k pos (Gen.read_nbytes k (Gen.read_clamp k pos n))
       (pos + got, (pos, got))) := by
  simp only [Cursor.read, Gen.read_clamp, Gen.read_nbytes] <;> grind

/-! ### C09 / C17 — `FormatInfoChunk.blockAlignment` / `bytesPerSecond`, `ChunkIndex` offsets, `_read_chunk_header` -/

theorem block_alignment_eq_model (f : Bw64.Fmt) : Gen.block_alignment f.channels f.bits = f.blockAlign := by
  first | rfl | (simp only [Gen.block_alignment, Bw64.Fmt.blockAlign]; grind)

theorem bytes_per_second_eq_model (f : Bw64.Fmt) :
    Gen.bytes_per_second f.rate (Gen.block_alignment f.channels f.bits) = f.bytesPerSecond := by
  first | rfl | (simp only [Gen.bytes_per_second, Gen.block_alignment, Bw64.Fmt.bytesPerSecond, Bw64.Fmt.blockAlign]; grind)

/-- `ChunkIndex(size, position).position` = `(chunkId, size, data, end)` offsets: the `data` and `end` offsets of the data
chunk are the cursor model's `Cfg.data` / `Cfg.dend` as `openReader` builds them. -/
theorem chunk_position_eq_model (dsz dpos : Nat) (A L : Int) :
    let k : Cursor.Cfg := ⟨((dpos + 8 : Nat) : Int), A, (dsz : Int), L⟩
    k.data = ((Gen.chunk_position dsz dpos).2.2.1 : Int) ∧ k.dend = ((Gen.chunk_position dsz dpos).2.2.2 : Int) := by
  simp only [Gen.chunk_position, Cursor.Cfg.dend]
  constructor <;> first | rfl | grind

/-- the `Cfg` of `openReader` is built from the data chunk's table entry at exactly these offsets -/
theorem chunk_position_openReader (f : Bw64.Bytes) (pr : Bw64.Parsed) (k : Cursor.Cfg) (w : List Bw64.Warn)
    (h : Bw64.openReader f = .ok (pr, k, w)) :
    ∃ dsz dpos : Nat, k.data = ((Gen.chunk_position dsz dpos).2.2.1 : Int) ∧
      k.dend = ((Gen.chunk_position dsz dpos).2.2.2 : Int) ∧ k.size = dsz := by
  unfold Bw64.openReader at h
  repeat' split at h
  all_goals (try cases h)
  all_goals exact ⟨_, _, (chunk_position_eq_model _ _ _ _).1, (chunk_position_eq_model _ _ _ _).2, rfl⟩

/-- the arguments of `ChunkIndex(chunkSize, self._buffer.tell() - 8)` in `_read_chunks` (buffer just after the 8-byte
header at `pos`): the table entry `(id, sz, pos)` of the model's `readChunks`. -/
theorem chunk_index_args_eq_model (pos sz : Nat) : Gen.chunk_index_args (pos + 8) sz = (sz, (pos : Int)) := by
  simp only [Gen.chunk_index_args]
  first | rfl | grind

/-- the size correction / placeholder rejection of `_read_chunk_header` (from the `if self.fileFormat in ...` to the
`return`): `isPlaceholder` (none = the ValueError) and `hdrSize`, in the code's branch order. -/
theorem read_chunk_header_size_eq_model (ds : Option Bw64.Ds64) (d : Bw64.Ds64) (hd : ∀ d', ds = some d' → d' = d)
    (id : Bw64.Bytes) (sz0 : Nat) :
    Gen.read_chunk_header_size ds.isSome d id (decide (id = Bw64.idData)) sz0 =
      if Bw64.isPlaceholder ds id sz0 then none else some (Bw64.hdrSize ds id sz0) := by
  cases ds with
  | none => simp [Gen.read_chunk_header_size, Bw64.isPlaceholder, Bw64.hdrSize] <;> grind
  | some d' =>
    have := hd d' rfl
    subst this
    simp only [Gen.read_chunk_header_size, Bw64.isPlaceholder, Bw64.hdrSize, Option.isSome]
    cases h : d'.lookup id <;> simp <;> grind

theorem read_chunk_header_eq_model (f : Bw64.Bytes) (ds : Option Bw64.Ds64) (pos : Nat) :
    Bw64.readChunkHeader f ds pos =
      (let d := Bw64.readAt f pos 8
       if d.length ≠ 8 then .eof else
       let id := d.take 4
       let sz0 := Bw64.fromLE (d.drop 4)
       if !Bw64.validId id then .badId else
       match Gen.read_chunk_header_size ds.isSome (ds.getD ⟨0, 0, []⟩) id (decide (id = Bw64.idData)) sz0 with
       | none => .placeholder
       | some sz => .hdr id sz) := by
  simp only [Bw64.readChunkHeader]
  rw [read_chunk_header_size_eq_model ds (ds.getD ⟨0, 0, []⟩) (by intro d' h; subst h; rfl)]
  grind

/-! ### C10 — the position handed to the fallback panner by `_handle_without_gain` (final `else`) -/

section
variable {α : Type} [GainCalc.Scalar α] [Zone.ScalarSqrt α] [Conv.Scalar α]

/-- polar block: `position = cart(shifted.azimuth, shifted.elevation, 1.0)` (not the block's distance), Cartesian block:
`shifted_position.as_cartesian_array()`; this is the model's `Shifted.pan` (and `Shifted.polar` is the `isinstance` test). -/
theorem ds_pan_position_eq_model (E : DS.CEnv) (P : Conv.Params α) (pos : DS.PositionC) (tol : Rat) (s : DS.Shifted α)
    (h : DS.shift E P pos tol = .ok s) :
    match pos with
    | .polar az el dist sel =>
      s.polar = true ∧
      s.pan = Gen.ds_pan_position true (GainCalc.k (DS.applySelPolar E.G az el sel).1.value)
        (GainCalc.k (DS.applySelPolar E.G az el sel).2.value) (GainCalc.k dist.value) s.cart
    | .cart _ _ _ _ => s.polar = false ∧ ∀ a e d : α, s.pan = Gen.ds_pan_position false a e d s.cart := by
  cases pos with
  | polar az el dist sel =>
    simp only [DS.shift] at h
    injection h with h
    subst h
    exact ⟨rfl, by first | rfl | simp [Gen.ds_pan_position, GainCalc.k]⟩
  | cart x y z sel =>
    simp only [DS.shift] at h
    split at h
    · cases h
    · injection h with h
      subst h
      exact ⟨rfl, fun _ _ _ => by first | rfl | simp [Gen.ds_pan_position]⟩
end

/-! ## Round 5 — C04 layout glue, C02 overlap-save / block-size adapter indices, C15 interpolationLength clamps, C11 LFE mask -/

/-! ### C04 — `Layout.with_speakers` (`out_channels`), `Channel.check_position` (elevation test),
`Layout.check_upmix_matrix` (the three count tests) against Model/FileRenderLayout.lean -/

theorem out_channels_eq_model (chans : List FileRenderLayout.Channel) (sp : List FileRenderLayout.RSpeaker) :
    FileRenderLayout.withSpeakers chans sp =
      (match FileRenderLayout.mapE (fun s => FileRenderLayout.chanInt s.channel) sp with
       | .error e => .error e
       | .ok cs =>
         if cs.isEmpty then .error (.reject "ValueError: max() of empty")
         else
           let out := Gen.out_channels (FileRenderLayout.maxInt cs)
           if out < 0 then .error (.reject "ValueError: negative dimensions")
           else
             match FileRenderLayout.mapE (FileRenderLayout.column out.toNat sp) chans with
             | .error e => .error e
             | .ok cols =>
               .ok (cols.map (·.2),
                    (List.range out.toNat).map fun o => cols.map fun c => FileRenderLayout.entryOf o c.1)) := by
  have e : ∀ m : Int, Gen.out_channels m = m + 1 := by
    intro m; first | rfl | (simp only [Gen.out_channels]; grind)
  simp only [FileRenderLayout.withSpeakers, e] <;> rfl

theorem el_range_test_eq_model (c : FileRenderLayout.Channel) :
    FileRenderLayout.checkPosition c =
      (if FileRenderLayout.insideAngleRange c.pos.az c.azLo c.azHi then [] else [.az c.name]) ++
      (if Gen.el_range_test c.elLo c.elHi c.pos.el then [.el c.name] else []) := by
  simp only [FileRenderLayout.checkPosition, Gen.el_range_test]
  congr 1
  by_cases h : c.elLo ≤ c.pos.el ∧ c.pos.el ≤ c.elHi <;> simp [h] <;> grind

theorem upmix_tests_eq_model (names : List String) (U : List (List Rat)) :
    FileRenderLayout.checkUpmix names U =
      ((names.zipIdx).flatMap fun (name, i) =>
          let nz := FileRenderLayout.nonzeroIdx (FileRenderLayout.colOf U i)
          (if Gen.upmix_unmapped_test nz.length then [FileRenderLayout.Warn.notMapped name] else []) ++
          (if Gen.upmix_multi_out_test nz.length then [FileRenderLayout.Warn.multiOut name nz] else [])) ++
      ((U.zipIdx).flatMap fun (row, o) =>
          if Gen.upmix_row_multi_test (FileRenderLayout.nonzeroIdx row).length then
            [FileRenderLayout.Warn.rowMulti o (((names.zip row).filter fun nr => nr.2 != 0).map (·.1))]
          else []) := by
  have e1 : ∀ n : Nat, Gen.upmix_unmapped_test n = decide (n = 0) := by
    intro n; first | rfl | (simp only [Gen.upmix_unmapped_test]; grind)
  have e2 : ∀ n : Nat, Gen.upmix_multi_out_test n = decide (n > 1) := by
    intro n; first | rfl | (simp only [Gen.upmix_multi_out_test]; grind)
  have e3 : ∀ n : Nat, Gen.upmix_row_multi_test n = decide (n > 1) := by
    intro n; first | rfl | (simp only [Gen.upmix_row_multi_test]; grind)
  simp only [FileRenderLayout.checkUpmix, e1, e2, e3, decide_eq_true_eq]

/-! ### C02 — index arithmetic of `OverlapSaveConvolver.__init__` and of `VariableBlockSizeAdapter.process` -/

/-- `range(0, len(f), block_size)` (its three arguments) is the model's `OS.starts`. -/
theorem os_range_eq_model (B L : Nat) :
    Stream.OS.starts B L =
      (let r := Gen.os_range L B
       (List.range ((r.2.1 - r.1.toNat + r.2.2 - 1) / r.2.2)).map (fun i => r.1.toNat + i * r.2.2)) := by
  have e : Gen.os_range L B = ((0 : Int), L, B) := by first | rfl | (simp only [Gen.os_range]; grind)
  simp [Stream.OS.starts, e]

/-- `end = min(len(f), start + block_size)`. -/
theorem os_block_end_eq_model {V : Type} [Stream.RMod V] (B : Nat) (f : List V) :
    Stream.OS.init B f =
      { block_size := B
        input_block := List.replicate (2 * B) 0
        filter_blocks := (Stream.OS.starts B f.length).map fun start => Stream.slice f start (Gen.os_block_end f.length B start)
        blocks := (Stream.OS.starts B f.length).map fun _ => List.replicate (2 * B) 0 } := by
  have e : ∀ s, Gen.os_block_end f.length B s = min f.length (s + B) := by
    intro s; first | rfl | (simp only [Gen.os_block_end]; grind)
  simp only [Stream.OS.init, e]

/-- the loop test, `to_xfer` and the buffer-full test of `VariableBlockSizeAdapter.process` in one step of the model's loop -/
theorem vbs_step_eq_model {σ α : Type} (f : σ → List α → σ × List α) (B : Nat) (inp : List α) (fuel : Nat)
    (st : Stream.Vbs σ α) (n_done : Nat) (out : List α) :
    Stream.Vbs.loop f B inp (fuel + 1) st n_done out =
      (if Gen.vbs_loop_test inp.length n_done then
        let to_xfer := (Gen.vbs_to_xfer inp.length n_done B st.buffer_input).toNat
        let out := Stream.setSlice out n_done (Stream.slice st.buffer st.buffer_input (st.buffer_input + to_xfer))
        let buffer := Stream.setSlice st.buffer st.buffer_input (Stream.slice inp n_done (n_done + to_xfer))
        let bi := st.buffer_input + to_xfer
        let n_done := n_done + to_xfer
        if Gen.vbs_full_test B bi then
          let r := f st.fstate buffer
          Stream.Vbs.loop f B inp fuel ⟨r.2, 0, r.1⟩ n_done out
        else
          Stream.Vbs.loop f B inp fuel ⟨buffer, bi, st.fstate⟩ n_done out
      else (st, out)) := by
  have e1 : (Gen.vbs_to_xfer inp.length n_done B st.buffer_input).toNat = min (inp.length - n_done) (B - st.buffer_input) := by
    simp only [Gen.vbs_to_xfer]; omega
  have e2 : ∀ a b : Nat, Gen.vbs_full_test a b = decide (b = a) := by
    intro a b; first | rfl | (simp only [Gen.vbs_full_test]; grind)
  have e3 : Gen.vbs_loop_test inp.length n_done = decide (n_done < inp.length) := by
    first | rfl | (simp only [Gen.vbs_loop_test]; grind)
  rw [Stream.Vbs.loop]
  simp only [e1, e2, e3, decide_eq_true_eq]

/-! ### C15 — `_clamp_blockFormat_interpolationLength`, the test of `check_blockFormat_interpolationLengths` -/

theorem clamp_il_eq_model (i : Nat) (D : Rat) (b : TimingFix.Block) :
    (TimingFix.clampInterpolationLength i D b).1.il = Gen.clamp_il D b.isObjects b.jp b.il := by
  cases b with
  | mk rt du io jp il =>
    cases il <;> cases io <;> cases jp <;>
      simp [TimingFix.clampInterpolationLength, Gen.clamp_il, TimingFix.hasIL] <;> grind

theorem il_gt_duration_test_eq_model (i : Nat) (b : TimingFix.Block) :
    TimingFix.fixIL i b =
      (match b.rtime, b.duration, b.il with
       | some _, some d, some il =>
         if TimingFix.hasIL b && Gen.il_gt_duration_test il d then ({ b with il := some d }, [⟨.ilContracted, i⟩]) else (b, [])
       | _, _, _ => (b, [])) := by
  have e : ∀ il d : Rat, Gen.il_gt_duration_test il d = decide (il > d) := by
    intro il d; first | rfl | (simp only [Gen.il_gt_duration_test]; grind)
  simp only [TimingFix.fixIL, e] <;> rfl

/-! ### C11 — the output-channel mask of `HOARenderer` (`~layout.is_lfe`) -/

section
variable {α : Type} [Hoa.Scalar α]

/-- `output_samples[:, mask] += x · decoderᵀ` into a zero frame, for a boolean index `mask` (true = written) -/
def renderMasked {C : Nat} (mask : List Bool) (rows : List (Vector α C)) (x : Vector α C) : Option (List α) :=
  match mask, rows with
  | [], [] => some []
  | [], _ :: _ => none
  | false :: t, rows => (renderMasked t rows x).map (Hoa.Scalar.ofNat 0 :: ·)
  | true :: _, [] => none
  | true :: t, r :: rows =>
    (renderMasked t rows x).map ((Hoa.Scalar.ofNat 0 + Hoa.finSum fun c : Fin C => r[c.1] * x[c.1]) :: ·)

/-- the model's `renderFrame` (which takes `is_lfe`) writes exactly the channels of the translated mask -/
theorem hoa_output_channels_eq_model {C : Nat} (lfe : List Bool) (rows : List (Vector α C)) (x : Vector α C) :
    Hoa.renderFrame lfe rows x = renderMasked (Gen.hoa_output_channels lfe) rows x := by
  have e : ∀ l, Gen.hoa_output_channels l = l.map (fun b => !b) := by
    intro l; simp only [Gen.hoa_output_channels]; apply List.map_congr_left; intro b _; cases b <;> rfl
  rw [e]
  induction lfe generalizing rows with
  | nil => cases rows <;> rfl
  | cons b t ih =>
    cases b <;> cases rows <;> simp [Hoa.renderFrame, renderMasked, ih]
end

end Earverif.Kernels
