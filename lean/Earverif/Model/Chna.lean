/-
Model of one 40-byte CHNA table entry: `ear.fileio.bw64.chunks.AudioID.asByteArray`
(`struct.pack('<H12s14s11sx', ...)`) and the per-entry part of
`ear.fileio.bw64.reader.Bw64Reader._read_chna_chunk` (`struct.unpack` + padding rules).
Core Lean only.

Strings are modelled by their UTF-8 bytes; the model covers 7-bit (ASCII) bytes, for which
`str.encode('utf-8')` / `bytes.decode('utf-8')` are the identity on code units (other bytes:
`decode` answers `none`; in the real code some of those decode, some raise
`UnicodeDecodeError` — outside the model and outside the generators).
-/
namespace Earverif.Chna

abbrev Bytes := List UInt8

structure Entry where
  trackIndex : Nat
  audioTrackUID : Bytes
  /-- audioTrackFormatIDRef or (BS.2076-2) audioChannelFormatIDRef, *without* padding -/
  audioTrackFormatIDRef : Bytes
  audioPackFormatIDRef : Option Bytes
  deriving Repr, BEq, DecidableEq

/-- `struct` format `Ns`: truncate or zero-pad to exactly `n` bytes. -/
def fit (n : Nat) (bs : Bytes) : Bytes := bs.take n ++ List.replicate (n - bs.length) 0

/-- `b"AC_"` -/
def acPrefix : Bytes := [0x41, 0x43, 0x5F]
/-- `b"_00"` -/
def acPad : Bytes := [0x5F, 0x30, 0x30]
/-- `b"\0" * 11` -/
def nullPack : Bytes := List.replicate 11 0

/-- `AudioID.asByteArray`; `none` = `AssertionError` (reference not 14 bytes after padding) or
`struct.error` (track index does not fit `H`). -/
def encode (e : Entry) : Option Bytes :=
  let pack := e.audioPackFormatIDRef.getD nullPack
  let tc := if acPrefix.isPrefixOf e.audioTrackFormatIDRef
    then e.audioTrackFormatIDRef ++ acPad else e.audioTrackFormatIDRef
  if tc.length ≠ 14 then none
  else if 65536 ≤ e.trackIndex then none
  else some ([UInt8.ofNat (e.trackIndex % 256), UInt8.ofNat (e.trackIndex / 256)]
    ++ fit 12 e.audioTrackUID ++ tc ++ fit 11 pack ++ [0])

def ascii (bs : Bytes) : Bool := bs.all (· < 128)

/-- one iteration of the loop in `_read_chna_chunk` on the 40 bytes read; `none` = `struct.error`
(short read) or a byte outside the 7-bit range (see the header).  An `AC_` reference loses its
last three bytes whatever they are (the real code only warns when they are not `_00`). -/
def decode (bs : Bytes) : Option Entry :=
  if bs.length ≠ 40 then none else
  let idx := (bs.getD 0 0).toNat + 256 * (bs.getD 1 0).toNat
  let uid := (bs.drop 2).take 12
  let tf := (bs.drop 14).take 14
  let pf := (bs.drop 28).take 11
  let tf' := if acPrefix.isPrefixOf tf then tf.take 11 else tf
  if !(ascii uid && ascii tf' && ascii pf) then none else
  some ⟨idx, uid, tf', if pf = nullPack then none else some pf⟩

end Earverif.Chna
