"""C15 — timing repair (ear.fileio.adm.timing_fixes) makes rounded metadata renderable and is idempotent.

Correspondence: generated exact timelines rounded to 2..5 decimals, built as real ADM documents
(ADMBuilder), repaired by the real `fix_blockFormat_timings`, interpreted by the real metadata
interpreters (through `select_rendering_items`), compared with the Lean model (c15driver) as exact
fractions.  Every documented entry point is exercised in-process.  Search: the property text as a
predicate on the real code's output only.

Whole documents (several audioObjects / packs / channels, nested packs and objects, shared and silent tracks): the real
repair vs the document-level model (driver op `doc`), which computes the audioObject -> audioChannelFormat pairing with
the pack-allocator model; the Lean rounding functions (half-even / floor / ceil) vs the generator's `rnd` (op `round`).
"""
import math
import os
import re
import shutil
import tempfile
import warnings
from fractions import Fraction as F
from unittest import mock

from .common import Spec, Driver

SR = 48000

# --------------------------------------------------------------------------------------
# case encoding.  A case is one audioChannelFormat plus the audioObjects that reference it:
#   {"typ": "O"|"D", "k": digits, "blocks": [(rtime, duration, jp, il)], "objs": [(start, duration)]}
# with Fractions / None inside; `enc` turns it into JSON-able strings for replays and samples.


def fs(x):
    return "-" if x is None else "%d/%d" % (x.numerator, x.denominator)


def enc(case):
    return {
        "typ": case["typ"],
        "k": case.get("k"),
        "blocks": [[fs(r), fs(d), int(bool(jp)), fs(il)] for r, d, jp, il in case["blocks"]],
        "objs": [[fs(s), fs(d)] for s, d in case["objs"]],
        "origin": case.get("origin", ""),
        **({"exact": {"blocks": [[fs(t), fs(d)] for t, d in case["exact"]["blocks"]],
                      "object_durations": [fs(d) for d in case["exact"]["objs"]], "bound_units": case["exact"]["m"]}}
           if case.get("exact") else {}),
    }


def block_str(r, d, is_obj, jp, il):
    return "%s,%s,%d,%d,%s" % (fs(r), fs(d), int(is_obj), int(bool(jp)), fs(il))


def case_line(case, mode="fix", blocks=None):
    is_obj = case["typ"] == "O"
    if blocks is None:
        blocks = [block_str(r, d, is_obj, jp if is_obj else False, il if is_obj else None) for r, d, jp, il in case["blocks"]]
    objs = ["%s,%s" % (fs(s), fs(d)) for s, d in case["objs"]]
    return "%s | %s | %s" % (mode, " ".join(objs), " ".join(blocks))


def parse_model(line):
    """Driver answer -> same dict shape as `real_fix` results."""
    parts = [p.strip() for p in line.split("|")]
    if not parts[0].startswith("pre"):
        return {"bad": line}
    res = {"pre": parts[0].split()[1:]}
    if parts[1].startswith("error"):
        res["status"] = parts[1]
        return res
    res["status"] = "ok"
    res["blocks"] = parts[2].split()
    res["warns"] = parts[3].split()
    res["post"] = parts[4].split()
    if parts[5].startswith("error"):
        res["second"] = parts[5]
    else:
        res["second"] = "ok"
        res["blocks2"] = parts[5].split()
        res["warns2"] = parts[6].split()
    return res


# --------------------------------------------------------------------------------------
# the real code


def _bf(typ, r, d, jp, il):
    from ear.fileio.adm.elements import (
        AudioBlockFormatObjects, AudioBlockFormatDirectSpeakers, JumpPosition, ObjectPolarPosition,
        DirectSpeakerPolarPosition, BoundCoordinate,
    )

    if typ == "O":
        return AudioBlockFormatObjects(
            rtime=r, duration=d, position=ObjectPolarPosition(30.0, 0.0, 1.0),
            jumpPosition=JumpPosition(flag=bool(jp), interpolationLength=il),
        )
    return AudioBlockFormatDirectSpeakers(
        rtime=r, duration=d,
        position=DirectSpeakerPolarPosition(bounded_azimuth=BoundCoordinate(30.0), bounded_elevation=BoundCoordinate(0.0)),
        speakerLabel=["M+030"],
    )


def build_adm(cases, common=False):
    """Real ADM with one audioChannelFormat per case and one audioObject per case object.
    Returns (adm, handles); handles[i] = (channelFormat, [audioObject...])."""
    from ear.fileio.adm.builder import ADMBuilder
    from ear.fileio.adm.elements import TypeDefinition
    from ear.fileio.adm.generate_ids import generate_ids

    b = ADMBuilder()
    if common:
        b.load_common_definitions()
    b.create_programme(audioProgrammeName="prog")
    b.create_content(audioContentName="content")
    handles, track = [], 0
    for ci, case in enumerate(cases):
        typ = TypeDefinition.Objects if case["typ"] == "O" else TypeDefinition.DirectSpeakers
        bfs = [_bf(case["typ"], *blk) for blk in case["blocks"]]
        fmt = b.create_format_mono(typ, "ch%d" % ci, block_formats=bfs)
        objs = []
        for oi, (s, d) in enumerate(case["objs"]):
            item = b.create_item_mono_from_format(fmt, track, "obj%d_%d" % (ci, oi))
            track += 1
            item.audio_object.start = s
            item.audio_object.duration = d
            objs.append(item.audio_object)
        handles.append((fmt.channel_format, objs))
    generate_ids(b.adm)
    return b.adm, handles, track


def blocks_of(cf):
    from ear.fileio.adm.elements import AudioBlockFormatObjects

    out = []
    for bf in cf.audioBlockFormats:
        if isinstance(bf, AudioBlockFormatObjects):
            out.append((bf.rtime, bf.duration, True, bf.jumpPosition.flag, bf.jumpPosition.interpolationLength))
        else:
            out.append((bf.rtime, bf.duration, False, False, None))
    return out


_VERDICTS = [
    ("ends after object", "endsAfterObject"),
    ("rtime and duration must be used together", "mixedTiming"),
    ("overlapping blocks", "overlap"),
    ("specified interpolation length is longer than block", "interpTooLong"),
]


def _verdict_of_exc(e):
    if isinstance(e, AssertionError):
        return "assertInf"
    msg = str(e)
    for pat, v in _VERDICTS:
        if pat in msg:
            return v
    return "X:%s:%s" % (type(e).__name__, msg[:80])


def real_verdicts(adm, handles):
    """Per case, per object: what the real metadata interpreter says about the channel's blocks."""
    from ear.core.select_items import select_rendering_items
    from ear.core.objectbased.renderer import InterpretObjectMetadata
    from ear.core.direct_speakers.renderer import InterpretDirectSpeakersMetadata
    from ear.core.metadata_input import ObjectRenderingItem, DirectSpeakersRenderingItem

    try:
        with warnings.catch_warnings():
            warnings.simplefilter("ignore")
            items = select_rendering_items(adm)
    except Exception as e:
        # document validation rejects "rtime xor duration" before any interpreter runs; to still tie the model's
        # `accepted` to the interpreters on such input, feed them hand-built metadata blocks
        if _verdict_of_exc(e) != "mixedTiming":
            return [["X:select:%s" % _verdict_of_exc(e) for _ in objs] for _, objs in handles]
        return _direct_verdicts(handles)
    res = []
    for cf, objs in handles:
        row = []
        for obj in objs:
            mine = [it for it in items if it.adm_path.audioChannelFormat is cf and it.adm_path.audioObjects[-1] is obj]
            if len(mine) != 1:
                row.append("X:no-rendering-item")
                continue
            it = mine[0]
            if isinstance(it, ObjectRenderingItem):
                interp = InterpretObjectMetadata(lambda blk: None)
            elif isinstance(it, DirectSpeakersRenderingItem):
                interp = InterpretDirectSpeakersMetadata(lambda blk: None)
            else:
                row.append("X:item-type")
                continue
            v = "ok"
            try:
                while True:
                    blk = it.metadata_source.get_next_block()
                    if blk is None:
                        break
                    list(interp(SR, blk))
            except Exception as e:
                v = _verdict_of_exc(e)
            row.append(v)
        res.append(row)
    return res


def _direct_verdicts(handles):
    from ear.core.metadata_input import ObjectTypeMetadata, DirectSpeakersTypeMetadata, ExtraData
    from ear.core.objectbased.renderer import InterpretObjectMetadata
    from ear.core.direct_speakers.renderer import InterpretDirectSpeakersMetadata
    from ear.fileio.adm.elements import AudioBlockFormatObjects

    res = []
    for cf, objs in handles:
        row = []
        for obj in objs:
            extra = ExtraData(object_start=obj.start, object_duration=obj.duration)
            is_obj = all(isinstance(bf, AudioBlockFormatObjects) for bf in cf.audioBlockFormats)
            interp = (InterpretObjectMetadata if is_obj else InterpretDirectSpeakersMetadata)(lambda blk: None)
            v = "ok"
            try:
                for bf in cf.audioBlockFormats:
                    md = (ObjectTypeMetadata if is_obj else DirectSpeakersTypeMetadata)(block_format=bf, extra_data=extra)
                    list(interp(SR, md))
            except Exception as e:
                v = _verdict_of_exc(e)
            row.append(v)
        res.append(row)
    return res


_WARN_PATTERNS = [
    (re.compile(r"^expanded duration of block format (\S+) to match next rtime"), "expanded"),
    (re.compile(r"^contracted duration of block format (\S+) to match next rtime"), "contracted"),
    (re.compile(r"^contracted interpolationLength of block format (\S+) to match duration"), "ilContracted"),
    (re.compile(r"^reduced interpolationLength of (\S+) to match duration of"), "ilReducedToObject"),
    (re.compile(r"^advancing end of (\S+) by "), "endAdvanced"),
    (re.compile(r"^while advancing end of (\S+) to match end time of"), "endAdvancedIl"),
]


def map_warnings(ws, handles):
    """Captured warnings -> per case list of 'kind:blockindex' (document order preserved)."""
    idx = {}
    for ci, (cf, _) in enumerate(handles):
        for bi, bf in enumerate(cf.audioBlockFormats):
            idx[bf.id] = (ci, bi)
    per = [[] for _ in handles]
    other = []
    for w in ws:
        msg = str(w.message)
        for pat, kind in _WARN_PATTERNS:
            m = pat.match(msg)
            if m and m.group(1) in idx:
                ci, bi = idx[m.group(1)]
                per[ci].append("%s:%d" % (kind, bi))
                break
        else:
            if not issubclass(w.category, DeprecationWarning):
                other.append("%s:%s" % (w.category.__name__, msg[:100]))
    return per, other


def _err_kind(e):
    if isinstance(e, ValueError):
        return "error valueError"
    if isinstance(e, AssertionError):
        return "error assertion"
    return "error X:%s:%s" % (type(e).__name__, str(e)[:80])


def call_fix(fn, adm, handles):
    with warnings.catch_warnings(record=True) as ws:
        warnings.simplefilter("always")
        try:
            fn(adm)
            err = None
        except Exception as e:
            err = _err_kind(e)
    per, other = map_warnings(ws, handles)
    return err, per, other


def real_fix(cases):
    """Run the real repair twice on a real ADM; per-case results in the model's output shape."""
    from ear.fileio.adm import timing_fixes

    adm, handles, _ = build_adm(cases)
    pre = real_verdicts(adm, handles)
    err, warns, other = call_fix(timing_fixes.fix_blockFormat_timings, adm, handles)
    res = [{"pre": pre[i], "status": err or "ok", "other_warnings": other} for i in range(len(cases))]
    if err:
        return res
    post = real_verdicts(adm, handles)
    first = [[block_str(*b) for b in blocks_of(cf)] for cf, _ in handles]
    first_raw = [blocks_of(cf) for cf, _ in handles]
    err2, warns2, other2 = call_fix(timing_fixes.fix_blockFormat_timings, adm, handles)
    for i, r in enumerate(res):
        r.update(blocks=first[i], raw=first_raw[i], warns=warns[i], post=post[i], second=err2 or "ok")
        r["other_warnings"] = other + other2
        if not err2:
            r.update(blocks2=[block_str(*b) for b in blocks_of(handles[i][0])], warns2=warns2[i])
    return res


# --------------------------------------------------------------------------------------
# generators


def rnd(x, k, mode="n"):
    """Write an exact time with k decimals: nearest (half-even), truncated ("f") or rounded up ("c")."""
    if x is None:
        return None
    y = x * 10**k
    n = round(y) if mode == "n" else (math.floor(y) if mode == "f" else math.ceil(y))
    return F(n, 10**k)


_DENS = [3, 7, 9, 11, 13, 48000, 44100, 30000, 1001, 25, 24, 60, 1000, 10**5, 10**6, 7919]


def _ratio(rng, lo, hi):
    """Random rational in [lo, hi] with an 'awkward' denominator."""
    den = rng.choice(_DENS) * rng.choice([1, 1, 2, 3, 1001])
    a, b = int(lo * den) + 1, max(int(lo * den) + 1, int(hi * den))
    return F(rng.randint(a, b), den)


def gen_timeline(rng, k, n, typ, tiny=False, conv="nearest"):
    """Exact valid timeline (contiguous, il <= duration, blocks inside the object), then written with k decimals.
    conv: "nearest" every value rounded to nearest; "mixed" every value independently nearest / truncated /
    rounded up (tools differ); "ilceil" mixed, plus blocks with interpolationLength == duration exactly whose
    interpolationLength is rounded up and duration truncated, after a first block without jumpPosition.
    tiny=True allows exact durations below what the theorems need (unit for nearest: rounding_meets_hypotheses,
    2 units for mixed: perturbation_meets_hypotheses with delta = unit); blocks may then collapse."""
    unit = F(1, 10**k)
    m = 1 if conv == "nearest" else 2
    t = rng.choice([F(0), F(0), F(0), _ratio(rng, 0, 2)])
    exact = []
    for i in range(n):
        mode = rng.random()
        if tiny and mode < 0.5:
            d = unit * _ratio(rng, F(1, 50), m)
        elif mode < 0.35:
            d = unit * _ratio(rng, m, m + 2)  # just above the bound
        elif mode < 0.7:
            d = unit * _ratio(rng, m + 2, 400)
        else:
            d = _ratio(rng, unit * 2, 3) + unit * m
        if not tiny and d <= unit * m:
            d = unit * (m + F(1, 2))
        jp, il, force = False, None, None
        if typ == "O":
            j = rng.random()
            if conv == "ilceil" and i == 0 and j < 0.6:
                pass  # first block without jumpPosition
            elif conv == "ilceil" and j < 0.7:
                jp, il, force = True, d, ("f", "c")  # duration truncated, interpolationLength rounded up
            elif j < 0.25:
                jp = True
            elif j < 0.65:
                jp = True
                il = rng.choice([d, d, d * _ratio(rng, F(1, 100), 1), F(0), unit * _ratio(rng, F(1, 10), 2)])
                il = min(il, d)
            elif j < 0.7:
                il = d * F(1, 2)  # interpolationLength present but flag off: ignored by the code
        exact.append((t, d, jp, il, force))
        t += d
    total = t
    objs = []
    nobj = 2 if rng.random() < 0.12 else 1
    for _ in range(nobj):
        start = rng.choice([None, None, F(0), _ratio(rng, 0, 5), _ratio(rng, 0, 100)])
        dsel = rng.random()
        if dsel < 0.3:
            dur = None
        elif dsel < 0.75:
            dur = total
        else:
            dur = total + rng.choice([unit * _ratio(rng, F(1, 10), 3), _ratio(rng, 0, 2)])
        objs.append((start, dur))
    exact_rec = {"blocks": [(r, d) for r, d, _, _, _ in exact], "objs": [d for _, d in objs], "m": m}
    pick = (lambda: "n") if conv == "nearest" else (lambda: rng.choice("nfc"))
    blocks = []
    for r, d, jp, il, force in exact:
        md, mi = force if force else (pick(), pick())
        blocks.append((rnd(r, k, pick()), rnd(d, k, md), jp, rnd(il, k, mi)))
    objs = [(rnd(s, k, pick()), rnd(d, k, pick())) for s, d in objs]
    origin = "rounded" + ("" if conv == "nearest" else "-" + conv) + ("-tiny" if tiny else "")
    return {"typ": typ, "k": k, "blocks": blocks, "objs": objs, "origin": origin, "conv": conv, "exact": exact_rec}


def written(typ, k, exact_blocks, exact_objs, conv="nearest", origin=None):
    """A case from explicit exact values [(rtime, duration, jp, il)], [(start, duration)], every value written with k
    decimals to nearest (the same `rnd` the generator applies)."""
    m = 1 if conv == "nearest" else 2
    blocks = [(rnd(r, k), rnd(d, k), jp, rnd(il, k)) for r, d, jp, il in exact_blocks]
    objs = [(rnd(s_, k), rnd(d, k)) for s_, d in exact_objs]
    tiny = any(d <= m * F(1, 10**k) for _, d, _, _ in exact_blocks)
    return {"typ": typ, "k": k, "blocks": blocks, "objs": objs, "conv": conv,
            "origin": origin or ("rounded" + ("-tiny" if tiny else "")),
            "exact": {"blocks": [(r, d) for r, d, _, _ in exact_blocks], "objs": [d for _, d in exact_objs], "m": m}}


def witness_case():
    """The recorded finding `rounded-short-block-collapse` (Lean: Earverif.TimingFix.excluded_rounded_short_block):
    k = 2, exact blocks (0, 0.9951), (0.9951, 0.0098) in an object of duration 1.0049 -> (0, 1.00), (1.00, 0.01),
    object duration 1.00."""
    return written("O", 2, [(F(0), F(9951, 10000), False, None), (F(9951, 10000), F(98, 10000), False, None)],
                   [(None, F(10049, 10000))])


KNOWN_COLLAPSE = "rounded-short-block-collapse"


def short_block_collapse(case):
    """Independent classifier of the recorded finding, computed from the exact and the written values only (never from
    what the code did): some block's EXACT duration is not longer than the bound the theorems need (one rounding unit
    for nearest, two for floor/ceil/mixed) AND in the written document a block starts at or after the end of an object
    referencing the channel, or two neighbouring blocks coincide / cross (rtime not increasing)."""
    ex = case.get("exact")
    if not ex or case.get("k") is None:
        return False
    bound = ex["m"] * F(1, 10 ** case["k"])
    if not any(d <= bound for _, d in ex["blocks"]):
        return False
    bl = case["blocks"]
    if any(b[0] is None for b in bl):
        return False
    at_end = any(D is not None and b[0] >= D for _, D in case["objs"] for b in bl)
    coincide = any(a[0] >= b[0] for a, b in zip(bl[:-1], bl[1:]))
    return at_end or coincide


def is_tiny(case):
    return case.get("origin", "").endswith("-tiny")


_CONVS = ["nearest"] * 9 + ["mixed"] * 8 + ["ilceil"] * 3
_VALID_ORIGINS = ("rounded", "rounded-mixed", "rounded-ilceil")


def gen_untimed(rng, k):
    """A channel with a single block without rtime/duration (static object)."""
    typ = rng.choice("OOD")
    dur = rng.choice([None, _ratio(rng, 0, 3)])
    jp, il = False, None
    if typ == "O" and rng.random() < 0.7:
        jp = True
        il = rng.choice([None, F(0), _ratio(rng, 0, 4), dur])
    start = rng.choice([None, F(0), _ratio(rng, 0, 5)])
    return {"typ": typ, "k": k, "blocks": [(None, None, jp, rnd(il, k))], "objs": [(rnd(start, k), rnd(dur, k))],
            "origin": "untimed"}


def gen_outside(rng, k):
    """Inputs outside the theorems' hypotheses, built on purpose (the excluded points)."""
    c = gen_timeline(rng, k, rng.randint(2, 4), rng.choice("OD"))
    kind = rng.choice(["start-after-end", "start-at-end", "decreasing", "mixed-untimed", "rtime-xor-duration",
                       "two-untimed", "negative-last-duration", "assert-inf", "negative-object-duration"])
    bl = [list(b) for b in c["blocks"]]
    if kind in ("start-after-end", "start-at-end"):
        extra = F(0) if kind == "start-at-end" else F(rng.randint(1, 50), 10**k)
        c["objs"] = [(c["objs"][0][0], bl[-1][0] - extra)]
    elif kind == "decreasing":
        bl[-1][0], bl[-2][0] = bl[-2][0], bl[-1][0]
        if bl[-1][0] == bl[-2][0]:
            bl[-1][0] -= F(1, 10**k)
    elif kind == "mixed-untimed":
        bl[rng.randrange(len(bl))][0:2] = [None, None]
    elif kind == "rtime-xor-duration":
        bl[rng.randrange(len(bl))][rng.randrange(2)] = None
    elif kind == "two-untimed":
        bl = [[None, None, b[2], b[3]] for b in bl[:2]]
    elif kind == "negative-last-duration":
        bl[-1][1] = -abs(bl[-1][1]) - F(1, 10**k)
        if c["typ"] == "O":
            bl[-1][2], bl[-1][3] = True, rng.choice([None, F(0)])
        c["objs"] = [(c["objs"][0][0], None)]
    elif kind == "negative-object-duration":
        bl = [[None, None, True, rng.choice([None, F(0)])]]
        c["typ"] = "O"
        c["objs"] = [(c["objs"][0][0], -F(rng.randint(1, 300), 10**k))]
    elif kind == "assert-inf":
        # a block without end that continues directly from a block ending at the object's start
        bl = [[F(-1), F(1), False, None], [None, None, False, None]]
        c["typ"] = "O"
        c["objs"] = [(c["objs"][0][0], None)]
    c["blocks"] = [tuple(b) for b in bl]
    c["origin"] = "outside:" + kind
    c.pop("exact", None)  # the written values were edited by hand: no longer the rounding of that exact timeline
    return c


def classify(case):
    """None if the case satisfies the theorems' hypotheses (the property's predicate is enforced),
    else the name of the hypothesis it breaks.  Written against the input only."""
    bl = case["blocks"]
    if not bl:
        return "empty"
    timed = [b[0] is not None and b[1] is not None for b in bl]
    untimed = [b[0] is None and b[1] is None for b in bl]
    if len(bl) == 1 and untimed[0]:
        if any(d is not None and d < 0 for _, d in case["objs"]):
            return "untimed-block-negative-object-duration"
        return None
    if not all(t or u for t, u in zip(timed, untimed)):
        return "rtime-xor-duration"
    if not all(timed):
        return "several-untimed" if all(untimed) else "mixed-timed-untimed"
    if any(a[0] > b[0] for a, b in zip(bl[:-1], bl[1:])):
        return "rtimes-decreasing"
    for _, d in case["objs"]:
        if d is not None and not bl[-1][0] < d:
            return "last-rtime-not-before-object-end"
    if bl[-1][1] < 0:
        return "negative-last-duration"
    return None


def features(case):
    f = ["type:" + case["typ"], "digits:%s" % case["k"], "rounding:%s" % case.get("conv", "n/a"), "blocks:%d" % min(len(case["blocks"]), 9),
         "objects:%d" % len(case["objs"])]
    bl = case["blocks"]
    if any(a[0] is not None and a[0] == b[0] for a, b in zip(bl[:-1], bl[1:])):
        f.append("feature:equal-rtimes-after-rounding")
    if case["typ"] == "O":
        f.append("feature:jumpPosition" if any(b[2] for b in bl) else "feature:no-jumpPosition")
        if any(b[2] and b[3] is not None for b in bl):
            f.append("feature:interpolationLength")
    for s, d in case["objs"]:
        f.append("feature:object-start" if s is not None else "feature:no-object-start")
        f.append("feature:object-duration" if d is not None else "feature:no-object-duration")
    return f


# --------------------------------------------------------------------------------------
# the property as a predicate on the real code's output (written from the property text)


def predicate(case, r):
    """List of (what, detail) failures of the property on one repaired channel."""
    bad = []
    if r["status"] != "ok":
        return [("repair raised", r["status"])]
    raw = r["raw"]
    # block start times unchanged
    if [b[0] for b in raw] != [b[0] for b in case["blocks"]]:
        bad.append(("rtime changed", [fs(b[0]) for b in raw]))
    # contiguous
    for i, (a, b) in enumerate(zip(raw[:-1], raw[1:])):
        if a[0] is not None and a[1] is not None and b[0] is not None and a[0] + a[1] != b[0]:
            bad.append(("blocks %d,%d not contiguous" % (i, i + 1), [fs(a[0]), fs(a[1]), fs(b[0])]))
    # no interpolation length exceeds its block
    for i, b in enumerate(raw):
        if b[2] and b[3] and b[4] is not None:
            if b[1] is not None and b[4] > b[1]:
                bad.append(("interpolationLength of block %d exceeds its duration" % i, [fs(b[4]), fs(b[1])]))
            if b[1] is None:
                for _, d in case["objs"]:
                    if d is not None and b[4] > d:
                        bad.append(("interpolationLength of untimed block %d exceeds the object" % i, [fs(b[4]), fs(d)]))
    # no block extends past its object's duration
    for i, b in enumerate(raw):
        for _, d in case["objs"]:
            if d is not None and b[0] is not None and b[1] is not None and b[0] + b[1] > d:
                bad.append(("block %d extends past the object's duration" % i, [fs(b[0]), fs(b[1]), fs(d)]))
    # the renderer's timing checks accept every channel
    for oi, v in enumerate(r["post"]):
        if v != "ok":
            bad.append(("metadata interpreter rejects the repaired channel (object %d)" % oi, v))
    # repairing again changes nothing and warns about nothing
    if r["second"] != "ok":
        bad.append(("second repair raised", r["second"]))
    else:
        if r["blocks2"] != r["blocks"]:
            bad.append(("second repair changed the blocks", [r["blocks"], r["blocks2"]]))
        if r["warns2"]:
            bad.append(("second repair warned", r["warns2"]))
    return bad


# --------------------------------------------------------------------------------------
# file based entry points


def write_bw64(path, cases):
    """A real BW64 file (short silence) carrying the cases as AXML + CHNA."""
    import lxml.etree
    import numpy as np
    from ear.fileio import openBw64
    from ear.fileio.adm.chna import populate_chna_chunk
    from ear.fileio.adm.xml import adm_to_xml
    from ear.fileio.bw64.chunks import ChnaChunk, FormatInfoChunk

    adm, handles, ntracks = build_adm(cases, common=True)
    xml = lxml.etree.tostring(adm_to_xml(adm), pretty_print=True)
    chna = ChnaChunk()
    populate_chna_chunk(chna, adm)
    fmt = FormatInfoChunk(formatTag=1, channelCount=ntracks, sampleRate=SR, bitsPerSample=16)
    with openBw64(path, "w", formatInfo=fmt, axml=xml, chna=chna) as f:
        f.write(np.zeros((SR // 2, ntracks)))
    return xml, [cf.id for cf, _ in handles]


def _parse_block(s):
    r, d, o, j, il = s.split(",")
    g = lambda x: None if x == "-" else F(x)
    return (g(r), g(d), o == "1", j == "1", g(il))


def channel_blocks(adm, cf_id):
    cf = adm[cf_id]
    return [block_str(*b) for b in blocks_of(cf)]


# --------------------------------------------------------------------------------------
# whole documents: which audioObjects clamp which audioChannelFormats (Model/TimingFixDoc.lean)
#
# A generated document is a dict
#   {"k": digits, "chans": [case-like {"typ", "blocks"}], "packs": [{"typ", "channels": [ci], "subs": [pi]}],
#    "objs": [{"start", "duration", "packs": [pi], "tracks": [(ci, pi) | None], "children": [oi]}],
#    "covers": [[ci...] per object]   # by construction: the channels of the pack trees the object references
#    "v1": bool, "origin": str}


def _tree_channels(packs, root):
    out = list(packs[root]["channels"])
    for s in packs[root]["subs"]:
        out += _tree_channels(packs, s)
    return out


def _paths_to(packs, root, ci, path=()):
    path = path + (root,)
    if ci in packs[root]["channels"]:
        return path
    for s in packs[root]["subs"]:
        r = _paths_to(packs, s, ci, path)
        if r:
            return r
    return None


def gen_doc(rng, k):
    chans, packs, roots = [], [], []
    for _ in range(rng.choice([1, 1, 2])):
        typ = rng.choice("OOD")

        def new_pack(nch):
            cis = []
            for _ in range(nch):
                c = gen_timeline(rng, k, rng.randint(1, 4), typ, conv=rng.choice(_CONVS))
                chans.append({"typ": typ, "blocks": c["blocks"]})
                cis.append(len(chans) - 1)
            packs.append({"typ": typ, "channels": cis, "subs": []})
            return len(packs) - 1

        shape = rng.random()
        if shape < 0.55:
            root = new_pack(rng.randint(1, 2))
        elif shape < 0.85:
            root = new_pack(rng.randint(0, 1))
            packs[root]["subs"].append(new_pack(rng.randint(1, 2)))
        else:
            root = new_pack(rng.randint(0, 1))
            mid = new_pack(rng.randint(0, 1))
            packs[root]["subs"].append(mid)
            packs[mid]["subs"].append(new_pack(1))
            if rng.random() < 0.5:
                packs[root]["subs"].append(new_pack(1))
        roots.append(root)
    unit = F(1, 10**k)
    ends = []
    for c in chans:
        r, d = c["blocks"][-1][0], c["blocks"][-1][1]
        ends.append(r + d)
    objs, covers = [], []
    for _ in range(rng.randint(1, 4)):
        # a root pack, sometimes an inner pack (then only its subtree is covered), sometimes two roots
        cand = list(range(len(packs))) if rng.random() < 0.2 else roots
        mine = [rng.choice(cand)]
        if len(roots) > 1 and rng.random() < 0.2:
            mine = list(roots)
        cov = [ci for p_ in mine for ci in _tree_channels(packs, p_)]
        tracks = []
        for p_ in mine:
            for ci in _tree_channels(packs, p_):
                tracks.append((ci, rng.choice(_paths_to(packs, p_, ci))))
        if tracks and rng.random() < 0.15:
            tracks[rng.randrange(len(tracks))] = None  # silent track: the channel is still allocated
        rng.shuffle(tracks)
        dsel = rng.random()
        cut = False
        if dsel < 0.3 or not cov:
            dur = None
        elif dsel < 0.7:
            dur = max(ends[ci] for ci in cov)
        elif dsel < 0.9:
            dur = max(ends[ci] for ci in cov) + rng.choice([unit * rng.randint(1, 3), _ratio(rng, 0, 2)])
        else:
            dur = min(ends[ci] for ci in cov) - rng.choice([F(0), unit, unit * 7])  # may cut into / before a last block
            cut = True  # on purpose NOT a valid timeline: the object ends before (some of) its channels do
        start = rng.choice([None, None, F(0), _ratio(rng, 0, 5)])
        objs.append({"start": rnd(start, k), "duration": rnd(dur, k), "packs": mine, "tracks": tracks, "children": [],
                     "cut": cut})
        covers.append(cov)
    origin = "doc"
    if rng.random() < 0.12:
        # inconsistent references: drop a track of one object (conflicting), with or without a duration
        oi = rng.randrange(len(objs))
        if objs[oi]["tracks"]:
            objs[oi]["tracks"].pop()
            origin = "doc-bad-refs"
    # nesting: children are ordinary objects of the document; an extra parent without own references
    # (document validation only accepts start/duration on audioObjects without audioObject references; a minority
    # of parents keeps its timing: the repair still runs on such a document, the renderer rejects it)
    for j in range(1, len(objs)):
        if rng.random() < 0.3:
            par = objs[rng.randrange(j)]
            par["children"].append(j)
            if rng.random() < 0.8:
                par["start"], par["duration"] = None, None
    if rng.random() < 0.25:
        objs.append({"start": None, "duration": rng.choice([None, None, None, F(1), unit]), "packs": [], "tracks": [],
                     "children": [rng.randrange(len(objs))]})
        covers.append([])
    return {"k": k, "chans": chans, "packs": packs, "objs": objs, "covers": covers, "v1": rng.random() < 0.5,
            "origin": origin}


def enc_doc(d):
    return {"k": d["k"], "v1": d["v1"], "origin": d["origin"],
            "chans": [{"typ": c["typ"], "blocks": [[fs(r), fs(x), int(bool(jp)), fs(il)] for r, x, jp, il in c["blocks"]]}
                      for c in d["chans"]],
            "packs": d["packs"],
            "objs": [{"start": fs(o["start"]), "duration": fs(o["duration"]), "packs": o["packs"],
                      "tracks": o["tracks"], "children": o["children"]} for o in d["objs"]]}


def build_doc_adm(d):
    """Real ADM for a generated document (elements created in index order, so positions in the adm lists are the
    document's indices)."""
    from ear.fileio.adm.builder import ADMBuilder
    from ear.fileio.adm.elements import (AudioChannelFormat, AudioPackFormat, AudioTrackUID, AudioObject,
                                         AudioStreamFormat, AudioTrackFormat, TypeDefinition, FormatDefinition)
    from ear.fileio.adm.generate_ids import generate_ids

    b = ADMBuilder() if d["v1"] else ADMBuilder.for_version(2)
    b.create_programme(audioProgrammeName="prog")
    content = b.create_content(audioContentName="content")
    T = {"O": TypeDefinition.Objects, "D": TypeDefinition.DirectSpeakers}
    cfs, tfs = [], []
    for ci, c in enumerate(d["chans"]):
        cf = AudioChannelFormat(audioChannelFormatName="ch%d" % ci, type=T[c["typ"]],
                                audioBlockFormats=[_bf(c["typ"], *blk) for blk in c["blocks"]])
        b.adm.addAudioChannelFormat(cf)
        cfs.append(cf)
        if d["v1"]:
            sf = AudioStreamFormat(audioStreamFormatName="ch%d" % ci, format=FormatDefinition.PCM, audioChannelFormat=cf)
            b.adm.addAudioStreamFormat(sf)
            tf = AudioTrackFormat(audioTrackFormatName="ch%d" % ci, audioStreamFormat=sf, format=FormatDefinition.PCM)
            b.adm.addAudioTrackFormat(tf)
            tfs.append(tf)
    pfs = []
    for pi, p_ in enumerate(d["packs"]):
        pf = AudioPackFormat(audioPackFormatName="pack%d" % pi, type=T[p_["typ"]],
                             audioChannelFormats=[cfs[ci] for ci in p_["channels"]])
        b.adm.addAudioPackFormat(pf)
        pfs.append(pf)
    for pi, p_ in enumerate(d["packs"]):
        pfs[pi].audioPackFormats = [pfs[s] for s in p_["subs"]]
    aos, track = [], 0
    for oi, o in enumerate(d["objs"]):
        uids = []
        for t in o["tracks"]:
            if t is None:
                uids.append(None)
                continue
            track += 1
            u = AudioTrackUID(trackIndex=track, audioPackFormat=pfs[t[1]])
            if d["v1"]:
                u.audioTrackFormat = tfs[t[0]]
            else:
                u.audioChannelFormat = cfs[t[0]]
            b.adm.addAudioTrackUID(u)
            uids.append(u)
        ao = AudioObject(audioObjectName="obj%d" % oi, audioPackFormats=[pfs[p_] for p_ in o["packs"]], audioTrackUIDs=uids,
                         start=o["start"], duration=o["duration"])
        b.adm.addAudioObject(ao)
        aos.append(ao)
    nested = {c for o in d["objs"] for c in o["children"]}
    for oi, o in enumerate(d["objs"]):
        aos[oi].audioObjects = [aos[c] for c in o["children"]]
        if oi not in nested:
            content.audioObjects.append(aos[oi])
    generate_ids(b.adm)
    return b.adm, cfs, pfs, aos


def doc_line(d):
    """Line for the driver's `doc` op: the small document of Model/TimingFixDoc.lean (no nesting: the repair never
    reads audioObject -> audioObject references, which is exactly what the comparison with the real code checks)."""
    lst = lambda xs: "+".join(str(x) for x in xs) if xs else "_"
    uids, objs = [], []
    for o in d["objs"]:
        tr = []
        for t in o["tracks"]:
            if t is None:
                tr.append("s")
            else:
                uids.append("%d,%d" % t)
                tr.append(len(uids) - 1)
        objs.append("%s,%s,%s,%s" % (fs(o["start"]), fs(o["duration"]), lst(o["packs"]), lst(tr)))
    packs = ["%d,%s,%s" % (3 if p_["typ"] == "O" else 1, lst(p_["channels"]), lst(p_["subs"])) for p_ in d["packs"]]
    chans = []
    for c in d["chans"]:
        is_obj = c["typ"] == "O"
        chans.append(" ".join(block_str(r, x, is_obj, jp if is_obj else False, il if is_obj else None)
                              for r, x, jp, il in c["blocks"]))
    return "doc | %s | %s | %s | %s" % (" ".join(objs), " ".join(packs), " ".join(uids), " ; ".join(chans))


def parse_doc_model(line):
    parts = [x.strip() for x in line.split("|")]
    if not parts[0].startswith("pairs"):
        return {"bad": line}
    res = {"pairs": parts[0].split()[1:]}
    if parts[1].startswith("error"):
        res["status"] = parts[1]
        return res
    res["status"] = "ok"
    res["table"] = [x.split() for x in parts[2].split(";")] if parts[2] else []
    res["warns"] = parts[3].split()
    res["second"] = parts[4]
    return res


def real_doc_fix(d):
    """The real repair on the real document, in the shape of `parse_doc_model`; plus the raw data the predicate uses."""
    from ear.core.select_items.select_items import ObjectChannelMatcher
    from ear.fileio.adm.exceptions import AdmFormatRefError
    from ear.fileio.adm import timing_fixes

    adm, cfs, pfs, aos = build_doc_adm(d)
    handles = [(cf, []) for cf in cfs]
    idx = {id(cf): i for i, cf in enumerate(cfs)}
    matcher = ObjectChannelMatcher(adm)
    pairs = []
    for ao in aos:
        try:
            cs = [idx[id(cf)] for cf in matcher.get_channel_formats_for_object(ao)]
            pairs.append("+".join(map(str, cs)) if cs else "_")
        except AdmFormatRefError:
            pairs.append("x")
    before = [blocks_of(cf) for cf in cfs]

    def run():
        with warnings.catch_warnings(record=True) as ws:
            warnings.simplefilter("always")
            try:
                timing_fixes.fix_blockFormat_timings(adm)
                err = None
            except AdmFormatRefError:
                err = "error formatRef"
            except Exception as e:
                err = _err_kind(e)
        per, other = map_warnings(ws, handles)
        bfid = {bf.id: (ci, bi) for ci, cf in enumerate(cfs) for bi, bf in enumerate(cf.audioBlockFormats)}
        glob = []
        for w in ws:
            msg = str(w.message)
            for pat, kind in _WARN_PATTERNS:
                m = pat.match(msg)
                if m and m.group(1) in bfid:
                    glob.append("%d:%s:%d" % (bfid[m.group(1)][0], kind, bfid[m.group(1)][1]))
                    break
        return err, glob, other

    err, warns, other = run()
    res = {"pairs": pairs, "status": err or "ok", "other": other, "adm": adm, "cfs": cfs, "aos": aos, "before": before}
    if err:
        return res
    res["raw"] = [blocks_of(cf) for cf in cfs]
    res["table"] = [[block_str(*b) for b in blocks_of(cf)] for cf in cfs]
    res["warns"] = warns
    err2, warns2, other2 = run()
    res["second"] = "same" if (not err2 and not warns2 and [[block_str(*b) for b in blocks_of(cf)] for cf in cfs] == res["table"]) else "differs"
    res["second_detail"] = (err2, warns2)
    return res


def doc_excluded(d):
    """None if every channel meets the theorems' hypotheses for the audioObjects that cover it *by construction*
    (the object's pack trees contain the channel) and all references are consistent; else what is broken."""
    if d["origin"] == "doc-bad-refs":
        return "inconsistent-references"
    if any(o["children"] and (o["start"] is not None or o["duration"] is not None) for o in d["objs"]):
        return "nested-parent-with-timing"
    for ci, c in enumerate(d["chans"]):
        mine = [o for o, cov in zip(d["objs"], d["covers"]) for x in cov if x == ci]
        e = classify({"blocks": c["blocks"], "objs": [(o["start"], o["duration"]) for o in mine]})
        if e == "last-rtime-not-before-object-end" and not any(o.get("cut") for o in mine):
            # document channels have exact durations above the rounding bound and every other object duration is at
            # or beyond the end of all its channels: this cannot come from the generator's purpose-built short objects
            return "UNEXPECTED:" + e
        if e:
            return e + (" (object built to end before its channels)" if e == "last-rtime-not-before-object-end" else "")
    return None


def doc_predicate(d, r):
    """The property on a repaired real document, written from the property text: `its object` = every audioObject
    for which the renderer's own item selection produces an item with this channel."""
    from ear.core.select_items import select_rendering_items
    from ear.core.objectbased.renderer import InterpretObjectMetadata
    from ear.core.direct_speakers.renderer import InterpretDirectSpeakersMetadata
    from ear.core.metadata_input import ObjectRenderingItem

    bad = []
    if r["status"] != "ok":
        return [("repair of the document raised", r["status"])]
    for ci, (b0, b1) in enumerate(zip(r["before"], r["raw"])):
        if [b[0] for b in b0] != [b[0] for b in b1]:
            bad.append(("channel %d: rtime changed" % ci, [fs(b[0]) for b in b1]))
        for i, (a, b) in enumerate(zip(b1[:-1], b1[1:])):
            if a[0] is not None and a[1] is not None and b[0] is not None and a[0] + a[1] != b[0]:
                bad.append(("channel %d: blocks %d,%d not contiguous" % (ci, i, i + 1), [fs(a[0]), fs(a[1]), fs(b[0])]))
        for i, b in enumerate(b1):
            if b[2] and b[3] and b[4] is not None and b[1] is not None and b[4] > b[1]:
                bad.append(("channel %d: interpolationLength of block %d exceeds its duration" % (ci, i), [fs(b[4]), fs(b[1])]))
    if r["second"] != "same":
        bad.append(("second repair of the document changed something or warned", r["second_detail"]))
    with warnings.catch_warnings():
        warnings.simplefilter("ignore")
        items = select_rendering_items(r["adm"])
    idx = {id(cf): i for i, cf in enumerate(r["cfs"])}
    seen = set()
    for it in items:
        cf, obj = it.adm_path.audioChannelFormat, it.adm_path.audioObjects[-1]
        ci = idx[id(cf)]
        seen.add((r["aos"].index(obj), ci))
        for i, b in enumerate(r["raw"][ci]):
            if obj.duration is not None and b[0] is not None and b[1] is not None and b[0] + b[1] > obj.duration:
                bad.append(("channel %d: block %d extends past the duration of %s" % (ci, i, obj.audioObjectName),
                            [fs(b[0]), fs(b[1]), fs(obj.duration)]))
        interp = (InterpretObjectMetadata if isinstance(it, ObjectRenderingItem) else InterpretDirectSpeakersMetadata)(lambda blk: None)
        try:
            while True:
                blk = it.metadata_source.get_next_block()
                if blk is None:
                    break
                list(interp(SR, blk))
        except Exception as e:
            bad.append(("channel %d: metadata interpreter rejects the repaired channel for %s" % (ci, obj.audioObjectName),
                        _verdict_of_exc(e)))
    r["rendered_pairs"] = seen
    return bad


class C15(Spec):
    pid = "C15"
    lean_targets = ("Earverif.Props.C15", "c15driver")
    props_module = "Earverif.Props.C15"
    theorems = tuple(
        "Earverif.TimingFix." + t
        for t in (
            "fix_ok", "fix_rtime_unchanged", "fix_contiguous", "fix_interp_le_duration", "fix_within_object",
            "fix_accepted_by_renderer", "fix_idempotent", "fix_second_run_silent", "fix_post",
            "rounding_meets_hypotheses", "rounding_meets_hypotheses_dec", "perturbation_meets_hypotheses",
            "roundDec_mono", "roundDec_err",
            # the deprecated reader option (duration pass only)
            "fixDurationsOnly_spec", "fixDurationsOnly_hyp", "fixTimings_eq_stages", "fixTimings_after_durationsOnly",
            "durationsOnly_leaves_interp_too_long", "durationsOnly_leaves_block_past_object",
            # the rounding functions the generator really applies (Python round = half-even, floor, ceil)
            "roundHalfEven_rounding", "floorDec_rounding", "ceilDec_rounding", "roundHalfEven_meets_hypotheses",
            "floorDec_meets_hypotheses", "ceilDec_meets_hypotheses", "mixed_rounding_meets_hypotheses",
            # whole documents: the (audioObject, audioChannelFormat) pairing is computed by the allocator model
            "docFix_channel", "docFix_ok", "docFix_stable", "doc_fix_post", "doc_fix_idempotent_silent",
            "smallDoc_fix_post", "selectPackMapping_leaf", "excluded_doc_conflicting_refs",
            "excluded_start_at_object_end", "excluded_negative_last_duration", "excluded_rtime_xor_duration",
            "excluded_two_untimed", "excluded_decreasing_rtimes",
            # the recorded finding rounded-short-block-collapse: exact durations not above the rounding unit
            "excluded_rounded_short_block", "shortExact_valid_but_short", "fix_raises_when_last_block_outside_object",
            "fix_raises_rounded",
            # the acceptance clause for documents with its HypAccept hypothesis explicit
            "doc_fix_accepted",
            # `accepted` = the outcome of the interpreter models C02/C03 render with (Model/Timeline.lean)
            "accepted_eq_interpreters", "accepted_ok_iff_object", "accepted_ok_iff_fixed",
            "fix_accepted_by_timeline_interpreters",
        )
    )
    trusted_base = (
        "model Earverif/Model/TimingFix.lean is a hand transliteration of timing_fixes.py (fix=True paths), "
        "InterpretTimingMetadata.block_start_end and the interpolation checks of InterpretObjectMetadata.__call__, "
        "per audioChannelFormat; warnings are modelled as a returned list of (kind, block index); the acceptance model "
        "`accepted` is proved (accepted_eq_interpreters) to be the exception behaviour of the C02/C03 interpreter models "
        "Timeline.interpObject / Timeline.interpFixed on the same blocks at every sample rate, so there is one model of "
        "the renderer's timing checks, tied to the code both here (verdict diff) and by C02/C03",
        "the (audioObject, audioChannelFormat) pairing of check_blockFormat_times_for_audioObjects is modelled "
        "(Model/TimingFixDoc.lean: ObjectChannelMatcher = the C06/C07 pack-allocator model on the audioObject's own "
        "references) for documents with Objects/DirectSpeakers packs (nested packs, shared and silent tracks, several "
        "packs per object); Matrix/HOA packs are outside the small document type",
    )
    assumptions = (
        "theorem hypotheses (Hyp): the channel is a single block without rtime/duration, or every block has rtime and "
        "duration, rtimes are weakly increasing (rounding keeps order but may make neighbours equal) and the last rtime "
        "is strictly before the duration of every audioObject that has one; acceptance additionally needs the last "
        "duration >= 0.  Outside (run on the real code and counted as excluded points): last block starting at/after "
        "the object's end (ValueError), rtime xor duration (AssertionError / validation error), several untimed or "
        "mixed timed+untimed blocks (renderer: overlapping blocks), decreasing rtimes (negative durations), negative "
        "last duration with jumpPosition or an untimed block under an object of negative duration (renderer: "
        "interpolation length longer than block)",
        "ROUNDING: every *_meets_hypotheses theorem needs each EXACT block duration to be longer than the rounding unit "
        "10^-k (nearest) resp. two units 2*10^-k (floor / ceil / per-value mixed): ExactValid.long.  Valid exact timelines "
        "with a shorter block are inside the property's quantifier but outside the theorems; there the property can FAIL "
        "(the written last block lands on the written object end => fix_blockFormat_timings raises ValueError: "
        "excluded_rounded_short_block, fix_raises_rounded).  The check evaluates the property on them on every run "
        "(generator family tiny=True + the deterministic witness) and reports failures as hits; they are the recorded "
        "finding rounded-short-block-collapse only when the independent classifier short_block_collapse (exact duration <= "
        "bound AND a written block starts at/after a written object end or neighbouring written rtimes coincide/cross) "
        "holds, otherwise an unlisted violation",
        "first-run warning kinds are compared with the model but a difference is only recorded "
        "(distribution key firstrun-warnings:differ), since the property speaks only about the second run's warnings",
    )
    rule = (
        "a case is one audioChannelFormat with its audioObjects inside a real ADM document: exact contiguous timeline "
        "(1..n blocks, rational times with awkward denominators, durations just above / well above the rounding unit), "
        "every time written with k in 2..5 decimals, either all to nearest (half-even) or each value independently "
        "nearest / truncated / rounded up (mixed conventions; exact durations then above two units), incl. the family "
        "interpolationLength == duration exactly with the interpolationLength rounded up and the duration truncated "
        "after a first block without jumpPosition; Objects with no/flag-only/flag+interpolationLength "
        "jumpPosition or DirectSpeakers; object start/duration present or absent; 12% share the channel between two "
        "objects; plus single untimed blocks, timelines with durations below the unit (collapsing blocks) and "
        "purpose-built excluded points. non-trivial = the first repair changed something or raised; distinct by "
        "(type, blocks, objects). Whole documents: 1-2 pack trees (own channels, nested packs up to depth 3), 1-5 "
        "audioObjects referencing a root pack, an inner pack or two roots, with one audioTrackUID per covered channel "
        "(audioPackFormat reference anywhere on the pack path, 15% one silent track, v1 or v2 references), durations "
        "absent / end of the longest channel / beyond / inside a last block, 12% one track dropped (inconsistent "
        "references), nested audioObjects with and without own timing. Rounding: values with awkward denominators, "
        "exact ties, exactly representable and negative values, k in 2..5, modes nearest/floor/ceil"
    )

    # ---- library entry point: correspondence + predicate

    def _run_batch(self, ctx, driver, groups, use_model=True):
        """groups: list of lists of cases (one real ADM per group)."""
        flat = [c for g in groups for c in g]
        model = [None] * len(flat)
        if use_model:
            outs = driver.run([case_line(c) for c in flat])
            model = [parse_model(o) for o in outs]
        pos = 0
        for g in groups:
            try:
                reals = real_fix(g)
            except Exception as e:  # the harness' own use of the library failed: report as a failing input
                ctx.hit("building/repairing the document raised unexpectedly", [enc(c) for c in g],
                        "%s: %s" % (type(e).__name__, e), ["unexpected-exception"])
                pos += len(g)
                continue
            for c, r in zip(g, reals):
                m = model[pos]
                pos += 1
                self._one(ctx, c, r, m, multi=len(g) > 1, group=g)

    def _one(self, ctx, c, r, m, multi, group):
        excl = classify(c)
        changed = r["status"] != "ok" or bool(r.get("warns"))
        canon = (c["typ"], tuple(c["blocks"]), tuple(c["objs"]))
        ctx.case(canon, changed, sample={"case": enc(c), "status": r["status"], "blocks": r.get("blocks"),
                                         "warnings": r.get("warns"), "verdicts": r.get("post")} if changed else None)
        for f in features(c):
            ctx.count(f)
        if multi:
            ctx.count("feature:several-channels-in-document")
        for w in r.get("warns", []):
            ctx.count("warning:" + w.split(":")[0])
        for v in r["pre"]:
            ctx.count("verdict-before-repair:" + v.split(":")[0])
        if r["other_warnings"]:
            ctx.count("unrecognised-warning")
        if excl is None:
            ctx.count("in-hypotheses:" + c["origin"])
            for what, detail in predicate(c, r):
                tags = ["c15-predicate"]
                ctx.hit(what, {"cases": [enc(x) for x in group]} if multi else enc(c), detail, tags)
        elif is_tiny(c) and excl in ("last-rtime-not-before-object-end", "rtimes-decreasing"):
            # INSIDE the property's quantifier (a valid exact timeline written with k decimals) but outside the
            # theorems' duration bound (ExactValid.long): the property is evaluated, not skipped.  A failure is the
            # recorded finding only if the independent classifier (exact + written values) says so.
            fails = predicate(c, r)
            collapse = short_block_collapse(c)
            outcome = r["status"] if r["status"] != "ok" else "repaired-then-" + ",".join(sorted(set(r["post"])))
            ctx.count("short-exact-block:%s => %s%s" % (excl, outcome.split(":")[0], "" if fails else " (property holds)"))
            for what, detail in fails:
                tags = ["c15-predicate", KNOWN_COLLAPSE if collapse else "short-block-not-classified"]
                ctx.hit(what + " (rounded timeline with an exact duration not above the rounding bound: " + excl + ")",
                        {"cases": [enc(x) for x in group]} if multi else enc(c), detail, tags)
        else:
            outcome = r["status"] if r["status"] != "ok" else "repaired-then-" + ",".join(sorted(set(r["post"])))
            ctx.count("excluded-point:%s => %s" % (excl, outcome.split(":")[0]))
            if c["origin"] in _VALID_ORIGINS:
                # the generator builds exactly the timelines of Earverif.TimingFix.ExactValid (durations above the
                # rounding unit; above two units when conventions are mixed): rounding_meets_hypotheses /
                # perturbation_meets_hypotheses say they satisfy the hypotheses
                ctx.disagree("rounded valid timeline falls outside the hypotheses (rounding_meets_hypotheses)",
                             enc(c), "Hyp and HypAccept", excl)
        if m is None:
            return
        # model vs code (exact)
        keys = ["pre", "status", "blocks", "post", "second", "blocks2", "warns2"]
        rr = {k: r.get(k) for k in keys}
        mm = {k: m.get(k) for k in keys}
        if "bad" in m or rr != mm or r["other_warnings"]:
            ctx.disagree("fix_blockFormat_timings + interpreters vs Earverif.TimingFix.fixTimings/accepted",
                         enc(c), m, dict(rr, other=r["other_warnings"]))
        else:
            ctx.validated()
        if r["status"] == "ok":
            if r.get("warns") == m.get("warns"):
                ctx.count("firstrun-warnings:match")
            else:
                ctx.count("firstrun-warnings:differ")
                if not any(n.startswith("first-run warnings differ") for n in ctx.notes):
                    ctx.notes.append("first-run warnings differ from the model (recorded only): case=%r model=%r code=%r"
                                     % (enc(c), m.get("warns"), r.get("warns")))

    def _stream(self, ctx, n):
        rng = ctx.rng
        groups = []
        while n > 0:
            k = rng.choice([2, 3, 4, 5])
            x = rng.random()
            if x < 0.10:
                g = [gen_outside(rng, k)]
            elif x < 0.22:
                g = [gen_timeline(rng, k, rng.randint(1, 6), rng.choice("OOD"), tiny=True, conv=rng.choice(_CONVS))]
            elif x < 0.30:
                g = [gen_untimed(rng, k)]
            elif x < 0.42:
                g = [gen_timeline(rng, k, rng.randint(1, 8), rng.choice("OOD"), conv=rng.choice(_CONVS))
                     for _ in range(rng.randint(2, 4))]
            else:
                nb = rng.choice([1, 2, 2, 3, 3, 4, 5, 6, 8, 12, 20])
                g = [gen_timeline(rng, k, nb, rng.choice("OOD"), conv=rng.choice(_CONVS))]
            groups.append(g)
            n -= len(g)
        return groups

    def fixed_cases(self):
        """Hand-picked boundary inputs, always run."""
        O = lambda bl, objs, k=2, origin="fixed": {"typ": "O", "k": k, "blocks": bl, "objs": objs, "origin": origin}
        h = F(1, 100)
        return [
            # the "fix interpolationLength without more noise" branch: contracted below the interpolation length
            O([(F(0), F(1, 2), True, F(1, 2)), (F(49, 100), F(1, 2), False, None)], [(None, None)]),
            # expanded, interpolation length already above the old duration (pass 2 then warns)
            O([(F(0), F(33, 100), True, F(1, 2)), (F(34, 100), F(33, 100), False, None)], [(None, None)]),
            # two neighbours rounded to the same rtime: zero-length block
            O([(F(0), h, True, h), (F(0), F(1, 2), True, None), (F(1, 2), F(1, 2), False, None)], [(F(1), F(1))]),
            # end clamped to the object, interpolation length reduced with it
            O([(F(0), F(1, 2), False, None), (F(1, 2), F(51, 100), True, F(51, 100))], [(F(3), F(1))]),
            # channel shared by two objects with different durations
            O([(F(0), F(1, 2), False, None), (F(1, 2), F(1, 2), True, F(1, 2))], [(None, F(99, 100)), (F(2), F(98, 100))]),
            # mixed conventions: first block without jumpPosition; last block's interpolationLength rounded up (0.34)
            # while its duration was truncated (0.33); only the interpolationLength pass can repair this
            O([(F(0), F(33, 100), False, None), (F(33, 100), F(33, 100), True, F(34, 100))], [(None, None)]),
            O([(F(0), F(33, 100), False, None), (F(33, 100), F(33, 100), True, F(34, 100)),
               (F(67, 100), F(33, 100), False, None)], [(F(2), F(1))]),
            # untimed block with interpolation length longer than the object
            O([(None, None, True, F(2))], [(F(1), F(1))]),
            # excluded: last block starts exactly at the object's end
            O([(F(0), F(1, 2), False, None), (F(1, 2), F(1, 2), False, None)], [(None, F(1, 2))], origin="outside:start-at-end"),
            # the recorded finding rounded-short-block-collapse, evaluated on every run (deterministic probe)
            witness_case(),
            # same exact timeline with the last block just above the unit (0.0102): inside ExactValid, repaired
            written("O", 2, [(F(0), F(9951, 10000), False, None), (F(9951, 10000), F(102, 10000), False, None)],
                    [(None, F(10053, 10000))]),
        ]

    def correspond(self, ctx):
        driver = Driver("c15driver", "Earverif.Driver.C15")
        self._run_batch(ctx, driver, [[c] for c in self.fixed_cases()])
        n = 2500 if ctx.quick else 40000
        groups = self._stream(ctx, n)
        for i in range(0, len(groups), 4000):
            self._run_batch(ctx, driver, groups[i:i + 4000])
        self._rounding(ctx, driver, 400 if ctx.quick else 5000)
        self._documents(ctx, driver, 160 if ctx.quick else 4000)
        self.entry_points(ctx, driver)

    # ---- the rounding functions of the theorems are the ones the generator applies

    def _rounding(self, ctx, driver, n):
        """harness `rnd` (Python round / math.floor / math.ceil on Fractions) vs Earverif.TimingFix.roundHalfEven /
        floorDec / ceilDec, on the kind of values the generator rounds plus exact ties and negative values."""
        rng = ctx.rng
        qs = []
        for _ in range(n):
            k = rng.choice([2, 3, 4, 5])
            x = rng.random()
            if x < 0.3:  # exact tie of the nearest convention
                v = F(2 * rng.randint(-3000, 3000) + 1, 2 * 10**k)
            elif x < 0.4:  # exactly representable
                v = F(rng.randint(-3000, 3000), 10**k)
            else:
                v = _ratio(rng, 0, 5) * rng.choice([1, 1, 1, -1])
            qs.append((rng.choice("nfc"), k, v))
        outs = driver.run(["round | %s %d %s" % (m, k, fs(v)) for m, k, v in qs])
        for (m, k, v), o in zip(qs, outs):
            want = fs(rnd(v, k, m))
            tie = (v * 10**k * 2).denominator == 1 and (v * 10**k).denominator != 1
            ctx.count("rounding:%s%s" % ({"n": "half-even", "f": "floor", "c": "ceil"}[m], "-tie" if tie else ""))
            ctx.case(("round", m, k, v), tie)
            if o != want:
                ctx.disagree("harness rnd vs Earverif.TimingFix.roundHalfEven/floorDec/ceilDec", [m, k, fs(v)], o, want)
            else:
                ctx.validated()

    # ---- whole documents: the traversal of check_blockFormat_times_for_audioObjects

    def _documents(self, ctx, driver, n, use_model=True):
        rng = ctx.rng
        docs = [gen_doc(rng, rng.choice([2, 3, 4, 5])) for _ in range(n)]
        outs = driver.run([doc_line(d) for d in docs]) if use_model else [None] * n
        keys = ["pairs", "status", "table", "second"]
        for d, o in zip(docs, outs):
            try:
                r = real_doc_fix(d)
            except Exception as e:
                ctx.hit("building/repairing the document raised unexpectedly", enc_doc(d),
                        "%s: %s" % (type(e).__name__, e), ["unexpected-exception"])
                continue
            changed = r["status"] != "ok" or bool(r.get("warns"))
            ctx.case(("doc", doc_line(d)), changed,
                     sample={"doc": enc_doc(d), "pairs": r["pairs"], "status": r["status"], "warnings": r.get("warns")} if changed else None)
            ctx.count("doc:objects:%d" % len(d["objs"]))
            ctx.count("doc:channels:%d" % min(len(d["chans"]), 6))
            if any(p_["subs"] for p_ in d["packs"]):
                ctx.count("doc:feature:nested-packs")
            if any(o["children"] for o in d["objs"]):
                ctx.count("doc:feature:nested-objects")
            if any(t is None for o in d["objs"] for t in o["tracks"]):
                ctx.count("doc:feature:silent-track")
            if any(len(o["packs"]) > 1 for o in d["objs"]):
                ctx.count("doc:feature:two-packs-in-object")
            shared = [ci for ci in range(len(d["chans"])) if sum(ci in cov for cov in d["covers"]) > 1]
            if shared:
                ctx.count("doc:feature:channel-shared-by-objects")
            ctx.count("doc:refs:" + ("v1 trackFormat" if d["v1"] else "v2 direct channel"))
            ctx.count("doc:outcome:" + r["status"].split(":")[0])
            excl = doc_excluded(d)
            if excl is None:
                ctx.count("doc:in-hypotheses")
                try:
                    fails = doc_predicate(d, r)
                except Exception as e:
                    fails = [("item selection / interpretation of the repaired document raised", "%s: %s" % (type(e).__name__, e))]
                for what, detail in fails:
                    ctx.hit(what, enc_doc(d), detail, ["c15-predicate", "document"])
            else:
                outcome = r["status"] if r["status"] != "ok" else "repaired"
                ctx.count("doc:excluded-point:%s => %s" % (excl, outcome.split(":")[0]))
                if excl.startswith("UNEXPECTED:"):
                    # inside the quantifier after all: the property is evaluated, not skipped
                    try:
                        fails = doc_predicate(d, r)
                    except Exception as e:
                        fails = [("item selection / interpretation of the repaired document raised", "%s: %s" % (type(e).__name__, e))]
                    for what, detail in fails:
                        ctx.hit(what + " (" + excl + ")", enc_doc(d), detail, ["c15-predicate", "document"])
            if o is None:
                continue
            m = parse_doc_model(o)
            if "bad" in m or any(m.get(k) != r.get(k) for k in keys) or r["other"]:
                ctx.disagree("fix_blockFormat_timings on a whole document vs Earverif.TimingFix.Doc.fix "
                             "(pairs = ObjectChannelMatcher per audioObject)", enc_doc(d),
                             {k: m.get(k) for k in keys} if "bad" not in m else m,
                             dict({k: r.get(k) for k in keys}, other=r["other"]))
            else:
                ctx.validated()
            if r["status"] == "ok":
                ctx.count("doc:firstrun-warnings:" + ("match" if m.get("warns") == r.get("warns") else "differ"))

    # ---- the other documented entry points

    def entry_points(self, ctx, driver):
        rng = ctx.rng
        tmp = tempfile.mkdtemp(prefix="c15_")
        try:
            n_reader, n_file, n_utils, n_render = (40, 6, 8, 3) if ctx.quick else (400, 30, 40, 10)
            self._reader_option_string(ctx, driver, rng, n_reader)
            self._reader_option_file(ctx, driver, rng, tmp, n_file)
            self._ear_utils(ctx, driver, rng, tmp, n_utils)
            self._ear_render(ctx, driver, rng, tmp, n_render)
        finally:
            shutil.rmtree(tmp, ignore_errors=True)

    def _needs_repair_cases(self, rng, count):
        """In-hypotheses documents (1-3 channels) whose first channel really needs the duration repair."""
        out = []
        while len(out) < count:
            k = rng.choice([2, 3, 4, 5])
            g = [gen_timeline(rng, k, rng.randint(2, 6), rng.choice("OOD"), conv=rng.choice(_CONVS))
                 for _ in range(rng.randint(1, 3))]
            if any(classify(c) is not None for c in g):
                continue
            bl = g[0]["blocks"]
            if all(a[0] + a[1] == b[0] for a, b in zip(bl[:-1], bl[1:])):
                continue
            out.append(g)
        return out

    def _compare_entry(self, ctx, driver, name, g, before, after, mode, raised):
        """before/after: per case block strings as read from the real document without / with the repair."""
        ctx.count("entry-point:" + name)
        if raised is not None:
            ctx.hit("entry point %s raised" % name, {"cases": [enc(c) for c in g]}, raised, ["entry-point-raises", name])
            return
        if driver is None:  # predicate-only search
            outs = [None] * len(g)
        else:
            outs = driver.run([case_line(c, mode, blocks=b) for c, b in zip(g, before)])
        for c, b, a, o in zip(g, before, after, outs):
            ctx.case((name, c["typ"], tuple(c["blocks"]), tuple(c["objs"])), a != b)
            if o is not None:
                mblocks = o.split("|")[0].split() if mode == "dur" else parse_model(o).get("blocks")
                if mblocks != a:
                    ctx.disagree("entry point %s vs model (%s)" % (name, mode), enc(c), mblocks, a)
                else:
                    ctx.validated()
            # direct predicate for the entry point: the repair happened (rtimes unchanged, durations contiguous,
            # interpolation lengths inside their blocks, blocks inside the objects)
            pb, pa = [_parse_block(x) for x in b], [_parse_block(x) for x in a]
            fails = []
            if [x[0] for x in pa] != [x[0] for x in pb]:
                fails.append("changed rtimes")
            for x, y in zip(pa[:-1], pa[1:]):
                if x[0] is not None and x[1] is not None and y[0] is not None and x[0] + x[1] != y[0]:
                    fails.append("did not make durations contiguous")
                    break
            for x, y in zip(pb, pa):
                has_il = y[2] and y[3] and y[4] is not None and y[1] is not None
                if mode == "fix":
                    if has_il and y[4] > y[1]:
                        fails.append("left an interpolationLength longer than its block")
                    for _, d in c["objs"]:
                        if d is not None and y[0] is not None and y[1] is not None and y[0] + y[1] > d:
                            fails.append("left a block extending past its object")
                elif has_il and x[4] is not None and x[1] is not None and x[4] <= x[1] and y[4] > y[1]:
                    # the duration-only repair of the reader option: an interpolationLength that fitted its block
                    # before the repair still fits after it
                    fails.append("made a fitting interpolationLength longer than its (contracted) block")
            for f in sorted(set(fails)):
                ctx.hit("entry point %s %s" % (name, f), enc(c), {"before": b, "after": a}, ["c15-predicate", name])

    def _reader_option_string(self, ctx, driver, rng, count):
        import lxml.etree
        from ear.fileio.adm.adm import ADM
        from ear.fileio.adm.xml import adm_to_xml, load_axml_string

        for g in self._needs_repair_cases(rng, count):
            adm, handles, _ = build_adm(g)
            xml = lxml.etree.tostring(adm_to_xml(adm))
            ids = [cf.id for cf, _ in handles]
            plain = ADM()
            with warnings.catch_warnings():
                warnings.simplefilter("ignore")
                load_axml_string(plain, xml)
            before = [channel_blocks(plain, i) for i in ids]
            fixed, raised, after = ADM(), None, None
            try:
                with warnings.catch_warnings():
                    warnings.simplefilter("ignore")
                    load_axml_string(fixed, xml, fix_block_format_durations=True)
                after = [channel_blocks(fixed, i) for i in ids]
            except Exception as e:
                raised = "%s: %s" % (type(e).__name__, e)
            self._compare_entry(ctx, driver, "load_axml_string(fix_block_format_durations=True)", g, before, after, "dur", raised)

    def _reader_option_file(self, ctx, driver, rng, tmp, count):
        from ear.fileio import openBw64Adm

        for n, g in enumerate(self._needs_repair_cases(rng, count)):
            path = os.path.join(tmp, "reader%d.wav" % n)
            _, ids = write_bw64(path, g)
            with warnings.catch_warnings():
                warnings.simplefilter("ignore")
                with openBw64Adm(path) as f:
                    before = [channel_blocks(f.adm, i) for i in ids]
            raised, after = None, None
            try:
                with warnings.catch_warnings():
                    warnings.simplefilter("ignore")
                    with openBw64Adm(path, fix_block_format_durations=True) as f:
                        after = [channel_blocks(f.adm, i) for i in ids]
            except Exception as e:
                raised = "%s: %s" % (type(e).__name__, e)
            self._compare_entry(ctx, driver, "openBw64Adm(fix_block_format_durations=True)", g, before, after, "dur", raised)
            os.unlink(path)

    def _ear_utils(self, ctx, driver, rng, tmp, count):
        from ear.cmdline import utils as cmd_utils
        from ear.fileio import openBw64Adm

        for n, g in enumerate(self._needs_repair_cases(rng, count)):
            path, out = os.path.join(tmp, "u%d.wav" % n), os.path.join(tmp, "u%d_out.wav" % n)
            _, ids = write_bw64(path, g)
            with warnings.catch_warnings():
                warnings.simplefilter("ignore")
                with openBw64Adm(path) as f:
                    before = [channel_blocks(f.adm, i) for i in ids]
            raised, after = None, None
            try:
                args = cmd_utils.make_parser().parse_args(["regenerate", "--enable-block-duration-fix", path, out])
                with warnings.catch_warnings():
                    warnings.simplefilter("ignore")
                    args.command(args)
                    with openBw64Adm(out) as f:
                        after = [channel_blocks(f.adm, i) for i in ids]
            except Exception as e:
                raised = "%s: %s" % (type(e).__name__, e)
            self._compare_entry(ctx, driver, "ear-utils regenerate --enable-block-duration-fix", g, before, after, "fix", raised)
            for p in (path, out):
                if os.path.exists(p):
                    os.unlink(p)

    def _ear_render(self, ctx, driver, rng, tmp, count):
        """Full `ear-render --enable-block-duration-fix` run (OfflineRenderDriver.from_args(...).run); the document
        is observed right after the driver's call of check_blockFormat_timings through a pass-through spy."""
        from ear.cmdline import render_file
        from ear.fileio import openBw64Adm

        for n, g in enumerate(self._needs_repair_cases(rng, count)):
            g = g[:2]
            path, out = os.path.join(tmp, "r%d.wav" % n), os.path.join(tmp, "r%d_out.wav" % n)
            _, ids = write_bw64(path, g)
            with warnings.catch_warnings():
                warnings.simplefilter("ignore")
                with openBw64Adm(path) as f:
                    before = [channel_blocks(f.adm, i) for i in ids]
            seen = []
            orig = render_file.timing_fixes.check_blockFormat_timings

            def spy(adm, fix=False):
                r = orig(adm, fix=fix)
                seen.append((fix, [channel_blocks(adm, i) for i in ids]))
                return r

            raised, after = None, None
            try:
                args = render_file.make_parser().parse_args(["-s", "0+2+0", "--enable-block-duration-fix", path, out])
                with warnings.catch_warnings():
                    warnings.simplefilter("ignore")
                    with mock.patch.object(render_file.timing_fixes, "check_blockFormat_timings", spy):
                        render_file.OfflineRenderDriver.from_args(args).run(args.input_file, args.output_file)
                if not seen or not seen[0][0]:
                    raised = "the render driver did not run the repair (fix flag not passed)"
                else:
                    after = seen[0][1]
            except Exception as e:
                raised = "%s: %s" % (type(e).__name__, e)
            self._compare_entry(ctx, driver, "ear-render --enable-block-duration-fix (OfflineRenderDriver.run)", g, before, after, "fix", raised)
            for p in (path, out):
                if os.path.exists(p):
                    os.unlink(p)

    # ---- search: the predicate alone on the real code

    def search(self, ctx, deep):
        rng = ctx.rng
        n = 6000 if deep else 400
        done = 0
        while done < n:
            k = rng.choice([2, 3, 4, 5])
            x = rng.random()
            if x < 0.15:
                g = [gen_untimed(rng, k)]
            elif x < 0.5:
                g = [gen_timeline(rng, k, rng.randint(1, 5), rng.choice("OOD"), tiny=rng.random() < 0.3,
                                  conv=rng.choice(_CONVS)) for _ in range(rng.randint(1, 4))]
            else:
                g = [gen_timeline(rng, k, rng.choice([1, 2, 3, 5, 9, 17, 30]), rng.choice("OOD"), conv=rng.choice(_CONVS))]
            # rounded timelines with a short exact block that fall outside the hypotheses stay in the search (they are
            # inside the property's quantifier), each in a document of its own: a raising repair aborts the whole document
            short = [c for c in g if is_tiny(c) and classify(c) in ("last-rtime-not-before-object-end", "rtimes-decreasing")]
            g = [c for c in g if classify(c) is None]
            if not g and not short:
                continue
            for c in g + short:
                c["origin"] = "search-" + c["origin"]
            self._run_batch(ctx, None, ([g] if g else []) + [[c] for c in short], use_model=False)
            done += len(g) + len(short)
        self._documents(ctx, None, 1500 if deep else 60, use_model=False)
        if deep:
            # the reader option must keep working (it was missing once: fixed finding 1d5dfa7)
            self._reader_option_string(ctx, None, rng, 20)


SPEC = C15()

REGISTRY = dict(
    text="FULL for exact durations > one rounding unit (two for floor/ceil/mixed); shorter blocks can collapse onto the "
    "object end => the repair raises ValueError (recorded finding rounded-short-block-collapse: "
    "excluded_rounded_short_block is the kernel-checked witness k=2, (0,0.9951),(0.9951,0.0098), object 1.0049 -> "
    "(0,1.00),(1.00,0.01), object 1.00; fix_raises_when_last_block_outside_object / fix_raises_rounded the general "
    "statement: all blocks timed, last written rtime >= a written object duration, last written duration > 0 => "
    "ValueError; the check evaluates the property on this family and on the witness on every run and reports failures "
    "as hits classified by an independent classifier over exact+written values). "
    "Lean theorems (Earverif.TimingFix.fix_ok, fix_rtime_unchanged, fix_contiguous, fix_interp_le_duration, "
    "fix_within_object, fix_accepted_by_renderer, fix_idempotent, fix_second_run_silent) prove for every channel whose "
    "blocks are all timed with weakly increasing rtimes and last rtime before every object's end (or a single untimed "
    "block) that the model of fix_blockFormat_timings succeeds, leaves rtimes unchanged, makes blocks contiguous, "
    "interpolation lengths <= durations, blocks inside every referencing object, the model of the renderer's timing "
    "checks accept the channel (accepted_eq_interpreters: this acceptance model IS the exception behaviour of the C02/C03 "
    "interpreter models Timeline.interpObject/interpFixed at every sample rate; fix_accepted_by_timeline_interpreters "
    "states the clause on them), and a second repair returns the same blocks with no warnings. "
    "doc_fix_post / doc_fix_accepted (acceptance, with its extra hypothesis HypAccept = last duration >= 0 explicit) / "
    "doc_fix_idempotent_silent lift this to whole documents: the model of "
    "check_blockFormat_times_for_audioObjects' traversal (ObjectChannelMatcher = the C06/C07 pack-allocator model run on "
    "each audioObject's own audioPackFormat/audioTrackUID references; nested audioObjects are not followed) is proved "
    "(docFix_channel, docFix_ok, docFix_stable) to act on every audioChannelFormat as the per-channel model with objs = "
    "the audioObjects whose allocation contains it, so the object-to-channel pairing is computed, not assumed; "
    "selectPackMapping_leaf shows the renderer pairs a leaf audioObject with the same channels. "
    "Rounding (each needs the EXACT durations above the stated bound, ExactValid.long): rounding_meets_hypotheses (any "
    "monotone rounding with error <= e/2: durations > e), rounding_meets_hypotheses_dec and "
    "roundHalfEven_meets_hypotheses (Python round = half-even, what the generator applies: durations > 10^-k), "
    "floorDec_meets_hypotheses and ceilDec_meets_hypotheses (durations > 2*10^-k), perturbation_meets_hypotheses (any "
    "per-value error <= delta: durations > 2*delta) and mixed_rounding_meets_hypotheses (each value independently "
    "nearest/truncated/rounded up: durations > 2*10^-k) show that rounding such a valid exact timeline to k decimals "
    "lands inside these hypotheses; below the bound the property can fail (see the first sentence). fixDurationsOnly_spec proves what the deprecated reader "
    "option (fix_block_format_durations=True runs only fix_blockFormat_durations) guarantees: rtimes unchanged, "
    "contiguous, idempotent, = first stage of the full repair; durationsOnly_leaves_interp_too_long and "
    "durationsOnly_leaves_block_past_object prove that it does NOT repair interpolation lengths or the object clamp "
    "(renderer still rejects), on inputs inside the hypotheses. "
    "The model is tied to the code on every run by repairing real ADM documents (generated timelines rounded to 2..5 "
    "decimals; and whole documents with nested/shared packs, several objects per channel, silent tracks, nested "
    "objects, v1 and v2 track references, inconsistent references) with the real function, interpreting them with the "
    "real metadata interpreters and diffing exact fractions/verdicts/channel pairings against the Lean driver; the "
    "Lean rounding functions are diffed against the generator's; all entry points (library, ear-render and ear-utils "
    "options, reader option of load_axml_string/openBw64Adm) are run in-process.",
    note="Trusted: Lean kernel, hand transliteration of timing_fixes.py and the interpreters' timing checks + "
    "correspondence harness; the pack allocator model is C06/C07's. INSIDE the quantifier but outside the theorems "
    "(recorded finding, not an excluded point): rounded timelines with an exact block duration <= 10^-k (nearest) / "
    "2*10^-k (floor, ceil, mixed); the check counts them under short-exact-block:* and reports every property failure "
    "among them (KNOWN-FINDING line when the independent classifier short_block_collapse holds, VIOLATION otherwise); "
    "with per-value mixed conventions such short blocks can also cross (written rtimes decreasing), which the classifier "
    "covers too. Excluded points (stated as hypotheses, run on the "
    "real code and counted): last block starting at/after the object's end (ValueError), rtime xor duration, "
    "several/mixed untimed blocks, decreasing rtimes, negative last duration, an audioObject with a duration whose "
    "references are conflicting/ambiguous (AdmFormatRefError escapes from the repair: excluded_doc_conflicting_refs). "
    "The reader option only performs the duration pass (as on the original tree), so through that entry point the "
    "property's interpolationLength / object-duration clauses do not hold (proved counter-examples, harness predicate "
    "for that entry point only demands what fixDurationsOnly_spec states). Matrix and HOA packs are outside the "
    "document-level model (their output channels / single untimed blocks are clamped like any other channel in the "
    "code; not generated).",
    technique="Lean 4 proof (list induction + linear arithmetic over Rat) about a transliterated model + differential "
    "correspondence on real ADM documents + direct-predicate search",
    design_ref="DESIGN.md section 4, C15",
)
