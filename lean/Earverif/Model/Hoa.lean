/-
C11 model — HOA decoder design (core Lean only, scalar-polymorphic: runs on `Float`, proved over `ℝ`).

Mirrors (what the Python does, not what it should do):
  * `ear.core.hoa.to_acn`, `from_acn`, `norm_N3D`, `norm_SN3D`, `norm_FuMa`
  * `ear.core.hoa.allrad_design`
  * `ear.core.scenebased.design.HOADecoderDesign.design`
  * `ear.core.scenebased.renderer.HOARenderer` output routing (`output_channels = ~layout.is_lfe`,
    `FixedMatrix.process`)

Parameters of the model (other code, not modelled): `G` = `allrad_calc_G_virt(points, psp.handle)`
(shape L×P), `Y` = `sph_harm(n, m, az, el, norm=norm_N3D)` (shape C×P), the per-channel norm factors
`nN3D = norm_N3D(n,|m|)`, `nrm = norm(n,|m|)`, and the per-order maxRE table
`coef = ApproxMaxRECoefficients(max(n))`.

Matrices are `Vector (Vector α m) n` so that every intermediate result is materialised exactly once when
the model runs (a `Fin → Fin → α` function would be re-evaluated on every access); `getElem_ofFn` turns
them back into functions in the proofs.
-/
namespace Earverif.Hoa

/-- Scalar pattern (BUILDING.md): the operations the numeric kernel uses. -/
class Scalar (α : Type) extends Add α, Sub α, Mul α, Div α, Neg α where
  ofNat : Nat → α
  sqrt : α → α
  sin : α → α
  cos : α → α

instance : Scalar Float where
  ofNat := Float.ofNat
  sqrt := Float.sqrt
  sin := Float.sin
  cos := Float.cos

section kernel
variable {α : Type} [Scalar α]

/-- `f 0 + f 1 + … + f (k-1)` (left to right), `k ≤ n`. -/
def sumTo (n : Nat) (f : Fin n → α) : (k : Nat) → k ≤ n → α
  | 0, _ => Scalar.ofNat 0
  | k + 1, h => sumTo n f k (Nat.le_of_succ_le h) + f ⟨k, h⟩

/-- `np.sum` / the inner sum of `np.dot` over an axis of length `n` (summation order differs from numpy's
pairwise/BLAS order; the correspondence tolerance absorbs it). -/
@[specialize] def finSum {n : Nat} (f : Fin n → α) : α := sumTo n f n (Nat.le_refl n)

abbrev Mat (α : Type) (n m : Nat) := Vector (Vector α m) n

@[specialize] def Mat.ofFn {n m : Nat} (f : Fin n → Fin m → α) : Mat α n m :=
  Vector.ofFn fun i => Vector.ofFn (f i)

/-- `M[i, j]` -/
@[inline] def Mat.at {n m : Nat} (M : Mat α n m) (i : Fin n) (j : Fin m) : α := M[i.1][j.1]

/-- `hoa.allrad_design(points, panning_func, n, m, norm, G_virt)` with `P = len(points)`:
```
D_virt = Y_virt.T / len(points)
D = np.dot(G_virt, D_virt)
D *= np.sqrt(len(points)) / np.linalg.norm(np.dot(D, Y_virt))
D *= norm_N3D(n, np.abs(m)) / norm(n, np.abs(m))      # broadcast over the last axis = columns
``` -/
@[specialize] def allradDesign {L C P : Nat} (G : Mat α L P) (Y : Mat α C P) (nN3D nrm : Vector α C) :
    Mat α L C :=
  let Pn : α := Scalar.ofNat P
  let D0 : Mat α L C := Mat.ofFn fun l c => finSum fun p => G.at l p * (Y.at c p / Pn)
  let DY : Mat α L P := Mat.ofFn fun l p => finSum fun c => D0.at l c * Y.at c p
  let fro : α := Scalar.sqrt (finSum fun l => finSum fun p => DY.at l p * DY.at l p)
  let s : α := Scalar.sqrt Pn / fro
  Mat.ofFn fun l c => (D0.at l c * s) * (nN3D[c.1] / nrm[c.1])

/-- `maxRE_scale` option of `HOADecoderDesign`. -/
inductive MaxREScale where
  | none | speakers | components | order
  deriving DecidableEq, Repr

/-- running maximum of `f 0 … f (k-1)` (0 for the empty range) -/
def maxTo (n : Nat) (f : Fin n → Nat) : (k : Nat) → k ≤ n → Nat
  | 0, _ => 0
  | k + 1, h => Nat.max (maxTo n f k (Nat.le_of_succ_le h)) (f ⟨k, h⟩)

/-- `max(n)` over the channel orders. -/
def maxOrd {C : Nat} (ord : Vector Nat C) : Nat := maxTo C (fun c => ord[c.1]) C (Nat.le_refl C)

/-- The maxRE block of `HOADecoderDesign.design`; result = the per-channel factor `a_n[n]`:
```
a_n = hoa.ApproxMaxRECoefficients(max(n))                  # per-order table `coef`
speakers:   a_n *= np.sqrt(decoder.shape[0] / np.sum(a_n[n]**2))
components: a_n *= np.sqrt(len(n) / np.sum(a_n[n]**2))
order:      a_n *= np.sqrt(max(n) / np.sum(a_n[n]**2))
decoder *= a_n[n]
``` -/
@[specialize] def maxREWeights {C : Nat} (coef : Nat → α) (ord : Vector Nat C) (scale : MaxREScale) (L : Nat) :
    Vector α C :=
  let sumsq : α := finSum fun c : Fin C => coef ord[c.1] * coef ord[c.1]
  match scale with
  | .none => Vector.ofFn fun c => coef ord[c.1]
  | .speakers => Vector.ofFn fun c => coef ord[c.1] * Scalar.sqrt (Scalar.ofNat L / sumsq)
  | .components => Vector.ofFn fun c => coef ord[c.1] * Scalar.sqrt (Scalar.ofNat C / sumsq)
  | .order => Vector.ofFn fun c => coef ord[c.1] * Scalar.sqrt (Scalar.ofNat (maxOrd ord) / sumsq)

/-- `HOADecoderDesign.design` after the maxRE table lookup, with the per-channel weight vector `w`
(`none` = option `maxRE` off):
```
decoder = hoa.allrad_design(...)
if self.maxRE: decoder *= a_n[n]
if self.norm_mean_power:
    K_v = hoa.sph_harm(n, m, az, el, norm=norm)             # = diag(nrm / nN3D) · Y   (sph_harm is linear in norm)
    decoder /= np.sqrt(np.mean(np.sum(np.dot(decoder, K_v) ** 2, axis=0)))
return decoder * (np.array(gains) * get_object_gain(type_metadata))   # 0.0 if object_mute else object_gain
``` -/
@[specialize] def designW {L C P : Nat} (G : Mat α L P) (Y : Mat α C P) (nN3D nrm : Vector α C)
    (w : Option (Vector α C)) (normMeanPower : Bool) (gains : Vector α C) (objGain : α) (mute : Bool) :
    Mat α L C :=
  let D : Mat α L C := allradDesign G Y nN3D nrm
  let D1 : Mat α L C := match w with
    | none => D
    | some w => Mat.ofFn fun l c => D.at l c * w[c.1]
  let D2 : Mat α L C :=
    if normMeanPower then
      let K : Mat α C P := Mat.ofFn fun c p => (nrm[c.1] / nN3D[c.1]) * Y.at c p
      let DK : Mat α L P := Mat.ofFn fun l p => finSum fun c => D1.at l c * K.at c p
      let mp : α := Scalar.sqrt ((finSum fun p => finSum fun l => DK.at l p * DK.at l p) / Scalar.ofNat P)
      Mat.ofFn fun l c => D1.at l c / mp
    else D1
  let og : α := if mute then Scalar.ofNat 0 else objGain
  Mat.ofFn fun l c => D2.at l c * (gains[c.1] * og)

/-- Options of `HOADecoderDesign` (defaults as in the code). -/
structure Opts where
  normMeanPower : Bool := true
  maxRE : Bool := false
  maxREScale : MaxREScale := .none
  deriving Repr

/-- `HOADecoderDesign.design(type_metadata)`: `ord` = `type_metadata.orders`, `coef` = the per-order maxRE table. -/
@[specialize] def design {L C P : Nat} (o : Opts) (G : Mat α L P) (Y : Mat α C P) (nN3D nrm : Vector α C)
    (ord : Vector Nat C) (coef : Nat → α) (gains : Vector α C) (objGain : α) (mute : Bool) : Mat α L C :=
  designW G Y nN3D nrm (if o.maxRE then some (maxREWeights coef ord o.maxREScale L) else none)
    o.normMeanPower gains objGain mute

/-- `HOARenderer`: `output_samples[:, ~layout.is_lfe] += input · decoderᵀ` into a zero block, seen as the gain
matrix from the pack's channels to *all* output channels: decoder rows go to the non-LFE channels in
order, LFE channels keep the zero row. `none` = numpy's shape error when the number of non-LFE channels
differs from the number of decoder rows. -/
def route {C : Nat} (zero : α) : List Bool → List (Vector α C) → Option (List (Vector α C))
  | [], [] => some []
  | [], _ :: _ => none
  | true :: t, rows => (route zero t rows).map (Vector.replicate C zero :: ·)
  | false :: _, [] => none
  | false :: t, r :: rows => (route zero t rows).map (r :: ·)

/-- `HOARenderer.render` of one sample frame `x` (one value per channel of the pack) for one rendering item:
```
output_samples = np.zeros((n, n_out))                                          # HOARenderer.render
output_samples[ovl, ~is_lfe] += np.dot(input_samples[ovl], decoder.T)           # FixedMatrix.process
```
per output channel: LFE channels are never written and keep the `0.0` of `np.zeros`; non-LFE channel number `i` (counted
among the non-LFE ones) gets `0.0 + Σ_c decoder[i, c]·x[c]`. `none` = numpy's shape error when the number of non-LFE
channels differs from the number of decoder rows. -/
def renderFrame {C : Nat} (lfe : List Bool) (rows : List (Vector α C)) (x : Vector α C) : Option (List α) :=
  match lfe, rows with
  | [], [] => some []
  | [], _ :: _ => none
  | true :: t, rows => (renderFrame t rows x).map (Scalar.ofNat 0 :: ·)
  | false :: _, [] => none
  | false :: t, r :: rows =>
    (renderFrame t rows x).map ((Scalar.ofNat 0 + finSum fun c : Fin C => r[c.1] * x[c.1]) :: ·)

end kernel

/-! ### Channel numbering and normalisation factors -/

/-- `hoa.to_acn(n, m) = n*n + n + m` -/
def toAcn (n m : Int) : Int := n * n + n + m

/-- largest `k ≤ bound` with `k*k ≤ a` (structural, so that the kernel can evaluate it) -/
def isqrtAux (a : Nat) : Nat → Nat
  | 0 => 0
  | k + 1 => if (k + 1) * (k + 1) ≤ a then k + 1 else isqrtAux a k

/-- integer square root = `np.sqrt(acn).astype(int)` for the channel numbers in use -/
def isqrt (a : Nat) : Nat := isqrtAux a a

/-- `hoa.from_acn(acn)`: `n = np.sqrt(acn).astype(int)` (integer square root for the small values used),
`m = acn - n*n - n`. -/
def fromAcn (acn : Nat) : Nat × Int :=
  let n := isqrt acn
  (n, (acn : Int) - n * n - n)

def fact : Nat → Nat
  | 0 => 1
  | n + 1 => (n + 1) * fact n

/-- `hoa.fact(n - abs_m)` = `scipy.special.factorial(n - abs_m, exact=True).astype(float)` on an integer difference
that may be negative: scipy returns `0` for negative arguments.  (`n - abs_m` is negative when `|degree| > order`; nothing in the real
code rejects such a channel.) -/
def factSub (n m : Nat) : Nat := if n < m then 0 else fact (n - m)

/-- `norm_N3D(n, |m|)² = (2n+1)·(n-|m|)!/(n+|m|)!` as (numerator, denominator); `0` for `|m| > n`, as the code. -/
def n3dSq (n m : Nat) : Nat × Nat := ((2 * n + 1) * factSub n m, fact (n + m))

/-- `norm_SN3D(n, |m|)² = (n-|m|)!/(n+|m|)!`; `0` for `|m| > n`, as the code. -/
def sn3dSq (n m : Nat) : Nat × Nat := (factSub n m, fact (n + m))

/-- squares of the `convert` table in `norm_FuMa`; `none` = `KeyError` -/
def fumaFactorSq : Nat → Nat → Option (Nat × Nat)
  | 0, 0 => some (1, 2)
  | 1, 0 => some (1, 1)
  | 1, 1 => some (1, 1)
  | 2, 0 => some (1, 1)
  | 2, 1 => some (4, 3)
  | 2, 2 => some (4, 3)
  | 3, 0 => some (1, 1)
  | 3, 1 => some (45, 32)
  | 3, 2 => some (9, 5)
  | 3, 3 => some (8, 5)
  | _, _ => none

/-- `norm_FuMa(n, |m|)²`; `none` = rejected by the real code (`ValueError` for n > 3, `KeyError` for |m| > n). -/
def fumaSq (n m : Nat) : Option (Nat × Nat) :=
  (fumaFactorSq n m).map fun f => ((sn3dSq n m).1 * f.1, (sn3dSq n m).2 * f.2)

section norms
variable {α : Type} [Scalar α]

/-- `np.sqrt((2.0*n + 1.0) * fact(n-abs_m) / fact(n+abs_m))` (element-wise) -/
def normN3D (n m : Nat) : α :=
  Scalar.sqrt ((Scalar.ofNat (2 * n + 1) * Scalar.ofNat (factSub n m)) / Scalar.ofNat (fact (n + m)))

/-- `np.sqrt(fact(n-abs_m) / fact(n+abs_m))` -/
def normSN3D (n m : Nat) : α :=
  Scalar.sqrt (Scalar.ofNat (factSub n m) / Scalar.ofNat (fact (n + m)))

/-- the `convert` dict of `norm_FuMa` (floats as the code writes them) -/
def fumaFactor : Nat → Nat → Option α
  | 0, 0 => some (Scalar.ofNat 1 / Scalar.sqrt (Scalar.ofNat 2))
  | 1, 0 => some (Scalar.ofNat 1)
  | 1, 1 => some (Scalar.ofNat 1)
  | 2, 0 => some (Scalar.ofNat 1)
  | 2, 1 => some (Scalar.ofNat 2 / Scalar.sqrt (Scalar.ofNat 3))
  | 2, 2 => some (Scalar.ofNat 2 / Scalar.sqrt (Scalar.ofNat 3))
  | 3, 0 => some (Scalar.ofNat 1)
  | 3, 1 => some (Scalar.sqrt (Scalar.ofNat 45 / Scalar.ofNat 32))
  | 3, 2 => some (Scalar.ofNat 3 / Scalar.sqrt (Scalar.ofNat 5))
  | 3, 3 => some (Scalar.sqrt (Scalar.ofNat 8 / Scalar.ofNat 5))
  | _, _ => none

/-- `norm_FuMa(n, abs_m)` for one channel: `norm_SN3D(n, abs_m) * conv_factor`; `none` = the real code raises.
The real function is called on whole channel arrays and must act element-wise whatever the order of the
channels (this is where the repaired integer-dtype defect lived); the correspondence checks that. -/
def normFuMa (n m : Nat) : Option α :=
  (fumaFactor n m).map fun f => normSN3D n m * f

/-- the pack's per-channel norm factor by convention name index: 0 = N3D, 1 = SN3D, 2 = FuMa -/
def normBy (conv : Nat) (n m : Nat) : Option α :=
  match conv with
  | 0 => some (normN3D n m)
  | 1 => some (normSN3D n m)
  | 2 => normFuMa n m
  | _ => none

/-- does `norm(n, |m|)` return (rather than raise) for this convention index?  (N3D / SN3D always; FuMa exactly on its
`convert` table; an unknown convention name is a `KeyError` in `hoa.norm_functions`) -/
def normDefined (conv : Nat) (n m : Nat) : Bool :=
  match conv with
  | 0 => true
  | 1 => true
  | 2 => (fumaFactorSq n m).isSome
  | _ => false

/-! ### Real spherical harmonics (`hoa.sph_harm`, `hoa.Alegendre`) -/

/-- `P_m^m(x)` without the Condon–Shortley phase: `(2m−1)!!·(1−x²)^{m/2}`, with `c = √(1−x²)`. -/
def legDiag (c : α) : Nat → α
  | 0 => Scalar.ofNat 1
  | m + 1 => Scalar.ofNat (2 * m + 1) * c * legDiag c m

/-- `(P_{m+j}^m(x), P_{m+j−1}^m(x))` by the upward recurrence in the order
`(n−m)·P_n^m = (2n−1)·x·P_{n−1}^m − (n+m−1)·P_{n−2}^m`, started at `P_m^m`, `P_{m−1}^m = 0`. -/
def legUp (m : Nat) (x c : α) : Nat → α × α
  | 0 => (legDiag c m, Scalar.ofNat 0)
  | j + 1 =>
    let (p1, p0) := legUp m x c j
    let n := m + j + 1
    ((Scalar.ofNat (2 * n - 1) * x * p1 - Scalar.ofNat (n + m - 1) * p0) / Scalar.ofNat (j + 1), p1)

/-- `hoa.Alegendre(n, m, x) = (-1.0)**m * scipy.special.lpmv(m, n, x)` for `0 ≤ m`: the associated Legendre function
without the Condon–Shortley phase (scipy's `lpmv` includes it; the code removes it); `0` for `m > n` (as `lpmv`).
scipy is a black box: this closed form / recurrence is tied to it by the correspondence on `sph_harm`. -/
def alegendre (n m : Nat) (x : α) : α :=
  if n < m then Scalar.ofNat 0 else (legUp m x (Scalar.sqrt (Scalar.ofNat 1 - x * x)) (n - m)).1

/-- the `scale` array of `hoa.sph_harm`: `1` for `m = 0`, `√2·cos(m·az)` for `m > 0`, `−√2·sin(m·az)` for `m < 0` -/
def azScale (m : Int) (az : α) : α :=
  if 0 < m then Scalar.sqrt (Scalar.ofNat 2) * Scalar.cos (Scalar.ofNat m.natAbs * az)
  else if m < 0 then -(Scalar.sqrt (Scalar.ofNat 2)) * Scalar.sin (-(Scalar.ofNat m.natAbs) * az)
  else Scalar.ofNat 1

/-- `hoa.sph_harm(n, m, az, el, norm)` for one channel and one direction, `nf = norm(n, |m|)`:
`norm(n, np.abs(m)) * Alegendre(n, np.abs(m), np.sin(el)) * scale`. -/
def sphHarm (nf : α) (n : Nat) (m : Int) (az el : α) : α :=
  nf * alegendre n m.natAbs (Scalar.sin el) * azScale m az

end norms

/-! ### The whole of `HOADecoderDesign.design` from the pack's channel list -/

section pack
variable {α : Type} [Scalar α]

/-- `Y_virt = sph_harm(n[:, None], m[:, None], az[None], el[None], norm=norm_N3D)`: one row per channel of the pack,
one column per virtual loudspeaker direction. -/
@[specialize] def yVirt {C P : Nat} (ord : Vector Nat C) (deg : Vector Int C) (az el : Vector α P) : Mat α C P :=
  Mat.ofFn fun c p => sphHarm (normN3D ord[c.1] deg[c.1].natAbs) ord[c.1] deg[c.1] az[p.1] el[p.1]

/-- `norm_N3D(n, np.abs(m))` on the channel arrays (element-wise) -/
def n3dVec {C : Nat} (ord : Vector Nat C) (deg : Vector Int C) : Vector α C :=
  Vector.ofFn fun c => normN3D ord[c.1] deg[c.1].natAbs

/-- `norm(n, np.abs(m))` on the channel arrays for the pack's convention (element-wise: entry `c` depends on channel
`c` only); `none` = the real function raises (FuMa outside its table, unknown convention). -/
def normVec {C : Nat} (conv : Nat) (ord : Vector Nat C) (deg : Vector Int C) : Option (Vector α C) :=
  if (List.finRange C).all (fun c => normDefined conv ord[c.1] deg[c.1].natAbs) then
    some (Vector.ofFn fun c => ((normBy conv ord[c.1] deg[c.1].natAbs : Option α).getD (Scalar.ofNat 0)))
  else none

/-- `HOADecoderDesign.design(type_metadata)` from the pack's orders, degrees and normalisation, the virtual
loudspeaker directions (`az`, `el` in radians, as `design` derives them from the t-design points) and `G_virt`;
everything between the metadata and the decoder matrix is inside: `norm_*`, `sph_harm`, `allrad_design`, maxRE,
mean-power normalisation, gains.  `none` = the real call raises in `norm`. -/
@[specialize] def designPack {L C P : Nat} (o : Opts) (G : Mat α L P) (az el : Vector α P) (conv : Nat)
    (ord : Vector Nat C) (deg : Vector Int C) (coef : Nat → α) (gains : Vector α C) (objGain : α) (mute : Bool) :
    Option (Mat α L C) :=
  (normVec conv ord deg).map fun nrm =>
    design o G (yVirt ord deg az el) (n3dVec ord deg) nrm ord coef gains objGain mute

end pack

end Earverif.Hoa
