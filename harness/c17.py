"""C17 — unfinished or truncated BW64 files are never misread.

Correspondence: the unclosed buffer after every writer call (bytes and the reader's verdict; every prefix of some of
them), every proper prefix of finalised files, and crafted byte strings around a `data` header that holds the
0xFFFFFFFF placeholder, real Bw64Writer/Bw64Reader vs the Lean byte models.  Search: the two predicates of the property
on the real code alone, and never-closed sparse files of 4 GiB and more (`big_unclosed_probe`).
"""
import multiprocessing
import struct

import numpy as np

from .common import Spec, Driver
from . import c09
from .c09 import (real_write, real_read, canon_real, parse_read_answer, write_line, val, case_repr, case_features,
                  effective_chunks, mk_chna, mk_case, CHNA_OPTS, CHUNK_OPTS, FRAME_OPTS, _vrepr, split_write_answer)

MAX_LEN = 600


def big_unclosed_probe(ctx):
    """Unfinished plain-RIFF files with 2^32 - 1 or more data bytes, on the REAL code, as sparse files on disk (the
    writer's own header, never closed; the data is a hole of zeros, i.e. digital silence written in any number of
    write calls).  The placeholder 0xFFFFFFFF in the data header then describes a chunk that ends at or inside the
    file, which is where `C17_unclosed` needed its bound.  The property says: rejected with an error."""
    import os, shutil, tempfile, warnings
    from ear.fileio.bw64 import Bw64Reader, Bw64Writer
    from ear.fileio.bw64.chunks import FormatInfoChunk
    d = tempfile.mkdtemp(prefix="c17big_")
    try:
        for bits, ch in ((24, 1), (16, 1), (16, 2), (32, 3)):
            for n in (2 ** 32 - 1, 2 ** 32, 2 ** 32 + 2, 2 ** 32 + 6 * 4096):
                n -= n % (bits // 8 * ch) if n != 2 ** 32 - 1 else 0
                path = os.path.join(d, "u.wav")
                with open(path, "w+b") as f:
                    Bw64Writer(f, FormatInfoChunk(formatTag=1, channelCount=ch, sampleRate=48000, bitsPerSample=bits))
                    f.flush()
                    hdr = f.tell()
                    f.truncate(hdr + n)
                ctx.count("big-unclosed:probes")
                inp = dict(bits=bits, channels=ch, header_bytes=hdr, data_bytes=n, never_closed=True,
                           how="Bw64Writer(file, fmt) without close(); file.truncate(header + data_bytes)")
                try:
                    with warnings.catch_warnings(record=True) as ws:
                        warnings.simplefilter("always")
                        with open(path, "rb") as g:
                            r = Bw64Reader(g)
                            frames = len(r)
                    ctx.hit("unfinished file accepted", inp,
                            dict(frames=frames, warnings=[str(w.message) for w in ws]),
                            ["unclosed-accepted", "unclosed-4gib-placeholder"])
                except (ValueError, RuntimeError):
                    ctx.count("big-unclosed:rejected")
                os.remove(path)
    finally:
        shutil.rmtree(d, ignore_errors=True)


def _chunk(cid, body, size=None, pad=True):
    return cid + struct.pack("<I", len(body) if size is None else size) + body + (b"\0" if pad and len(body) & 1 else b"")


def crafted_placeholder_files(rng):
    """Small hand-laid byte strings around the `data` header whose size field is 0xFFFFFFFF (the branch added to
    `_read_chunk_header` by 61d37f4), for model-vs-code comparison: [(label, bytes, expected kind or None)].
    The implied end of such a chunk is 4 GiB away, so every small file is cut *before* it (at / after the implied end
    is `big_unclosed_probe`, real code only); the at/after/before family is run with small size fields next to it,
    so that the neighbouring branches of the chunk walk are compared on the same layouts."""
    out = []
    FF = b"\xff\xff\xff\xff"
    junk = _chunk(b"JUNK", bytes(28))

    def riff(body, size=None, ff=b"RIFF"):
        return ff + (FF if size is None else struct.pack("<I", size)) + b"WAVE" + body

    for bits, ch in ((16, 1), (24, 1), (16, 2), (32, 3)):
        ba = ch * bits // 8
        fmt = _chunk(b"fmt ", struct.pack("<HHIIHH", 1, ch, 48000, 48000 * ba, ba, bits))
        t = "%d/%d" % (bits, ch)
        pres = (("fmt", fmt), ("junk+fmt", junk + fmt), ("junk+fmt+axml-odd", junk + fmt + _chunk(b"axml", b"<a>")),
                ("fmt+bext-even", fmt + _chunk(b"bext", b"abcd")), ("no-fmt", junk))
        frames3 = bytes(rng.randrange(256) for _ in range(3 * ba))
        rests = (("nothing", b""), ("1-byte", b"\x01"), ("1-frame", frames3[:ba]),
                 ("3-frames+pad+late-axml", frames3 + (b"\0" if len(frames3) & 1 else b"") + _chunk(b"axml", b"<x/>")),
                 ("random", bytes(rng.randrange(256) for _ in range(rng.randrange(2, 40)))))
        for pn, pre in pres:
            for rn, rest in rests:
                body = pre + b"data" + FF + rest
                # RIFF size field: the writer's own placeholder, or the true size
                out.append(("placeholder:%s:%s:%s" % (t, pn, rn), riff(body, None if len(out) % 2 else 4 + len(body)),
                            "dataPlaceholder"))
        pre = junk + fmt
        # the placeholder header itself cut short: no data chunk is seen
        whole = riff(pre + b"data" + FF)
        for k in range(1, 9):
            out.append(("placeholder-header-cut:%s:-%d" % (t, k), whole[:len(whole) - k], "missingChunk"))
        # neighbouring size fields: not the placeholder, the chunk ends after the end of the file
        for n in (0xFFFFFFFE, 0xFFFFFFFD, 0x80000000, 0xFFFFFF00):
            out.append(("near-placeholder:%s:%#x" % (t, n), riff(pre + _chunk(b"data", frames3, size=n, pad=False)), "chunkEnd"))
        # small size fields n with the file cut before / at / after the implied end
        for n in (2 * ba, 2 * ba + 1, 3 * ba):
            for dl, what in ((-1, "before"), (0, "at"), (1, "after-1"), (2, "after-2")):
                rest = (frames3 + bytes(8))[:n + dl]
                out.append(("small-size:%s:n=%d:%s" % (t, n, what), riff(pre + b"data" + struct.pack("<I", n) + rest), None))
        # 0xFFFFFFFF in the size field of other chunk ids: the test is for b'data' only
        for cid in (b"axml", b"JUNK", b"DATA", b"dat ", b"data"[::-1]):
            out.append(("ffffffff-in-%s:%s" % (cid.decode(), t), riff(pre + cid + FF + frames3), "chunkEnd"))
        # a complete data chunk first, then a second data header with the placeholder
        out.append(("second-data-placeholder:%s" % t, riff(pre + _chunk(b"data", frames3) + b"data" + FF + frames3),
                    "dataPlaceholder"))
        # an invalid id before it is reported first; a missing fmt chunk is not (the walk comes first)
        out.append(("bad-id-first:%s" % t, riff(pre + b"a\0\0\0" + struct.pack("<I", 0) + b"data" + FF), "badId"))
        # RF64/BW64 with a ds64 chunk: the field is ignored, the size comes from ds64 -- the branch is not taken
        for ff in (b"BW64", b"RF64"):
            for dsz, want in ((len(frames3), "ok"), (len(frames3) + 2, "chunkEnd"), (0xFFFFFFFF, "chunkEnd")):
                ds64 = _chunk(b"ds64", struct.pack("<QQQI", 0, dsz, 0, 0))
                tail = frames3 + (b"\0" if len(frames3) & 1 else b"")
                out.append(("ds64:%s:%s:dataSize=%d" % (ff.decode(), t, dsz), riff(ds64 + fmt + b"data" + FF + tail, ff=ff), want))
        # the same bytes labelled RIFF: ds64 is an ordinary chunk, nothing corrects the size, the branch is taken
        ds64 = _chunk(b"ds64", struct.pack("<QQQI", 0, len(frames3), 0, 0))
        out.append(("ds64-relabelled-RIFF:%s" % t, riff(ds64 + fmt + b"data" + FF + frames3 + (b"\0" if len(frames3) & 1 else b"")),
                    "dataPlaceholder"))
    # finalised forced-BW64 files from the real writer, relabelled RIFF
    for i in range(6):
        case = mk_case(rng, [16, 24, 32][i % 3], 1 + i % 4, FRAME_OPTS[i % 6], rng.choice(CHNA_OPTS), rng.choice(CHUNK_OPTS),
                       rng.choice(CHUNK_OPTS), True, small=True)
        data, _ = real_write(case)
        out.append(("written-bw64-relabelled-RIFF:%d" % i, b"RIFF" + data[4:], "dataPlaceholder"))
    return out


def unclosed_predicate(snap):
    """None if the reader rejects the unfinished file, else (what, detail, tags)."""
    r = real_read(snap)
    if r[0] == "err" and not r[1].startswith("after-open"):
        return None
    if r[0] == "err":
        return ("unfinished file accepted by the constructor, reading it fails", r[1], ["unclosed-accepted"])
    return ("unfinished file accepted", dict(frames=r[1]["frames"], warns=r[1]["warns"]), ["unclosed-accepted"])


def truncation_predicate(case, k, r):
    """r = real_read(file[:k]). None if rejected, or accepted with the original frames/format and only complete
    chunks; else (what, detail, tags)."""
    if r[0] == "err":
        if r[1].startswith("after-open"):
            return ("truncated file accepted by the constructor but reading the samples fails", r[1], ["truncated-misread"])
        return None
    _, res, samples, chna = r
    want = effective_chunks(case)
    if (res["tag"], res["ch"], res["rate"], res["bits"]) != (1, case["ch"], case["rate"], case["bits"]):
        return ("truncated file read with another format", (res["tag"], res["ch"], res["rate"], res["bits"]),
                ["truncated-misread"])
    got = np.asarray(samples)
    x = np.clip(case["samples"], -1.0, 1.0)
    if res["frames"] != case["frames"] or got.shape != x.shape:
        return ("truncated file read with another frame count", dict(frames=res["frames"], shape=got.shape,
                                                                     original=case["frames"]), ["truncated-misread"])
    if x.size and float(np.abs(got - x).max()) > (1 + 1e-9) / float(2 ** (case["bits"] - 1) - 1):
        return ("truncated file read with other samples", None, ["truncated-misread"])
    for key in ("axml", "bext"):
        if res[key] is not None and res[key] != want[key]:
            return ("truncated file yields a partial/different %s chunk" % key,
                    dict(original=_vrepr(want[key]), read=_vrepr(res[key])), ["truncated-partial-chunk"])
    if chna is not None and chna != mk_chna(want["chna"]):
        return ("truncated file yields a different chna chunk", repr(chna), ["truncated-partial-chunk"])
    return None


def small_cases(rng, n):
    """files of at most MAX_LEN bytes: every chunk combination appears (cycling), short payloads."""
    cases, i = [], 0
    combos = [(c, a, b, f) for c in CHNA_OPTS for a in CHUNK_OPTS for b in CHUNK_OPTS for f in (False, True)]
    rng.shuffle(combos)
    while len(cases) < n:
        c, a, b, f = combos[i % len(combos)]
        if i >= len(combos):
            c, a, b, f = rng.choice(CHNA_OPTS), rng.choice(CHUNK_OPTS), rng.choice(CHUNK_OPTS), rng.random() < 0.5
        bits = [16, 24, 32][i % 3]
        ch = 1 + (i // 3) % 4
        fr = FRAME_OPTS[(i // 12 + i) % 6]
        i += 1
        case = mk_case(rng, bits, ch, fr, c, a, b, f, small=True)
        cases.append(case)
    return cases


def _trunc_worker(args):
    """all prefixes of one file through the real reader: (canonical results, first predicate failure)"""
    case, data = args
    res, bad = [], None
    for k in range(len(data)):
        r = real_read(data[:k])
        res.append(canon_real(r))
        if bad is None:
            b = truncation_predicate(case, k, r)
            if b:
                bad = (k, b)
    return res, bad


THEOREMS = (
    "unclosedFile_layout", "readChunkHeader_placeholder", "readChunks_placeholder", "riff_placeholder_rejected",
    "C17_unclosed", "unclosed_rejected_any_size", "riff_placeholder_prefix_rejected", "C17_unclosed_prefix",
    "take_encAll", "walk_prefix", "prefix_lateC", "trunc_body", "readHead_riff_short", "readHead_bw64_short",
    "closedFile_written", "C17_truncation",
)


class C17(Spec):
    pid = "C17"
    lean_targets = ("Earverif.Props.C17", "c09driver")
    props_module = "Earverif.Props.C17"
    theorems = tuple("Earverif.Bw64." + t for t in THEOREMS)
    trusted_base = c09.C09.trusted_base
    assumptions = c09.C09.assumptions + (
        "C17_unclosed has no bound on the amount of data any more (any history, any number of data bytes, forceBw64 either "
        "way): since commit 61d37f4 the reader rejects the 0xFFFFFFFF data size placeholder of a plain RIFF file outright. "
        "Its remaining hypotheses are the writer's own struct.pack limits on the constructor chunks (ChnaOK / BytesOK), "
        "without which the real constructor raises and leaves no such buffer",
    )
    rule = (
        "crash points: the buffer after construction and after every write/setter call of a generated history; "
        "truncation: every offset 0..len-1 of every generated finalised file of at most 600 bytes (bit depth x "
        "channels x frame class x chunk presence/parity/placement x forceBw64, cycling through all combinations); "
        "crafted: hand-laid plain-RIFF / RF64 / BW64 byte strings around a data header holding 0xFFFFFFFF (4 formats x "
        "chunk prefixes x what follows, header cut short, neighbouring size fields, other chunk ids, ds64 present); "
        "a case is one (history, crash point), (file, offset) or crafted file; distinct by the bytes fed to the reader"
    )

    def _unclosed(self, ctx, cases, driver):
        lines, metas = [], []
        for ci, case in enumerate(cases):
            try:
                _, snaps = real_write(case, close=False, snapshots=True)
            except Exception as e:
                ctx.hit("writer raised", case_repr(case), "%s: %s" % (type(e).__name__, e), ["writer-exception"])
                continue
            for n, snap in enumerate(snaps):
                metas.append((case, n, snap))
                if driver:
                    # alternate sample-level (the model encodes the floats) and byte-level histories
                    lines.append(write_line(case, False, nops=n, mode="samples" if (ci + n) % 2 == 0 else "bytes"))
                    lines.append("read " + val(snap))
        outs = driver.run(lines) if driver else []
        for i, (case, n, snap) in enumerate(metas):
            r = real_read(snap)
            ctx.case(("unclosed", snap), True,
                     sample=dict(kind="unclosed", features=case_features(case), after_ops=n, verdict=str(canon_real(r))[:200]))
            ctx.count("unclosed:after-%s" % ("init" if n == 0 else case["ops"][n - 1][0]))
            ctx.count("unclosed:verdict:" + (r[1] if r[0] == "err" else "accepted"))
            if driver:
                ok = True
                flag, wout = split_write_answer(outs[2 * i])
                ctx.count("unclosed:theorem-hypotheses:" + {"H": "inside", "N": "OUTSIDE", None: "no-answer"}[flag])
                if flag == "N":
                    ok = False
                    ctx.disagree("generated history outside the hypotheses of C17_unclosed (generator drifted)",
                                 dict(case=case_repr(case), after_ops=n), "N", "H expected")
                if wout != snap.hex():
                    ok = False
                    ctx.disagree("unclosed Bw64Writer buffer vs Earverif.Bw64.unclosedFile(S)",
                                 dict(case=case_repr(case), after_ops=n), wout, snap.hex())
                m = parse_read_answer(outs[2 * i + 1])
                if m != canon_real(r):
                    ok = False
                    ctx.disagree("Bw64Reader on unclosed file vs Earverif.Bw64.readFile", dict(file=snap.hex()), m, canon_real(r))
                if ok:
                    ctx.validated()
            bad = unclosed_predicate(snap)
            if bad:
                ctx.hit(bad[0], dict(case=case_repr(case), after_ops=n, file=snap.hex()), bad[1], bad[2])
        # unfinished AND truncated (theorem C17_unclosed_prefix): every prefix of some of the unclosed buffers, model vs code
        if driver:
            some = [snap for i, (_, _, snap) in enumerate(metas) if i % 25 == 0 and len(snap) <= MAX_LEN][:40 if ctx.quick else 400]
            outs = driver.run(["trunc " + snap.hex() for snap in some])
            for snap, out in zip(some, outs):
                models = [parse_read_answer(a) for a in out.split(" | ")]
                for k in range(len(snap)):
                    r = canon_real(real_read(snap[:k]))
                    ctx.case(("unclosed-prefix", snap[:k]), True)
                    ctx.count("unclosed-prefix:verdict:" + (r[1] if r[0] == "err" else "accepted"))
                    if k >= len(models) or models[k] != r:
                        ctx.disagree("Bw64Reader on a prefix of an unclosed buffer vs Earverif.Bw64.readFile",
                                     dict(file=snap.hex(), cut=k), models[k] if k < len(models) else None, r)
                    else:
                        ctx.validated()

    def _truncations(self, ctx, cases, driver, procs=1):
        files = []
        for case in cases:
            try:
                data, _ = real_write(case)
            except Exception as e:
                ctx.hit("writer raised", case_repr(case), "%s: %s" % (type(e).__name__, e), ["writer-exception"])
                continue
            if len(data) <= MAX_LEN:
                files.append((case, data))
            else:
                ctx.count("trunc:file-too-long-skipped")
        outs = driver.run(["trunc " + d.hex() for _, d in files]) if driver else [None] * len(files)
        if procs > 1:
            with multiprocessing.Pool(procs) as pool:
                reals = pool.map(_trunc_worker, files, chunksize=8)
        else:
            reals = [_trunc_worker(f) for f in files]
        for (case, data), out, (res, bad) in zip(files, outs, reals):
            for f in case_features(case):
                ctx.count("trunc-file:" + f)
            ctx.count("trunc-file:" + ("BW64" if data[:4] == b"BW64" else "RIFF"))
            models = [parse_read_answer(a) for a in out.split(" | ")] if driver else [None] * len(res)
            if driver and len(models) != len(res):
                ctx.disagree("trunc answer count", dict(file=data.hex()), len(models), len(res))
                continue
            for k, (r, m) in enumerate(zip(res, models)):
                ctx.case(("trunc", data[:k]), True,
                         sample=dict(kind="truncation", file_len=len(data), cut=k, verdict=str(r)[:200]) if r[0] == "ok" or k % 37 == 0 else None)
                if r[0] == "err":
                    ctx.count("trunc:verdict:" + r[1])
                else:
                    ctx.count("trunc:verdict:accepted" + ("+warning" if r[1]["warns"] else ""))
                    for key in ("chna", "axml", "bext"):
                        ctx.count("trunc:accepted:%s:%s" % (key, "absent" if r[1][key] is None else "complete"))
                if driver:
                    if m != r:
                        ctx.disagree("Bw64Reader on truncated file vs Earverif.Bw64.readFile",
                                     dict(file=data.hex(), cut=k), m, r)
                    else:
                        ctx.validated()
            if bad:
                k, b = bad
                ctx.hit(b[0], dict(case=case_repr(case), file=data.hex(), cut=k), b[1], b[2])

    def _crafted(self, ctx, driver):
        files = crafted_placeholder_files(ctx.rng)
        outs = driver.run(["read " + val(d) for _, d, _ in files]) if driver else [None] * len(files)
        for (label, data, want), out in zip(files, outs):
            r = real_read(data)
            got = "ok" if r[0] == "ok" else r[1]
            fam = label.split(":")[0]
            ctx.count("crafted:%s:%s" % (fam, got + ("+warning" if r[0] == "ok" and r[1]["warns"] else "")))
            ctx.case(("crafted", data), True,
                     sample=dict(kind="crafted", label=label, file_len=len(data), verdict=str(canon_real(r))[:160])
                     if fam != "placeholder" or label.endswith(("nothing", "1-frame")) else None)
            if want is not None and got != want:
                # the family is laid out for a known verdict; anything else means the reader changed (the comparison
                # with the model below decides whether that is a disagreement)
                ctx.count("crafted:UNEXPECTED:%s" % fam)
            if driver:
                m = parse_read_answer(out)
                if m != canon_real(r):
                    ctx.disagree("Bw64Reader on crafted file (%s) vs Earverif.Bw64.readFile" % label,
                                 dict(file=data.hex()), m, canon_real(r))
                else:
                    ctx.validated()

    def correspond(self, ctx):
        driver = Driver("c09driver", "Earverif.Driver.C09")
        self._crafted(ctx, driver)
        cases = small_cases(ctx.rng, 40 if ctx.quick else 2000)
        self._truncations(ctx, cases, driver, procs=1 if ctx.quick else 12)
        ucases = c09.grid_cases(ctx.rng, 100 if ctx.quick else 3000)
        if ctx.quick:
            ucases = ucases[::3]
        self._unclosed(ctx, ucases, driver)

    def search(self, ctx, deep):
        big_unclosed_probe(ctx)
        if not deep:
            return
        # real code alone: more files, all offsets; more crash points
        rng = ctx.rng
        self._truncations(ctx, small_cases(rng, 600), None, procs=12)
        self._unclosed(ctx, c09.grid_cases(rng, 500, small=True), None)


SPEC = C17()

REGISTRY = dict(
    text="FULL: Lean theorems about the byte-level models of Bw64Writer/Bw64Reader (same models as C09): "
    "Earverif.Bw64.C17_unclosed -- the buffer of a writer that was never closed, after any history of write/setter calls, "
    "any constructor or pending chunks, forceBw64 either way and ANY amount of data (no size bound), is rejected with "
    "'data chunk size has not been set; the file was not closed properly': the data header still holds the 0xFFFFFFFF "
    "placeholder, which _read_chunk_header refuses in a plain RIFF file (an unclosed buffer is always plain RIFF: only close() "
    "rewrites the header). It is an instance of riff_placeholder_rejected: RIFF/WAVE header + any well-formed chunks + "
    "'data' + 0xFFFFFFFF + any bytes whatsoever is rejected. unclosed_rejected_any_size restates it at >= 2^32 - 1 data bytes, "
    "the former excluded point. C17_unclosed_prefix (beyond the property text): every prefix of an unclosed buffer is rejected "
    "too (struct.error / chunk end / required chunk missing / data size not set, by where the cut falls). "
    "Earverif.Bw64.C17_truncation -- for every finalised file in "
    "C09's quantifier and every cut position k < length, readFile (file.take k) is an error or succeeds with the same "
    "format, the same frame count, exactly the same sample bytes and each of chna/axml/bext absent or identical "
    "(TruncOK); the data header of a finalised RIFF file never holds the placeholder (close() chooses BW64 unless the RIFF "
    "size, which exceeds the data size by at least 72, is < 2^32), in a BW64 file it does and the size comes from ds64. "
    "Proof by the layout lemma (closedFile_written), the prefix decomposition take_encAll and the chunk-walk "
    "lemma walk_prefix (EOF inside a header, error inside a body or pad, data chunk lacking only its pad byte accepted "
    "with a warning). The models are tied to the code on every run: unclosed buffer bytes and reader verdict after "
    "construction and after every call of generated histories (and every prefix of every 25th such buffer), every truncation offset of generated finalised files "
    "<= 600 bytes (quick 40 files, thorough 2000 files + 600 more on the real code alone), and ~230 crafted plain-RIFF / "
    "RF64 / BW64 byte strings around a data header holding 0xFFFFFFFF (what follows it, header cut short, neighbouring size "
    "fields, small size fields cut before/at/after the implied end, other chunk ids, a second data chunk, ds64 present), "
    "error kinds and parsed fields compared; the two predicates of the property run on the real code for every case; "
    "big_unclosed_probe runs the real reader on 16 never-closed sparse files with 2^32 - 1 .. 2^32 + 24576 data bytes "
    "(placeholder chunk ending at / inside the file) on every run.",
    note="Trusted: as C09 (Lean kernel, hand transliteration + correspondence, BytesIO semantics as modelled; sample "
    "encoding is C16's model, run inside the writer model for every second crash-point history). DEFECT FOUND BY THIS CHECK "
    "AND REPAIRED (commit 61d37f4 in /repo): the reader had no test for the placeholder and relied on the placeholder chunk "
    "ending after the end of the file, so an unfinished plain-RIFF file with 2^32 - 1 data bytes was accepted (missing-pad "
    "warning only; e.g. 24-bit mono) and with >= 2^32 bytes sample bytes were parsed as chunk headers; C17_unclosed then "
    "carried the hypothesis 'fewer than 2^32 - 1 data bytes' and the excluded point was stated as theorems "
    "(unclosed_walk_without_bound, unclosed_at_limit_accepted, now gone with the model's new branch). Reverting the fix makes "
    "the check report VIOLATION with the sparse-file input (tag unclosed-4gib-placeholder) and a model/code disagreement on "
    "every unclosed buffer. Files of 4 GiB are compared between model and code only through the theorem (the data is a "
    "variable there) and on the real code through sparse files; the Lean driver is never fed 4 GiB. A cut that leaves the "
    "data chunk complete except for its pad byte is accepted with the 'missing padding byte' warning, by design of the reader.",
    technique="Lean 4 proof about byte-level writer/reader models + differential correspondence with the real "
    "Bw64Writer/Bw64Reader over all crash points, truncation offsets and crafted placeholder files + sparse-file search on "
    "the real code",
    design_ref="DESIGN.md section 4, C17",
)
