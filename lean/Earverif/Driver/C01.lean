/- Line protocol for the C01 gain-calculator model, run over `Float`.
   Floats travel as the decimal value of their IEEE-754 bit pattern (UInt64), both ways (exact; the
   harness prints 17 significant digits in its evidence).  Sections are separated by `;`, rows by `,`,
   groups by `/`, tokens by blanks.
   in : render P ; <n> ; <d...> ; <g row> , <g row> ... ; <D row> , <D row> ... ; <bg> <og> <mute 0/1> ; <lfe mask 0/1 ...> ; <diffuse>
        render C ; <n> ; <d...> ; <g row> , <g row> ... ; <excluded mask 0/1 ...>  ; <bg> <og> <mute 0/1> ; <lfe mask 0/1 ...> ; <diffuse>
                                          out: ok <direct...> | <diffuse...>     or  bad-shape (numpy would raise)
        div none | div <value>            out: ok <gains...>                    (diverge, gains only)
        split <diffuse> ; <gains...>      out: ok <direct...> | <diffuse...>    (direct_diffuse_split)
        ogain <mute 0/1> <object gain>    out: ok <gain>                        (get_object_gain)
        downmix ; <excluded mask> ; <groups of ch 0> , <groups of ch 1> ...    (groups of one channel separated by `/`)
                                          out: ok <row> , <row> ...  |  assert   (downmix_for_excluded)
        depth ; <p1...> ; <p2...>         out: ok <v...>                        (RMS of the two distances)
        pvspread <n> <ammount_spread> ; <p...> ; <s...>   out: ok <v...>        (calc_pv_spread skeleton)
        normalise ; <v...>                out: ok <v...>                        (panning_values_for_weight, last line)
        safenorm ; <v...>                 out: ok <v...>                        (allo_extent.get_gains safe_norm)
        extmod <extent> <distance>        out: ok <extent'>                     (PolarExtentHandler.extent_mod)
        phandle <x> <y> <z> <width> <height> <depth> ; <pv> [; <pv>]
                                          out: ok <w1> <h1> [<w2> <h2>] | <gains...>   (handle: the calc_pv_spread arguments per end
                                                                                 distance, and the combination of the given results)
        phandlefull <n> <x> <y> <z> <width> <height> <depth> ; <p...> ; <w> <h> <s...> , <w> <h> <s...> ... | none
                                          out: ok <gains...>      (the whole of `polarHandle n p s position width height depth`:
                                                                                 p = the recorded point-source answer, s = the recorded
                                                                                 normalised spread answers keyed by the clamped width/height
                                                                                 they were computed for; a missing key gives an empty vector)
        divpos <cart 0/1> <x> <y> <z> <value|none> <azimuthRange|none> <positionRange|none> <v2 0/1>
                                          out: ok <x y z> , <x y z> ...         (diverge, positions only)
        full <P|C> <n> ; <a> <b> <c> ; <offset a b c | none> ; <value|none> <azimuthRange|none> <positionRange|none> <v2 0/1> ;
             <bg> <og> <mute 0/1> <diffuse> ; <lfe mask> ; <D rows | excluded mask> ; <in xyz> <out xyz> (screen scale) ;
             <in xyz> <out xyz> (edge lock) ; <in xyz> <out xyz> (channel lock) ; <pos xyz> <gains...> , ... (extent pan calls)
                                          out: ok <direct...> | <diffuse...>  |  rejected (positionOffset leaves the range)
                                               | miss (a recorded call is not where the pipeline of the model puts it)
        concrete <C|P> <layout name> ; <a> <b> <c> ; <offset a b c | none> ; <value|none> <azimuthRange|none> <positionRange|none> <v2 0/1> ;
             <bg> <og> <mute 0/1> <diffuse> ; <screenRef 0/1> <refscreen polar 0/1> <aspect> <c1> <c2> <c3> <width> ;
             <edge horizontal n|l|r> <edge vertical n|t|b> ; <zone> , <zone> ... | none   (zone = c minX maxX minY maxY minZ maxZ
             | p minAz maxAz minEl maxEl) ; <lock: none | nomax | maxDistance>
                                          out: ok <direct...> | <diffuse...>  |  none    (renderConcreteCart / renderConcretePolarPoint:
                                               nothing captured; layout data from Gen/C01_Tables, C05_Tables, C19_Tables)
        alloext <p> <mu> <s_eff> ; <ch> , <ch> ...    (a channel = fx fy fz bLeft bRight bFront bBack bCeil bFloor gPoint)
                                          out: ok <gains...>                    (allo_extent.get_gains after the weights)
        allo <n> <x> <y> <z> ; <plane> , <plane> ...     (rows of a plane separated by `/`, a leaf = <idx> <x> <y> <z>)
                                          out: ok <gains...>  |  assert          (AllocentricPanner.handle)
   `bad-op` for a malformed line. -/
import Earverif.Model.GainCalc
import Earverif.Model.GainCalcConcrete
import Earverif.Gen.C01_Tables
import Earverif.Gen.C05_Tables
import Earverif.Gen.C19_Tables
import Earverif.Driver.Util
open Earverif.GainCalc Earverif.Driver

def parseF (s : String) : Option Float := do
  let n ← s.toNat?
  if n < 18446744073709551616 then some (Float.ofBits n.toUInt64) else none

def showF (x : Float) : String := toString x.toBits.toNat

def showFs (xs : List Float) : String := String.intercalate " " (xs.map showF)

def parseFs (s : String) : Option (List Float) := (words s).mapM parseF

def parseRows (s : String) : Option (List (List Float)) :=
  if (words s).isEmpty then some [] else (s.splitOn ",").mapM parseFs

def parseMask (s : String) : Option (List Bool) :=
  (words s).mapM fun w => if w == "0" then some false else if w == "1" then some true else none

def parseNats (s : String) : Option (List Nat) := (words s).mapM (·.toNat?)

def parseLeaves : List String → Option (List (Leaf Float))
  | [] => some []
  | i :: x :: y :: z :: rest => do
    let l : Leaf Float := ⟨← i.toNat?, ← parseF x, ← parseF y, ← parseF z⟩
    pure (l :: (← parseLeaves rest))
  | _ => none

def parseTree (s : String) : Option (Tree Float) :=
  (s.splitOn ",").mapM fun pl => (pl.splitOn "/").mapM fun row => parseLeaves (words row)

def showPair (r : List Float × List Float) : String := s!"ok {showFs r.1} | {showFs r.2}"

def answerRender (kind : String) (secs : List String) : String :=
  match secs with
  | [n, d, g, z, gains, lfe, diffuse] =>
    match parseNats n, parseFs d, parseRows g, parseFs gains, parseMask lfe, parseFs diffuse with
    | some [n], some d, some g, some [bg, og, mute], some lfe, some [diffuse] =>
      let path : Option (ZonePath Float) :=
        if kind == "P" then (parseRows z).map .polar
        else if kind == "C" then (parseMask z).map .cartesian
        else none
      match path with
      | some path =>
        if !(mute == 0.0 || mute == 1.0) then "bad-op" else
        if !shapesOk n path d g lfe then "bad-shape" else
        showPair (render n path d g bg og (mute == 1.0) lfe diffuse)
      | none => "bad-op"
    | _, _, _, _, _, _ => "bad-op"
  | _ => "bad-op"


def showV3 (p : V3 Float) : String := showFs [p.1, p.2.1, p.2.2]

def parseOpt (s : String) : Option (Option Float) := if s == "none" then some none else (parseF s).map some

def nearF (a b : Float) : Bool := (a - b).abs <= 1e-9
def nearV (a b : V3 Float) : Bool := nearF a.1 b.1 && nearF a.2.1 b.2.1 && nearF a.2.2 b.2.2
def nanV : V3 Float := (0.0 / 0.0, 0.0 / 0.0, 0.0 / 0.0)

/-- a recorded call as an oracle: answers only at (within 1e-9 of) the recorded argument -/
def tableV (tab : List (V3 Float × V3 Float)) (p : V3 Float) : V3 Float :=
  match tab.find? (fun e => nearV e.1 p) with
  | some e => e.2
  | none => nanV

def dist2 (a b : V3 Float) : Float :=
  (a.1 - b.1) * (a.1 - b.1) + (a.2.1 - b.2.1) * (a.2.1 - b.2.1) + (a.2.2 - b.2.2) * (a.2.2 - b.2.2)

/-- the recorded extent-pan calls as an oracle: the nearest recorded argument, if within 1e-9 -/
def tableG (tab : List (V3 Float × List Float)) (p : V3 Float) : List Float :=
  let best := tab.foldl (fun (acc : Option (V3 Float × List Float)) e =>
    match acc with
    | none => some e
    | some b => if dist2 e.1 p < dist2 b.1 p then some e else some b) none
  match best with
  | some e => if nearV e.1 p then e.2 else []
  | none => []

def parseIO (s : String) : Option (V3 Float × V3 Float) :=
  match parseFs s with
  | some [a, b, c, d, e, f] => some ((a, b, c), (d, e, f))
  | _ => none

def parseCall (s : String) : Option (V3 Float × List Float) :=
  match parseFs s with
  | some (a :: b :: c :: g) => some ((a, b, c), g)
  | _ => none

def answerFull (kind : String) (secs : List String) : String :=
  match secs with
  | [n, coords, off, dv, gains, lfe, z, ss, el, cl, ext] =>
    let offset : Option (Option (V3 Float)) :=
      if words off == ["none"] then some none
      else match parseFs off with
        | some [a, b, c] => some (some (a, b, c))
        | _ => none
    let dvp : Option (Option Float × Option Float × Option Float × Bool) :=
      match words dv with
      | [v, ar, pr, v2] =>
        match parseOpt v, parseOpt ar, parseOpt pr with
        | some v, some ar, some pr => if v2 == "0" then some (v, ar, pr, false) else if v2 == "1" then some (v, ar, pr, true) else none
        | _, _, _ => none
      | _ => none
    let path : Option (ZonePath Float) :=
      if kind == "P" then (parseRows z).map .polar else if kind == "C" then (parseMask z).map .cartesian else none
    match parseNats n, parseFs coords, offset, dvp, parseFs gains, parseMask lfe, path, parseIO ss, parseIO el, parseIO cl,
        (ext.splitOn ",").mapM parseCall with
    | some [n], some [a, b, c], some offset, some (v, ar, pr, v2), some [bg, og, mute, diffuse], some lfe, some path,
        some ss, some el, some cl, some ext =>
      if !(mute == 0.0 || mute == 1.0) then "bad-op" else
      let o : Oracles Float := ⟨tableV [ss], tableV [el], tableV [cl], tableG ext⟩
      let blk : Block Float := ⟨kind == "C", (a, b, c), offset, v, ar, pr, v2, bg, diffuse, og, mute == 1.0⟩
      -- the shapes on which numpy would raise also signal a missed lookup (an empty gain vector)
      match applyOffset blk.cartesian blk.coords blk.offset with
      | none => "rejected"
      | some c0 =>
        let pos := o.channelLock (o.edgeLock (o.screenScale (coordTrans blk.cartesian c0)))
        let ps := divergePositions blk.cartesian pos v ar pr v2
        let g := ps.map o.extentPan
        if pos.1.isNaN || !shapesOk n path (divergeGains v) g lfe then "miss" else
        match renderFull n o path lfe blk with
        | some r => showPair r
        | none => "rejected"
    | _, _, _, _, _, _, _, _, _, _, _ => "bad-op"
  | _ => "bad-op"

def convParams : Earverif.Conv.Params Float :=
  Earverif.Conv.Params.ofTable Earverif.Gen.C19.mapping Earverif.Gen.C19.elTop Earverif.Gen.C19.elTopTilde 4096

def parseZone (s : String) : Option (Earverif.Zone.Zone Float) :=
  match words s with
  | "c" :: rest =>
    match rest.mapM parseF with
    | some [a, b, c, d, e, f] => some (.cart a b c d e f)
    | _ => none
  | "p" :: rest =>
    match rest.mapM parseF with
    | some [a, b, c, d] => some (.polar a b c d)
    | _ => none
  | _ => none

def answerConcrete (kind : String) (name : String) (secs : List String) : String :=
  match secs with
  | [coords, off, dv, gains, scr, edge, zones, lock] =>
    let offset : Option (Option (V3 Float)) :=
      if words off == ["none"] then some none
      else match parseFs off with
        | some [a, b, c] => some (some (a, b, c))
        | _ => none
    let dvp : Option (Option Float × Option Float × Option Float × Bool) :=
      match words dv with
      | [v, ar, pr, v2] =>
        match parseOpt v, parseOpt ar, parseOpt pr with
        | some v, some ar, some pr => if v2 == "0" then some (v, ar, pr, false) else if v2 == "1" then some (v, ar, pr, true) else none
        | _, _, _ => none
      | _ => none
    let scrp : Option (Bool × ScreenSpec Float) :=
      match words scr with
      | [sr, pol, a, c1, c2, c3, w] =>
        match [a, c1, c2, c3, w].mapM parseF with
        | some [a, c1, c2, c3, w] =>
          if (sr == "0" || sr == "1") && (pol == "0" || pol == "1") then some (sr == "1", ⟨pol == "1", a, (c1, c2, c3), w⟩) else none
        | _ => none
      | _ => none
    let edgep : Option EdgeSel :=
      match words edge with
      | [h, v] =>
        let hh : Option (Option Bool) := if h == "n" then some none else if h == "l" then some (some true) else if h == "r" then some (some false) else none
        let vv : Option (Option Bool) := if v == "n" then some none else if v == "t" then some (some true) else if v == "b" then some (some false) else none
        match hh, vv with
        | some hh, some vv => some ⟨hh, vv⟩
        | _, _ => none
      | _ => none
    let zonesp : Option (List (Earverif.Zone.Zone Float)) :=
      if words zones == ["none"] then some [] else (zones.splitOn ",").mapM parseZone
    let lockp : Option (Option (Option Float)) :=
      match words lock with
      | ["none"] => some none
      | ["nomax"] => some (some none)
      | [m] => (parseF m).map fun m => some (some m)
      | _ => none
    match parseFs coords, offset, dvp, parseFs gains, scrp, edgep, zonesp, lockp,
        Earverif.Gen.C01.layouts.find? (·.name == name) with
    | some [a, b, c], some offset, some (v, ar, pr, v2), some [bg, og, mute, diffuse], some (screenRef, refScreen),
        some edge, some zones, some lock, some T =>
      if !(mute == 0.0 || mute == 1.0) || !(kind == "C" || kind == "P") then "bad-op" else
      let E : LayoutEnv Float := T.env 4096
      let blk : CBlock Float :=
        ⟨⟨kind == "C", (a, b, c), offset, v, ar, pr, v2, bg, diffuse, og, mute == 1.0⟩, screenRef, refScreen, edge, zones, lock⟩
      let r := if kind == "C" then renderConcreteCart E convParams blk
        else match Earverif.Gen.C05.layouts.find? (·.name == name) with
          | some L => renderConcretePolarPoint E convParams L blk
          | none => none
      match r with
      | some r => showPair r
      | none => "none"
    | _, _, _, _, _, _, _, _, _ => "bad-op"
  | _ => "bad-op"

def answer (line : String) : String :=
  match line.splitOn ";" with
  | [] => "bad-op"
  | hd :: secs =>
    match words hd, secs with
    | ["render", kind], _ => answerRender kind secs
    | ["full", kind], _ => answerFull kind secs
    | ["concrete", kind, name], _ => answerConcrete kind name secs
    | ["extmod", e, d], [] =>
      match parseF e, parseF d with
      | some e, some d => s!"ok {showF (extentMod e d)}"
      | _, _ => "bad-op"
    | ["phandle", x, y, z, w, h, d], pvs =>
      match [x, y, z, w, h, d].mapM parseF, pvs.mapM parseFs with
      | some [x, y, z, w, h, d], some pvs =>
        let ex := polarExtents (norm3 (x, y, z)) w h d
        if ex.length != pvs.length then "bad-shape" else
        s!"ok {showFs (ex.flatMap fun e => [e.1, e.2])} | {showFs (polarCombine pvs)}"
      | _, _ => "bad-op"
    | ["phandlefull", n, x, y, z, w, h, d], [p, tab] =>
      let parseEntry (e : String) : Option (Float × Float × List Float) :=
        match parseFs e with
        | some (a :: b :: g) => some (a, b, g)
        | _ => none
      let tabp : Option (List (Float × Float × List Float)) :=
        if words tab == ["none"] then some [] else (tab.splitOn ",").mapM parseEntry
      match n.toNat?, [x, y, z, w, h, d].mapM parseF, parseFs p, tabp with
      | some n, some [x, y, z, w, h, d], some p, some tab =>
        -- the spreading panner as an oracle: the recorded answer for (within 1e-9 of) the clamped width and height
        let s : Float → Float → List Float := fun wc hc =>
          match tab.find? (fun e => nearF e.1 wc && nearF e.2.1 hc) with
          | some e => e.2.2
          | none => []
        s!"ok {showFs (polarHandle n p s (x, y, z) w h d)}"
      | _, _, _, _ => "bad-op"
    | ["divpos", c, x, y, z, v, ar, pr, v2], [] =>
      match [x, y, z].mapM parseF, parseOpt v, parseOpt ar, parseOpt pr with
      | some [x, y, z], some v, some ar, some pr =>
        if !(c == "0" || c == "1") || !(v2 == "0" || v2 == "1") then "bad-op" else
        "ok " ++ String.intercalate " , " ((divergePositions (c == "1") (x, y, z) v ar pr (v2 == "1")).map showV3)
      | _, _, _, _ => "bad-op"
    | ["div", "none"], [] => s!"ok {showFs (divergeGains (none : Option Float))}"
    | ["div", v], [] =>
      match parseF v with
      | some v => s!"ok {showFs (divergeGains (some v))}"
      | none => "bad-op"
    | ["split", x], [g] =>
      match parseF x, parseFs g with
      | some x, some g => showPair (directDiffuseSplit g x)
      | _, _ => "bad-op"
    | ["ogain", m, og], [] =>
      match m, parseF og with
      | "0", some og => s!"ok {showF (getObjectGain false og)}"
      | "1", some og => s!"ok {showF (getObjectGain true og)}"
      | _, _ => "bad-op"
    | ["downmix"], [ex, groups] =>
      match parseMask ex, (groups.splitOn ",").mapM (fun c => (c.splitOn "/").mapM parseNats) with
      | some ex, some groups =>
        match (downmixForExcluded groups ex : Option (List (List Float))) with
        | some D => "ok " ++ String.intercalate " , " (D.map showFs)
        | none => "assert"
      | _, _ => "bad-op"
    | ["depth"], [p1, p2] =>
      match parseFs p1, parseFs p2 with
      | some p1, some p2 => if p1.length != p2.length then "bad-shape" else s!"ok {showFs (depthCombine p1 p2)}"
      | _, _ => "bad-op"
    | ["pvspread", n, a], [p, s] =>
      match n.toNat?, parseF a, parseFs p, parseFs s with
      | some n, some a, some p, some s =>
        if p.length != n || s.length != n then "bad-shape" else s!"ok {showFs (calcPvSpread n a p s)}"
      | _, _, _, _ => "bad-op"
    | ["normalise"], [v] =>
      match parseFs v with
      | some v => s!"ok {showFs (normalise v)}"
      | none => "bad-op"
    | ["safenorm"], [v] =>
      match parseFs v with
      | some v => s!"ok {showFs (safeNorm v)}"
      | none => "bad-op"
    | ["alloext", p, mu, se], [chs] =>
      let parseCh (s : String) : Option (ExtCh Float) :=
        match parseFs s with
        | some [a, b, c, d, e, f, g, h, i, j] => some ⟨a, b, c, d, e, f, g, h, i, j⟩
        | _ => none
      match parseF p, parseF mu, parseF se, (chs.splitOn ",").mapM parseCh with
      | some p, some mu, some se, some chs => s!"ok {showFs (alloExtentSkeleton p mu se chs)}"
      | _, _, _, _ => "bad-op"
    | ["allo", n, x, y, z], [tree] =>
      match n.toNat?, parseF x, parseF y, parseF z, parseTree tree with
      | some n, some x, some y, some z, some st =>
        match alloHandle n st x y z with
        | some r => s!"ok {showFs r}"
        | none => "assert"
      | _, _, _, _, _ => "bad-op"
    | _, _ => "bad-op"

def main : IO Unit := lineLoop answer
