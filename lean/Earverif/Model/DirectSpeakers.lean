/- Model of `ear.core.direct_speakers.panner.DirectSpeakersPanner` (default options), core Lean only.

   Transliterates what the Python does:
     * `SPEAKER_URN_REGEX` / `nominal_speaker_label`      → `urnGroup`, `nominalSpeakerLabel`
     * `renderer_common.is_lfe`, `is_lfe_channel`          → `isLfeFreq`, `isLfeChannel`
     * `MappingRule.apply`, the `for rule in rules` loop   → `MappingRule.apply`, `firstRule`, `assignGains`
     * label match with equal LFE-ness                     → `labelMatch`
     * decision structure of `_handle_without_gain`        → `handleNoGain`
     * `handle` (× block gain × object gain)               → `handle`
   The geometric parts are *inputs* (`Geo`): the result of `channels_within_bounds` (after screen edge
   lock), the result of `closest_channel_index` and the result of the point-source panner
   (`psp.handle` / `allo_psp.handle`, a vector over the non-LFE channels).  Gains are exact `Rat`s. -/
namespace Earverif.DS

/-! ### speaker labels -/

/-- `s` with prefix `p` removed, `none` if `s` does not start with `p`. -/
def stripPrefix : List Char → List Char → Option (List Char)
  | [], s => some s
  | _ :: _, [] => none
  | p :: ps, c :: cs => if p = c then stripPrefix ps cs else none

/-- Greedy `[0-9]*` (ASCII digits only, as `[0-9]` in a Python 3 `str` pattern). -/
def dropDigits : List Char → List Char
  | [] => []
  | c :: cs => if c.isDigit then dropDigits cs else c :: cs

/-- `(.*)$` matched against the whole remainder (no MULTILINE/DOTALL): `.` does not match `'\n'`, `$`
    matches at the end or just before a final `'\n'`.  Returns group 1. -/
def matchRest (s : List Char) : Option (List Char) :=
  if !s.contains '\n' then some s
  else if s.getLast? = some '\n' ∧ !(s.dropLast.contains '\n') then some s.dropLast
  else none

/-- `SPEAKER_URN_REGEX.match(label)` → `match.group(1)`;
    regex `^urn:itu:bs:2051:[0-9]+:speaker:(.*)$`. -/
def urnGroup (label : String) : Option String :=
  match stripPrefix "urn:itu:bs:2051:".toList label.toList with
  | none => none
  | some r =>
    match r with
    | [] => none
    | c :: _ =>
      if c.isDigit then
        match stripPrefix ":speaker:".toList (dropDigits r) with
        | none => none
        | some rest => (matchRest rest).map String.ofList
      else none

/-- `self.substitutions` with the default `additional_substitutions = {}`. -/
def substitute (l : String) : String :=
  if l = "LFE" then "LFE1" else if l = "LFEL" then "LFE1" else if l = "LFER" then "LFE2" else l

/-- `DirectSpeakersPanner.nominal_speaker_label`. -/
def nominalSpeakerLabel (label : String) : String :=
  substitute ((urnGroup label).getD label)

/-- `nominal_label in ("LFE1", "LFE2")`. -/
def isLfeName (l : String) : Bool := l == "LFE1" || l == "LFE2"

/-- `renderer_common.is_lfe(frequency)`: `lowPass is not None and lowPass <= 200 and highPass is None`. -/
def isLfeFreq (lowPass highPass : Option Rat) : Bool :=
  match lowPass, highPass with
  | some lp, none => decide (lp ≤ 200)
  | _, _ => false

/-! ### tables -/

/-- `panner.MappingRule`. -/
structure MappingRule where
  label : String
  gains : List (String × Rat)
  inputLayouts : Option (List String)
  outputLayouts : Option (List String)
deriving Repr

/-- What the panner reads of `layout`: `layout.name`, `layout.channel_names`, `layout.is_lfe`. -/
structure Layout where
  name : String
  names : List String
  isLfe : List Bool
deriving DecidableEq, Repr

/-- `self.input_layouts is not None and input_layout not in self.input_layouts` is false. -/
def inFilter (f : Option (List String)) (name : String) : Bool :=
  match f with
  | some ls => ls.contains name
  | none => true

/-- `MappingRule.apply(input_layout, speakerLabel, output_layout)`. -/
def MappingRule.apply (r : MappingRule) (inputLayout label : String) (out : Layout) :
    Option (List (String × Rat)) :=
  if !inFilter r.inputLayouts inputLayout then none
  else if !inFilter r.outputLayouts out.name then none
  else if label != r.label then none
  else if r.gains.all (fun p => out.names.contains p.1) then some r.gains
  else none

/-- `for rule in rules: gains = rule.apply(...); if gains is not None: ...` — first applicable rule. -/
def firstRule (il label : String) (out : Layout) : List MappingRule → Option (List (String × Rat))
  | [] => none
  | r :: rs =>
    match r.apply il label out with
    | some g => some g
    | none => firstRule il label out rs

def zeros (n : Nat) : List Rat := List.replicate n 0

/-- `for channel_name, gain in gains: pv[channel_names.index(channel_name)] = gain` (assignment). -/
def assignGains (names : List String) : List (String × Rat) → List Rat → List Rat
  | [], pv => pv
  | (nm, g) :: rest, pv => assignGains names rest (pv.set (names.idxOf nm) g)

/-- `self.pvs[idx]`, a row of `np.eye(n_channels)`. -/
def unitVec (n idx : Nat) : List Rat := (zeros n).set idx 1

/-! ### blocks -/

/-- What the panner reads of a `DirectSpeakersTypeMetadata`. -/
structure Block where
  /-- `block_format.speakerLabel` -/
  labels : List String
  /-- `extra_data.channel_frequency.lowPass / highPass` -/
  lowPass : Option Rat
  highPass : Option Rat
  /-- `audioPackFormats` (`none` = `None`); each pack as `(id, is_common_definition)` -/
  packs : Option (List (String × Bool))
  /-- `extra_data.object_positionOffset is not None` -/
  hasPositionOffset : Bool
  /-- `block_format.gain` -/
  gain : Rat
  /-- `extra_data.object_gain`, `extra_data.object_mute` -/
  objectGain : Rat
  objectMute : Bool
deriving Repr

/-- The captured geometric sub-results. -/
structure Geo where
  /-- `channels_within_bounds(apply_screen_edge_lock(position), tol)` before the LFE-class mask -/
  withinBounds : List Bool
  /-- `closest_channel_index(...)`; only consulted when some candidate is within bounds -/
  closest : Option Nat
  /-- `psp.handle(position)`: gains for the non-LFE channels, in order -/
  psp : List Rat
deriving Repr

/-- Which `return` of `_handle_without_gain` was taken. -/
inductive Exit
  | rule | label | closest | lfeToLfe1 | lfeDiscarded | pointSource
deriving DecidableEq, Repr

/-- Exceptions escaping `handle`. -/
inductive DsError
  /-- `ValueError("positionOffset is not supported with DirectSpeakers")` -/
  | positionOffset
  /-- `audioPackFormats[-1]` on an empty list: `IndexError` -/
  | emptyPackList
  /-- `speakerLabel[0]` on an empty list inside the ITU-pack branch: `IndexError` -/
  | noLabelInItuPack
  /-- `pv[~is_lfe] = psp.handle(...)` with a wrong number of gains: numpy `ValueError`
      (a length-1 result would broadcast; the panners never return that) -/
  | pspShape
deriving DecidableEq, Repr

/-- `renderer_common.get_object_gain`. -/
def objectGainOf (b : Block) : Rat := if b.objectMute then 0 else b.objectGain

/-- `DirectSpeakersPanner.is_lfe_channel` (return value; warnings are not modelled). -/
def isLfeChannel (b : Block) : Bool :=
  isLfeFreq b.lowPass b.highPass || b.labels.any (fun l => isLfeName (nominalSpeakerLabel l))

/-- `itu_packs[pack.id]` for `pack = audioPackFormats[-1]` when it is a common definition listed in
    `itu_packs`; `.error` for an empty pack list. -/
def ituLayoutOf (ituPacks : List (String × String)) (b : Block) : Except DsError (Option String) :=
  match b.packs with
  | none => .ok none
  | some ps =>
    match ps.getLast? with
    | none => .error .emptyPackList
    | some (id, common) => .ok (if common then ituPacks.lookup id else none)

/-- The mapping-rule branch: `.ok none` = fall through to the label match. -/
def ruleStage (R : List MappingRule) (ituPacks : List (String × String)) (L : Layout) (b : Block) :
    Except DsError (Option (List Rat)) :=
  match ituLayoutOf ituPacks b with
  | .error e => .error e
  | .ok none => .ok none
  | .ok (some il) =>
    match b.labels with
    | [] => .error .noLabelInItuPack
    | l :: _ =>
      match firstRule il (nominalSpeakerLabel l) L R with
      | some gs => .ok (some (assignGains L.names gs (zeros L.names.length)))
      | none => .ok none

/-- `for label in speakerLabel: ... if nominal_label in channel_names: idx = ...; if is_lfe_channel == is_lfe[idx]: return pvs[idx]`. -/
def labelMatch (L : Layout) (lfe : Bool) : List String → Option Nat
  | [] => none
  | l :: ls =>
    let nl := nominalSpeakerLabel l
    if L.names.contains nl then
      let idx := L.names.idxOf nl
      if L.isLfe.getD idx false == lfe then some idx else labelMatch L lfe ls
    else labelMatch L lfe ls

/-- `within_bounds &= is_lfe` / `within_bounds &= ~is_lfe`. -/
def candidates (L : Layout) (lfe : Bool) (wb : List Bool) : List Bool :=
  List.zipWith (fun w f => w && (f == lfe)) wb L.isLfe

/-- `pv = zeros(n); pv[~is_lfe] = gains`. -/
def scatter : List Bool → List Rat → Option (List Rat)
  | [], [] => some []
  | [], _ :: _ => none
  | true :: m, ps => (scatter m ps).map (0 :: ·)
  | false :: _, [] => none
  | false :: m, p :: ps => (scatter m ps).map (p :: ·)

/-- The two early exits (mapping rule, label match), which do not look at the position. -/
def earlyExit (R : List MappingRule) (ituPacks : List (String × String)) (L : Layout) (b : Block) :
    Except DsError (Option (Exit × List Rat)) :=
  match ruleStage R ituPacks L b with
  | .error e => .error e
  | .ok (some pv) => .ok (some (.rule, pv))
  | .ok none =>
    match labelMatch L (isLfeChannel b) b.labels with
    | some idx => .ok (some (.label, unitVec L.names.length idx))
    | none => .ok none

/-- The exits after the label match: closest speaker within bounds, LFE fallback, point-source fallback. -/
def lateExit (L : Layout) (lfe : Bool) (g : Geo) : Except DsError (Exit × List Rat) :=
  let n := L.names.length
  let cand := candidates L lfe g.withinBounds
  match (if cand.any id then g.closest else none) with
  | some c => .ok (.closest, unitVec n c)
  | none =>
    if lfe then
      if L.names.contains "LFE1" then .ok (.lfeToLfe1, unitVec n (L.names.idxOf "LFE1"))
      else .ok (.lfeDiscarded, zeros n)
    else
      match scatter L.isLfe g.psp with
      | some pv => .ok (.pointSource, pv)
      | none => .error .pspShape

/-- `DirectSpeakersPanner._handle_without_gain`. -/
def handleNoGain (R : List MappingRule) (ituPacks : List (String × String)) (L : Layout) (b : Block)
    (g : Geo) : Except DsError (Exit × List Rat) :=
  if b.hasPositionOffset then .error .positionOffset
  else
    match earlyExit R ituPacks L b with
    | .error e => .error e
    | .ok (some r) => .ok r
    | .ok none => lateExit L (isLfeChannel b) g

/-- `pvs * block_format.gain * get_object_gain(type_metadata)`. -/
def scale (b : Block) (pv : List Rat) : List Rat := pv.map (fun x => x * b.gain * objectGainOf b)

/-- `DirectSpeakersPanner.handle`. -/
def handle (R : List MappingRule) (ituPacks : List (String × String)) (L : Layout) (b : Block)
    (g : Geo) : Except DsError (Exit × List Rat) :=
  match handleNoGain R ituPacks L b g with
  | .error e => .error e
  | .ok (e, pv) => .ok (e, scale b pv)

/-! ### common definitions (rows of the regenerated table) -/

/-- One DirectSpeakers channel of a common-definition pack: `audioBlockFormats[0].speakerLabel`,
    `audioChannelFormat.frequency`. -/
structure CommonChannel where
  labels : List String
  lowPass : Option Rat
  highPass : Option Rat
deriving Repr

structure CommonPack where
  id : String
  channels : List CommonChannel
deriving Repr

/-- The block the renderer sees for a common-definition channel inside pack `p`. -/
def CommonChannel.block (c : CommonChannel) (packId : String) (gain og : Rat) (mute : Bool) : Block :=
  { labels := c.labels, lowPass := c.lowPass, highPass := c.highPass, packs := some [(packId, true)],
    hasPositionOffset := false, gain := gain, objectGain := og, objectMute := mute }

end Earverif.DS
