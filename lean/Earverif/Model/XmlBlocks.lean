/-
Class-level instantiation of the combinator model: `audioBlockFormat` with `typeDefinition == "Objects"`
(`make_block_format_objects_handler`) with every hand-written handler concrete.  Core Lean only.

The value type `XV` extends the leaves with the structured values of the hand-written handlers; the
property list is built from the rows of the regenerated table (`ofRowG`) with the concrete handler
implementations chosen by the handler names recorded in the rows.
-/
import Earverif.Model.XmlCustom

namespace Earverif.XmlBlocks
open Earverif.XmlCodec Earverif.XmlCustom Earverif.TimeFormat

inductive XV where
  | leaf (l : Leaf)
  | opos (p : ObjectPosition)
  | clock (c : ChannelLock)
  | jump (j : JumpPosition)
  | diverg (d : ObjectDivergence)
  | zones (zs : List Zone)
  /-- a gain read with `gainUnit="dB"` (`10 ** (k/100000/20)`, not on the printable grid) -/
  | gainDB (k : Int)
  deriving DecidableEq, Repr

/-- a leaf codec on the extended values -/
def liftCodec (c : Codec Leaf) : Codec XV where
  loads s := (c.loads s).map .leaf
  dumps | .leaf l => c.dumps l | _ => ""

/-- `xml.xpath(element, "{ns}name")`: the children with that local name, namespace by namespace -/
def xpathChildren (e : Xml) (name : String) : List Xml :=
  (none :: namespaces.map some).flatMap fun ns => e.children.filter fun c => c.tag = ⟨ns, name⟩

def setOne (kw : Kw XV) (a : String) (v : XV) : Kw XV := kw.set a (.one v)

/-- `GenericElement(handle_objects_position, object_position_to_xml)` -/
def positionImpl : CustomImpl XV where
  handle kw e := (parseObjectPosition (xpathChildren e "position")).map fun p => setOne kw "position" (.opos p)
  attrsOut _ := []
  childrenOut o := match o "position" with | .one (.opos p) => objectPositionToXml p | _ => []
  own := ["position"]
  eff o a := if a = "position" then (match o "position" with | .one (.opos p) => some (.one (.opos p)) | _ => none)
    else none

/-- `CustomElement("channelLock", handle_channel_lock, channel_lock_to_xml)` -/
def channelLockImpl : CustomImpl XV where
  handle kw x := (handleChannelLock x).map fun r => match r with
    | some c => setOne kw "channelLock" (.clock c)
    | none => kw
  attrsOut _ := []
  childrenOut o := match o "channelLock" with | .one (.clock c) => channelLockToXml (some c) | _ => []
  own := ["channelLock"]
  eff o a := if a = "channelLock" then (match o "channelLock" with | .one (.clock c) => some (.one (.clock c)) | _ => none)
    else none

/-- `CustomElement("jumpPosition", handle_jump_position, jump_position_to_xml)` -/
def jumpImpl : CustomImpl XV where
  handle kw x := (handleJumpPosition x).map fun j => setOne kw "jumpPosition" (.jump j)
  attrsOut _ := []
  childrenOut o := match o "jumpPosition" with | .one (.jump j) => jumpPositionToXml j | _ => []
  own := ["jumpPosition"]
  eff o a := if a = "jumpPosition" then
      (match o "jumpPosition" with | .one (.jump j) => if j.flag then some (.one (.jump j)) else none | _ => none)
    else none

/-- `CustomElement("objectDivergence", handle_divergence, divergence_to_xml)` -/
def divergenceImpl : CustomImpl XV where
  handle kw x := (handleDivergence x).map fun d => setOne kw "objectDivergence" (.diverg d)
  attrsOut _ := []
  childrenOut o := match o "objectDivergence" with | .one (.diverg d) => divergenceToXml (some d) | _ => []
  own := ["objectDivergence"]
  eff o a := if a = "objectDivergence" then
      (match o "objectDivergence" with | .one (.diverg d) => some (.one (.diverg d)) | _ => none)
    else none

/-- `zone_exclusion_handler.as_handler("zoneExclusion", default=[])` -/
def zoneImpl : CustomImpl XV where
  handle kw x := (parseZoneExclusionElement x).map fun zs => setOne kw "zoneExclusion" (.zones zs)
  attrsOut _ := []
  childrenOut o := match o "zoneExclusion" with | .one (.zones zs) => zoneExclusionToXml zs | _ => []
  own := ["zoneExclusion"]
  eff o a := if a = "zoneExclusion" then
      (match o "zoneExclusion" with | .one (.zones zs) => if zs ≠ [] then some (.one (.zones zs)) else none | _ => none)
    else none

def gainValue : Gain → XV
  | .linear k => .leaf (.num k)
  | .dB k => .gainDB k

/-- `CustomElement("gain", handle_gain_element_v1 | handle_gain_element_v2, gain_to_xml)` -/
def gainImpl (v2 : Bool) : CustomImpl XV where
  handle kw x := (handleGainElement v2 (kw "gain").isSome x).map fun g => setOne kw "gain" (gainValue g)
  attrsOut _ := []
  childrenOut o := match o "gain" with | .one (.leaf (.num k)) => gainToXml k | _ => []
  own := ["gain"]
  eff o a := if a = "gain" then
      (match o "gain" with | .one (.leaf (.num k)) => if k ≠ 100000 then some (.one (.leaf (.num k))) else none | _ => none)
    else none

/-- a handler that is not modelled (never selected for the Objects block) -/
def noImpl : CustomImpl XV := { handle := fun _ _ => none, attrsOut := fun _ => [], childrenOut := fun _ => [] }

/-- the concrete implementation for a row, by the element name / handler names recorded in the table -/
def objectsImpl (r : Row) : CustomImpl XV :=
  if r.handler = "handle_objects_position / object_position_to_xml" then positionImpl
  else if r.handler = "handle_channel_lock / channel_lock_to_xml" then channelLockImpl
  else if r.handler = "handle_jump_position / jump_position_to_xml" then jumpImpl
  else if r.handler = "handle_divergence / divergence_to_xml" then divergenceImpl
  else if r.admName = "zoneExclusion" then zoneImpl
  else if r.handler = "handle_gain_element_v1 / gain_to_xml" then gainImpl false
  else if r.handler = "handle_gain_element_v2 / gain_to_xml" then gainImpl true
  else noImpl

/-- the Objects block-format parser built from table rows -/
def objectsProps (rows : List Row) : List (Property XV) := rows.map (ofRowG liftCodec XV.leaf objectsImpl)

/-! ### the class `AudioBlockFormatObjects` -/

structure ObjectsBlock where
  id : String
  rtime : Option Time
  duration : Option Time
  position : ObjectPosition
  channelLock : Option ChannelLock
  jumpPosition : JumpPosition
  objectDivergence : Option ObjectDivergence
  width : Int
  height : Int
  depth : Int
  diffuse : Int
  cartesian : Bool
  screenRef : Bool
  zoneExclusion : List Zone
  gain : Int
  importance : Int
  deriving DecidableEq, Repr

def optTime : Option Time → XV
  | some t => .leaf (.time t)
  | none => .leaf .none

/-- the object seen through the constructor-argument names -/
def ObjectsBlock.toObj (b : ObjectsBlock) : Obj XV := fun a =>
  if a = "id" then .one (.leaf (.str b.id))
  else if a = "rtime" then .one (optTime b.rtime)
  else if a = "duration" then .one (optTime b.duration)
  else if a = "position" then .one (.opos b.position)
  else if a = "channelLock" then .one (match b.channelLock with | some c => .clock c | none => .leaf .none)
  else if a = "jumpPosition" then .one (.jump b.jumpPosition)
  else if a = "objectDivergence" then .one (match b.objectDivergence with | some d => .diverg d | none => .leaf .none)
  else if a = "width" then .one (.leaf (.num b.width))
  else if a = "height" then .one (.leaf (.num b.height))
  else if a = "depth" then .one (.leaf (.num b.depth))
  else if a = "diffuse" then .one (.leaf (.num b.diffuse))
  else if a = "cartesian" then .one (.leaf (.bool b.cartesian))
  else if a = "screenRef" then .one (.leaf (.bool b.screenRef))
  else if a = "zoneExclusion" then .one (.zones b.zoneExclusion)
  else if a = "gain" then .one (.leaf (.num b.gain))
  else if a = "importance" then .one (.leaf (.int b.importance))
  else .one (.leaf .none)

/-- the constructor defaults of `AudioBlockFormatObjects` (`position` has none: it is always written) -/
def objectsDefaults : Obj XV := fun a =>
  if a = "jumpPosition" then .one (.jump ⟨false, none⟩)
  else if a = "width" ∨ a = "height" ∨ a = "depth" ∨ a = "diffuse" then .one (.leaf (.num 0))
  else if a = "cartesian" ∨ a = "screenRef" then .one (.leaf (.bool false))
  else if a = "zoneExclusion" then .one (.zones [])
  else if a = "gain" then .one (.leaf (.num 100000))
  else if a = "importance" then .one (.leaf (.int 10))
  else .one (.leaf .none)

end Earverif.XmlBlocks
